"""Per-property configuration of the check driver."""

TRUSTED_BASE = [
    "Lean 4.33.0 kernel (lake build; thorough tier re-checks the module with leanchecker)",
    "axioms admitted in property theorems: propext, Classical.choice, Quot.sound only (audited by #print axioms on every run); no sorry/admit/native_decide/bv_decide/user axioms (source grep on every run)",
    "hand-written Lean models; tied to /repo by the correspondence engines below on every run (generators + canonicalisers are trusted)",
    "Lean compiler for the driver executable (runs the same definitions the theorems are about)",
    "Go toolchain and runtime",
]


def _tf_nontrivial(line, verdict):
    # the transformation changed its input or raised an error: a decoder/encoder branch ran
    return line.endswith(" 1 0") or line.endswith(" 0 1")


PROPS = {
    "C14": {
        "engines": [
            {"name": "tf", "quick": 40000, "thorough": 1600000, "shards": 8},
            {"name": "tfchain", "quick": 10000, "thorough": 400000, "shards": 4},
        ],
        "nontrivial": _tf_nontrivial,
        "rule": "tf: (transformation, byte string) pairs from a token vocabulary of escape fragments, truncated escapes, "
                "whitespace/NUL runs, invalid UTF-8 and encoder outputs; tfchain: lists of up to 4 transformations through "
                "executeTransformations / multiMatch. Non-trivial = the step reported a change or an error; distinct = "
                "distinct protocol line.",
        "modelled": "modelled and proved: see lean/Coraza/Model/Transformations.lean; transformations outside the model "
                    "(or inputs outside a model's fragment, e.g. non-ASCII for lowercase) are covered by the monitor "
                    "predicate only (verdict X): flag soundness, purity, no panic on the observed output.",
        "assumptions": [
            "golang.org/x/net/html.UnescapeString, strings.ToLower/ToUpper/Map on non-ASCII input, crypto/md5, crypto/sha1 are not modelled",
        ],
        "open_statements": [],
    },
}
