"""Per-property configuration of the check driver."""

TRUSTED_BASE = [
    "Lean 4.33.0 kernel (lake build; thorough tier re-checks the module with leanchecker)",
    "axioms admitted in property theorems: propext, Classical.choice, Quot.sound only (audited by #print axioms on every run); no sorry/admit/native_decide/bv_decide/user axioms (source grep on every run)",
    "hand-written Lean models; tied to /repo by the correspondence engines below on every run (generators + canonicalisers are trusted)",
    "tools/gen_lean_tables.py: translator of tables in the Go source (unicodeBestFitASCII, variables and their selectability, caseSensitiveVariable, action types, transformation registry, base64DecMap) into Lean definitions, re-run before every build; the models' own tables are proved equal to them",
    "Lean compiler for the driver executable (runs the same definitions the theorems are about)",
    "Go toolchain and runtime",
]


def _tf_nontrivial(line, verdict):
    # the transformation changed its input or raised an error: a decoder/encoder branch ran
    return line.endswith(" 1 0") or line.endswith(" 0 1")


def _op_nontrivial(line, verdict):
    # the operator matched, or its factory rejected the argument
    return line.endswith("=> 1") or line.endswith("=> ERR")


def _body_nontrivial(line, verdict):
    # a write straddled or hit a threshold: something was refused, truncated, or spilled past the memory limit
    return "413" in line or "500" in line or "dataerr=1" in line


def _eng_nontrivial(line, verdict):
    # at least one rule fired (so targets were selected, operators and actions ran)
    return "; m=-" not in line and "CONFIGERR" not in line


_ENG_RULE = ("eng: structured rule sets (1-6 rules + markers, chains up to 4 links, keyed/regex-keyed/whole/count targets with "
             "string and regex exclusions over ARGS*/REQUEST_HEADERS*/TX/MATCHED_* and the request-line variables REQUEST_URI(_RAW)/"
             "REQUEST_FILENAME/REQUEST_BASENAME/QUERY_STRING/REQUEST_LINE/METHOD/PROTOCOL, REQUEST_COOKIES(_NAMES) from Cookie headers and "
             "RESPONSE_HEADERS(_NAMES); the request line fed by ProcessURI (35% of the cases: a path, often a "
             "query whose arguments join ARGS_GET, sometimes a fragment) (27 key expressions incl. upper case, "
             "classes, \\D \\W \\b, (?i), alternation, counted repetition), 15 operators (incl. @rx over the regex model and @ipMatch) with literal and macro arguments, "
             "transformation lists, multiMatch, setvar/ctl actions, all disruptive actions, skip/skipAfter, severity, tags) "
             "rendered to SecLang for the real WAF and sent as JSON to the Lean model; requests with duplicate, mixed-case, "
             "empty and binary names/values; API call sequences in and out of order; three engine modes. Compared: every "
             "call's returned interruption, final interruption, MatchedRules (ids in order, match data as multisets), the TX "
             "collection, HIGHEST_SEVERITY, error-callback ids. Non-trivial = some rule fired; distinct = distinct line. ")
_ENG_MODELLED = ("modelled: RuleGroup.Eval, Rule.doEvaluate, GetField and the Map/Named/Concat collections, matchVariable, "
                 "MatchRule, Interrupt, Allow, the Process* guards, macro compile/expand, setvar, ctl rule/target removal, "
                 "deny/drop/redirect/block/pass/allow/skip/skipAfter; regex keys (selection, exclusion, ctl) through the exact "
                 "regex model of lean/Coraza/Model/Regex.lean (expression text parsed in Lean, matcher proved against its "
                 "declarative semantics); configuration-time SecRuleRemoveById/ByTag, SecRuleUpdateTargetById/ByTag, "
                 "SecRuleUpdateActionById as rewrites of the rule list (buildRules); ProcessURI on URIs with an unreserved path "
                 "(Model/Uri.lean: request-line variables, query arguments in document order). Not modelled: "
                 "XML/JSON selectors, multiphase build, body processors (C03/C10), audit logging (C19); regex keys outside the "
                 "fragment or over non-ASCII names are judged by the monitor only.")
_ENG_ASSUME = ["Go map iteration order is arbitrary: match data are compared as multisets and the generator only emits "
               "order-dependent actions where the Go order is deterministic",
               "lowercase/uppercase modelled on ASCII input only (cases outside are judged by the monitor alone)"]


def _eng(profile, quick, thorough):
    return {"name": "eng", "quick": quick, "thorough": thorough, "shards": 8, "arg": "profile=" + profile}


PROPS = {
    "C01": {
        "engines": [_eng("match", 25000, 800000), _eng("", 10000, 300000), _eng("cache", 8000, 250000)],
        "nontrivial": _eng_nontrivial, "rule": _ENG_RULE + "Profile `match`: more chains, keyed/whole/count targets, exclusions, negation. "
                "Profile `cache`: rules of one phase sharing transformation prefixes (also with a failing step, t:hexDecode on non-hex text), "
                "so the value an operator is given may come from the per-phase cache.",
        "modelled": _ENG_MODELLED, "assumptions": _ENG_ASSUME,
        "open_statements": ["F-C01-2 (open finding): regex keys over case-folded collections are not matched "
                            "case-insensitively; the C01 monitor compares the outcome with the specification reading of "
                            "every regex key and reports the difference as KNOWN-FINDING",
                            "C01_link_values is stated for operators without macros (StaticArg); with macros the sequential "
                            "semantics is what the model and the correspondence define"],
    },
    "C04": {
        "engines": [{"name": "engrep", "quick": 2500, "thorough": 60000, "shards": 8}, _eng("cache", 10000, 300000),
                    {"name": "iso", "quick": 8000, "thorough": 300000, "shards": 8}],
        "nontrivial": _eng_nontrivial,
        "rule": _ENG_RULE + "engrep: each case is executed 13 times on fresh WAFs (Go randomises map iteration per range), "
                "all repetitions must give the same canonical outcome and equal the model's.",
        "modelled": _ENG_MODELLED, "assumptions": _ENG_ASSUME,
        "open_statements": ["C04_state_perm needs commutation hypotheses on the observed projection; they are discharged for "
                            "concrete action classes only by the correspondence (generator emits order-free actions on "
                            "multi-valued targets)"],
    },
    "C05": {
        "engines": [{"name": "iso", "quick": 20000, "thorough": 600000, "shards": 8},
                    {"name": "auditiso", "quick": 2500, "thorough": 60000, "shards": 8},
                    {"name": "reader", "quick": 3000, "thorough": 100000, "shards": 8}],
        "nontrivial": lambda l, v: (" => w=1" in l) or l.startswith("reader ") or ("; m=-" not in l and "CONFIGERR" not in l and " => w=" not in l),
        "rule": _ENG_RULE + "iso: a predecessor transaction (own request with extra argument names, own call sequence, "
                "possibly without ProcessLogging; it may match, be interrupted in any phase, switch the engine, remove rules/"
                "targets by ctl, leave skip/skipAfter/allow pending) runs twice on the WAF and is closed; then the probe runs "
                "on the same WAF (recycled transaction object) and its full outcome must equal the model's outcome on a fresh "
                "transaction. SecArgumentsLimit 8 so that argument accounting carried over would show. auditiso: one WAF with an "
                "audit log (Native format); a predecessor triggers a rule (only it sends the trigger argument) that changes the audit "
                "engine / removes or adds audit-log parts by ctl, runs twice and is closed; then the probe; only the bytes the probe adds "
                "to the log are observed (record written?, section letters) and compared with the model's answer for the probe on a "
                "fresh transaction. reader: a predecessor buffers a body (in memory, or spilled to the temporary file past the in-memory "
                "limit), hands out a body reader (request or response side), reads k bytes, is closed; the probe on the same WAF buffers its own body; "
                "then the stale reader is read to the end: it must yield nothing, and the probe's reader exactly the probe's body (6 rounds per case).",
        "modelled": _ENG_MODELLED + " Recycling: newTransaction's assignments and Close's variables.reset() over the modelled fields "
                    "(lean/Coraza/Model/Recycle.lean). Body buffers/readers and audit overrides are not in this model (C10/C19/C20).",
        "assumptions": _ENG_ASSUME + ["sync.Pool returns either a previously closed object or a new one"],
        "open_statements": ["double Close is out of scope of the statement"],
    },
    "C13": {
        "engines": [{"name": "memo", "quick": 3000, "thorough": 120000, "shards": 8,
                     "alt_build": {"tags": "verif coraza.no_memoize", "outname": "corr.nomemo", "env": "VERIF_NOMEMO_BIN"}},
                    {"name": "tfwrap", "quick": 1, "thorough": 1}, {"name": "twolog", "quick": 60, "thorough": 1500, "shards": 4}],
        "nontrivial": lambda l, v: l.startswith("tfwrap ") or l.startswith("twolog ") or "1" in l.split(" => ")[1].split(" keys=")[0],
        "rule": "memo: 2-4 configurations drawn from 9 roles (@pm phrase list, regex key, data set with two (or blank-vs-newline) contents under "
                "one name, @pmFromFile with such contents under one file name in different root file systems, @validateSchema with two schemas under one file name, @restpath, @rx "
                "with and without prefilter, ctl regex key, SecAuditLogRelevantStatus) over only two strings per case, so the "
                "same text appears in different roles; each configuration is built alone (empty cache), then all together in "
                "order, probed, the others closed, the last probed again. Compared: construction error/panic and probe answers "
                "alone vs in history; every live cache key must parse as <kind>:<input> with one value type per kind; every case is also "
                "executed by the same harness built with -tags coraza.no_memoize (a coprocess) and the behaviour fields must be equal. "
                "tfwrap (one run per check, its own process): a family of 121 transformation lists is registered, other WAFs register 65 355 "
                "further lists, a second family follows 65 536 identifiers above the first, and one WAF runs all 242 rules over one "
                "argument — every rule has to see its own list's value. Non-trivial = some probe was blocked.",
        "modelled": "modelled and proved: the key function (kind tag + ':' + input) and the Do/Release protocol of "
                    "internal/memoize/sync.go at operation granularity; what each call site builds is a parameter. The "
                    "interleaving-level protocol belongs to C06.",
        "assumptions": ["SHA-256 digests of phrase lists and MD5 of schema files are treated as injective",
                        "this engine has no executable model of the operators involved; it is a monitor (alone == history) plus a "
                        "check that observed keys have the shape the theorem assumes"],
        "open_statements": [],
    },
    "C19": {
        "engines": [{"name": "audit", "quick": 9000, "thorough": 300000, "shards": 8},
                    {"name": "auditconc", "quick": 6, "thorough": 60, "shards": 4}],
        "nontrivial": lambda l, v: " => w=1" in l or "records=" in l,
        "rule": _ENG_RULE + "audit: the engine cases extended with SecAuditEngine On/Off/RelevantOnly (also switched by "
                "ctl:auditEngine), a relevant-status pattern (none, ^4, ^5, 403, ^403$, …), response status, SecAuditLogParts and "
                "ctl:auditLogParts modifications, log/nolog/auditlog/noauditlog per rule, interruptions and DetectionOnly; "
                "ProcessLogging invoked once; the real serial writer writes JSON (record count, transaction id, rule id per "
                "message) and, in a second run, Native (section letters). auditconc: 8-31 goroutines x 50-199 transactions "
                "share one serial writer; every line must be one JSON document and none lost. Non-trivial = a record was written.",
        "modelled": _ENG_MODELLED + " Audit: the decision of ProcessLogging, ApplyAuditLogParts/ParseAuditLogParts, which "
                    "rules appear in the record (parts K/H), the error callback. Formatters and encoding/json are not modelled.",
        "assumptions": _ENG_ASSUME + ["encoding/json produces one line per record; log.Logger serialises whole Println calls"],
        "open_statements": ["RelevantOnly without a configured pattern is outside the property's wording; the model mirrors "
                            "the code (C19_decision_no_pattern)"],
    },
    "C03": {
        "engines": [{"name": "decode", "quick": 60000, "thorough": 2000000, "shards": 8}],
        "nontrivial": lambda l, v: "=" in l.split(" => ")[1].split(" ")[0],
        "rule": "decode: lists of 0-4 (name, value) pairs over names with reserved characters, empty names, case variants, "
                "invalid UTF-8, '%'/'+' and values with spaces, NUL, percent text, encoded by an independent encoder (every "
                "non-alphanumeric byte percent-encoded) or left raw/malformed ('==', missing '=', trailing '%4', '#frag', '&&'), "
                "as query string (ProcessURI), urlencoded body (WriteRequestBody+ProcessRequestBody) and Cookie header; header "
                "store/lookup under other spellings. Compared: ARGS_GET/ARGS/ARGS_GET_NAMES/QUERY_STRING/URLENCODED_ERROR, "
                "ARGS_POST/REQUEST_BODY, REQUEST_COOKIES, REQUEST_HEADERS dumps (sorted). JSON documents (trees of depth <= 3, depth limits 1/2/3/1024), "
                "multipart bodies (0-4 parts, files, malformed variants) and XML documents (elements with 0-3 attributes, character data, CDATA, "
                "comments, processing instructions; values with markup characters written as entity / decimal / hexadecimal references, "
                "single- or double-quoted attributes, self-closing tags; 12% malformed: cut short, stray close tag, unknown entity, illegal "
                "character, two roots) rendered from a tree by the harness's own encoder; compared: ARGS_POST, FILES*, XML://@* and XML:/* "
                "in document order, REQBODY_ERROR. Non-trivial = at least one pair exposed.",
        "modelled": "modelled and proved: url.ParseQuery/queryUnescape/hexDigitToByte, the fragment cut of ProcessURI, "
                    "cookies.ParseCookies, header storage (collection model). Parameters: net/url.ParseRequestURI (rejects control "
                    "bytes: modelled as that guard); JSON, multipart and XML bodies: the flattening of the document tree into the "
                    "collections (Model/Json.lean, Multipart.lean, Xml.lean) — mime/multipart, encoding/xml and gjson reading well-formed "
                    "text are the assumed contract.",
        "assumptions": ["url.ParseRequestURI returns RawQuery = everything after the first '?' and fails only on control bytes for these inputs"],
        "open_statements": ["invalid JSON documents (what gjson makes of them), malformed multipart and XML text are outside the models (monitor only)",
                            "arguments beyond SecArgumentsLimit are dropped with only a debug log (F-C03-1, design decision: see known_findings.json)"],
    },
    "C18": {
        "engines": [{"name": "http", "quick": 40000, "thorough": 1500000, "shards": 8}],
        "nontrivial": lambda l, v: "inv=0" in l or "status=40" in l or "status=50" in l,
        "rule": "http: WrapHandler around scripted handlers (optional WriteHeader with 200/201/404/500/204/101/302, Write chunks "
                "sized around the response body limit, Flush, or nothing) behind httptest's recorder; response body access on/"
                "off, Content-Type inside/outside SecResponseBodyMimeType, limit 1-20 with Reject/ProcessPartial; rules that deny "
                "in phase 1 (with and without status), redirect, drop, deny in phase 2, deny in phase 3 on status 404 or a "
                "response header, deny in phase 4 on body content; request bodies of 0-39 bytes against a 16-byte request limit. "
                "Compared: handler invoked, bytes the handler read, client status and body, flushed. Non-trivial = something "
                "was blocked.",
        "modelled": "modelled and proved: http/interceptor.go rwInterceptor (WriteHeader, Write, Flush, "
                    "writeBufferedResponseBodyToDownstream, response processor), obtainStatusCodeFromInterruptionOrDefault, the "
                    "request-body splice of processRequest, over the response side of the transaction (ProcessResponseHeaders, "
                    "WriteResponseBody, ProcessResponseBody) with the rules' decisions as parameters. net/http itself, ReadFrom "
                    "(= io.Copy through Write), Hijack/Push are not modelled.",
        "assumptions": ["the downstream ResponseWriter records WriteHeader/Write calls in order (httptest.ResponseRecorder)"],
        "open_statements": ["pass-through is proved for unbuffered responses (C18_passthrough_unbuffered) and for buffered bodies that stay below the limit (C18_passthrough_buffered); the ProcessPartial release path (a body reaching SecResponseBodyLimit) is tied by correspondence only",
                            "F-C18-1: a request-phase redirect or drop is answered with 200 (open finding)"],
    },
    "C06": {
        "engines": [{"name": "conc", "quick": 60, "thorough": 1500, "shards": 4, "race": True, "search_n": 40},
                    {"name": "tfid", "quick": 6000, "thorough": 200000, "shards": 4, "race": True}],
        "nontrivial": lambda l, v: "mismatch=0" in l or "|||" in l,
        "rule": "conc (binary built with -race): a generated rule set (profiles ctl/cache/acct/api; every other scenario adds a "
                "rule with three static exclusions whose targets are removed at run time by only some requests) with three "
                "request variants (two scenarios in three also carry an @ipMatch rule over four networks and an @pm rule over four phrases, the "
                "variants hitting different, not the first, entries: operators are built once and shared by all transactions); each variant "
                "alone on a fresh WAF gives the expected outcome; then 4-15 goroutines x 20-79 "
                "transactions on ONE shared WAF while two goroutines keep building, using and closing WAFs with the same "
                "patterns (shared memoize cache). Every concurrent outcome must equal the sequential one, the race detector "
                "must stay silent, nothing may panic; the sequential outcome of variant 0 is also compared with the Lean engine "
                "model. tfid: per round two WAFs using the same two fresh transformation chains in opposite order are built "
                "concurrently (racing on the global transformation-id table), then probed; both outcomes must equal the Lean "
                "model's. Non-trivial = scenario completed.",
        "modelled": "proved: non-interference of transactions that write only their own state, for every interleaving; the "
                    "memoize Do/Release protocol at the granularity of its atomic operations for every interleaving. Not "
                    "modelled: the Go memory model, sync.Pool, the audit writers' locks (C19 covers line integrity).",
        "assumptions": ["data races and schedule-dependent behaviour are exhibited only by the runs the Go scheduler produces "
                        "under the race detector; a silent run is evidence, not proof, of the frame condition"],
        "open_statements": ["the frame condition itself (no transaction step writes shared WAF state) is not a theorem about the Go "
                            "code; it is what `conc` checks"],
    },
    "C11": {
        "engines": [{"name": "rxpf", "quick": 3000, "thorough": 120000, "shards": 12, "arg": "corpus/C11/crs_patterns.hex"}],
        "nontrivial": lambda l, v: " pfnil=0 " in l,
        "rule": "rxpf: every @rx pattern of the bundled OWASP CRS (corpus/C11/crs_patterns.hex, 291 patterns; every shard runs "
                "them all with its own inputs) and generated patterns from the regexp/syntax grammar: keyword and delimiter "
                "literals, one-letter literals, non-ASCII literals (é É ſ Kelvin ß ǆ σ ς Σ), U+FFFD written both ways, classes, "
                "alternations with shared prefixes (select|set|sleep…), capturing/non-capturing/named/flag-scoped groups, "
                "? * + {n,m} and lazy forms, ^ $ \\A \\z \\b \\B, (?i) global and scoped, (?-i:), (?s:), (?m:), and the shapes "
                "\\A<gap>…, …<gap>\\z, ^lit$, (?i)^lit$. Per pattern ~15 inputs: six strings sampled from the language of the "
                "simplified tree (fold variants through the SimpleFold orbit, invalid bytes for U+FFFD), each with one "
                "perturbation (byte deleted, case bit flipped, junk/newline prepended or appended, upper/lower-cased, "
                "k→Kelvin and s→long-s, newline embedded, doubled), the empty string, random bytes, random ASCII. The real "
                "operator is built twice (RxPreFilterEnabled on/off) and evaluated capturing and non-capturing: results and "
                "TX.0-9 must be identical; the prefilter's verdict, minimum length and exact-match literal must equal the "
                "Lean model's, computed from the tree the hook renders. Non-trivial = a prefilter was built.",
        "modelled": "minLen, hasFlag, extractLiterals, trieReconstruct, rawExtractSuffixes, rawLiteral, longest, filterShort, "
                    "anyTooShort, literalAfterBeginAnchor/BeforeEndAnchor, buildMultiNeedlePF, buildCombinedPF, newIndexedMatcher "
                    "with its uint8 shift table, matchCS/matchCI, containsFoldASCII, hasPrefix/SuffixFoldASCII, the guards of "
                    "prefilterFunc, extractExactMatch. regexp/syntax (parser, Simplify) and the regexp engine are not modelled: "
                    "the tree is read from the hook, and the regex semantics used by the theorems is an over-approximation "
                    "stated in Spec/Rx.lean.",
        "assumptions": ["the tree rendered by the verif hook is the tree prefilterFunc analyses (same Parse+Simplify call on the same string)",
                        "strings.ToLower is modelled for ASCII, Latin-1, basic Greek and a few specials; other runes under (?i) are outside the model",
                        "C11_equiv assumes that Go's regexp engine matches only what the relation M of Spec/Rx.lean allows (M over-approximates: "
                        "classes and empty-width operators other than \\A/\\z are unconstrained; a FoldCase literal rune is the smallest of its fold orbit)"],
        "open_statements": ["the exact-match fast path is proved equivalent to the regex for case-sensitive and case-insensitive literals over ASCII "
                            "(C11_exact_fastpath, C11_exact_fastpath_ci, with the exact regex semantics of Proofs/Regex.lean); non-ASCII folding "
                            "(Kelvin sign, long s: strings.EqualFold vs (?i)) is compared by the correspondence only"],
    },
    "C16": {
        "engines": [{"name": "parse", "quick": 12000, "thorough": 400000, "shards": 8}],
        "nontrivial": lambda l, v: " cfg " in l and " => ok R{" in l,
        "rule": "parse: structured descriptions of 1-3 rules (15% SecAction, 25% chains of 2-3 links): 1-3 targets over the "
                "variable table (collections with plain keys incl. odd punctuation and non-ASCII bytes, /regex/ and '/regex/' "
                "keys with escaped slashes and '|', XML/JSON xpaths, counts, exclusions of the same collection, lower-case "
                "variable names), an operator with an argument built from delimiter-heavy tokens (quotes, backslashes, "
                "commas, colons, pipes, backticks, tabs, UTF-8, invalid UTF-8), 0-8 actions (id, phase, msg, tag, logdata, "
                "severity, rev, ver, t, status, maturity, skip, skipAfter, flags, a disruptive action). Each description is "
                "rendered (1) canonically, (2) three times with random directive/action letter case, optional value "
                "quoting, blanks after commas, extra blanks, continuation splits at random safe positions, indentation, "
                "comment and blank lines anywhere, CRLF, and rules moved into an Included file, (3) four near-miss texts: "
                "one delimiter (double quote, quote, comma, colon, pipe, slash, backslash, blank, ! & @ newline) deleted, "
                "duplicated, replaced or swapped; (4) the action scanner and the SecRule-argument splitter alone on the same "
                "material and a one-byte mutation. The rendering must compile to exactly the description (exp= field, all but "
                "action names/log flags); every text must give the model's result; an accepted text must be read by the "
                "reference grammar of target lists the same way. 12% of descriptions are deliberately not well-formed "
                "(`wild`). Also every registered variable and action name against the model's tables. Non-trivial = the "
                "configuration compiled to at least one rule.",
        "modelled": "parseString (trimming incl. Unicode spaces, comments, backticks, continuation, end of input), "
                    "evaluateLine (directive cut, case, quote removal, Include with recursion bound), ParseRule, "
                    "parseActionOperator, cutQuotedString, MaybeRemoveQuotes, UnescapeQuotedString, HasRegex, "
                    "ParseVariables, AddVariable/AddVariableNegation, ParseOperator, parseActions, appendRuleAction, "
                    "ParseDefaultActions, mergeActions, applyParsedActions, chain linking, RuleGroup.Add id checks, the Init "
                    "functions of 27 actions. Outside (driver answers X): operators whose factory validates its argument, "
                    "actions setvar/ctl/exec/expirevar/initcol/setenv, macros in msg/logdata/operator arguments, regex keys "
                    "outside a syntactically safe class, non-ASCII where Go lower-cases by rune, directives other than "
                    "SecRule/SecAction/SecMarker/SecDefaultAction/SecRuleEngine/Include.",
        "assumptions": ["strings.ToLower/ToUpper are modelled on ASCII only (a Kelvin sign in a directive or variable name is outside the model)",
                        "Include reads from an in-memory fs.FS with flat names; globbing and directory handling are not modelled"],
        "open_statements": ["C16_targets_equiv (the scanner equals the reference grammar on every byte string) is checked by the "
                            "correspondence on every generated text and proved only on examples; the round trip of parseActions "
                            "over index arithmetic is checked by correspondence, its normalisation lemmas are proved",
                            "unclosed quotes in an action list are accepted with a warning by design of the code (TODO(4.x) in "
                            "rule_parser.go); the generator's near-miss stream exercises it and the model mirrors it"],
    },
    "C20": {
        "engines": [{"name": "fault", "script": "tools/faults.py", "quick": 1, "thorough": 1},
                    {"name": "decode", "quick": 9000, "thorough": 400000, "shards": 8, "arg": "bodyerr"},
                    {"name": "rderr", "quick": 3000, "thorough": 100000, "shards": 4}],
        "nontrivial": lambda l, v: " none 0 " not in l and " err=0" not in l,
        "rule": "fault (strace fault injection, one failure per run, placement verified in the strace log): scripted "
                "transactions — `spill` (request body 3 writes crossing SecRequestBodyInMemoryLimit so the buffer spills to a "
                "temp file; RAW processor; RequestBodyReader read back; audit part C), `mem` (all in memory), `upload` (multipart "
                "with 0-3 file parts, SecUploadKeepFiles Off/On/RelevantOnly) — each optionally stopped after step k (connector "
                "gives up early) and always Closed. Clean run first to enumerate the openat/write/pread64/close/unlinkat calls "
                "the transaction's OS thread makes between two sentinels; then one run per (call, errno) with exactly that call "
                "failing. Observed: panic, which API calls returned an error, REQBODY_ERROR, MULTIPART_STRICT_ERROR, whether "
                "REQUEST_BODY was populated, error-log lines, files left in the private temp/upload dirs after Close. "
                "Non-trivial = a fault was actually injected. decode (profile `bodyerr`): JSON bodies nested around "
                "SecRequestBodyJsonDepthLimit 1/2/3/1024 (trees up to depth 5, too-deep members followed by scalar and container "
                "siblings) and well-formed/malformed multipart bodies, compared with the JSON/multipart models including "
                "REQBODY_ERROR — a processing failure that does not surface is a disagreement. Non-trivial there = the error was raised.",
        "modelled": "BodyBuffer.Write/Reader/Reset, the multipart upload loop's file handling, ProcessRequestBody's error path, "
                    "AuditLog()'s body read, Transaction.Close, over an abstract file system with a fault oracle. Not modelled: "
                    "mime/multipart's parsing when a fault corrupts the buffered body text itself (driver answers X: monitor "
                    "only), audit writers' own file I/O (concurrent/https writers), SecDataDir.",
        "assumptions": ["strace injects at the system-call boundary; failures inside the Go runtime (mmap, futex) are not explored",
                        "one injected failure per run in the sweep; the theorems cover any number"],
        "open_statements": ["C20_surface for a whole run is stated per component (Write, upload loop, ProcessRequestBody, Reset, "
                            "Close); the EOF probe of mime/multipart after the closing boundary is ignored by the Go standard "
                            "library and is modelled as such"],
    },
    "C07": {
        "engines": [{"name": "nopanic", "quick": 6000, "thorough": 400000, "shards": 12}],
        "nontrivial": lambda l, v: "cfg=ok" in l,
        "rule": "nopanic: configurations of 1-5 lines built from every directive, action, operator, transformation and "
                "variable name registered in the running binary (lists read through the verif hook, so new names are picked up), "
                "88% from mostly-valid templates (all ctl options incl. negative limits, setvar forms, macros over every kind of "
                "variable incl. JSON/XML/ENV/RULE, regex keys, counts, negations, SecRuleRemoveBy*/UpdateTargetBy*/"
                "UpdateActionById, SecDefaultAction, markers), the rest wild, 25% with a byte-level mutation (quote, backslash, "
                "newline, backtick, continuation, NUL, duplicated/deleted byte); then up to 9 API calls in any order with "
                "urlencoded/JSON/XML/multipart/garbage bodies, response headers/bodies, ErrorLog()/AuditLog() rendering. "
                "NewWAF and the calls run under recover() with a 5 s watchdog. Non-trivial = the configuration compiled (so "
                "traffic ran through it); corpus/C07 replays the shapes of past panics first.",
        "modelled": "proved on models: the body-write slice bound for every (also negative) limit, macro expansion over "
                    "variables without collection, SecRuleRemoveByMsg over rules without msg, macro compilation totality; the "
                    "other modelled units are total Lean functions. Units without a model (XML/multipart/JSON parsing, audit "
                    "formatters, libinjection, third-party operators) are covered by this harness only.",
        "assumptions": ["a hang is detected by a 5 s wall-clock watchdog (the goroutine cannot be killed)"],
        "open_statements": ["C07_engine (no panic for every accepted configuration and call sequence) is stated per unit, not as one theorem over the whole library"],
    },
    "C09": {
        "engines": [_eng("acct", 25000, 800000), _eng("", 10000, 300000), {"name": "capseq", "quick": 1500, "thorough": 40000, "shards": 4}],
        "nontrivial": _eng_nontrivial, "rule": _ENG_RULE + "Profile `acct`: more setvar (+N, -N, assign, delete, macro keys/values), chains, multiMatch.",
        "modelled": _ENG_MODELLED, "assumptions": _ENG_ASSUME,
        "open_statements": ["C09_signed_sum covers literal operands of either sign through negative totals inside the int64 range (Itoa/Atoi round trip on "
                            "the whole range, Proofs/Digits.lean); macro operands are covered by the per-match fold (C09_once_per_match) and compared by "
                            "the correspondence; beyond the range the code wraps around (modelled as wrap64, compared by the correspondence)"],
    },
    "C12": {
        "engines": [_eng("cache", 25000, 800000), {"name": "engrep", "quick": 1500, "thorough": 40000, "shards": 8}],
        "nontrivial": _eng_nontrivial, "rule": _ENG_RULE + "Profile `cache`: rules sharing full and partial transformation lists (shared prefixes of length 1-8, sibling lists that "
                "differ in the step after the prefix, lists that extend a sibling) over the same and different targets, repeated names/values, MATCHED_VAR targets.",
        "modelled": _ENG_MODELLED + " The cache itself is modelled in lean/Coraza/Model/TfCache.lean; the engine model is cache-free, "
                    "C12_cache_transparent proves them equal, the correspondence compares the real (cached) engine with the cache-free model.",
        "assumptions": _ENG_ASSUME + ["transformations are pure (C14)",
                                        "the interning table is modelled with chains as lists of names (Model/TfIntern.lean; the Go table joins the names with '+'); "
                                        "C12_interned proves the hypothesis `Interned` of the cache theorem for that model; the table itself is exercised by `tfid`, `tfwrap` and the cache profile"],
        "open_statements": [],
    },
    "C17": {
        "engines": [_eng("ctl", 20000, 600000), _eng("dirs", 15000, 500000), _eng("", 6000, 200000)],
        "nontrivial": _eng_nontrivial,
        "rule": _ENG_RULE + "Profile `ctl`: ctl:ruleRemoveById (ids, ranges), ByTag, ByMsg, ruleRemoveTargetById / ByTag / ByMsg (string and regex keys, "
                "whole variable) placed at every position, and bursts of two or three run-time exclusions aimed at one existing rule "
                "and the variables it reads. Profile `dirs`: 1-3 configuration-time directives (SecRuleRemoveById/ByTag/ByMsg, "
                "SecRuleUpdateTargetById/ByTag, SecRuleUpdateActionById) with id lists of 1-3 elements (existing ids, ids without a "
                "rule, ranges, lo=hi, inverted ranges), positive and negative targets with string and regex keys, action lists "
                "(disruptive replacement, status, severity, tag, setvar, log flags, skip, skipAfter), placed after all rules or in "
                "between (a directive acts on the rules before it); NewWAF failing is an observation (CONFIGERR).",
        "modelled": _ENG_MODELLED, "assumptions": _ENG_ASSUME,
        "open_statements": [
                            "the condition under which an id list is a configuration error (nothing updated and some listed id "
                            "without a rule) is part of the model and compared by the correspondence; the theorems state the "
                            "resulting rule list (C17_update_rules) for well-formed lists"],
    },
    "C02": {
        "engines": [_eng("api", 25000, 800000), _eng("", 10000, 300000)],
        "nontrivial": _eng_nontrivial, "rule": _ENG_RULE + "Profile `api`: out-of-order/repeated calls, many disruptive rules.",
        "modelled": _ENG_MODELLED, "assumptions": _ENG_ASSUME,
        "open_statements": ["a logging-phase rule with a disruptive action can still replace Interruption() after the "
                            "logging call (C02_final is stated for calls other than ProcessLogging; C02_logging_only_phase5 "
                            "covers what ProcessLogging may evaluate)"],
    },
    "C08": {
        "engines": [_eng("flow", 25000, 800000), _eng("", 10000, 300000)],
        "nontrivial": _eng_nontrivial, "rule": _ENG_RULE + "Profile `flow`: skip 1-3, skipAfter with present/absent/earlier/duplicated markers, allow scopes, chains, "
                "configuration-time removals/updates of rules placed before and after a marker (a skipAfter scenario of five rules "
                "in one phase in 30% of the cases).",
        "modelled": _ENG_MODELLED, "assumptions": _ENG_ASSUME, "open_statements": [],
    },
    "C10": {
        "engines": [
            {"name": "body", "quick": 40000, "thorough": 1200000, "shards": 8},
        ],
        "nontrivial": _body_nontrivial,
        "rule": "body: (side, limit, in-memory limit, Reject|ProcessPartial, up to 5 writes through WriteXBody / ReadXBodyFrom "
                "with and without a known length) with chunk sizes aimed at limit-1/limit/limit+1 and memLimit/memLimit+1 of "
                "the remaining room, empty chunks, then ProcessXBody, full read-back through the body reader, REQUEST_BODY/"
                "RESPONSE_BODY via a rule, INBOUND/OUTBOUND_DATA_ERROR via a phase-5 rule. Non-trivial = some write was "
                "refused or truncated (limit reached); distinct = distinct protocol line.",
        "modelled": "modelled and proved: BodyBuffer.Write/Reader/Read (memory and spill file), WriteRequestBody, "
                    "ReadRequestBodyFrom, WriteResponseBody, ReadResponseBodyFrom, the hand-off to ProcessRequestBody/"
                    "ProcessResponseBody and the RAW body processor's REQUEST_BODY. os file operations are modelled as "
                    "infallible appends (their failure is C20's subject); int64 overflow guards unreachable below 1 GiB.",
        "assumptions": [
            "io.CopyN delivers the reader's bytes in order in one or more BodyBuffer.Write calls (chunks < 32 KiB here)",
            "limits are within Validate's range (0 < memLimit <= limit <= 1 GiB)",
        ],
        "open_statements": [],
    },
    "C15": {
        "engines": [
            {"name": "op", "quick": 120000, "thorough": 4000000, "shards": 8},
            {"name": "rxm", "quick": 6000, "thorough": 250000, "shards": 8},
        ],
        "nontrivial": lambda l, v: _op_nontrivial(l, v) or (l.startswith("rxm ") and "1" in l.split(" => ")[1].split(" caps=")[0]),
        "rule": "op: (operator, argument, value) triples — phrases at the very start/end of the value and one byte short, "
                "numeric strings at the int64 boundaries and malformed, byte ranges touching 0/255 and malformed, '%' followed "
                "by every byte value in either nibble position, truncated escapes, invalid UTF-8; @ipMatch: lists of 1-3 IPv4/IPv6 "
                "networks (bare, /32, /128, random prefix lengths, malformed lengths, IPv4-mapped spellings, odd separators) and "
                "values near a network in every spelling Go's net package reads (dotted quad, ::ffff:a.b.c.d, ::ffff:hhhh:hhhh, "
                "0:0:0:0:0:ffff:…, full and compressed IPv6, trailing dotted quad, leading zeros, zones, junk). Non-trivial = the operator "
                "matched or its factory rejected the argument; distinct = distinct protocol line. rxm: patterns from the regexp/syntax "
                "grammar of the C11 generator, 85% restricted to what the Lean regex parser reads (literals, classes, Perl classes, "
                "groups, flag groups (?i) (?s) (?m) (?-i:), alternation, ? * + {n,m} and lazy forms, ^ $ \\A \\z \\b \\B), plus shapes with groups "
                "that may not take part and with more than nine groups; ~25 inputs per pattern sampled from its language and perturbed. "
                "Observed: regexp.MatchString of the pattern as written (regex keys), the @rx operator (\"(?sm)\" prefix), and a capturing "
                "@rx over all inputs in order on one capture store, compared after every evaluation with Go's own submatches 0..9.",
        "modelled": "modelled and proved: streq contains beginsWith endsWith within eq ge gt le lt validateUrlEncoding "
                    "validateUtf8Encoding validateByteRange pm(ASCII phrases) unconditionalMatch noMatch on literal arguments; "
                    "ipMatch as a port of netip.ParseAddr / net.ParseCIDR / IPNet.Contains (To4 canonicalisation). "
                    "@rx / regex keys: the pattern text is parsed in Lean (lean/Coraza/Model/Regex.lean, fragment of RE2) and matched by a "
                    "derivative matcher proved exact against the declarative semantics (C15_rx_exact); which groups capture what "
                    "(leftmost-first submatches) is not modelled: TX.0-9 are compared with Go's regexp as oracle by the harness. "
                    "Parameters (assumed contracts): Aho-Corasick matcher, strings.Contains/HasPrefix/HasSuffix, strconv.Atoi.",
        "assumptions": [
            "Aho-Corasick library: reports a match iff some non-empty pattern is an ASCII-case-insensitive infix",
            "@rx: Go's regexp (RE2) is the oracle for submatch positions and for patterns outside the modelled fragment (non-ASCII, \\p, POSIX classes, named groups, binary matcher); its prefilter is C11",
            "macro expansion of operator arguments is modelled in the engine model (C09), not here",
        ],
        "open_statements": [],
    },
    "C14": {
        "engines": [
            {"name": "tf", "quick": 40000, "thorough": 1600000, "shards": 8},
            {"name": "tfchain", "quick": 10000, "thorough": 400000, "shards": 4},
        ],
        "nontrivial": _tf_nontrivial,
        "rule": "tf: (transformation, byte string) pairs from a token vocabulary of escape fragments, truncated escapes, "
                "whitespace/NUL runs, invalid UTF-8 and encoder outputs; tfchain: lists of up to 4 transformations through "
                "executeTransformations / multiMatch. Non-trivial = the step reported a change or an error; distinct = "
                "distinct protocol line.",
        "modelled": "modelled and proved: see lean/Coraza/Model/Transformations.lean, Transformations2.lean, Transformations3.lean, UrlDecodeUni.lean; transformations outside the model "
                    "(or inputs outside a model's fragment, e.g. non-ASCII for lowercase) are covered by the monitor "
                    "predicate only (verdict X): flag soundness, purity, no panic on the observed output.",
        "assumptions": [
            "golang.org/x/net/html.UnescapeString, strings.ToLower/ToUpper/Map on non-ASCII input, crypto/md5, crypto/sha1 are not modelled",
        ],
        "open_statements": [],
    },
}
