#!/bin/sh
# usage: tools/seedtest.sh <patch.diff> <Cxx> [tier]   — apply a seeded change to /repo, run the check, undo
set -u
P="$1"; ID="$2"; TIER="${3:-quick}"
cd /verif
if ! git -C /repo diff --quiet; then echo "/repo dirty"; exit 2; fi
git -C /repo apply "$P" || { echo "patch does not apply"; exit 2; }
./check "$ID" "$TIER" > .work/seedtest.$ID.out 2>&1; rc=$?
git -C /repo checkout -- . 
tail -5 .work/seedtest.$ID.out
echo "rc=$rc"
exit $rc
