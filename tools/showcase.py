#!/usr/bin/env python3
"""showcase.py <cases> <verd> [class-prefix] [max]  — print disagreeing eng-family cases readably"""
import sys, json, binascii
def uf(s): return "" if s=="-" else binascii.unhexlify(s).decode('latin1')
def tgt(t):
    s=("&" if t["c"] else "")+t["v"]+((":"+uf(t["k"])) if t["k"]!="-" else "")
    for x in t["x"]: s+="|!"+t["v"]+((":"+uf(x)) if x!="-" else "")
    return s
def nact(a):
    n=a["n"]
    if n=="setvar": return "setvar:"+("!" if a.get("rm") else "")+"tx."+uf(a["k"])+("" if a.get("rm") else "="+uf(a.get("v","-")))
    if n=="ctlRemoveTargetById": return f"ctl:ruleRemoveTargetById={a['lo']}-{a['hi']};{a['v']}:{uf(a['k'])}"
    return n+":"+",".join(f"{k}={v}" for k,v in a.items() if k!="n")
def show(j):
    out=[]
    for it in j.get("items",[]) or []:
        out.append("  ITEM "+json.dumps(it)[:300])
    for r in j["rules"]:
        if r.get("dir"):
            out.append("  DIR "+r["dir"]+" sels="+str(r.get("sels"))+" tag="+uf(r.get("tag","-"))+" tg="+"|".join((("(neg-only)" if t.get("o") else "")+tgt(t)) for t in r.get("tg",[]) or [])+" upd="+json.dumps(r.get("upd"))); continue
        if r["id"]==0: out.append("  SecMarker "+uf(r["mk"])); continue
        for i,l in enumerate(r["links"]):
            op=l["op"]; o="SecAction" if op is None else ("!" if op["neg"] else "")+"@"+op["n"]+" "+uf(op["a"])
            hd=f"id:{r['id']},msg:{uf(r.get('msg','-'))},ph:{r['ph']},{r['disr'] or 'pass'},st:{r['st']},skip:{r['skip']},sa:{uf(r['sa'])},sev:{r['sev']},tags:{[uf(t) for t in r['tags']]},log:{r['log']},audit:{r['audit']}" if i==0 else "   chain"
            out.append(f"  {hd} | {'|'.join(tgt(t) for t in l['tg'])} \"{o}\" t:{l['tfs']} mm:{l['mm']} {[nact(a) for a in l['na']]}")
    out.append(f"  mode={j['mode']} get={[(uf(a),uf(b)) for a,b in j['get']]} post={[(uf(a),uf(b)) for a,b in j['post']]} hdr={[(uf(a),uf(b)) for a,b in j['hdr']]} calls={j['calls']}")
    return "\n".join(out)
cases=open(sys.argv[1]).read().split("\n"); verd=open(sys.argv[2]).read().split("\n")
pref=sys.argv[3] if len(sys.argv)>3 else "D"; mx=int(sys.argv[4]) if len(sys.argv)>4 else 3
n=0
for c,v in zip(cases,verd):
    if not v.startswith(pref): continue
    lhs,_,obs=c.partition(" => ")
    toks=lhs.split(" ")
    print("VERDICT",v[:4]); print(" model:",v[4:]); print(" impl :",obs)
    for t in toks[1:]:
        try: print(show(json.loads(t)))
        except Exception as e: print("  ?",t[:100])
    n+=1
    if n>=mx: break
