#!/bin/sh
# full build + manifest validation before committing
cd /verif && python3 tools/mkmanifest.py >/dev/null && python3 tools/mkdesign.py >/dev/null
./check --setup 2>&1 | grep -E "error|✖|setup done" | head -5
python3-vt - <<'PY'
import json,jsonschema,glob
jsonschema.validate(json.load(open('/verif/MANIFEST.json')),json.load(open('/root/.vp/MANIFEST.schema.json')))
for f in glob.glob('/verif/evidence/*.json'):
    jsonschema.validate(json.load(open(f)),json.load(open('/root/.vp/EVIDENCE.schema.json')))
print("manifest+evidence valid")
PY
