#!/usr/bin/env python3
"""Regenerates MANIFEST.json from tools/claims.py (one entry per claimed property)."""
import json, os, sys
ROOT = os.path.dirname(os.path.dirname(os.path.abspath(__file__)))
sys.path.insert(0, os.path.join(ROOT, "tools"))
import claims
b = json.load(open('/root/.vp/BASELINE.json'))
props = [json.loads(l) for l in open(os.path.join(ROOT, 'properties.jsonl'))]
checks = []
for pid, c in sorted(claims.CLAIMED.items()):
    checks.append({"property_id": pid, "quick_cmd": f"./check {pid} quick", "thorough_cmd": f"./check {pid} thorough",
                   "evidence_file": f"evidence/{pid}.json", "replay_cmd_template": f"./check {pid} --replay {{path}}",
                   "engine": c["engine"],
                   "level_claimed": {"category": "proof", "text": c["text"], "design_ref": c["ref"]},
                   "level_note": c["note"], "technique": c.get("technique", claims.TECHNIQUE)})
m = {"version": 1, "setup_cmd": "./check --setup",
     "hooks": {"guard": "verif",
               "enable": "go build -tags verif (harness module /verif/go replaces github.com/corazawaf/coraza/v3 => /repo)",
               "baseline_off_cmd": b["cmd"], "source_commits": claims.HOOK_COMMITS, "add_only": True},
     "engines": claims.ENGINES, "checks": checks, "notes": claims.NOTES,
     "not_applicable": [{"property_id": p["id"], "reason": claims.NOT_YET.get(p["id"], claims.DEFAULT_NA)}
                        for p in props if p["id"] not in claims.CLAIMED]}
json.dump(m, open(os.path.join(ROOT, 'MANIFEST.json'), 'w'), indent=1)
print("claimed:", sorted(claims.CLAIMED))
