#!/usr/bin/env python3
"""
Fault sweep for C20: runs `corr faultrun` (one scripted transaction per process) under
strace with one injected syscall failure per run, for every syscall of the transaction's
window (between the two sentinel writes), and writes protocol lines

    fault <kind> <uploads> <keep> <stop> <syscall> <idx-in-window> <errno> => <report tokens>

usage: faults.py <corr binary> <workdir> <tier> <seed> <out cases> <out stats>
       faults.py <corr binary> <workdir> replay <lhs file> <out cases> -      (re-execute given left-hand sides)
"""
import json, os, re, subprocess, sys
from concurrent.futures import ThreadPoolExecutor

corr, wd, tier, seed, out, stats = sys.argv[1:7]
REPLAY = tier == "replay"
lhs_file = seed if REPLAY else None
seed = 0 if REPLAY else int(seed)
os.makedirs(wd, exist_ok=True)
SYSCALLS = ["openat", "write", "pread64", "close", "unlinkat"]
ERR = {"openat": ["EMFILE", "ENOSPC"], "write": ["ENOSPC", "EIO"], "pread64": ["EIO"], "close": ["EIO"], "unlinkat": ["EACCES"]}

def scenarios():
    sc = [("spill", 0, "Off", 99), ("mem", 0, "Off", 99), ("upload", 1, "Off", 99), ("upload", 2, "Off", 99), ("upload", 2, "On", 99), ("trunc", 2, "Off", 99), ("uploadoff", 2, "Off", 99)]
    if tier == "thorough":
        sc += [("upload", 3, "Off", 99), ("upload", 2, "RelevantOnly", 99), ("upload", 0, "Off", 99), ("trunc", 1, "Off", 99), ("trunc", 3, "On", 99)]
        sc += [(k, u, "Off", stop) for (k, u) in [("spill", 0), ("upload", 2)] for stop in range(1, 8)]
    else:
        sc += [("spill", 0, "Off", 4), ("upload", 2, "Off", 5)]
    return sc

import glob

def run(args, inject=None, tag="x"):
    base = os.path.join(wd, "fr-" + tag)
    logp = os.path.join(wd, f"st-{tag}.log")
    for f in glob.glob(logp + ".*"):
        os.remove(f)
    # -ff: one log file per thread, so a call is always one line (no unfinished/resumed pairs)
    cmd = ["strace", "-ff", "-qq", "-o", logp, "-e", "trace=" + ",".join(SYSCALLS) + ",faccessat,access"]
    if inject:
        cmd += ["-e", f"inject={inject[0]}:error={inject[2]}:when={inject[1]}"]
    cmd += [corr, "faultrun", "-arg", f"kind={args[0]} uploads={args[1]} keep={args[2]} stop={args[3]} base={base}"]
    rc = "?"
    try:
        p = subprocess.run(cmd, stdout=subprocess.PIPE, stderr=subprocess.PIPE, text=True, timeout=60)
        outp = p.stdout
        rc = p.returncode
    except subprocess.TimeoutExpired:
        outp = "REPORT HANG"
    subprocess.run(["rm", "-rf", base])
    m = re.search(r"REPORT (.*)", outp)
    return (m.group(1).strip() if m else "NOREPORT rc=%s" % rc), logp

def thread_lines(logp):
    """the strace lines of the transaction's thread (the one that wrote the sentinels)"""
    for f in glob.glob(logp + ".*"):
        ls = open(f, errors="replace").read().split("\n")
        if any("SENTINEL-BEGIN" in l for l in ls):
            return ls
    return None

def scan(logp):
    """yields (syscall, state, line) for the traced calls of the transaction's thread; state 0 before
    the window, 1 inside, 2 after; the sentinel writes themselves count as outside"""
    ls = thread_lines(logp)
    if ls is None:
        raise RuntimeError("no sentinel")
    state = 0
    for l in ls:
        m = re.match(r"(\w+)\(", l)
        if not m:
            continue
        if "SENTINEL-BEGIN" in l:
            yield (m.group(1), 0, l); state = 1; continue
        if "SENTINEL-END" in l:
            state = 2
        yield (m.group(1), state, l)

def eof_probes(logp):
    """indices (within the window) of pread64 calls that returned 0 bytes"""
    k = 0; out = set()
    for sc, st, l in scan(logp):
        if st == 1 and sc == "pread64":
            k += 1
            if re.search(r"=\s*0\s*$", l): out.add(k)
    return out

def window(logp):
    """per syscall: (#calls before the window, #calls inside), counted on the transaction's thread only
    (strace counts `when=N` per thread)"""
    before = {s: 0 for s in SYSCALLS}; inside = {s: 0 for s in SYSCALLS}
    for sc, st, l in scan(logp):
        if sc not in before: continue
        if st == 0: before[sc] += 1
        elif st == 1: inside[sc] += 1
    return before, inside

def placed(logp, s, idx):
    """did the injection land on the idx-th <s> call inside the window?"""
    try:
        k = 0
        for sc, st, l in scan(logp):
            if sc != s: continue
            if st == 1:
                k += 1
                if "(INJECTED)" in l:
                    return k == idx
            elif "(INJECTED)" in l:
                return False
    except RuntimeError:
        pass
    return False

def work(j):
    sc, s, idx, n0, e, probe = j
    n = n0
    tried = set()
    tag = f"{sc[0]}{sc[1]}{sc[2]}{sc[3]}-{s}-{idx}-{e}"
    for attempt in range(8):
        tried.add(n)
        rep, log = run(sc, inject=(s, n, e), tag=tag)
        if placed(log, s, idx):
            for f in glob.glob(log + ".*"):
                os.remove(f)
            return f"fault {sc[0]} {sc[1]} {sc[2]} {sc[3]} {s} {idx} {e}{' eofprobe' if probe else ''} => {rep}"
        # the runtime made a different number of <s> calls before the window this time: re-aim
        nn = None
        try:
            b, _ = window(log)
            nn = b[s] + idx
        except Exception:
            pass
        if os.environ.get("FAULTS_DEBUG"):
            sys.stderr.write(f"  attempt {attempt} {sc} {s} {idx} n={n} re-aim={nn} rep={rep[:40]}\n")
        if nn is None or nn in tried:
            nn = next(c for d in range(1, 9) for c in (n0 + d, n0 - d) if c > 0 and c not in tried)
        n = nn
    sys.stderr.write(f"unplaced: {sc} {s} {idx} {e} n={n}\n")
    return None

jobs = []
dist = {}
lines = []
if REPLAY:
    clean = {}
    for l in open(lhs_file):
        t = l.split(" => ")[0].split()
        if len(t) < 8 or t[0] != "fault":
            continue
        sc = (t[1], int(t[2]), t[3], int(t[4]))
        if sc not in clean:
            rep, log = run(sc, tag=f"rclean{len(clean)}")
            clean[sc] = (rep, window(log), eof_probes(log))
        rep, (before, inside), probes = clean[sc]
        if t[5] == "none":
            lines.append(f"fault {sc[0]} {sc[1]} {sc[2]} {sc[3]} none 0 - => {rep}")
        else:
            s_, idx, e = t[5], int(t[6]), t[7]
            jobs.append((sc, s_, idx, before[s_] + idx, e, s_ == "pread64" and idx in probes))
else:
  for si, sc in enumerate(scenarios()):
    rep, log = run(sc, tag=f"clean{si}")
    before, inside = window(log)
    probes = eof_probes(log)
    lines.append(f"fault {sc[0]} {sc[1]} {sc[2]} {sc[3]} none 0 - => {rep}")
    for s in SYSCALLS:
        for idx in range(1, inside[s] + 1):
            for e in ERR[s]:
                jobs.append((sc, s, idx, before[s] + idx, e, s == "pread64" and idx in probes))
    dist[f"scenario:{sc[0]}/{sc[1]}/{sc[2]}/stop{sc[3]}"] = sum(inside.values())

with ThreadPoolExecutor(max_workers=12) as ex:
    for l in ex.map(work, jobs):
        if l is None:
            dist["unplaced-injection"] = dist.get("unplaced-injection", 0) + 1
        else:
            lines.append(l)
for j in jobs:
    dist["syscall:" + j[1]] = dist.get("syscall:" + j[1], 0) + 1
with open(out, "w") as w:
    for l in lines:
        w.write(l + "\n")
if not REPLAY:
    json.dump({"engine": "fault", "seed": seed, "lines": len(lines), "distribution": dist}, open(stats, "w"))
