"""What MANIFEST.json claims (kept apart from the check logic)."""
TECHNIQUE = "Lean 4 proof over hand-written executable model (tables translated from the Go source on every run) + differential correspondence with the Go implementation"
HOOK_COMMITS = ["6d567af", "1215bca", "9d3f334", "8c825b5", "596eb99", "0b409e9"]
NOTES = ("See DESIGN.md. Every check: lake build of the property module + axiom audit, harness rebuilt from /repo working "
         "tree with -tags verif, corpus + generated cases judged by the compiled Lean driver (model output and monitor predicate).")
DEFAULT_NA = "machinery under construction in this round (design in DESIGN.md §6); not yet claimed"
NOT_YET = {}
_TB = ("Trusted: Lean kernel + propext/Classical.choice/Quot.sound; hand-written models (checked against the code by the "
       "correspondence engine on every run, not assumed); generators and canonicalisers. ")
ENGINES = [
    {"name": "conc", "path": "go/cmd/corr/conc.go", "serves_properties": ["C06"],
     "kind_free_text": "concurrency: goroutines on one shared WAF + WAF builders, built with -race; every outcome vs sequential outcome and vs the Lean model"},
    {"name": "rxpf", "path": "go/cmd/corr/rxpf.go", "serves_properties": ["C11"],
     "kind_free_text": "differential: @rx built with the prefilter on and off on CRS and generated patterns x inputs sampled from the pattern's language and perturbed; prefilter verdicts vs the Lean model computed from the rendered syntax tree"},
    {"name": "parse", "path": "go/cmd/corr/parse.go", "serves_properties": ["C16"],
     "kind_free_text": "differential + round trip: structured rule descriptions rendered in many equivalent layouts and near-miss texts, compiled by the real parser (rule dump hook) vs the Lean parser model, the description and the reference grammar"},
    {"name": "fault", "path": "tools/faults.py", "serves_properties": ["C20"],
     "kind_free_text": "fault injection: strace-injected syscall failures (one per run, placement verified) into scripted transactions run by go/cmd/corr/faultrun.go; observed report vs the Lean fault model"},
    {"name": "nopanic", "path": "go/cmd/corr/nopanic.go", "serves_properties": ["C07"],
     "kind_free_text": "robustness: registry-driven configurations + byte mutations + random API call sequences under recover() and a watchdog"},
    {"name": "http", "path": "go/cmd/corr/httpeng.go", "serves_properties": ["C18"],
     "kind_free_text": "differential: scripted handlers behind the real net/http middleware vs the Lean interceptor model"},
    {"name": "decode", "path": "go/cmd/corr/decode.go", "serves_properties": ["C03", "C20"],
     "kind_free_text": "differential: query string / urlencoded, JSON, multipart and XML bodies / cookies / headers through the real transaction vs Lean parsers and document-tree models (texts rendered by the harness's own encoders); malformed bodies judged by monitors (profile bodyerr for C20)"},
    {"name": "audit", "path": "go/cmd/corr/audit.go", "serves_properties": ["C19"],
     "kind_free_text": "differential: audit decision/contents/parts through the real serial writer vs Lean model; auditconc: concurrent writers, line integrity"},
    {"name": "memo", "path": "go/cmd/corr/memo.go", "serves_properties": ["C13"],
     "kind_free_text": "history: WAFs sharing strings in different roles built alone vs together; live cache keys checked against the Lean key function"},
    {"name": "iso", "path": "go/cmd/corr/eng.go", "serves_properties": ["C05"],
     "kind_free_text": "history: predecessor transaction(s) then probe on one WAF (pooled object reuse); probe outcome vs Lean model on a fresh state"},
    {"name": "engrep", "path": "go/cmd/corr/eng.go", "serves_properties": ["C04", "C12"],
     "kind_free_text": "repetition: each generated case 13x on fresh WAFs; all outcomes equal each other and the Lean model"},
    {"name": "reader", "path": "go/cmd/corr/reader.go", "serves_properties": ["C05"],
     "kind_free_text": "history: a body reader handed out by a closed transaction, read after the recycled object buffered the next body; vs the Lean reader model"},
    {"name": "auditiso", "path": "go/cmd/corr/audit.go", "serves_properties": ["C05"],
     "kind_free_text": "history: predecessor changing audit engine/parts by ctl, then probe on one WAF with a real audit log; the probe's record vs the Lean model on a fresh state"},
    {"name": "rxm", "path": "go/cmd/corr/rxm.go", "serves_properties": ["C15"],
     "kind_free_text": "differential: Go regexp on key expressions and the @rx operator vs the Lean regex model (parser + derivative matcher); capturing @rx vs Go's submatches as oracle"},
    {"name": "eng", "path": "go/cmd/corr/eng.go", "serves_properties": ["C01", "C02", "C04", "C08", "C09", "C12", "C17"],
     "kind_free_text": "differential: structured rule sets + requests + API call sequences on the real WAF vs the Lean engine model (profiles per property)"},
    {"name": "body", "path": "go/cmd/corr/body.go", "serves_properties": ["C10"],
     "kind_free_text": "differential: real transaction body writes/reads at limit thresholds vs Lean model"},
    {"name": "tf", "path": "go/cmd/corr/tf.go", "serves_properties": ["C14"],
     "kind_free_text": "differential: Go transformation functions vs Lean models + monitor (flag soundness, purity, aliasing)"},
    {"name": "tfchain", "path": "go/cmd/corr/tfchain.go", "serves_properties": ["C14"],
     "kind_free_text": "differential: transformation lists through a real rule (multiMatch on/off) vs Lean model + monitor"},
    {"name": "capseq", "path": "go/cmd/corr/capseq.go", "serves_properties": ["C09"],
     "kind_free_text": "monitor: three capturing rules of one phase (two @rx with groups, one that never matches); TX.0-9 afterwards vs the expectation computed with Go's regexp"},
    {"name": "tfwrap", "path": "go/cmd/corr/tfwrap.go", "serves_properties": ["C13"],
     "kind_free_text": "monitor: 65 355 transformation chains registered by other WAFs between two families of chains; every rule of a WAF using both families must see its own list's value"},
    {"name": "rderr", "path": "go/cmd/corr/rderr.go", "serves_properties": ["C20"],
     "kind_free_text": "monitor: bodies arriving through Read{Request,Response}BodyFrom from a reader that fails after a prefix (plain error, io.ErrUnexpectedEOF, errors wrapping or joined with io.EOF); a failure before the limit must be reported by the call"},
    {"name": "twolog", "path": "go/cmd/corr/twolog.go", "serves_properties": ["C13"],
     "kind_free_text": "monitor: two or three WAFs alive in one process, each with its own audit log file (with and without SecAuditLogType); every record must land in the file of the WAF that created the transaction"},
    {"name": "op", "path": "go/cmd/corr/op.go", "serves_properties": ["C15"],
     "kind_free_text": "differential: Go operator factories/Evaluate vs Lean models (= documented predicates)"},
]
_ENG_NOTE = (_TB + "Operators and transformations are parameters of the engine theorems (proved for every interpretation); "
             "the driver instantiates them with the C14/C15 models and the regex model (@rx inside the engine on the modelled RE2 fragment over ASCII). "
             "The capture action's submatches (compared through Go's regexp as oracle), body processors inside the engine cases and the multiphase "
             "build are outside the engine model.")
CLAIMED = {
    "C01": dict(
        text="Lean 4 theorems over the engine model: key selection returns exactly the entries whose key equals the selector "
             "up to ASCII case (well-formed collections, preserved by Add/Set/Remove), exclusions and counts are exact, the "
             "match data of a link are exactly the accepted candidates of the selected values in order (multiMatch included), "
             "negation is the complement, a rule is recorded iff every link matched in order with the concatenated data, and a "
             "phase appends fired ids as a sublist of the phase-filtered configuration order. Tied to /repo by `eng`.",
        note=_ENG_NOTE, ref="6/C01", engine="eng"),
    "C04": dict(
        text="Lean 4 theorems: for any permutation of the selected values (the runtime's map order) the link's match data are "
             "a permutation, firing and the number of action runs are equal, and any observation on which the per-match effect "
             "commutes is equal. Tied to /repo by `engrep` (13 repetitions per case on fresh WAFs must agree with each other "
             "and with the model) and `eng`.",
        note=_ENG_NOTE, ref="6/C04", engine="engrep,eng"),
    "C05": dict(
        text="Lean 4 theorems: newTransaction applied to any closed transaction state equals the brand-new state "
             "(C05_reinit, every modelled field covered), hence for every predecessor, request and API call sequence the "
             "probe's whole trace equals the trace on a fresh transaction (C05_probe); a witness shows the collection reset "
             "in Close is necessary; for every history of writes, readers and reads a body reader handed out before Close yields no byte "
             "afterwards, whatever the recycled buffer holds (C05_readers_dead, by the invariant that every open reader is registered "
             "with the buffer). Tied to /repo by `iso` (predecessor + probe on one WAF, probe outcome vs the model on a fresh state), "
             "`auditiso` (audit engine/parts overrides) and `reader` (stale body readers).",
        note=_ENG_NOTE, ref="6/C05", engine="iso"),
    "C13": dict(
        text="Lean 4 theorems: the cache key function is injective on (kind, input) (prefix code), the cache invariant "
             "'every entry was built for a site with that key' holds after every history of constructions and closures, and "
             "under it every lookup returns exactly what a direct build returns (C13_transparent, C13_history); Release leaves "
             "no entry owned by the closed WAF and keeps others' values. Tied to /repo by `memo`: configurations reusing the "
             "same strings in different roles built alone vs in shared histories, plus the shape of every live cache key; two monitors beside it: "
             "`tfwrap` (65 355 chains registered by other WAFs) and `twolog` (several WAFs alive, each audit record in its own WAF's file).",
        note=_TB + "The operators themselves are not modelled in this engine (monitor: behaviour alone == behaviour in history).",
        ref="6/C13", engine="memo"),
    "C19": dict(
        text="Lean 4 theorems: the audit decision table (Off never, On always, RelevantOnly+pattern iff the pattern matches "
             "the real, else would-be, else response status; one Bool per ProcessLogging = at most one record); well-formed "
             "parts (A…Z) stay well-formed under every ctl:auditLogParts modification; the error callback fires exactly once "
             "per fired rule with logging and never from links; audit messages are exactly the audit-enabled fired rules; a "
             "file of whole-record appends splits back into exactly the records (no interleaving, none lost). Tied to /repo "
             "by `audit` (real serial writer, JSON and Native) and `auditconc` (concurrent writers).",
        note=_ENG_NOTE + " Formatters/encoding/json trusted.", ref="6/C19", engine="audit,auditconc"),
    "C03": dict(
        text="Lean 4 theorems: percent-decoding inverts an independent encoder for every byte string and is applied once "
             "(C03_unescape_enc, C03_once); for every list of (name, value) byte strings the parsed query string / "
             "urlencoded body is exactly that list in order (C03_query_roundtrip: nothing dropped, merged, re-attributed); a "
             "header is stored byte-exact and found under every spelling of its name (C03_header_store); JSON bodies: within the "
             "depth limit no error is raised and every scalar of every document is exposed under json.<path> with its text "
             "(C03_json_every_scalar_exposed, by induction over the document); XML bodies: every attribute value and every non-blank "
             "piece of character data / CDATA of every element at any depth is exposed in XML://@* and XML:/*, one value per attribute, "
             "none invented (C03_xml_*, Properties/C03b.lean); the request line: REQUEST_URI_RAW is the URI handed in and REQUEST_URI, "
             "REQUEST_FILENAME, QUERY_STRING are its cuts at the first `#` and `?`, which put together give it back (C03_uri_decomposition). Tied to /repo by `decode` through ProcessURI, the urlencoded, "
             "multipart, JSON and XML body processors, the Cookie header and AddRequestHeader.",
        note=_TB + "Partial: the tokenisers themselves (mime/multipart, encoding/xml, gjson) are the assumed contract on well-formed input: the "
             "models read the document tree, the harness's independent encoder writes the text; malformed multipart/XML is judged by the monitor only; "
             "url.ParseRequestURI is a parameter.", ref="6/C03", engine="decode"),
    "C18": dict(
        text="Lean 4 theorems over a model of the middleware's response interceptor, for every configuration, every decision "
             "of the phase-3/phase-4 rules and every handler script: if the transaction ends interrupted in a response phase, "
             "no byte of the handler's body reached the client's writer (C18_response_block, by an invariant over all scripts); "
             "a deny in a request phase yields its status without the handler; the handler reads exactly the client's body; "
             "unbuffered responses pass through byte-exact, and so do buffered ones that stay below the limit — released by the response "
             "processor, nothing before (C18_passthrough_buffered, every handler script). Tied to /repo by `http` (real WrapHandler behind httptest).",
        note=_TB + "Partial: net/http itself (Content-Length enforcement, HTTP/2, hijacking) is outside the model.",
        ref="6/C18", engine="http"),
    "C06": dict(
        text="Lean 4 theorems: for any number of transactions and every schedule, steps that read the shared WAF and write "
             "only their own transaction leave each transaction exactly in its sequential state (C06_noninterference); the "
             "memoize protocol, modelled at the granularity of sync.Map operations, per-entry mutex sections and singleflight, "
             "keeps under every interleaving the invariant that any value Do(k,f) returns is f's value for k and never comes "
             "from an entry marked deleted (C06_memoize, C06_memoize_live). Tied to /repo by `conc` under the race detector.",
        note=_TB + "Partial: the Go memory model is outside Lean; races are shown by the race detector on the schedules that occur.",
        ref="6/C06", engine="conc"),
    "C11": dict(
        text="Lean 4 theorems over a model of rxprefilter.go on the regexp/syntax tree: (see Properties/C11.lean) the "
             "substring and multi-needle matchers are exact, the minimum length and the extracted literals are necessary "
             "conditions of a match under an over-approximating match relation, hence the prefilter never rejects an input "
             "the regex matches and @rx with the prefilter on equals @rx with it off; the exact-match fast path: for every literal and "
             "every value without a newline, (?sm)^literal$ matches iff the value is the literal (C11_exact_fastpath, on the exact "
             "regex semantics of Proofs/Regex.lean). Tied to /repo by `rxpf`: the real "
             "operator on/off on CRS + generated patterns, prefilter verdicts vs the model.",
        note=_TB + "Partial: regexp/syntax and the regexp engine are outside Lean; the theorems assume the engine matches "
                   "only what the stated match relation allows.",
        ref="6/C11", engine="rxpf"),
    "C16": dict(
        text="Lean 4 theorems over a model of the SecLang parser as written in Go: comment/blank lines may be inserted "
             "anywhere and indentation never matters (for every parser state incl. continuation and backtick blocks); a "
             "directive split with a backslash equals the unsplit line; directive names are case-insensitive; an action is "
             "determined by its trimmed lower-cased name and its trimmed value minus one pair of quotes, and quoting a "
             "value is the identity; an operator written with backslash-quote escapes is cut out exactly and unescapes to "
             "itself, for every operator that can be written at all. A reference grammar of target lists (Spec/Parse.lean) "
             "states what a target list means. The model's tables (variable names, selectability, the case rule, action "
             "types, transformation names and aliases) are proved equal to tables translated from the Go source on every run "
             "(C16_*_are_source). Tied to /repo by `parse`: descriptions -> renderings/near-misses -> real "
             "parser (rule dump) vs the model, the description, and the reference grammar.",
        note=_TB + "Partial: equality of the target scanner with the reference grammar on all byte strings and the "
                   "parseActions round trip are decided by the correspondence, not by a theorem.",
        ref="6/C16", engine="parse"),
    "C20": dict(
        text="Lean 4 theorems over a model of the file-touching paths (BodyBuffer Write/Reader/Reset, multipart upload "
             "loop, ProcessRequestBody error path, AuditLog body read, Close) on an abstract file system with an arbitrary "
             "fault oracle (any calls fail, any number): a Write/upload loop that reports success had no failed primitive and "
             "stored exactly the data; an upload error raises MULTIPART_STRICT_ERROR; a failed body read sets REQBODY_ERROR and "
             "leaves REQUEST_BODY unpopulated; every temp file that exists is registered (invariant over every script), and "
             "after Close no temp file exists or Close returned an error. Tied to /repo by the `fault` sweep: strace-injected "
             "syscall failures into scripted real transactions, report compared with the model; beside it the `decode` profile bodyerr and the "
             "`rderr` monitor (a body reader that fails before the limit must make the call report an error, whatever the error wraps).",
        note=_TB + "Partial: only failures at the modelled system calls, one per run in the sweep; strace (ptrace) is part of "
                   "the trusted base of this check.",
        ref="6/C20", engine="fault"),
    "C07": dict(
        text="Lean 4: every modelled unit is a total function (termination checked by Lean), and for the sites whose safety "
             "is arithmetic or nil-ness the Go operation is modelled as partial and proved never to fail: the body-write slice "
             "for every limit incl. non-positive ones set by ctl (with the pre-fix version refuted), macro expansion over "
             "variables without a collection, SecRuleRemoveByMsg over rules without msg, macro compilation. Tied to /repo by "
             "`nopanic`: registry-driven configuration and traffic generation under recover() and a watchdog, plus a corpus of "
             "past panic shapes.",
        note=_TB + "Partial: units without a Lean model are covered by the harness only; hangs by watchdog.",
        ref="6/C07", engine="nopanic"),
    "C09": dict(
        text="Lean 4 theorems: the state after a link is the left fold of 'update MATCHED_*, then run every non-disruptive "
             "action once' over exactly the link's matches, in order (so once per match, macros expanded at that moment); "
             "setvar assign/delete single-step lemmas; m executions of setvar:tx.k=+n turn the decimal text of cur into that of cur+m·n "
             "(C09_sum, through the proved Itoa/Atoi round trip), and any mix of +n / -n executions through negative totals leaves cur plus the "
             "signed sum as long as the running total stays in the int64 range (C09_signed_sum); HIGHEST_SEVERITY is lowered to the minimum by MatchRule only when the "
             "rule fired; the disruptive action runs once per completed chain. Tied to /repo by `eng` (profile acct).",
        note=_ENG_NOTE, ref="6/C09", engine="eng"),
    "C12": dict(
        text="Lean 4 theorem C12_cache_transparent over a model of transformArg with its cache: for every cache content "
             "satisfying the entry invariant, every key collision pattern, every prefix hit, the value handed to the operator "
             "is the rule's own transformation list applied to the current value, and the invariant is preserved; the theorem's hypothesis "
             "about the process-wide table of chains is discharged against a model of that table for any number of registrations by any "
             "number of WAFs (C12_interned: ids are positions in a list that only grows). Tied to "
             "/repo by `eng` (profile cache) and `engrep`.",
        note=_ENG_NOTE, ref="6/C12", engine="eng,engrep"),
    "C17": dict(
        text="Lean 4 theorems: the rules loop over the full list equals the loop over the list with removed ids filtered out "
             "(skip counting, markers, allow included), for any removal set recorded in the transaction; ranges equal their "
             "enumeration; a run-time target removal (string or regex key) equals the rule written with the extra !VAR:key and "
             "touches no other variable; configuration-time: SecRuleRemoveById with any list of ids and ranges leaves exactly "
             "the rules no element names (= the configuration that never contained them), SecRuleUpdateTargetById/ByTag give the "
             "rule compiled from the original target list followed by the added one, and an id list updates every rule once per "
             "element naming it (C17_update_rules). Tied to /repo by `eng` (profiles ctl and dirs).",
        note=_ENG_NOTE, ref="6/C17", engine="eng"),
    "C02": dict(
        text="Lean 4 theorems over the engine model for every rule set, request and API call sequence of any length: an "
             "interrupted phase 1-4 evaluates nothing further; with an interruption in place every later non-logging call "
             "returns exactly it and changes no state; ProcessLogging evaluates logging-phase rules only; DetectionOnly never "
             "sets the interruption and remembers only the first would-be one; Off evaluates nothing; a phase that ends interrupted was interrupted by the last rule it evaluated, with that rule's id (C02_first); a rule that states a status reports it whatever SecDefaultAction of its phase says, one that states none inherits that phase's (C02_deny_reports_own_status, C02_inherited_status); lastPhase is monotone "
             "and a request/response phase is evaluated only if not yet reached (at most once). Tied to /repo by the `eng` "
             "correspondence (profile api: repeated, skipped, out-of-order calls; mode switches by ctl; default actions carrying a status).",
        note=_ENG_NOTE, ref="6/C02", engine="eng"),
    "C08": dict(
        text="Lean 4 theorems over the engine model for every rule list and every operator interpretation: skip:N passes "
             "over exactly the next N eligible rules; skipAfter resumes right after the first eligible marker; no skip/"
             "skipAfter/allow:phase survives the phase; nothing is evaluated while allow covers the phase; the logging phase "
             "still evaluates after a bare allow and stops under allow:phase; a later allow replaces the scope of an earlier one and changes nothing else (C08_later_allow_replaces); allow is not enforced unless the engine is On; an incomplete chain runs no "
             "disruptive/flow action. Tied to /repo by the `eng` correspondence (profile flow).",
        note=_ENG_NOTE, ref="6/C08", engine="eng"),
    "C10": dict(
        text="Lean 4 theorems over an executable model of BodyBuffer and the four body entry points, for every byte string, "
             "every chunking, every mix of entry points and every (limit, memLimit, action): representation invariant "
             "(length = |content| <= limit), stored content = old content ++ accepted part of each write, independence of "
             "the stored bytes from the in-memory limit (memory vs. disk), ProcessPartial stores exactly take(limit) of the "
             "supplied bytes, Reject refuses all-or-nothing exactly when the cumulative size reaches the limit, the body "
             "phase runs at most once, readers return exactly the content; and a refinement theorem (C10_refines, Properties/C10b.lean): after "
             "any writes the model's state abstracts to the state of the specification machine of Spec/Body.lean (stored bytes only) and every "
             "write returned the same (interruption, count, error) — hence nothing observable depends on the in-memory limit "
             "(C10_memlimit_invisible); tied to /repo by the `body` correspondence.",
        note=_TB + "File operations are infallible in this model (faults are C20); io.CopyN and bytes.Buffer are assumed.",
        ref="6/C10", engine="body"),
    "C14": dict(
        text="Lean 4 theorems over executable models of the transformation functions (change-report soundness per "
             "transformation, the encode/decode identities of the statement — hexDecode∘hexEncode, urlDecode∘urlEncode, base64Decode∘base64Encode "
             "(strict and forgiving decoder) —, idempotence of trim/trimLeft/trimRight/removeNulls/removeWhitespace/compressWhitespace, multiMatch completeness and soundness for arbitrary "
             "transformation lists; every byte string, every list length), tied to /repo on every run by differential execution "
             "of the real functions against the models (`tf`, `tfchain`); the monitor predicate is evaluated on every observed "
             "output, including transformations that are not modelled.",
        note=_TB + "Not modelled (monitor only): htmlEntityDecode (x/net/html), non-ASCII lowercase/uppercase, md5/sha1 and "
             "decoders not yet in lean/Coraza/Model/Transformations.lean / Transformations2.lean / UrlDecodeUni.lean (modelled there: "
             "lowercase, uppercase, trim*, removeNulls, replaceNulls, length, hexEncode/Decode, urlEncode/Decode, none, urlDecodeUni "
             "with its best-fit table translated from the Go source on every run, jsDecode, cmdLine, removeCommentsChar, "
             "compressWhitespace and removeWhitespace on ASCII input, escapeSeqDecode, cssDecode, removeComments, replaceComments, "
             "base64Encode/Decode/DecodeExt).",
        ref="6/C14", engine="tf,tfchain"),
    "C15": dict(
        text="Lean 4 theorems: each modelled operator equals its declarative predicate for all arguments and inputs (substring/"
             "prefix/suffix, integer order on Go's Atoi with clamping, '%'-escape well-formedness, @validateUtf8Encoding = "not a concatenation of standard encodings of Unicode scalar values" (both directions), byte ranges, @pm / @pmFromFile / @pmFromDataset = "
             "ASCII-case-insensitive membership incl. the length short-circuit, negation = complement; @ipMatch independent of the "
             "address spelling; @rx on the modelled RE2 fragment: the matcher is exact w.r.t. a declarative match relation for every "
             "expression and input), tied to /repo by differential execution of the real operators (`op`, `rxm`); captures TX.0-9 are "
             "compared with Go's regexp as oracle.",
        note=_TB + "Aho-Corasick library, Go regexp (RE2) and net.IPNet are parameters/oracles with the contracts stated in "
             "the evidence file; submatch positions of @rx are not modelled.",
        ref="6/C15", engine="op"),
}
