#!/bin/sh
# usage: tools/seedbatch.sh <patchdir-prefix or seeded> name:prop ...  — seedtest each, print one line per seed
for it in "$@"; do
  n=${it%%:*}; p=${it#*:}
  if [ -f /verif/seeded/$n/patch.diff ]; then P=/verif/seeded/$n/patch.diff; else P=/tmp/s3-${n%-3}-out/patch.diff; fi
  out=$(/verif/tools/seedtest.sh $P $p 2>&1 | tail -3 | tr '\n' ' ')
  echo "$n $p :: $out"
done
