#!/usr/bin/env python3
"""
check — single entry point of the coraza verification machinery.

  ./check --setup                      build Lean library + driver + harness
  ./check <Cxx> quick|thorough         decide one property on /repo's current tree
  ./check <Cxx> --replay <file>        re-run stored case(s) against the current tree

Decision procedure (DESIGN.md §3):
  1. proof obligations: `lake build Coraza.Properties.<id>`, source audit (no sorry /
     native_decide / axioms …) and `#print axioms` of every property theorem;
  2. correspondence: the Go harness (built from /repo with -tags verif) runs the real
     code on corpus + generated cases, the Lean driver runs the model on the same lines
     and evaluates the property's monitor predicate P on the *observed* output;
  3. verdict: P false on an observation → failing input → VIOLATION (or KNOWN-FINDING
     if listed); model ≠ implementation with P true → search for a failing input,
     report VIOLATION either way (…no-failing-input-found when the search is dry);
     a proof obligation that no longer checks → same search, same reporting.
"""
import fcntl
import hashlib
import json
import os
import re
import shutil
import subprocess
import sys
import time

ROOT = os.path.dirname(os.path.dirname(os.path.abspath(__file__)))
LEAN = os.path.join(ROOT, "lean")
GO = os.path.join(ROOT, "go")
WORK = os.path.join(ROOT, ".work")
BIN = os.path.join(WORK, "bin")
DRIVER = os.path.join(LEAN, ".lake", "build", "bin", "driver")
CORR = os.path.join(BIN, "corr")
REPO = os.environ.get("VERIF_REPO", "/repo")   # always /repo for registered checks; a snapshot only for background sweeps
ALLOWED_AXIOMS = {"propext", "Classical.choice", "Quot.sound"}
FORBIDDEN = re.compile(r"\b(sorry|admit|native_decide|bv_decide|implemented_by|unsafe)\b|^\s*axiom\s|maxHeartbeats\s+0\b")

sys.path.insert(0, os.path.join(ROOT, "tools"))
import props  # noqa: E402


os.makedirs(os.path.join(WORK, "tmp"), exist_ok=True)
os.environ["TMPDIR"] = os.path.join(WORK, "tmp")   # spill files, uploads: never under /tmp


def goenv():
    e = dict(os.environ)
    e["GOFLAGS"] = "-mod=mod"
    e["GOPROXY"] = "off"
    e.pop("GOTOOLCHAIN", None)  # auto: the cached go1.25 toolchain is selected by go.mod
    e.pop("GOSUMDB", None)
    e.setdefault("GOCACHE", os.path.join(WORK, "gocache"))
    return e


def run(cmd, cwd=None, env=None, inp=None, timeout=None):
    p = subprocess.run(cmd, cwd=cwd, env=env, input=inp, stdout=subprocess.PIPE, stderr=subprocess.STDOUT,
                       text=True, timeout=timeout)
    return p.returncode, p.stdout


class Lock:
    def __init__(self, name):
        os.makedirs(WORK, exist_ok=True)
        self.path = os.path.join(WORK, name + ".lock")

    def __enter__(self):
        self.f = open(self.path, "w")
        fcntl.flock(self.f, fcntl.LOCK_EX)

    def __exit__(self, *a):
        fcntl.flock(self.f, fcntl.LOCK_UN)
        self.f.close()


# --------------------------------------------------------------------------- builds

def build_lean(targets):
    with Lock("lake"):
        # translator: tables of the Go source → Lean definitions, regenerated on every run
        rc0, out0 = run([sys.executable, os.path.join(ROOT, "tools", "gen_lean_tables.py")], cwd=ROOT)
        if rc0 != 0:
            return rc0, "gen_lean_tables.py (translator of /repo tables into Lean) failed:\n" + out0
        rc, out = run(["lake", "build"] + targets, cwd=LEAN)
    return rc, out0 + out


def build_harness(tags="verif", outname="corr", race=False):
    """compile the harness against /repo's *current working tree*"""
    os.makedirs(BIN, exist_ok=True)
    with Lock("go"):
        # go.sum of the harness must cover /repo's dependencies
        shutil.copyfile(os.path.join(REPO, "go.sum"), os.path.join(GO, "go.sum"))
        if REPO != "/repo":
            # a background sweep on a snapshot of the repository (vp run --with-repo): same harness,
            # the replace directive points at the snapshot; -modfile keeps the committed go.mod untouched
            alt = os.path.join(WORK, "go.alt.mod")
            txt = open(os.path.join(GO, "go.mod")).read().replace("=> /repo", "=> " + REPO)
            open(alt, "w").write(txt)
            shutil.copyfile(os.path.join(REPO, "go.sum"), os.path.join(WORK, "go.alt.sum"))
            cmd = ["go", "build", "-modfile", alt]
        else:
            cmd = ["go", "build"]
        cmd = cmd + (["-race"] if race else []) + ["-tags", tags, "-o", os.path.join(BIN, outname), "./cmd/corr"]
        rc, out = run(cmd, cwd=GO, env=goenv())
    return rc, out


def prepare_alt_build(ab):
    """build the harness with other build tags and export its path (inherited by every corr run)"""
    rc, out = build_harness(tags=ab["tags"], outname=ab["outname"])
    if rc != 0:
        return out or "build failed"
    os.environ[ab["env"]] = os.path.join(BIN, ab["outname"])
    return ""


def source_audit():
    """forbidden constructs anywhere in the Lean sources (comments stripped)."""
    hits = []
    for d, _, fs in os.walk(LEAN):
        if ".lake" in d:
            continue
        for f in fs:
            if not f.endswith(".lean"):
                continue
            p = os.path.join(d, f)
            txt = open(p).read()
            txt = re.sub(r"/-.*?-/", lambda m: "\n" * m.group(0).count("\n"), txt, flags=re.S)
            for i, line in enumerate(txt.split("\n"), 1):
                line = line.split("--")[0]
                if FORBIDDEN.search(line):
                    hits.append(f"{os.path.relpath(p, ROOT)}:{i}: {line.strip()}")
    return hits


def prop_modules(pid):
    """Coraza.Properties.<pid> and its continuation files <pid>b, <pid>c, …"""
    d = os.path.join(LEAN, "Coraza", "Properties")
    return ["Coraza.Properties." + f[:-5] for f in sorted(os.listdir(d)) if re.fullmatch(re.escape(pid) + r"[a-z]?\.lean", f)]


def theorems_of(pid):
    names = []
    for m in prop_modules(pid):
        txt = open(os.path.join(LEAN, *m.split(".")) + ".lean").read()
        txt = re.sub(r"/-.*?-/", "", txt, flags=re.S)
        names += re.findall(r"^theorem\s+([^\s(:{\[]+)", txt, flags=re.M)
    return names


def axiom_audit(pid, names):
    os.makedirs(os.path.join(WORK, pid), exist_ok=True)
    f = os.path.join(WORK, pid, "Audit.lean")
    with open(f, "w") as w:
        for m in prop_modules(pid):
            w.write(f"import {m}\n")
        for n in names:
            w.write(f"#print axioms {n}\n")
    rc, out = run(["lake", "env", "lean", f], cwd=LEAN)
    res = {}
    for m in re.finditer(r"'([^']+)' depends on axioms: \[([^\]]*)\]", out.replace("\n", " ")):
        res[m.group(1)] = [a.strip() for a in m.group(2).split(",") if a.strip()]
    for m in re.finditer(r"'([^']+)' does not depend on any axioms", out):
        res[m.group(1)] = []
    return rc, out, res


# --------------------------------------------------------------------------- correspondence

PROP = [""]   # the property being decided: some monitors of the driver belong to one property only


DRIVER_MEM = 16 << 30      # address-space limit of one driver process
DRIVER_GAVE_UP = [0]       # cases on which the model driver itself failed (memory, stack, time): not compared, counted


def _limit_driver():
    import resource
    resource.setrlimit(resource.RLIMIT_AS, (DRIVER_MEM, DRIVER_MEM))


def drive(cases_path, verd_path, nlines=0):
    env = dict(os.environ)
    env["VERIF_PROP"] = PROP[0]
    with open(cases_path) as fi, open(verd_path, "w") as fo:
        try:
            p = subprocess.run([DRIVER], stdin=fi, stdout=fo, stderr=subprocess.PIPE, text=True, env=env,
                               preexec_fn=_limit_driver, timeout=600 + nlines // 50)
        except subprocess.TimeoutExpired:
            return 124, "driver timed out"
    return p.returncode, p.stderr


def corr_gen(engine, seed, n, tier, out, stats, arg=""):
    cmd = [CORR, engine, "-seed", str(seed), "-n", str(n), "-tier", tier, "-out", out, "-stats", stats]
    if arg:
        cmd += ["-arg", arg]
    return run(cmd, cwd=ROOT, timeout=3600)


def corr_exec(lhs_lines, wd, tag="exec"):
    """re-execute given left-hand sides on the implementation; returns full lines"""
    src = os.path.join(wd, tag + ".lhs")
    out = os.path.join(wd, tag + ".cases")
    with open(src, "w") as w:
        for l in lhs_lines:
            w.write(l.strip() + "\n")
    if lhs_lines and all(l.startswith("fault ") for l in lhs_lines):
        # fault-injection cases are executed by the strace sweep script, not in-process
        rc, o = run([sys.executable, os.path.join(ROOT, "tools", "faults.py"), CORR, os.path.join(wd, "faults-replay"),
                     "replay", src, out, "-"], cwd=ROOT, timeout=3600)
        if rc != 0:
            raise RuntimeError("faults.py replay failed: " + o)
        return [l.rstrip("\n") for l in open(out)]
    rc, o = run([CORR, "exec", "-arg", src, "-out", out], cwd=ROOT, timeout=3600)
    if rc != 0:
        raise RuntimeError("corr exec failed: " + o)
    return [l.rstrip("\n") for l in open(out)]


def judge_lines(lines, wd, tag="exec"):
    cp = os.path.join(wd, tag + ".cases2")
    vp = os.path.join(wd, tag + ".verd")
    with open(cp, "w") as w:
        for l in lines:
            w.write(l + "\n")
    rc, err = drive(cp, vp, len(lines))
    if rc == 0:
        return [l.rstrip("\n") for l in open(vp)]
    # the model driver itself failed (out of memory, stack, time) somewhere in this batch: halve the batch until the
    # case is isolated; that case is not compared (verdict X 1 driver-gave-up) and counted in the evidence
    if len(lines) <= 1:
        DRIVER_GAVE_UP[0] += len(lines)
        sys.stderr.write("NOTE: the model driver gave up on one case (rc=%s): %s\n" % (rc, (lines[0][:300] if lines else "")))
        return ["X 1 driver-gave-up"] * len(lines)
    if DRIVER_GAVE_UP[0] > 20:
        raise RuntimeError("driver failed repeatedly: " + err)
    h = len(lines) // 2
    return judge_lines(lines[:h], wd, tag) + judge_lines(lines[h:], wd, tag)


def lhs_of(line):
    return line.split(" => ")[0] if " => " in line else line


def klass(verdict):
    """A | D1 | D0 | X1 | X0 | E"""
    t = verdict.split(" ")
    if t[0] == "A":
        return "A"
    if t[0] in ("D", "X", "V") and len(t) > 1:
        return t[0] + t[1]
    return "E"


def obs_kind(line):
    obs = line.split(" => ", 1)[1] if " => " in line else ""
    for k in ("CONFIGERR", "BADCASE", "PANIC", "NOTFOUND", "UNSTABLE"):
        if k in obs:
            return k
    return ""


def shrink(line, want, wd, budget=40):
    """greedy shrink of the hex fields of a failing case keeping verdict class `want`"""
    lhs = lhs_of(line).split(" ")
    best = lhs
    if any(t.startswith(("canon=", "exp=")) and len(t) > 8 for t in lhs):
        # the case carries its own oracle (expected output of this very text): it cannot be cut
        budget = 0
    for _ in range(budget):
        cands = []
        for i, tok in enumerate(best):
            if i < 1 or not re.fullmatch(r"([0-9a-f]{2})+", tok) or re.fullmatch(r"\d{1,4}", tok):
                continue    # (short all-digit tokens are counts and limits, not hex fields)
            nb = len(tok) // 2
            cuts = set()
            if nb > 1:
                cuts.add((0, nb // 2))
                cuts.add((nb // 2, nb))
            for k in range(min(nb, 24)):
                cuts.add((k, k + 1))
            for (a, b) in sorted(cuts):
                nt = tok[:2 * a] + tok[2 * b:]
                c = list(best)
                c[i] = nt if nt else "-"
                cands.append(c)
        if not cands:
            break
        full = corr_exec([" ".join(c) for c in cands], wd, "shrink")
        verd = judge_lines(full, wd, "shrink")
        nxt = None
        for c, v, fl in zip(cands, verd, full):
            # the cut case has to fail the same way: a cut that turns a numeric field into a malformed one
            # (CONFIGERR/BADCASE) is a different case, not a smaller one
            if klass(v) == want and obs_kind(fl) == obs_kind(line):
                nxt = c
                break
        if nxt is None:
            break
        best = nxt
    full = corr_exec([" ".join(best)], wd, "shrink")
    verd = judge_lines(full, wd, "shrink")
    return full[0], verd[0]


def load_findings():
    p = os.path.join(ROOT, "known_findings.json")
    if not os.path.exists(p):
        return []
    return json.load(open(p))


def match_finding(pid, line, findings, verdict=""):
    """an *open* finding matches a bad line by its protocol line and, when given, by the reason
    the driver attached to its verdict (`why=…`): both patterns must hold"""
    for f in findings:
        if f.get("status") != "open" or pid not in f.get("properties", [f.get("property")]):
            continue
        m = f.get("match", {})
        rx = m.get("line_regex")
        vx = m.get("verdict_regex")
        if not rx and not vx:
            continue
        if rx and not re.search(rx, line):
            continue
        if vx and not re.search(vx, verdict or ""):
            continue
        return f
    return None


def write_replay(pid, seed, idx, payload):
    d = os.path.join(WORK, "replay")
    os.makedirs(d, exist_ok=True)
    p = os.path.join(d, f"{pid}-{seed}-{idx}.case")
    with open(p, "w") as w:
        w.write(payload)
    return p


# --------------------------------------------------------------------------- main check

def check(pid, tier, seed):
    t0 = time.time()
    PROP[0] = pid
    cfg = props.PROPS[pid]
    wd = os.path.join(WORK, pid)
    shutil.rmtree(wd, ignore_errors=True)
    os.makedirs(wd, exist_ok=True)
    findings = load_findings()
    violations = []      # (replay path, suffix)
    known_hit = {}
    log = []

    # ---- 1. proof obligations
    names = theorems_of(pid)
    module = f"Coraza.Properties.{pid}"
    rc, out = build_lean(prop_modules(pid) + ["driver"])
    obligations = len(names)
    discharged = 0
    thm_axioms = {}
    proof_ok = True
    proof_msg = ""
    if rc != 0:
        proof_ok = False
        proof_msg = "lake build failed:\n" + out[-4000:]
    else:
        hits = source_audit()
        if hits:
            proof_ok = False
            proof_msg = "forbidden construct in Lean sources:\n" + "\n".join(hits)
        rc2, out2, thm_axioms = axiom_audit(pid, names)
        for n in names:
            ax = thm_axioms.get(n)
            if ax is not None and set(ax) <= ALLOWED_AXIOMS:
                discharged += 1
            else:
                proof_ok = False
                proof_msg += f"\ntheorem {n}: axioms {ax} not admissible / not found\n" + out2[-1500:]
        if tier == "thorough" and proof_ok and cfg.get("leanchecker", True):
            rc3, out3 = run(["lake", "env", "leanchecker", module], cwd=LEAN)
            if rc3 != 0:
                proof_ok = False
                proof_msg += "\nleanchecker failed:\n" + out3[-2000:]
    checker_cmd = f"cd lean && lake build {module} && lake env lean ../.work/{pid}/Audit.lean" + (
        f" && lake env leanchecker {module}" if tier == "thorough" else "")

    # ---- 2. harness from /repo's current tree
    rc, out = build_harness()
    if rc != 0:
        # the tree does not compile with hooks on: nothing can be said
        p = write_replay(pid, seed, 0, "harness build failed against /repo working tree\n" + out[-4000:])
        print(out[-3000:])
        print(f"VIOLATION property={pid} replay={p} no-failing-input-found")
        write_evidence(pid, tier, seed, cfg, t0, dict(obligations=obligations, discharged=discharged, checker_cmd=checker_cmd,
                       theorems=thm_axioms, evaluations=0, distinct=0, samples=["<harness build failed>"], dist={}, agree=0,
                       known=[], corpus=0, open_statements=cfg.get("open_statements", [])), 1)
        return 1

    # ---- 3. correspondence: corpus, then generated cases
    total = 0
    agree = 0
    distinct = set()
    samples = []
    dist = {}
    corpus_n = 0
    bad = []   # (engine, line, verdict)
    for eng in cfg["engines"]:
        ename = eng["name"]
        all_lines = []
        cdir = os.path.join(ROOT, "corpus", pid)
        clhs = []
        if os.path.isdir(cdir):
            for f in sorted(os.listdir(cdir)):
                for l in open(os.path.join(cdir, f)):
                    l = l.strip()
                    if l and not l.startswith("#") and l.split(" ")[0] == ename:
                        clhs.append(lhs_of(l))
        if clhs:
            all_lines += corr_exec(clhs, wd, ename + ".corpus")
            corpus_n += len(clhs)
        n = eng[tier] if tier in eng else eng["quick"]
        shards = eng.get("shards", 1) if tier == "thorough" else 1
        binary = CORR
        penv = dict(os.environ)
        if eng.get("race"):
            # this engine runs under the Go race detector; its reports go to .work/tmp/race.*
            rcb, outb = build_harness(outname="corr.race", race=True)
            if rcb != 0:
                bad.append((ename, f"{ename} <race build failed> {outb[-500:]!r}", "E build"))
                continue
            binary = os.path.join(BIN, "corr.race")
            penv["GORACE"] = "log_path=" + os.path.join(WORK, "tmp", "race") + " halt_on_error=0"
            for f in os.listdir(os.path.join(WORK, "tmp")):
                if f.startswith("race."):
                    os.remove(os.path.join(WORK, "tmp", f))
        if eng.get("alt_build"):
            # the same harness built with other tags, run as a coprocess by the engine (C13: no_memoize)
            err = prepare_alt_build(eng["alt_build"])
            if err:
                bad.append((ename, f"{ename} <{eng['alt_build']['outname']} build failed> {err[-500:]!r}", "E build"))
                continue
            penv = dict(os.environ)
        procs = []
        for s in range(shards):
            cases = os.path.join(wd, f"{ename}.{s}.cases")
            stats = os.path.join(wd, f"{ename}.{s}.stats")
            cmd = [binary, ename, "-seed", str(seed * 1000 + s), "-n", str(n // shards), "-tier", tier, "-out", cases, "-stats", stats]
            if eng.get("script"):
                cmd = [sys.executable, os.path.join(ROOT, eng["script"]), binary, os.path.join(wd, ename + ".sweep"), tier,
                       str(seed), cases, stats]
            if eng.get("arg"):
                cmd += ["-arg", eng["arg"]]
            procs.append((subprocess.Popen(cmd, cwd=ROOT, env=penv, stdout=subprocess.PIPE, stderr=subprocess.STDOUT, text=True), cases, stats, cmd))
        for pr, cases, stats, cmd in procs:
            o, _ = pr.communicate()
            if pr.returncode not in (0, 66):
                # a generator process that died (the Go runtime aborts when the machine is out of memory or
                # processes) is run once more on its own; only a crash that repeats is reported
                pr = subprocess.run(cmd, cwd=ROOT, env=penv, stdout=subprocess.PIPE, stderr=subprocess.STDOUT, text=True)
                o = (o or "")[-400:] + "\n--- second attempt ---\n" + (pr.stdout or "")
                dist["engine-process-retried"] = dist.get("engine-process-retried", 0) + 1
            if pr.returncode == 66 and eng.get("race") and os.path.exists(cases) and os.path.exists(stats):
                pass   # the race detector's exit code: races were reported; the lines carry races=N and are judged below
            elif pr.returncode != 0:
                bad.append((ename, f"{ename} <generator crashed rc={pr.returncode}> {o[-800:]!r}", "E crash"))
                continue
            all_lines += [l.rstrip("\n") for l in open(cases)]
            st = json.load(open(stats))
            for k, v in st["distribution"].items():
                dist[k] = dist.get(k, 0) + v
        verd = judge_lines(all_lines, wd, ename + ".all")
        if len(verd) != len(all_lines):
            bad.append((ename, f"{ename} <driver returned {len(verd)} verdicts for {len(all_lines)} lines>", "E driver"))
        nt = cfg.get("nontrivial", lambda l, v: True)
        for l, v in zip(all_lines, verd):
            total += 1
            k = klass(v)
            if k == "A":
                agree += 1
            if k in ("A", "X1"):
                if nt(l, v):
                    distinct.add(hashlib.sha1(l.encode()).digest()[:8])
                    if len(samples) < 5:
                        samples.append(l[:400])
            else:
                bad.append((ename, l, v))
            if k.startswith("X"):
                dist["unmodelled-input"] = dist.get("unmodelled-input", 0) + 1
        if DRIVER_GAVE_UP[0]:
            dist["driver-gave-up"] = DRIVER_GAVE_UP[0]

    # ---- 4. verdicts
    unlisted_p0 = []
    unlisted_d1 = []
    for (ename, l, v) in bad:
        f = match_finding(pid, l, findings, v)
        if f is not None:
            known_hit.setdefault(f["id"], (f, l))
            continue
        (unlisted_p0 if klass(v) in ("D0", "X0", "V0") else unlisted_d1).append((ename, l, v))
    idx = 0
    for (ename, l, v) in unlisted_p0[:3]:
        idx += 1
        try:
            sl, sv = shrink(l, klass(v), wd)
        except Exception as e:  # noqa
            sl, sv = l, v
        f = match_finding(pid, sl, findings, sv)
        if f is not None:
            known_hit.setdefault(f["id"], (f, sl))
            continue
        p = write_replay(pid, seed, idx, f"# property {pid}: the monitor predicate is FALSE on the implementation's observed output\n"
                         f"# verdict: {sv}\n# original: {l}\n{sl}\n")
        violations.append((p, ""))
    if not violations and len(unlisted_p0) > 3:
        pass
    if not violations and unlisted_d1:
        # correspondence broke but P held on that observation: look for a failing input nearby
        ename, l, v = unlisted_d1[0]
        found = search(pid, cfg, ename, l, wd, seed, findings)
        idx += 1
        if found:
            p = write_replay(pid, seed, idx, f"# property {pid}: correspondence model≠implementation broke; search found a failing input\n"
                             f"# first disagreement: {l}\n# model said: {v}\n{found}\n")
            violations.append((p, ""))
        else:
            try:
                sl, sv = shrink(l, klass(v), wd)
            except Exception:  # noqa
                sl, sv = l, v
            p = write_replay(pid, seed, idx, f"# property {pid}: correspondence `{ename}` (Lean model vs /repo implementation) no longer holds;\n"
                             f"# theorems of Coraza.Properties.{pid} therefore no longer speak about this code.\n"
                             f"# {len(unlisted_d1)} disagreeing case(s); smallest found:\n# verdict (model output): {sv}\n{sl}\n")
            violations.append((p, " no-failing-input-found"))
    if not proof_ok and not violations:
        found = None
        idx += 1
        p = write_replay(pid, seed, idx, f"# property {pid}: proof obligation no longer checks\n# module Coraza.Properties.{pid}\n{proof_msg}\n")
        violations.append((p, " no-failing-input-found"))

    for fid, (f, l) in sorted(known_hit.items()):
        print(f"KNOWN-FINDING: property={pid} {fid} {f['what']} [case: {l[:200]}]")
    for p, suf in violations:
        print(f"VIOLATION property={pid} replay={p}{suf}")
    write_evidence(pid, tier, seed, cfg, t0, dict(obligations=obligations, discharged=discharged, checker_cmd=checker_cmd,
                   theorems=thm_axioms, evaluations=total, distinct=len(distinct), samples=samples or ["<none>"], dist=dist,
                   agree=agree, known=sorted(known_hit), corpus=corpus_n, open_statements=cfg.get("open_statements", [])),
                   len(violations))
    print(f"[{pid} {tier}] theorems {discharged}/{obligations}, cases {total}, agree {agree}, distinct-nontrivial {len(distinct)}, "
          f"known-findings {len(known_hit)}, violations {len(violations)}, {time.time() - t0:.1f}s")
    if not violations and not os.environ.get("VERIF_KEEP_CASES"):
        # the case and verdict files of a thorough run are gigabytes: what matters is in the evidence file and the replays
        for f in os.listdir(wd):
            if f.endswith((".cases", ".cases2", ".verd", ".lhs")) or re.search(r"\.cases\.\d+$", f):
                try:
                    os.remove(os.path.join(wd, f))
                except OSError:
                    pass
    return 1 if violations else 0


def search(pid, cfg, ename, line, wd, seed, findings):
    """after a correspondence break: targeted sweep for an input on which P fails"""
    focus = lhs_of(line).split(" ")[1] if len(lhs_of(line).split(" ")) > 1 else ""
    for k in range(4):
        cases = os.path.join(wd, f"search.{k}.cases")
        stats = os.path.join(wd, f"search.{k}.stats")
        n_search = next((e.get("search_n", 50000) for e in cfg["engines"] if e["name"] == ename), 50000)
        rc, o = corr_gen(ename, seed * 7919 + k + 1, n_search, "thorough", cases, stats, arg="focus=" + focus)
        if rc != 0:
            continue
        lines = [l.rstrip("\n") for l in open(cases)]
        verd = judge_lines(lines, wd, "search")
        for l, v in zip(lines, verd):
            if klass(v) in ("D0", "X0", "V0") and match_finding(pid, l, findings, v) is None:
                try:
                    sl, _ = shrink(l, klass(v), wd)
                except Exception:  # noqa
                    sl = l
                return sl
    return None


def write_evidence(pid, tier, seed, cfg, t0, c, nviol):
    os.makedirs(os.path.join(ROOT, "evidence"), exist_ok=True)
    ev = {
        "property_id": pid, "tier": tier, "seed": seed, "level": "proof",
        "coverage": {
            "obligations": c["obligations"], "discharged": c["discharged"], "checker_cmd": c["checker_cmd"],
            "trusted_base": cfg.get("trusted_base", props.TRUSTED_BASE),
            "theorems": [{"name": k, "axioms": v} for k, v in sorted(c["theorems"].items())],
            "open_statements": c["open_statements"],
            "evaluations": c["evaluations"], "distinct_nontrivial": c["distinct"],
            "rule": cfg.get("rule", ""), "samples": c["samples"],
            "traces_validated_against_impl": c["agree"],
            "distribution": c["dist"], "known_findings_hit": c["known"], "corpus_replayed": c["corpus"],
            "modelled_vs_verified": cfg.get("modelled", ""),
        },
        "assumptions": cfg.get("assumptions", []),
        "wall_s": round(time.time() - t0, 2),
        "violations": nviol,
    }
    with open(os.path.join(ROOT, "evidence", pid + ".json"), "w") as w:
        json.dump(ev, w, indent=1)


def replay(pid, path):
    PROP[0] = pid
    wd = os.path.join(WORK, pid + ".replay")
    os.makedirs(wd, exist_ok=True)
    rc, out = build_lean(["driver"])
    if rc != 0:
        print(out)
        return 2
    rc, out = build_harness()
    if rc != 0:
        print(out)
        return 2
    for eng in props.PROPS[pid]["engines"]:
        if eng.get("alt_build"):
            err = prepare_alt_build(eng["alt_build"])
            if err:
                print(err)
                return 2
    lhs = [lhs_of(l.strip()) for l in open(path) if l.strip() and not l.startswith("#")]
    full = corr_exec(lhs, wd)
    verd = judge_lines(full, wd)
    bad = 0
    for l, v in zip(full, verd):
        print(v, "|", l)
        if klass(v) != "A" and klass(v) != "X1":
            bad += 1
    if bad:
        print(f"VIOLATION property={pid} replay={path}")
    return 1 if bad else 0


def setup():
    os.makedirs(WORK, exist_ok=True)
    t0 = time.time()
    rc, out = build_lean([])
    print(out[-3000:])
    if rc != 0:
        return 1
    mods = [m for p in sorted(props.PROPS) for m in prop_modules(p)]
    rc, out = build_lean(mods + ["driver"])
    print(out[-3000:])
    if rc != 0:
        return 1
    rc, out = build_harness()
    print(out[-3000:])
    print(f"setup done in {time.time() - t0:.0f}s")
    return rc


def main():
    a = sys.argv[1:]
    if not a:
        print(__doc__)
        return 2
    if a[0] == "--setup":
        return setup()
    pid = a[0]
    if pid not in props.PROPS:
        print("unknown property", pid)
        return 2
    if len(a) >= 3 and a[1] == "--replay":
        return replay(pid, a[2])
    tier = a[1] if len(a) > 1 else os.environ.get("VERIF_TIER", "quick")
    seed = int(os.environ.get("VERIF_SEED", "1"))
    return check(pid, tier, seed)


if __name__ == "__main__":
    sys.exit(main())
