#!/usr/bin/env python3
"""show the sections of engine observations that differ between impl and model"""
import sys, json
cases, verd = sys.argv[1], sys.argv[2]
lim = int(sys.argv[3]) if len(sys.argv) > 3 else 10
n = 0
for l, v in zip(open(cases), open(verd)):
    if not v.startswith("D"):
        continue
    impl = l.rstrip("\n").split(" => ")[1].split(" ; ")
    model = v.rstrip("\n").split(" ", 2)[2].split(" ; ")
    print("CASE#", n)
    for a, b in zip(impl, model):
        if a != b:
            print("   impl :", a[:300]); print("   model:", b[:300])
    if "-v" in sys.argv:
        print("   ", l.split(" => ")[0][:3000])
    n += 1
    if n >= lim:
        break
