#!/usr/bin/env python3
"""Translator: tables of /repo's Go source → Lean definitions (regenerated on every run, so the
theorems and the driver are checked against what the code says now).

  internal/transformations/unicode_bestfit.go  unicodeBestFitASCII  → Coraza.Tf.bestFitTable
  internal/variables/variablesmap.gen.go, internal/corazawaf/rule.go (caseSensitiveVariable), internal/actions/*.go
  (registrations and Type()), internal/transformations/transformations.go (registrations), base64decode.go (base64DecMap)
                                               → Coraza.Generated.{variables, caseSensitiveVars, actions, transformations, base64DecMap}
  (hand-written expectations in the models are tied to these by `decide` theorems: a changed table breaks a proof obligation)

Writes lean/Coraza/Model/Generated/BestFit.lean only when the content changes (keeps lake's cache)."""
import os, re, sys
ROOT = os.path.dirname(os.path.dirname(os.path.abspath(__file__)))
REPO = os.environ.get("VERIF_REPO", "/repo")


def bestfit():
    src = open(os.path.join(REPO, "internal/transformations/unicode_bestfit.go")).read()
    m = re.search(r"var unicodeBestFitASCII = map\[rune\]byte\{(.*?)\n\}", src, re.S)
    if not m:
        raise SystemExit("gen_lean_tables: unicodeBestFitASCII not found")
    pairs = re.findall(r"^\s*(0x[0-9a-fA-F]+)\s*:\s*(0x[0-9a-fA-F]+|'(?:\\.|[^'])')\s*,", m.group(1), re.M)
    body_lines = [l for l in m.group(1).split("\n") if l.strip() and not l.strip().startswith("//")]
    if len(pairs) != len(body_lines):
        raise SystemExit(f"gen_lean_tables: {len(body_lines)} table lines but {len(pairs)} parsed")
    out = []
    for k, v in pairs:
        if v.startswith("'"):
            c = v[1:-1]
            v = hex(ord(bytes(c, "latin1").decode("unicode_escape")))
        out.append((int(k, 16), int(v, 16)))
    if len(set(k for k, _ in out)) != len(out):
        raise SystemExit("gen_lean_tables: duplicate key (Go would not compile)")
    return out


def rd(rel):
    return open(os.path.join(REPO, rel)).read()


def go_str(tok):
    """a Go interpreted string literal without escapes"""
    if "\\" in tok:
        raise SystemExit("gen_lean_tables: escape in string literal " + tok)
    return tok[1:-1]


def variables_tables():
    """internal/variables/variablesmap.gen.go: rulemapRev (the names variables.Parse accepts), Name(), CanBeSelected();
    internal/corazawaf/rule.go: caseSensitiveVariable"""
    src = rd("internal/variables/variablesmap.gen.go")
    m = re.search(r"var rulemapRev = map\[string\]RuleVariable\{(.*?)\n\}", src, re.S)
    rev = re.findall(r'^\s*("[^"]*")\s*:\s*(\w+),\s*$', m.group(1), re.M)
    if len(rev) != len([l for l in m.group(1).split("\n") if l.strip()]):
        raise SystemExit("gen_lean_tables: rulemapRev not fully parsed")
    nm = re.search(r"func \(v RuleVariable\) Name\(\) string \{\s*switch v \{(.*?)\n\t\}", src, re.S)
    names = dict(re.findall(r'case (\w+):\s*return ("[^"]*")', nm.group(1)))
    cs = re.search(r"func \(v RuleVariable\) CanBeSelected\(\) bool \{\s*switch v \{(.*?)\n\t\}", src, re.S)
    sel = set(re.findall(r"case (\w+):\s*return true", cs.group(1)))
    if len(re.findall(r"case ", cs.group(1))) != len(sel):
        raise SystemExit("gen_lean_tables: CanBeSelected has a case that is not `return true`")
    rows = sorted((go_str(k), go_str(names[ident]), ident in sel) for k, ident in rev)
    rule = rd("internal/corazawaf/rule.go")
    f = re.search(r"func caseSensitiveVariable\(v variables\.RuleVariable\) bool \{\s*res := false\s*switch v \{\s*case (.*?):\s*res = true\s*\}\s*return res\s*\}", rule, re.S)
    if not f:
        raise SystemExit("gen_lean_tables: caseSensitiveVariable has another shape")
    idents = re.findall(r"variables\.(\w+)", f.group(1))
    return rows, sorted(go_str(names[i]) for i in idents)


def actions_table():
    """internal/actions/actions.go registrations, each constructor's struct and its Type()"""
    types = dict((n, int(v)) for n, v in re.findall(r"(ActionType\w+) ActionType = (\d+)", rd("experimental/plugins/plugintypes/action.go")))
    d = os.path.join(REPO, "internal/actions")
    allsrc = "\n".join(open(os.path.join(d, f)).read() for f in sorted(os.listdir(d)) if f.endswith(".go") and not f.endswith("_test.go"))
    regs = re.findall(r'^\tRegister\(("[^"]*"), (\w+)\)', rd("internal/actions/actions.go"), re.M)
    rows = []
    for name, ctor in regs:
        c = re.search(r"func %s\(\) plugintypes\.Action \{\s*return &(\w+)\{\}\s*\}" % re.escape(ctor), allsrc)
        if not c:
            raise SystemExit("gen_lean_tables: constructor of action " + name)
        t = re.search(r"func \(\w+ \*%s\) Type\(\) plugintypes\.ActionType \{\s*return plugintypes\.(\w+)\s*\}" % re.escape(c.group(1)), allsrc)
        if not t:
            raise SystemExit("gen_lean_tables: Type() of action " + name)
        rows.append((go_str(name).lower(), types[t.group(1)]))   # actions are looked up lower-cased (actions.Get)
    return sorted(rows)


def transformations_table():
    regs = re.findall(r'^\tRegister\(("[^"]*"), (\w+)\)', rd("internal/transformations/transformations.go"), re.M)
    return sorted((go_str(n).lower(), f) for n, f in regs)


def base64_table():
    m = re.search(r"var base64DecMap = \[\]byte\{(.*?)\}", rd("internal/transformations/base64decode.go"), re.S)
    vals = [int(x) for x in re.findall(r"\d+", m.group(1))]
    if len(vals) != 128:
        raise SystemExit(f"gen_lean_tables: base64DecMap has {len(vals)} entries")
    return vals


def lit(s):
    if not all(32 <= ord(c) < 127 and c not in '"\\' for c in s):
        raise SystemExit("gen_lean_tables: unexpected character in name " + repr(s))
    return '(b!"%s")' % s


def write_if_changed(name, txt):
    d = os.path.join(ROOT, "lean", "Coraza", "Model", "Generated")
    os.makedirs(d, exist_ok=True)
    p = os.path.join(d, name)
    if not os.path.exists(p) or open(p).read() != txt:
        open(p, "w").write(txt)
        print(f"gen_lean_tables: wrote {p}")
    else:
        print(f"gen_lean_tables: {p} up to date")


def tables():
    vars_, cs = variables_tables()
    acts, tfs, b64 = actions_table(), transformations_table(), base64_table()
    L = ["/- GENERATED by tools/gen_lean_tables.py from /repo (internal/variables/variablesmap.gen.go, internal/corazawaf/rule.go,",
         "   internal/actions/*.go, internal/transformations/transformations.go, base64decode.go) — do not edit -/",
         "import Coraza.Base.Lit", "namespace Coraza.Generated", "open Coraza", "",
         f"/-- rulemapRev / Name() / CanBeSelected(): accepted name (upper case), canonical name, selectable ({len(vars_)} entries, sorted) -/",
         "def variables : List (Bytes × Bytes × Bool) := ["]
    L += ["  " + ",\n  ".join(f"({lit(k)}, {lit(c)}, {'true' if s else 'false'})" for k, c, s in vars_) + "]", "",
          "/-- caseSensitiveVariable (rule.go): canonical names -/",
          "def caseSensitiveVars : List Bytes := [" + ", ".join(lit(n) for n in cs) + "]", "",
          f"/-- actions.Register + Type(): lower-cased name, ActionType ({len(acts)} entries, sorted) -/",
          "def actions : List (Bytes × Nat) := [", "  " + ",\n  ".join(f"({lit(n)}, {t})" for n, t in acts) + "]", "",
          f"/-- transformations.Register: lower-cased name, Go function ({len(tfs)} entries, sorted) -/",
          "def transformations : List (Bytes × Bytes) := [", "  " + ",\n  ".join(f"({lit(n)}, {lit(f)})" for n, f in tfs) + "]", "",
          "/-- base64DecMap (base64decode.go) -/",
          "def base64DecMap : List UInt8 := [" + ", ".join(str(v) for v in b64) + "]", "",
          "end Coraza.Generated", ""]
    write_if_changed("Tables.lean", "\n".join(L))


def main():
    tables()
    t = bestfit()
    lines = ["/- GENERATED by tools/gen_lean_tables.py from /repo/internal/transformations/unicode_bestfit.go — do not edit -/",
             "import Coraza.Base.Bytes", "namespace Coraza.Tf", "",
             f"/-- unicodeBestFitASCII ({len(t)} entries): code point ↦ ASCII byte -/",
             "def bestFitTable : List (Nat × UInt8) := ["]
    for i in range(0, len(t), 8):
        chunk = ", ".join(f"(0x{k:04x}, 0x{v:02x})" for k, v in t[i:i + 8])
        lines.append("  " + chunk + ("," if i + 8 < len(t) else ""))
    lines += ["]", "", "end Coraza.Tf", ""]
    txt = "\n".join(lines)
    d = os.path.join(ROOT, "lean", "Coraza", "Model", "Generated")
    os.makedirs(d, exist_ok=True)
    p = os.path.join(d, "BestFit.lean")
    if not os.path.exists(p) or open(p).read() != txt:
        open(p, "w").write(txt)
        print(f"gen_lean_tables: wrote {p} ({len(t)} entries)")
    else:
        print(f"gen_lean_tables: {p} up to date ({len(t)} entries)")


if __name__ == "__main__":
    main()
