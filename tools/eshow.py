#!/usr/bin/env python3
import json, sys
cases=[l for l in open(sys.argv[1])]
verd=[l for l in open(sys.argv[2])]
ds=[i for i,v in enumerate(verd) if v.startswith('D')]
def uf(h): return '' if h=='-' else bytes.fromhex(h).decode('latin1')
def show(k):
    i=ds[k]
    c=json.loads(cases[i].split(' => ')[0][4:])
    print("CASE#",k,"mode",c['mode'],"calls",c['calls'])
    print(" get",[(uf(a),uf(b)) for a,b in c['get']]," post",[(uf(a),uf(b)) for a,b in c['post']]," hdr",[(uf(a),uf(b)) for a,b in c['hdr']])
    for r in c['rules']:
        if r['id']==0: print("  MARKER",uf(r['mk'])); continue
        print("  rule",r['id'],"ph",r['ph'],"disr",r['disr'],"st",r['st'],"skip",r['skip'],"sa",uf(r['sa']),"sev",r['sev'],"tags",[uf(t) for t in r['tags']],"log",r['log'])
        for l in r['links']:
            tg=[("&" if t['c'] else "")+t['v']+":"+uf(t['k'])+"".join("|!"+uf(x) for x in t['x']) for t in l['tg']]
            op=l['op'] and (("!" if l['op']['neg'] else "")+"@"+l['op']['n']+" "+uf(l['op']['a']))
            na=[]
            for a in l['na']:
                if a['n']=='setvar': na.append("setvar:"+("!" if a.get('rm') else "")+"tx."+uf(a['k'])+("" if a.get('rm') else "="+uf(a.get('v','-'))))
                else: na.append(str(a))
            print("     ",tg,op,l['tfs'],"MM" if l['mm'] else "",na)
    impl = cases[i].rstrip("\n").split(" => ")[1].split(" ; ")
    model = verd[i].rstrip("\n").split(" ", 2)[2].split(" ; ")
    for a, b in zip(impl, model):
        if a != b:
            print("   impl :", a[:400]); print("   model:", b[:400])
for k in map(int,sys.argv[3:]): show(k); print()
