#!/bin/sh
# re-confirm every stored seed against /repo HEAD (demo without/with patch, build, suites); updates meta.json "confirmed"
cd /verif
for d in seeded/*/; do
  n=$(basename $d)
  [ -f $d/demo_test.go ] || { echo "$n: no demo"; continue; }
  grep -q '"demo_with_patch_fails": true' $d/meta.json && grep -q '"builds": true' $d/meta.json && { echo "$n: already confirmed"; continue; }
  pkg=.
  nice -n 10 tools/confirm_seed.sh /verif/$d $n $pkg > /dev/null 2>&1
  python3 - "$n" <<'PY'
import json,sys
n=sys.argv[1]
p=f'/verif/seeded/{n}/meta.json'; m=json.load(open(p))
try: conf=open(f'/verif/.work/confirm-{n}.log').read()
except Exception: conf=""
c=m.setdefault('confirmed',{})
c['demo_without_patch_passes']="DEMO_WITHOUT=0" in conf
c['demo_with_patch_fails']="DEMO_WITH=1" in conf
c['builds']="BUILD=0" in conf
c['applies']="APPLY_FAIL" not in conf
c['reconfirmed_at_repo_head']=True
json.dump(m,open(p,'w'),indent=1)
print(n, c['demo_without_patch_passes'], c['demo_with_patch_fails'], c['builds'], c['applies'])
PY
done
