#!/bin/sh
# usage: tools/confirm_seed.sh <seed out dir> <name> [demo pkg dir relative to repo root, default .]
# Confirms in a scratch worktree: patch applies+builds, full suites pass with it, demo fails with / passes without.
set -u
SRC="$1"; NAME="$2"; PKG="${3:-.}"
# the tests of the demonstration, by name; its package directory from the package clause when not given
RUN="^($(grep -ho '^func Test[A-Za-z0-9_]*' "$SRC/demo_test.go" | sed 's/^func //' | paste -sd'|'))\$"
if [ "$PKG" = "." ]; then
  case "$(grep -m1 '^package' "$SRC/demo_test.go" | awk '{print $2}')" in
    http|http_test) PKG=http ;;
    corazawaf|corazawaf_test) PKG=internal/corazawaf ;;
    seclang|seclang_test) PKG=internal/seclang ;;
    operators|operators_test) PKG=internal/operators ;;
    transformations|transformations_test) PKG=internal/transformations ;;
    bodyprocessors|bodyprocessors_test) PKG=internal/bodyprocessors ;;
    auditlog|auditlog_test) PKG=internal/auditlog ;;
  esac
fi
WT=/tmp/confirm-$NAME
LOG=/verif/.work/confirm-$NAME.log
mkdir -p /verif/.work
git -C /repo worktree remove --force $WT >/dev/null 2>&1
git -C /repo worktree add --detach $WT HEAD >/dev/null 2>&1 || exit 2
cd $WT
{
echo "== demo WITHOUT patch"
cp "$SRC/demo_test.go" $PKG/zz_seed_demo_test.go
go test -count=1 -run "$RUN" ./$PKG/ 2>&1 | tail -3; echo "demo_without_rc=$?"
go test -count=1 ./$PKG/ -run "$RUN" >/dev/null 2>&1; echo "DEMO_WITHOUT=$?"
git apply "$SRC/patch.diff" || { echo "APPLY_FAIL"; }
echo "== demo WITH patch"
go test -count=1 ./$PKG/ -run "$RUN" >/dev/null 2>&1; echo "DEMO_WITH=$?"
rm -f $PKG/zz_seed_demo_test.go
echo "== full suite WITH patch"
go build ./... ; echo "BUILD=$?"
go test -count=1 ./... 2>&1 | grep -v "^ok\|no test files" | tail -15
cd testing/coreruleset && go test -count=1 ./... 2>&1 | tail -3
} > $LOG 2>&1
cd /; git -C /repo worktree remove --force $WT
grep -E "DEMO_|BUILD=|FAIL|APPLY" $LOG | sort | uniq -c | head -20
