#!/bin/sh
# usage: tools/confirm_batch.sh <prefix> name:pkg ...   e.g. tools/confirm_batch.sh /tmp/s3 C01: C05:
# runs tools/confirm_seed.sh sequentially for <prefix>-<name>-out as seed <name>-3
PFX="$1"; shift
for it in "$@"; do
  n=${it%%:*}; pkg=${it#*:}; [ -z "$pkg" ] && pkg=.
  echo "== $n ($pkg)"; /verif/tools/confirm_seed.sh $PFX-$n-out $n-3 $pkg
done
