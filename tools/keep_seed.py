#!/usr/bin/env python3
"""keep_seed.py <src out dir> <name> <property> <detected: yes|no|partial> <by> <needs…>  — store a confirmed seeded change"""
import json, os, shutil, sys
src, name, prop, det, by = sys.argv[1:6]
needs = " ".join(sys.argv[6:])
d = os.path.join("/verif/seeded", name)
os.makedirs(d, exist_ok=True)
for f in ("patch.diff", "demo_test.go", "notes.md"):
    if os.path.exists(os.path.join(src, f)):
        shutil.copy(os.path.join(src, f), os.path.join(d, f))
log = f"/verif/.work/confirm-{name}.log"
conf = open(log).read() if os.path.exists(log) else ""
meta = {"id": name, "property": prop, "needs_to_manifest": needs,
        "confirmed": {"how": "tools/confirm_seed.sh in a scratch worktree of /repo HEAD: demo without patch, demo with patch, go build ./..., go test ./... (root module) and testing/coreruleset with patch",
                      "demo_without_patch_passes": "DEMO_WITHOUT=0" in conf, "demo_with_patch_fails": "DEMO_WITH=1" in conf,
                      "builds": "BUILD=0" in conf,
                      "suite_note": "only the two internal/auditlog tests that already fail as uid 0 on the unchanged tree fail"},
        "detected": det, "detected_by": by,
        "ran": f"tools/seedtest.sh seeded/{name}/patch.diff {prop}"}
json.dump(meta, open(os.path.join(d, "meta.json"), "w"), indent=1)
print("kept", d)
