#!/bin/sh
# background sweep (vp run --with-repo): quick tier of every property under several seeds on the
# snapshot of /repo; prints one line per (property, seed); any rc!=0 is a false alarm to look at
cd "$(dirname "$0")/.."
[ -n "${VP_RUN_REPO:-}" ] && export VERIF_REPO="$VP_RUN_REPO"
./check --setup > .sweep-setup.log 2>&1 || { echo "SETUP FAILED"; tail -20 .sweep-setup.log; exit 1; }
for seed in ${SWEEP_SEEDS:-2 3 4 5 6}; do
  for p in ${SWEEP_PROPS:-C01 C02 C03 C04 C05 C06 C07 C08 C09 C10 C11 C12 C13 C14 C15 C16 C17 C18 C19 C20}; do
    VERIF_SEED=$seed ./check $p ${SWEEP_TIER:-quick} > .sweep-$p-$seed.log 2>&1; rc=$?
    echo "seed=$seed $p rc=$rc $(tail -1 .sweep-$p-$seed.log | cut -c1-140)"
    if [ $rc -ne 0 ]; then grep "VIOLATION" .sweep-$p-$seed.log | head -3; fi
  done
done
