#!/usr/bin/env python3
"""Regenerates DESIGN.md: hand-written prose (tools/design_prose.md) + tables generated from
tools/claims.py, tools/props.py, evidence/*.json, seeded/*/meta.json and known_findings.json."""
import glob, json, os, re, sys
ROOT = os.path.dirname(os.path.dirname(os.path.abspath(__file__)))
sys.path.insert(0, os.path.join(ROOT, "tools"))
import claims, props  # noqa: E402

P = {json.loads(l)["id"]: json.loads(l) for l in open(os.path.join(ROOT, "properties.jsonl"))}


def prop_files(pid):
    d = os.path.join(ROOT, "lean", "Coraza", "Properties")
    return [os.path.join(d, f) for f in sorted(os.listdir(d)) if re.fullmatch(re.escape(pid) + r"[a-z]?\.lean", f)]


def theorems(pid):
    out = []
    for src in prop_files(pid):
        out += re.findall(r"^theorem\s+([^\s(:{\[]+)", re.sub(r"/-.*?-/", "", open(src).read(), flags=re.S), re.M)
    return out


def model_files(pid):
    out = []
    for src in prop_files(pid):
        for m in re.findall(r"^import\s+(\S+)", open(src).read(), re.M):
            if m not in out and not m.startswith("Coraza.Properties."):
                out.append(m)
    return out


def per_property():
    out = []
    for pid in sorted(P):
        p = P[pid]
        c = claims.CLAIMED.get(pid)
        cfg = props.PROPS.get(pid, {})
        out.append(f"### {pid} — {p['title']}\n")
        if not c:
            out.append("Not claimed.\n")
            continue
        out.append(f"*Claim.* {c['text']}\n")
        out.append(f"*Limits.* {c['note']}\n")
        ths = theorems(pid)
        out.append(f"*Lean.* " + ", ".join("`lean/Coraza/Properties/" + os.path.basename(f) + "`" for f in prop_files(pid)) + f" (imports {', '.join('`'+m+'`' for m in model_files(pid))}); "
                   f"{len(ths)} theorems: " + ", ".join("`" + t + "`" for t in ths) + ".\n")
        engs = ", ".join(f"`{e['name']}`" + (f" ({e.get('quick')} quick / {e.get('thorough')} thorough cases)" if 'quick' in e else "")
                         for e in cfg.get("engines", []))
        out.append(f"*Tie to /repo.* engines {engs}. {cfg.get('rule', '')}\n")
        out.append(f"*Modelled / not modelled.* {cfg.get('modelled', '')}\n")
        if cfg.get("assumptions"):
            out.append("*Assumptions.* " + "; ".join(cfg["assumptions"]) + ".\n")
        if cfg.get("open_statements"):
            out.append("*Open.* " + "; ".join(cfg["open_statements"]) + ".\n")
    return "\n".join(out)


def seeds_table():
    rows = ["| seed | property | detected | by / why not |", "|---|---|---|---|"]
    for f in sorted(glob.glob(os.path.join(ROOT, "seeded", "*", "meta.json"))):
        d = json.load(open(f))
        rows.append(f"| {d['id']} | {d['property']} | {d['detected']} | {d['detected_by'].replace('|', '/')} |")
    return "\n".join(rows)


def findings_table():
    rows = ["| id | property | status | commit | what |", "|---|---|---|---|---|"]
    for d in json.load(open(os.path.join(ROOT, "known_findings.json"))):
        rows.append(f"| {d['id']} | {d['property']} | {d['status']} | {d.get('commit', '-')} | {d['what'].replace('|', '/')} |")
    return "\n".join(rows)


def engines_table():
    rows = ["| engine | file | serves | what it does |", "|---|---|---|---|"]
    for e in claims.ENGINES:
        rows.append(f"| `{e['name']}` | {e['path']} | {', '.join(e['serves_properties'])} | {e['kind_free_text']} |")
    return "\n".join(rows)


prose = open(os.path.join(ROOT, "tools", "design_prose.md")).read()
prose = prose.replace("<<PER_PROPERTY>>", per_property()).replace("<<SEEDS>>", seeds_table())
prose = prose.replace("<<FINDINGS>>", findings_table()).replace("<<ENGINES>>", engines_table())
prose = prose.replace("<<HOOKS>>", ", ".join(claims.HOOK_COMMITS))
open(os.path.join(ROOT, "DESIGN.md"), "w").write(prose)
print("DESIGN.md written,", len(prose.splitlines()), "lines")
