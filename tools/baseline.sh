#!/bin/sh
# usage: tools/baseline.sh [repo dir]  — run the pinned suite (the command of /root/.vp/BASELINE.json) on a tree
# and list the stable tests of the baseline that do not pass; prints "BASELINE missing=<n>"
R="${1:-/repo}"
OUT=/verif/.work/baseline; mkdir -p $OUT
: > $OUT/run.json
for m in $(cat /w/out/gomods.txt); do
  MF=$(cd $R/$m && . /w/out/goenv.sh && gomodflag)
  (cd $R/$m && go test $MF -json -vet=off -count=1 -timeout 25m ./... ) >> $OUT/run.json 2>$OUT/err.txt
done
python3 - "$OUT/run.json" <<'PY'
import json,sys
passed=set()
for l in open(sys.argv[1]):
    try: d=json.loads(l)
    except Exception: continue
    if d.get('Action')=='pass' and d.get('Test'):
        passed.add(d['Package']+'::'+d['Test'])
base=json.load(open('/root/.vp/BASELINE.json'))['stable_pass']
missing=[t for t in base if t not in passed]
for t in missing[:40]: print("MISSING", t)
print(f"BASELINE stable={len(base)} passed_now={len(passed)} missing={len(missing)}")
PY
