#!/bin/sh
# usage: tools/confirm_batch2.sh dir:name ...   (dir = /tmp/s4-C03-out, name = C03-4)
for it in "$@"; do d=${it%%:*}; n=${it#*:}; echo "== $n"; /verif/tools/confirm_seed.sh $d $n .; done
