// Package gen holds the seeded generators shared by all correspondence engines.
// Every random choice derives from one PRNG so that a case replays exactly.
package gen

import (
	"encoding/hex"
	"math/rand"
	"sort"
	"strings"
)

type R struct{ *rand.Rand }

func New(seed int64) *R { return &R{rand.New(rand.NewSource(seed))} }

func (r *R) Pick(xs ...string) string { return xs[r.Intn(len(xs))] }
func (r *R) Chance(p float64) bool    { return r.Float64() < p }

// Field renders a byte string as a protocol field ("-" = empty, else lower hex).
func Field(s string) string {
	if s == "" {
		return "-"
	}
	return hex.EncodeToString([]byte(s))
}

func Unfield(f string) string {
	if f == "-" {
		return ""
	}
	b, err := hex.DecodeString(f)
	if err != nil {
		panic("bad field " + f)
	}
	return string(b)
}

func B01(b bool) string {
	if b {
		return "1"
	}
	return "0"
}

// Tokens is a small vocabulary of fragments that reach decoder branches.
var Tokens = []string{
	"%", "+", "%4", "%41", "%zz", "%2", "%25", "%u0041", "%u00", "%uFF01", "%U0041", "%u", "%u2019", "%uff1c", "%u00e9", "%uFF5E", "%u0131", "%u00A", "%u%41", "%u+", "%U00C", "%u212a", "%00", "%2b", "%2B", "%C3%A9",
	" ", "  ", "\t", "\n", "\r", "\f", "\v", "\x00", "\x00\x00", "\xa0", "\x85", "\xc2\xa0", "\xc2\x85",
	"\\", "\\x41", "\\x4", "\\x", "\\u0041", "\\u00", "\\101", "\\1", "\\8", "\\n", "\\\\", "\\\"", "\\'", "\\0", "\\a", "\\xzz", "\\uzzzz", "\\377", "\\400",
	"\\41 ", "\\000041", "\\0000411", "\\ff01", "\\FF5e", "\\d800", "\\110000", "\\ffffff", "\\\n", "\\1F600", "\\X41", "\\12", "\\7", "\\e9", "\\7ff", "\\800", "\\ffff", "\\10000", "\\?", "\\v", "\\41\t",
	"&", "&#", "&#x", "&#x41;", "&#65;", "&#65", "&lt;", "&lt", "&amp;", "&nLl;", "&nbsp;", "&quot;", "&#0;", "&#x110000;",
	"/*", "*/", "<!--", "-->", "--", "#", "/", "//", "/./", "/../", "..", ".", "\\", "a/../b",
	"A", "Z", "a", "z", "AbC", "0", "9", "f", "F", "g", "G", "=", "==", "Zm9v", "Zg==", "Zm8=", "-", "_", ".", "!",
	"\"", "'", ",", ";", "^", "(", ")", "cmd", "C M D", "ca^t", "\"c\"at", "/bin/sh",
	"\x80", "\xff", "\xc3\xa9", "\xe4\xbd\xa0", "\xf0\x9f\x98\x80", "\xc3", "\xe4\xbd", "\xed\xa0\x80", "\xc0\xaf", "\xef\xbc\x81",
	"İ", "K", "ſ", " ", "　", " ",
	// multi-byte white space split by ASCII white space or NUL (what is left after removing the inner byte is white space again)
	"\xc2 \x85", "\xc2\t\xa0", "\xe2 \x80\xa8", "\xe2\x80\n\xa8", "\xe3\x80 \x80", "\xc2\x00\xa0", "\xe2\x80\x00\x83", " \xc2", "\xa0 ",
}

// Bytes returns a random byte string made of vocabulary tokens and raw bytes.
func (r *R) Bytes(maxTok int) string {
	n := r.Intn(maxTok + 1)
	if r.Chance(0.02) {
		n = maxTok * 8
	}
	var sb strings.Builder
	for i := 0; i < n; i++ {
		switch r.Intn(10) {
		case 0, 1:
			sb.WriteByte(byte(r.Intn(256)))
		case 2:
			sb.WriteByte(byte(32 + r.Intn(95)))
		case 3:
			// repeat a run
			t := Tokens[r.Intn(len(Tokens))]
			k := 1 + r.Intn(4)
			for j := 0; j < k; j++ {
				sb.WriteString(t)
			}
		default:
			sb.WriteString(Tokens[r.Intn(len(Tokens))])
		}
	}
	return sb.String()
}

// ASCII returns a printable-ASCII string (letters, digits, a few symbols).
func (r *R) ASCII(maxLen int) string {
	const al = "abcdefghijklmnopqrstuvwxyzABCDEFGHIJKLMNOPQRSTUVWXYZ0123456789_-. %+/=&"
	n := r.Intn(maxLen + 1)
	b := make([]byte, n)
	for i := range b {
		b[i] = al[r.Intn(len(al))]
	}
	return string(b)
}

// Stats accumulates the input distribution reported in the evidence file.
type Stats struct {
	Counts map[string]int
}

func NewStats() *Stats { return &Stats{Counts: map[string]int{}} }
func (s *Stats) Hit(k string) {
	s.Counts[k]++
}
func (s *Stats) Keys() []string {
	ks := make([]string, 0, len(s.Counts))
	for k := range s.Counts {
		ks = append(ks, k)
	}
	sort.Strings(ks)
	return ks
}
