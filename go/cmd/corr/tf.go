package main

import (
	"fmt"
	"strings"

	"github.com/corazawaf/coraza/v3/experimental/verifhooks"
	"verifharness/internal/gen"
)

var tfNames = []string{
	"base64Decode", "base64DecodeExt", "base64Encode", "cmdLine", "compressWhitespace", "cssDecode",
	"escapeSeqDecode", "hexDecode", "hexEncode", "htmlEntityDecode", "jsDecode", "length", "lowercase",
	"md5", "none", "normalisePath", "normalisePathWin", "removeComments", "removeCommentsChar",
	"removeNulls", "removeWhitespace", "replaceComments", "replaceNulls", "sha1", "uppercase",
	"urlDecode", "urlDecodeUni", "urlEncode", "utf8toUnicode", "trim", "trimLeft", "trimRight",
}

// callTf runs one transformation under recover and renders the observation.
func callTf(name, in string) (obs string) {
	defer func() {
		if r := recover(); r != nil {
			obs = "PANIC"
		}
	}()
	t, err := verifhooks.Transformation(name)
	if err != nil {
		return "NOTFOUND"
	}
	keep := strings.Clone(in)
	out, changed, terr := t(in)
	if in != keep {
		return "MUTATED-INPUT"
	}
	// purity: same input, same output
	out2, changed2, terr2 := t(strings.Clone(keep))
	if out2 != out || changed2 != changed || (terr == nil) != (terr2 == nil) {
		return "IMPURE"
	}
	// aliasing: a later call on different input must not rewrite an earlier result
	saved := strings.Clone(out)
	t(keep + "\x01 Zz%41")
	t("q" + keep)
	if out != saved {
		return "ALIASED"
	}
	// the idempotence identities of the property statement (trimming, whitespace and NUL removal), on every input
	switch strings.ToLower(name) {
	case "trim", "trimleft", "trimright", "removenulls", "removewhitespace", "compresswhitespace":
		if again, _, _ := t(strings.Clone(out)); again != out {
			return "NOT-IDEMPOTENT"
		}
	}
	if terr != nil {
		return "- 0 1"
	}
	return fmt.Sprintf("%s %s 0", gen.Field(out), gen.B01(changed))
}

func init() {
	engines["tf"] = &engine{Exec: func(a []string) string { return callTf(a[0], gen.Unfield(a[1])) }, Gen: func(c *ctx) {
		for i := 0; i < c.n; i++ {
			name := tfNames[c.r.Intn(len(tfNames))]
			if strings.HasPrefix(c.arg, "focus=") {
				for _, n := range tfNames {
					if strings.ToLower(n) == c.arg[6:] {
						name = n
					}
				}
			}
			var in string
			switch c.r.Intn(6) {
			case 0:
				in = c.r.ASCII(12)
			case 1:
				// output of an encoder, to reach the decoders' happy paths
				enc := c.r.Pick("hexEncode", "base64Encode", "urlEncode")
				t, _ := verifhooks.Transformation(enc)
				in, _, _ = t(c.r.Bytes(6))
				if c.r.Chance(0.3) && len(in) > 0 {
					k := c.r.Intn(len(in))
					in = in[:k] + in[k+1:]
				}
			default:
				in = c.r.Bytes(8)
			}
			obs := c.run("tf", strings.ToLower(name), gen.Field(in))
			c.stats.Hit("tf:" + name)
			switch {
			case len(in) == 0:
				c.stats.Hit("len:0")
			case len(in) < 8:
				c.stats.Hit("len:1-7")
			case len(in) < 64:
				c.stats.Hit("len:8-63")
			default:
				c.stats.Hit("len:64+")
			}
			if strings.HasSuffix(obs, " 1") {
				c.stats.Hit("obs:error")
			} else if strings.HasSuffix(obs, " 1 0") {
				c.stats.Hit("obs:changed")
			} else {
				c.stats.Hit("obs:unchanged")
			}
		}
	}}
}
