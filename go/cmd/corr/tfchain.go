package main

import (
	"strings"

	coraza "github.com/corazawaf/coraza/v3"
	"github.com/corazawaf/coraza/v3/experimental/verifhooks"
	"verifharness/internal/gen"
)

// tfchain <mm 0|1> <names,comma> <in>  =>  <values handed to the operator…> | <result of every prefix of the list…>
// The first list comes from a real rule (MatchedDatas of @unconditionalMatch, with or without
// multiMatch); the second list is computed by calling the registered functions directly with the
// error-keeps-value rule of rule.go:740.
func execTfChain(a []string) string {
	mm := a[0] == "1"
	names := strings.Split(a[1], ",")
	in := gen.Unfield(a[2])
	var sb strings.Builder
	sb.WriteString(`SecRule ARGS_GET:x "@unconditionalMatch" "id:1,phase:1,pass,nolog,t:none`)
	for _, n := range names {
		sb.WriteString(",t:" + n)
	}
	if mm {
		sb.WriteString(",multiMatch")
	}
	sb.WriteString(`"`)
	waf, err := coraza.NewWAF(coraza.NewWAFConfig().WithDirectives(sb.String()))
	if err != nil {
		return "CONFIGERR"
	}
	tx := waf.NewTransaction()
	defer tx.Close()
	tx.AddGetRequestArgument("x", in)
	tx.ProcessRequestHeaders()
	var vals []string
	for _, mr := range tx.MatchedRules() {
		for _, md := range mr.MatchedDatas() {
			vals = append(vals, gen.Field(md.Value()))
		}
	}
	pre := []string{gen.Field(in)}
	v := in
	for _, n := range names {
		t, _ := verifhooks.Transformation(n)
		o, _, e := t(v)
		if e == nil {
			v = o
		}
		pre = append(pre, gen.Field(v))
	}
	return strings.Join(vals, " ") + " | " + strings.Join(pre, " ")
}

func init() {
	engines["tfchain"] = &engine{Exec: execTfChain, Gen: func(c *ctx) {
		pairs := [][]string{{"hexEncode", "hexDecode"}, {"base64Encode", "base64Decode"}, {"urlEncode", "urlDecode"},
			{"trim", "trim"}, {"trimLeft", "trimLeft"}, {"trimRight", "trimRight"}, {"removeNulls", "removeNulls"},
			{"removeWhitespace", "removeWhitespace"}, {"compressWhitespace", "compressWhitespace"}}
		for i := 0; i < c.n; i++ {
			var names []string
			if c.r.Chance(0.3) {
				names = pairs[c.r.Intn(len(pairs))]
				c.stats.Hit("chain:identity-pair")
			} else {
				k := 1 + c.r.Intn(4)
				for j := 0; j < k; j++ {
					n := tfNames[c.r.Intn(len(tfNames))]
					if n == "none" {
						// in SecLang `t:none` is not a function but "clear the list" (rule_parser); C16 covers it
						n = "trim"
					}
					names = append(names, n)
				}
				c.stats.Hit("chain:random")
			}
			for j := range names {
				names[j] = strings.ToLower(names[j])
			}
			mm := c.r.Chance(0.6)
			in := c.r.Bytes(6)
			if c.r.Chance(0.2) {
				in = c.r.ASCII(10)
			}
			if mm {
				c.stats.Hit("multimatch:on")
			} else {
				c.stats.Hit("multimatch:off")
			}
			c.run("tfchain", gen.B01(mm), strings.Join(names, ","), gen.Field(in))
		}
	}}
}
