package main

import (
	"fmt"
	"regexp"
	"strings"

	coraza "github.com/corazawaf/coraza/v3"
	"github.com/corazawaf/coraza/v3/experimental/plugins/plugintypes"
	"verifharness/internal/gen"
)

// capseq <P> <Q> <a> <b> exp=<TX.0..9 expected> => got=<TX.0..9 observed>
//
// Three capturing rules of one phase: `ARGS_GET:a @rx P`, `ARGS_GET:b @rx Q`, and one whose operator never
// matches. The capture slots TX.0-9 after the phase must be: empty slots, overwritten by the submatches of P
// on a if it matches, overwritten by those of Q on b if it matches (a group that took no part = ""), and left
// alone by a capturing rule that did not match. The expectation is computed with Go's regexp ("(?sm)"+pattern,
// what @rx compiles) and travels in the line; the driver compares.
func capSlots(store []string, pat, in string) []string {
	re, err := regexp.Compile("(?sm)" + pat)
	if err != nil {
		return store
	}
	m := re.FindStringSubmatchIndex(in)
	if m == nil {
		return store
	}
	for i := 0; i < len(m)/2 && i < 10; i++ {
		if m[2*i] >= 0 {
			store[i] = in[m[2*i]:m[2*i+1]]
		} else {
			store[i] = ""
		}
	}
	return store
}

func slotsField(s []string) string {
	out := make([]string, len(s))
	for i, x := range s {
		out[i] = gen.Field(x)
	}
	return strings.Join(out, ",")
}

func execCapSeq(a []string) string {
	p, q, va, vb := gen.Unfield(a[0]), gen.Unfield(a[1]), gen.Unfield(a[2]), gen.Unfield(a[3])
	esc := func(s string) string { return strings.ReplaceAll(s, `"`, `\"`) }
	waf, err := coraza.NewWAF(coraza.NewWAFConfig().WithDirectives("SecRuleEngine On\n" +
		`SecRule ARGS_GET:a "@rx ` + esc(p) + `" "id:1,phase:1,pass,capture"` + "\n" +
		`SecRule ARGS_GET:b "@rx ` + esc(q) + `" "id:2,phase:1,pass,capture"` + "\n" +
		`SecRule ARGS_GET:c "@rx zzzNEVERzzz" "id:3,phase:1,pass,capture"` + "\n" +
		`SecRule ARGS_GET:c "@streq nothing" "id:4,phase:1,pass,capture"` + "\n"))
	if err != nil {
		return "CONFIGERR"
	}
	defer closeWAF(waf)
	tx := waf.NewTransaction()
	defer tx.Close()
	tx.AddGetRequestArgument("a", va)
	tx.AddGetRequestArgument("b", vb)
	tx.AddGetRequestArgument("c", "zzz")
	tx.ProcessRequestHeaders()
	txc := tx.(plugintypes.TransactionState).Variables().TX()
	got := make([]string, 10)
	for i := range got {
		if v := txc.Get(fmt.Sprint(i)); len(v) > 0 {
			got[i] = v[0]
		}
	}
	return "got=" + slotsField(got)
}

func init() {
	pats := []string{"(a)(b)?", "^(\\w+)-(\\d+)$", "x", "(x)|(y)", "(?i)(ab)(c)?(d)?", "([a-z]+)=([^&]*)", "^$", "(\\d)(\\d)(\\d)", "((a)b)c", "(zz)+"}
	vals := []string{"ab", "a", "abc-12", "x", "y", "ABCD", "abd", "k=v&z=1", "", "123", "zzzz", "abc", "q"}
	engines["capseq"] = &engine{Exec: execCapSeq, Gen: func(c *ctx) {
		for i := 0; i < c.n; i++ {
			p, q := pats[c.r.Intn(len(pats))], pats[c.r.Intn(len(pats))]
			va, vb := vals[c.r.Intn(len(vals))], vals[c.r.Intn(len(vals))]
			exp := capSlots(capSlots(make([]string, 10), p, va), q, vb)
			c.run("capseq", gen.Field(p), gen.Field(q), gen.Field(va), gen.Field(vb), "exp="+slotsField(exp))
		}
	}}
}
