package main

import (
	"encoding/json"
	"fmt"
	"os"
	"path/filepath"
	"strconv"
	"strings"
	"sync"
	"sync/atomic"

	coraza "github.com/corazawaf/coraza/v3"
	"verifharness/internal/gen"
)

// conc <G> <M> <case0> <case1> … : the cases share one rule set and differ in the request.
//   1. every case alone on a fresh WAF                 -> expected outcome
//   2. G goroutines x M transactions on ONE shared WAF, while two goroutines keep building and
//      closing WAFs with the same patterns             -> every outcome must equal the expected one
//   => seq=<outcome of case0> mismatch=<n> races=<bytes of race-detector output> panics=<n>
// Build this binary with -race (check.py does for C06) and run it with GORACE=log_path=….

func raceLogSize() int64 {
	lp := ""
	for _, kv := range strings.Fields(os.Getenv("GORACE")) {
		if strings.HasPrefix(kv, "log_path=") {
			lp = kv[len("log_path="):]
		}
	}
	if lp == "" {
		return 0
	}
	var n int64
	ms, _ := filepath.Glob(lp + ".*")
	for _, m := range ms {
		if st, err := os.Stat(m); err == nil {
			n += st.Size()
		}
	}
	return n
}

var concSeq int64
var concAuditFile string // one audit log per conc/tfid invocation, removed when it ends

func buildConcWAF(c *eCase) (coraza.WAF, string) {
	cfg := renderConfig(c)
	if c.Ae != "" {
		// every transaction writes an audit record (its parts are read while other transactions change theirs by ctl)
		cfg = auditConfig(c, "Native", concAuditFile)
	}
	waf, err := coraza.NewWAF(coraza.NewWAFConfig().WithDirectives(cfg))
	if err != nil {
		return nil, "CONFIGERR"
	}
	return waf, ""
}

func stripCb(obs string) string {
	if i := strings.LastIndex(obs, " ; cb="); i >= 0 {
		return obs[:i] + " ; cb=-"
	}
	return obs
}

func execConc(a []string) string {
	g, _ := strconv.Atoi(a[0])
	m, _ := strconv.Atoi(a[1])
	var cases []*eCase
	for _, js := range a[2:] {
		c := &eCase{}
		if json.Unmarshal([]byte(js), c) != nil {
			return "BADCASE"
		}
		cases = append(cases, c)
	}
	concAuditFile = filepath.Join(os.TempDir(), fmt.Sprintf("conc-%d-%d.log", os.Getpid(), atomic.AddInt64(&concSeq, 1)))
	defer os.Remove(concAuditFile)
	expected := make([]string, len(cases))
	for i, c := range cases {
		w, e := buildConcWAF(c)
		if e != "" {
			return e
		}
		expected[i] = stripCb(runEngCase(w, c, &[]string{}))
		closeWAF(w)
	}
	before := raceLogSize()
	shared, e := buildConcWAF(cases[0])
	if e != "" {
		return e
	}
	var mismatch, panics int64
	var wg sync.WaitGroup
	stop := make(chan struct{})
	// WAF builders/closers sharing the pattern cache
	for b := 0; b < 2; b++ {
		wg.Add(1)
		go func() {
			defer wg.Done()
			defer func() {
				if r := recover(); r != nil {
					atomic.AddInt64(&panics, 1)
				}
			}()
			for {
				select {
				case <-stop:
					return
				default:
				}
				if w, e := buildConcWAF(cases[0]); e == "" {
					runEngCase(w, cases[0], &[]string{})
					closeWAF(w)
				}
			}
		}()
	}
	var tw sync.WaitGroup
	for gi := 0; gi < g; gi++ {
		tw.Add(1)
		go func(gi int) {
			defer tw.Done()
			defer func() {
				if r := recover(); r != nil {
					atomic.AddInt64(&panics, 1)
				}
			}()
			for j := 0; j < m; j++ {
				k := (gi + j) % len(cases)
				if o := stripCb(runEngCase(shared, cases[k], &[]string{})); o != expected[k] {
					atomic.AddInt64(&mismatch, 1)
				}
			}
		}(gi)
	}
	tw.Wait()
	close(stop)
	wg.Wait()
	closeWAF(shared)
	return fmt.Sprintf("%s ;; mismatch=%d races=%d panics=%d", expected[0], mismatch, raceLogSize()-before, panics)
}

func init() {
	engines["conc"] = &engine{Exec: execConc, Gen: func(c *ctx) {
		for i := 0; i < c.n; i++ {
			p := engProfiles[[]string{"ctl", "cache", "acct", "api"}[i%4]]
			base := genEngCase(c.r, p)
			if i%2 == 0 {
				// a rule with three static exclusions (spare slice capacity) whose targets are removed at run time
				// for some requests only
				base.Rules = append([]eRule{{ID: 5, Ph: 1, Mk: "-", Rt: "-", Sa: "-", Sev: -1, Tags: []string{},
					Links: []eLink{{Tg: []eTarget{{V: "ARGS_GET", K: gen.Field("trig"), X: []string{}}}, Op: &eOp{N: "streq", A: gen.Field("1")}, Tfs: []string{},
						NA: []eNAct{{N: "ctlRemoveTargetById", Lo: 7, Hi: 7, Var: "ARGS_GET", K: gen.Field(c.r.Pick("a", "b", "c"))}}}}},
					{ID: 7, Ph: 1, Mk: "-", Rt: "-", Sa: "-", Sev: -1, Tags: []string{}, Disr: "deny", St: 403,
						Links: []eLink{{Tg: []eTarget{{V: "ARGS_GET", K: "-", X: []string{gen.Field("x1"), gen.Field("x2"), gen.Field("x3")}}}, Op: &eOp{N: "streq", A: gen.Field("x")}, Tfs: []string{}, NA: []eNAct{}}}}},
					base.Rules...)
			}
			sharedOp := i%3 != 2
			if sharedOp {
				// operators built once and evaluated by every transaction of the WAF: a list of several networks /
				// phrases, the variants hit different entries (not the first one), so any per-evaluation
				// bookkeeping inside the shared operator is exercised concurrently
				base.Rules = append(base.Rules,
					eRule{ID: 8, Ph: 1, Mk: "-", Rt: "-", Sa: "-", Sev: -1, Tags: []string{}, Log: true, Audit: true,
						Links: []eLink{{Tg: []eTarget{{V: "ARGS_GET", K: gen.Field("ip"), X: []string{}}}, Op: &eOp{N: "ipMatch", A: gen.Field("10.0.0.0/8,192.168.1.0/24,1.2.3.4,172.16.0.0/12")}, Tfs: []string{}, NA: []eNAct{}}}},
					eRule{ID: 9, Ph: 1, Mk: "-", Rt: "-", Sa: "-", Sev: -1, Tags: []string{}, Log: true, Audit: true,
						Links: []eLink{{Tg: []eTarget{{V: "ARGS_GET", K: gen.Field("ip"), X: []string{}}}, Op: &eOp{N: "pm", A: gen.Field("10.1 168.1 2.3.4 16.5")}, Tfs: []string{}, NA: []eNAct{}}}})
			}
			if i%2 == 1 {
				// run-time exclusions by tag and by message, executed by every transaction from its first rule on: whatever the
				// shared action resolves (the rules carrying the tag / message: several of them) is resolved while others read it
				mkT := func(id int, tag, msg string) eRule {
					return eRule{ID: id, Ph: 1, Mk: "-", Rt: "-", Sa: "-", Sev: -1, Tags: []string{gen.Field(tag)}, Msg: gen.Field(msg), Log: true, Audit: true,
						Links: []eLink{{Tg: []eTarget{{V: "ARGS_GET", K: gen.Field("a"), X: []string{}}}, Op: &eOp{N: "streq", A: gen.Field("x")}, Tfs: []string{}, NA: []eNAct{}}}}
				}
				ctlRule := eRule{ID: 16, Ph: 1, Mk: "-", Rt: "-", Sa: "-", Sev: -1, Tags: []string{}, Links: []eLink{{Tg: []eTarget{}, Tfs: []string{}, NA: []eNAct{
					{N: "ctlRemoveByTag", Tag: gen.Field("ct1")}, {N: "ctlRemoveTargetByTag", Tag: gen.Field("ct2"), Var: "ARGS_GET", K: gen.Field("a")},
					{N: "ctlRemoveByMsg", Msg: gen.Field("cm1")}, {N: "ctlRemoveTargetByMsg", Msg: gen.Field("cm2"), Var: "ARGS_GET", K: "-"}}}}}
				base.Rules = append([]eRule{ctlRule, mkT(17, "ct1", "cm2"), mkT(18, "ct1", "cm1"), mkT(19, "ct2", "cm1"), mkT(21, "ct2", "cm2")}, base.Rules...)
			}
			// macros of several tokens, expanded by every transaction with its own request's values (the macro object belongs to the rule)
			base.Rules = append(base.Rules, eRule{ID: 27, Ph: 1, Mk: "-", Rt: "-", Sa: "-", Sev: -1, Tags: []string{}, Links: []eLink{{Tg: []eTarget{}, Tfs: []string{}, NA: []eNAct{
				{N: "setvar", K: gen.Field("mm"), V: gen.Field("p-%{args_get.a}-%{args_get.ip}-%{args_get.b}-s")},
				{N: "setvar", K: gen.Field("mn"), V: gen.Field("%{args_get.b}:%{args_get.a}:%{args_get.trig}")}}}}})
			audited := i%4 == 1
			if audited {
				// audit log On; some requests change their own audit parts / engine at run time (relative and absolute forms)
				base.Ae, base.Rs, base.Parts = "On", "-", gen.Field(c.r.Pick("ABCFHZ", "ABCFHKZ", "ABHZ"))
				base.Rules = append([]eRule{{ID: 12, Ph: 1, Mk: "-", Rt: "-", Sa: "-", Sev: -1, Tags: []string{}, Log: true, Audit: true,
					Links: []eLink{{Tg: []eTarget{{V: "ARGS_GET", K: gen.Field("trig2"), X: []string{}}}, Op: &eOp{N: "streq", A: gen.Field("1")}, Tfs: []string{},
						NA: []eNAct{{N: "ctlAuditLogParts", K: gen.Field(c.r.Pick("-H", "-H", "+E", "-B", "-BF", "ABZ", "+K"))}}}}}}, base.Rules...)
				for ri := range base.Rules {
					base.Rules[ri].Audit = true
				}
			}
			args := []string{strconv.Itoa(4 + c.r.Intn(12)), strconv.Itoa(20 + c.r.Intn(60))}
			for k := 0; k < 3; k++ {
				v := *base
				o := genEngCase(c.r, p)
				v.Get, v.Post, v.Hdr = o.Get, o.Post, o.Hdr
				if i%2 == 0 {
					v.Get = append(v.Get, [2]string{gen.Field(c.r.Pick("a", "b", "c")), gen.Field("x")})
					if k != 1 {
						v.Get = append(v.Get, [2]string{gen.Field("trig"), gen.Field("1")})
					}
				}
				if audited && k != 2 {
					v.Get = append(v.Get, [2]string{gen.Field("trig2"), gen.Field("1")})
				}
				if sharedOp {
					v.Get = append(v.Get, [2]string{gen.Field("ip"), gen.Field([]string{"192.168.1.7", "1.2.3.4", "172.16.5.5", "10.1.2.3", "9.9.9.9"}[(k+c.r.Intn(2))%5])})
				}
				b, _ := json.Marshal(&v)
				args = append(args, string(b))
			}
			obs := c.run("conc", args...)
			if !strings.Contains(obs, "mismatch=0 races=0 panics=0") {
				c.stats.Hit("bad")
			}
			c.stats.Hit("scenario")
		}
	}}
}

// tfid <caseA> <caseB>: two WAFs whose rules use the same two fresh transformation chains in
// opposite order are built CONCURRENTLY (the global transformation-id table is filled by both),
// then one transaction runs on each.  => <outcome A> ||| <outcome B>
func execTfid(a []string) string {
	var ca, cb eCase
	if json.Unmarshal([]byte(a[0]), &ca) != nil || json.Unmarshal([]byte(a[1]), &cb) != nil {
		return "BADCASE"
	}
	var wa, wb coraza.WAF
	var ea, eb string
	var wg sync.WaitGroup
	start := make(chan struct{})
	wg.Add(2)
	go func() { defer wg.Done(); <-start; wa, ea = buildConcWAF(&ca) }()
	go func() { defer wg.Done(); <-start; wb, eb = buildConcWAF(&cb) }()
	close(start)
	wg.Wait()
	if ea != "" || eb != "" {
		return "CONFIGERR"
	}
	oa := stripCb(runEngCase(wa, &ca, &[]string{}))
	ob := stripCb(runEngCase(wb, &cb, &[]string{}))
	closeWAF(wa)
	closeWAF(wb)
	return oa + " ||| " + ob
}

func init() {
	engines["tfid"] = &engine{Exec: execTfid, Gen: func(c *ctx) {
		names := []string{"lowercase", "uppercase", "trim", "trimLeft", "trimRight", "urlDecode", "urlEncode", "hexEncode", "removeNulls", "replaceNulls", "length"}
		chain := func() []string {
			n := 4 + c.r.Intn(3)
			out := make([]string, n)
			for i := range out {
				out[i] = names[c.r.Intn(len(names))]
			}
			return out
		}
		mk := func(id int, tfs []string) eRule {
			return eRule{ID: id, Ph: 1, Mk: "-", Rt: "-", Sa: "-", Sev: -1, Tags: []string{}, Links: []eLink{{
				Tg: []eTarget{{V: "ARGS_GET", K: gen.Field("x"), X: []string{}}}, Op: &eOp{N: "unconditionalMatch", A: "-"}, Tfs: tfs, NA: []eNAct{}}}}
		}
		for i := 0; i < c.n; i++ {
			ta, tb := chain(), chain()
			req := [][2]string{{gen.Field("x"), gen.Field(c.r.Pick(" Ab%41 ", "x Y", "A\x00b ", "%2b+ Z"))}}
			ca := eCase{Mode: "On", Rules: []eRule{mk(1, ta), mk(2, tb)}, Get: req, Post: [][2]string{}, Hdr: [][2]string{}, Calls: []string{"h1"}}
			cb := eCase{Mode: "On", Rules: []eRule{mk(1, tb), mk(2, ta)}, Get: req, Post: [][2]string{}, Hdr: [][2]string{}, Calls: []string{"h1"}}
			ja, _ := json.Marshal(&ca)
			jb, _ := json.Marshal(&cb)
			c.run("tfid", string(ja), string(jb))
			c.stats.Hit("round")
		}
	}}
}
