package main

import (
	"fmt"
	"strconv"
	"strings"

	coraza "github.com/corazawaf/coraza/v3"
	"github.com/corazawaf/coraza/v3/experimental/plugins/plugintypes"
	"verifharness/internal/gen"
)

// An XML document as a tree; the text is rendered from it by renderXML (the independent encoder:
// hand-written, random but valid spellings), the Lean model reads the tree (tokens).
//
//	E<nattr>,<nkids> (V<value>)… kids…   element: its attribute values, then its children
//	T<text>   character data        C<text>   a CDATA section        O   comment / processing instruction
type xNode struct {
	kind  byte // E T C O
	name  string
	attrs [][2]string
	kids  []*xNode
	text  string
}

// names that encoding/xml's HTMLAutoClose list does not contain
var xmlNames = []string{"a", "b", "item", "ns:x", "x-y", "_u", "A", "soap:Body", "d1", "é"}
var xmlAttrNames = []string{"id", "k", "xmlns", "xmlns:ns", "ns:at", "A", "data-x", "_"}
var xmlVals = []string{"x", "", "attack", "a b", " pad ", "1<2", "a&b", "q\"t", "it's", "é", "你好", "<script>", "]]", "a=1&b=2", "\ttab\n", "&amp;", "%41", "   ", "\n", "x\ny"}

func genXML(r *gen.R, depth int) *xNode {
	n := &xNode{kind: 'E', name: r.Pick(xmlNames...)}
	used := map[string]bool{}
	for k := r.Intn(4); k > 0; k-- {
		an := r.Pick(xmlAttrNames...)
		if used[an] {
			continue // a repeated attribute name is not well-formed
		}
		used[an] = true
		n.attrs = append(n.attrs, [2]string{an, r.Pick(xmlVals...)})
	}
	lastText := false
	for k := r.Intn(5); k > 0; k-- {
		switch c := r.Intn(10); {
		case c < 3 && depth > 0:
			n.kids = append(n.kids, genXML(r, depth-1))
			lastText = false
		case c < 6:
			if lastText {
				continue // adjacent character data would be one token
			}
			n.kids = append(n.kids, &xNode{kind: 'T', text: r.Pick(xmlVals...)})
			lastText = true
		case c < 8:
			v := r.Pick(xmlVals...)
			if strings.Contains(v, "]]") {
				v = "cd"
			}
			n.kids = append(n.kids, &xNode{kind: 'C', text: v})
			lastText = false
		default:
			n.kids = append(n.kids, &xNode{kind: 'O', text: r.Pick("<!-- c -->", "<!--<a k='v'>t</a>-->", "<?pi x=\"1\"?>", "<!---->")})
			lastText = false
		}
	}
	return n
}

func xTokens(n *xNode, out *[]string) {
	switch n.kind {
	case 'E':
		*out = append(*out, "E"+strconv.Itoa(len(n.attrs))+"."+strconv.Itoa(len(n.kids)))
		for _, a := range n.attrs {
			*out = append(*out, "V"+gen.Field(a[1]))
		}
		for _, k := range n.kids {
			xTokens(k, out)
		}
	case 'T':
		*out = append(*out, "T"+gen.Field(n.text))
	case 'C':
		*out = append(*out, "C"+gen.Field(n.text))
	case 'O':
		*out = append(*out, "O")
	}
}

// xmlEscape writes character data or an attribute value: markup characters become entity or
// character references (decimal or hexadecimal, at random), letters sometimes too
func xmlEscape(r *gen.R, s string, attrQuote byte) string {
	var sb strings.Builder
	for i := 0; i < len(s); i++ {
		b := s[i]
		switch {
		case b == '<':
			sb.WriteString(r.Pick("&lt;", "&#60;", "&#x3c;", "&#x3C;"))
		case b == '&':
			sb.WriteString(r.Pick("&amp;", "&#38;", "&#x26;"))
		case b == '>':
			sb.WriteString(r.Pick("&gt;", ">", "&#62;"))
		case b == attrQuote && b == '"':
			sb.WriteString(r.Pick("&quot;", "&#34;"))
		case b == attrQuote && b == '\'':
			sb.WriteString(r.Pick("&apos;", "&#39;"))
		case attrQuote != 0 && (b == '\n' || b == '\t'):
			// literal line breaks in attribute values are normalised by XML processors: write a reference
			fmt.Fprintf(&sb, "&#%d;", b)
		case b >= 'a' && b <= 'z' && r.Chance(0.08):
			sb.WriteString(r.Pick(fmt.Sprintf("&#%d;", b), fmt.Sprintf("&#x%x;", b)))
		default:
			sb.WriteByte(b)
		}
	}
	return sb.String()
}

func renderXML(r *gen.R, n *xNode, sb *strings.Builder) {
	switch n.kind {
	case 'T':
		sb.WriteString(xmlEscape(r, n.text, 0))
	case 'C':
		sb.WriteString("<![CDATA[" + n.text + "]]>")
	case 'O':
		sb.WriteString(n.text)
	case 'E':
		sb.WriteString("<" + n.name)
		for _, a := range n.attrs {
			q := r.Pick("\"", "'")[0]
			sb.WriteString(r.Pick(" ", "  ", "\n", "\t") + a[0] + r.Pick("=", " = ", "= ") + string(q) + xmlEscape(r, a[1], q) + string(q))
		}
		sb.WriteString(r.Pick("", "", " ", "\n"))
		if len(n.kids) == 0 && r.Chance(0.5) {
			sb.WriteString("/>")
			return
		}
		sb.WriteString(">")
		for _, k := range n.kids {
			renderXML(r, k, sb)
		}
		sb.WriteString("</" + n.name + r.Pick("", "", " ") + ">")
	}
}

var xmlWAF coraza.WAF

func fieldList(l []string) string {
	out := make([]string, len(l))
	for i, s := range l {
		out[i] = gen.Field(s)
	}
	return orDash(strings.Join(out, ","))
}

// decode xml <tree tokens> <text> / decode xmlbad <text>  => attrs=<values in order> contents=<…> err=<REQBODY_ERROR set?>
func execDecodeXML(a []string) string {
	if xmlWAF == nil {
		w, err := coraza.NewWAF(coraza.NewWAFConfig().WithDirectives("SecRuleEngine On\nSecRequestBodyAccess On\n" +
			"SecRule REQUEST_HEADERS:Content-Type \"@beginsWith text/xml\" \"id:1,phase:1,pass,nolog,ctl:requestBodyProcessor=XML\"\n"))
		if err != nil {
			return "CONFIGERR"
		}
		xmlWAF = w
	}
	tx := xmlWAF.NewTransaction()
	defer tx.Close()
	v := tx.(plugintypes.TransactionState).Variables()
	tx.AddRequestHeader("Content-Type", "text/xml")
	tx.ProcessRequestHeaders()
	tx.WriteRequestBody([]byte(gen.Unfield(a[len(a)-1])))
	tx.ProcessRequestBody()
	return fmt.Sprintf("attrs=%s contents=%s err=%s", fieldList(v.RequestXML().Get("//@*")), fieldList(v.RequestXML().Get("/*")),
		gen.B01(v.RequestBodyError().Get() == "1"))
}

func genDecodeXML(c *ctx) {
	r := c.r
	t := genXML(r, 3)
	var toks []string
	xTokens(t, &toks)
	var sb strings.Builder
	if r.Chance(0.3) {
		sb.WriteString(r.Pick("<?xml version=\"1.0\"?>", "<?xml version=\"1.0\" encoding=\"UTF-8\"?>\n", "<!-- lead -->", "\n"))
	}
	renderXML(r, t, &sb)
	if r.Chance(0.2) {
		sb.WriteString(r.Pick("\n", "<!-- trail -->", " "))
	}
	text := sb.String()
	if r.Chance(0.12) {
		// malformed: cut short, a stray close tag, a bad reference, an illegal character — no model, the monitor only
		switch r.Intn(5) {
		case 0:
			text = text[:r.Intn(len(text)+1)]
		case 1:
			text = strings.Replace(text, "</", "</zz", 1)
		case 2:
			text += "<a>&nosuch;</a>"
		case 3:
			text = "<a>\x01</a>" + text
		default:
			text = text + text
		}
		c.stats.Hit("kind:xmlbad")
		c.run("decode", "xmlbad", gen.Field(text))
		return
	}
	c.stats.Hit("kind:xml")
	c.run("decode", "xml", strings.Join(toks, ","), gen.Field(text))
}
