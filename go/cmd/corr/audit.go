package main

import (
	"bufio"
	"encoding/json"
	"fmt"
	"os"
	"path/filepath"
	"regexp"
	"strconv"
	"strings"
	"sync"

	coraza "github.com/corazawaf/coraza/v3"
	"github.com/corazawaf/coraza/v3/types"
	"verifharness/internal/gen"
)

var auditSeq int

func auditRegex(tok string) string {
	p := strings.SplitN(tok, ":", 2)
	switch p[0] {
	case "pre":
		return "^" + p[1]
	case "sub":
		return p[1]
	case "eq":
		return "^" + p[1] + "$"
	}
	return ""
}

func auditConfig(c *eCase, format, file string) string {
	var sb strings.Builder
	sb.WriteString("SecAuditEngine " + c.Ae + "\n")
	if rx := auditRegex(c.Rs); rx != "" {
		sb.WriteString("SecAuditLogRelevantStatus " + rx + "\n")
	}
	sb.WriteString("SecAuditLogParts " + gen.Unfield(c.Parts) + "\nSecAuditLogFormat " + format + "\nSecAuditLogType Serial\nSecAuditLog " + file + "\n")
	sb.WriteString(renderConfig(c))
	return sb.String()
}

func auditRun(c *eCase, format string) (lines []string, cb []string, errs string) {
	auditSeq++
	file := filepath.Join(os.TempDir(), fmt.Sprintf("audit-%d-%d.log", os.Getpid(), auditSeq))
	defer os.Remove(file)
	cfg := coraza.NewWAFConfig().WithDirectives(auditConfig(c, format, file)).WithErrorCallback(func(mr types.MatchedRule) {
		cb = append(cb, strconv.Itoa(mr.Rule().ID()))
	})
	waf, err := coraza.NewWAF(cfg)
	if err != nil {
		return nil, nil, "CONFIGERR"
	}
	runEngCase(waf, c, &[]string{})
	first, _ := os.ReadFile(file)
	// the same transaction once more on the same WAF: whatever the first one changed at run time
	// (audit engine, parts) must not show in the second one's record
	cb = cb[:0]
	runEngCase(waf, c, &[]string{})
	closeWAF(waf)
	b, _ := os.ReadFile(file)
	if auditShape(string(b[len(first):]), format) != auditShape(string(first), format) {
		return nil, nil, "SECOND-RUN-DIFFERS"
	}
	b = first
	sc := bufio.NewScanner(strings.NewReader(string(b)))
	sc.Buffer(make([]byte, 1<<20), 1<<24)
	for sc.Scan() {
		lines = append(lines, sc.Text())
	}
	return lines, cb, ""
}

// auditShape: what of a log excerpt does not depend on the transaction id / time: the section letters
// (Native) or the number of records and of messages per record (JSON)
func auditShape(txt, format string) string {
	var sb strings.Builder
	for _, l := range strings.Split(txt, "\n") {
		if format == "Native" {
			if m := boundaryRe.FindStringSubmatch(l); m != nil {
				sb.WriteString(m[1])
			}
		} else if l != "" {
			sb.WriteString(fmt.Sprintf("R%d;", strings.Count(l, "\"actionset\"")))
		}
	}
	return sb.String()
}

var boundaryRe = regexp.MustCompile(`^--[A-Za-z]{10}-([A-Z])--$`)

// audit <case> => w=<records> ids=<rule id per message> parts=<section letters (hex)> cb=<callback ids>
func execAudit(a []string) string {
	var c eCase
	if err := json.Unmarshal([]byte(a[0]), &c); err != nil {
		return "BADCASE"
	}
	lines, cb, errs := auditRun(&c, "JSON")
	if errs != "" {
		return errs
	}
	w := len(lines)
	ids := "-"
	if w > 0 {
		var all []string
		for _, l := range lines {
			var rec struct {
				Transaction struct {
					ID string `json:"id"`
				} `json:"transaction"`
				Messages []struct {
					Data struct {
						ID int `json:"id"`
					} `json:"data"`
				} `json:"messages"`
			}
			if err := json.Unmarshal([]byte(l), &rec); err != nil {
				return "BADJSON"
			}
			if rec.Transaction.ID == "" {
				return "NOTXID"
			}
			for _, m := range rec.Messages {
				all = append(all, strconv.Itoa(m.Data.ID))
			}
		}
		ids = orDash(strings.Join(all, ","))
	}
	parts := "-"
	nl, cb2, _ := auditRun(&c, "Native")
	var letters strings.Builder
	for _, l := range nl {
		if m := boundaryRe.FindStringSubmatch(l); m != nil {
			letters.WriteString(m[1])
		}
	}
	if strings.Join(cb, ",") != strings.Join(cb2, ",") {
		return "UNSTABLE-CB"
	}
	if letters.Len() > 0 {
		parts = gen.Field(letters.String())
	}
	if (w > 0) != (letters.Len() > 0) {
		return fmt.Sprintf("FORMATS-DISAGREE json=%d native=%s", w, letters.String())
	}
	return fmt.Sprintf("w=%d ids=%s parts=%s cb=%s", w, ids, parts, orDash(strings.Join(cb, ",")))
}

// auditconc <n goroutines> <m transactions each>: concurrent transactions share one serial writer;
// every line must be one whole JSON document and none may be lost
func execAuditConc(a []string) string {
	g, _ := strconv.Atoi(a[0])
	m, _ := strconv.Atoi(a[1])
	auditSeq++
	file := filepath.Join(os.TempDir(), fmt.Sprintf("auditc-%d-%d.log", os.Getpid(), auditSeq))
	defer os.Remove(file)
	waf, err := coraza.NewWAF(coraza.NewWAFConfig().WithDirectives("SecRuleEngine On\nSecAuditEngine On\nSecAuditLogParts ABCFHKZ\nSecAuditLogFormat JSON\nSecAuditLogType Serial\nSecAuditLog " + file + "\n" +
		`SecRule ARGS_GET:q "@contains x" "id:1,phase:1,pass,log,auditlog,msg:'m'"` + "\n"))
	if err != nil {
		return "CONFIGERR"
	}
	var wg sync.WaitGroup
	for i := 0; i < g; i++ {
		wg.Add(1)
		go func(i int) {
			defer wg.Done()
			for j := 0; j < m; j++ {
				tx := waf.NewTransaction()
				tx.AddGetRequestArgument("q", strings.Repeat("x", 1+(i*7+j)%300))
				tx.ProcessRequestHeaders()
				tx.ProcessLogging()
				tx.Close()
			}
		}(i)
	}
	wg.Wait()
	closeWAF(waf)
	b, _ := os.ReadFile(file)
	bad, n := 0, 0
	for _, l := range strings.Split(strings.TrimSuffix(string(b), "\n"), "\n") {
		n++
		var v map[string]any
		if json.Unmarshal([]byte(l), &v) != nil {
			bad++
		}
	}
	return fmt.Sprintf("records=%d bad=%d expected=%d", n, bad, g*m)
}

// auditiso <predecessor case> <probe case>: one WAF with the probe's audit configuration (Native
// format); the predecessor runs twice and is closed, then the probe; only the records the probe
// adds to the log are observed: record written?, section letters
func execAuditIso(a []string) string {
	var pred, probe eCase
	if json.Unmarshal([]byte(a[0]), &pred) != nil || json.Unmarshal([]byte(a[1]), &probe) != nil {
		return "BADCASE"
	}
	auditSeq++
	file := filepath.Join(os.TempDir(), fmt.Sprintf("auditiso-%d-%d.log", os.Getpid(), auditSeq))
	defer os.Remove(file)
	waf, err := coraza.NewWAF(coraza.NewWAFConfig().WithDirectives(auditConfig(&probe, "Native", file)))
	if err != nil {
		return "CONFIGERR"
	}
	for i := 0; i < 2; i++ {
		runEngCase(waf, &pred, &[]string{})
	}
	before, _ := os.ReadFile(file)
	runEngCase(waf, &probe, &[]string{})
	closeWAF(waf)
	after, _ := os.ReadFile(file)
	var letters strings.Builder
	for _, l := range strings.Split(string(after[len(before):]), "\n") {
		if m := boundaryRe.FindStringSubmatch(l); m != nil {
			letters.WriteString(m[1])
		}
	}
	w := 0
	if letters.Len() > 0 {
		w = 1
	}
	return fmt.Sprintf("w=%d parts=%s", w, gen.Field(letters.String()))
}

func genAuditCase(c *ctx, p engProfile) *eCase {
	cs := genEngCase(c.r, p)
	cs.Ae = c.r.Pick("On", "Off", "RelevantOnly", "RelevantOnly", "RelevantOnly")
	cs.Rs = c.r.Pick("-", "pre:4", "pre:5", "sub:403", "eq:403", "sub:0", "pre:3", "eq:200", "sub:4")
	cs.Resp = gen.Field(c.r.Pick("200", "404", "403", "500", "302"))
	cs.Parts = gen.Field(c.r.Pick("ABCFHKZ", "ABCFHZ", "AKZ", "ABCDEFGHIJKZ", "AHZ"))
	// ctl switches of the audit engine / parts in some rules
	for ri := range cs.Rules {
		if cs.Rules[ri].ID != 0 && c.r.Chance(0.2) {
			l := &cs.Rules[ri].Links[0]
			if c.r.Chance(0.5) {
				l.NA = append(l.NA, eNAct{N: "ctlAuditEngine", M: c.r.Pick("On", "Off", "RelevantOnly")})
			} else {
				l.NA = append(l.NA, eNAct{N: "ctlAuditLogParts", K: gen.Field(c.r.Pick("+E", "-C", "+K", "-K", "-H", "+IJ", "ABZ", "+E", "-BF"))})
			}
		}
	}
	// the logging phase is invoked exactly once, last
	var calls []string
	for _, cl := range cs.Calls {
		if cl != "lg" {
			calls = append(calls, cl)
		}
	}
	cs.Calls = append(calls, "lg")
	return cs
}

func init() {
	engines["auditiso"] = &engine{Exec: execAuditIso, Gen: func(c *ctx) {
		for i := 0; i < c.n; i++ {
			probe := genAuditCase(c, engProfiles[[]string{"api", ""}[i%2]])
			if c.r.Chance(0.7) {
				probe.Ae = "On" // so that the probe's record (its parts) is there to be compared
			}
			// a first rule only the predecessor triggers (ARGS_GET:trig=1) changes the audit settings at run time:
			// the probe must still be logged with the configured parts and engine
			g := eRule{ID: 5, Ph: 1, Mk: "-", Rt: "-", Sa: "-", Sev: -1, Tags: []string{}, Log: false, Audit: c.r.Chance(0.5)}
			l := eLink{Tg: []eTarget{{V: "ARGS_GET", K: gen.Field("trig"), X: []string{}}}, Op: &eOp{N: "streq", A: gen.Field("1")}, Tfs: []string{}, NA: []eNAct{}}
			for k := 1 + c.r.Intn(2); k > 0; k-- {
				if c.r.Chance(0.3) {
					l.NA = append(l.NA, eNAct{N: "ctlAuditEngine", M: c.r.Pick("On", "Off", "RelevantOnly")})
				} else {
					l.NA = append(l.NA, eNAct{N: "ctlAuditLogParts", K: gen.Field(c.r.Pick("-C", "-K", "-H", "-BF", "+E", "+IJ", "ABZ", "-F", "-B", "-CFH"))})
				}
			}
			g.Links = []eLink{l}
			probe.Rules = append([]eRule{g}, probe.Rules...)
			pred := *probe
			other := genEngCase(c.r, engProfile{})
			pred.Get, pred.Post, pred.Hdr, pred.Calls = other.Get, other.Post, other.Hdr, other.Calls
			pred.Get = append([][2]string{{gen.Field("trig"), gen.Field("1")}}, pred.Get...)
			if c.r.Chance(0.6) {
				pred.Calls = []string{"h1", "b2", "h3", "b4", "lg"}
			}
			b1, _ := json.Marshal(&pred)
			b2, _ := json.Marshal(probe)
			obs := c.run("auditiso", string(b1), string(b2))
			if strings.HasPrefix(obs, "w=1") {
				c.stats.Hit("probe-record:written")
			} else {
				c.stats.Hit("probe-record:none")
			}
		}
	}}
	engines["auditconc"] = &engine{Exec: execAuditConc, Gen: func(c *ctx) {
		for i := 0; i < c.n; i++ {
			c.run("auditconc", strconv.Itoa(8+c.r.Intn(24)), strconv.Itoa(50+c.r.Intn(150)))
		}
	}}
	engines["audit"] = &engine{Exec: execAudit, Gen: func(c *ctx) {
		for i := 0; i < c.n; i++ {
			cs := genAuditCase(c, engProfiles[[]string{"api", "", "ctl"}[i%3]])
			b, _ := json.Marshal(cs)
			obs := c.run("audit", string(b))
			c.stats.Hit("ae:" + cs.Ae)
			if strings.HasPrefix(obs, "w=1") {
				c.stats.Hit("record:written")
			} else if strings.HasPrefix(obs, "w=0") {
				c.stats.Hit("record:none")
			}
		}
	}}
}
