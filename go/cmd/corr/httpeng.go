package main

import (
	"fmt"
	"io"
	"net/http"
	"net/http/httptest"
	"strconv"
	"strings"

	coraza "github.com/corazawaf/coraza/v3"
	txhttp "github.com/corazawaf/coraza/v3/http"
	"verifharness/internal/gen"
)

var httpWAFs = map[string]coraza.WAF{}

func httpWAF(access bool, limit int, action string, ctl3 string, reqReject bool) (coraza.WAF, error) {
	key := fmt.Sprintf("%v/%d/%s/%s/%v", access, limit, action, ctl3, reqReject)
	if w, ok := httpWAFs[key]; ok {
		return w, nil
	}
	acc, act := "Off", "Reject"
	if access {
		acc = "On"
	}
	if action == "P" {
		act = "ProcessPartial"
	}
	reqAct := "ProcessPartial"
	if reqReject {
		reqAct = "Reject"
	}
	d := fmt.Sprintf(`SecRuleEngine On
SecRequestBodyAccess On
SecRequestBodyLimit 16
SecRequestBodyLimitAction %s
SecResponseBodyAccess %s
SecResponseBodyMimeType text/plain
SecResponseBodyLimit %d
SecResponseBodyLimitAction %s
SecRule REQUEST_HEADERS:X-Block "@streq deny" "id:1,phase:1,deny,status:403"
SecRule REQUEST_HEADERS:X-Block "@streq deny0" "id:11,phase:1,deny"
SecRule REQUEST_HEADERS:X-Block "@streq redirect" "id:12,phase:1,redirect:http://e.x/"
SecRule REQUEST_HEADERS:X-Block "@streq drop" "id:13,phase:1,drop"
SecRule REQUEST_HEADERS:X-Block "@streq deny2" "id:14,phase:2,deny,status:402"
SecRule REQUEST_HEADERS:X-Block "@streq observe" "id:15,phase:1,pass,nolog,ctl:ruleEngine=DetectionOnly"
SecRule RESPONSE_STATUS "@streq 404" "id:3,phase:3,deny,status:406"
SecRule RESPONSE_HEADERS:X-Bad "@streq 1" "id:31,phase:3,deny,status:407"
SecRule RESPONSE_BODY "@contains BAD" "id:4,phase:4,deny,status:502"
`, reqAct, acc, limit, act)
	if ctl3 == "on" {
		d += "SecAction \"id:30,phase:3,pass,nolog,ctl:responseBodyAccess=On\"\n"
	} else if ctl3 == "off" {
		d += "SecAction \"id:30,phase:3,pass,nolog,ctl:responseBodyAccess=Off\"\n"
	}
	w, err := coraza.NewWAF(coraza.NewWAFConfig().WithDirectives(d))
	if err != nil {
		return nil, err
	}
	httpWAFs[key] = w
	return w, nil
}

// http <access> <processable> <limit> <R|P> <xbad> <reqblock> <reqbody> <script>
//
//	script = comma list: h<code> | w<hex> | f        ("-" = empty)
//	=> inv=<0|1> read=<field> status=<n> body=<field> flushed=<0|1>
func execHTTP(a []string) string {
	access, proc := a[0] == "1", a[1] == "1"
	limit, _ := strconv.Atoi(a[2])
	ctl3 := "-"
	if len(a) > 9 {
		ctl3 = a[9]
	}
	// X-Block: observe = a phase-1 rule puts the transaction under DetectionOnly, on a WAF whose request body limit action is Reject
	waf, err := httpWAF(access, limit, a[3], ctl3, a[5] == "observe")
	if err != nil {
		return "CONFIGERR"
	}
	xbad, reqblock, reqbody, script := a[4] == "1", a[5], gen.Unfield(a[6]), a[7]
	invoked := false
	var read []byte
	h := http.HandlerFunc(func(w http.ResponseWriter, r *http.Request) {
		invoked = true
		read, _ = io.ReadAll(r.Body)
		if proc {
			w.Header().Set("Content-Type", "text/plain")
		} else {
			w.Header().Set("Content-Type", "image/png")
		}
		if xbad {
			w.Header().Set("X-Bad", "1")
		}
		if script == "-" {
			return
		}
		for _, op := range strings.Split(script, ",") {
			switch op[0] {
			case 'h':
				code, _ := strconv.Atoi(op[1:])
				w.WriteHeader(code)
			case 'w':
				w.Write([]byte(gen.Unfield(op[1:])))
			case 'f':
				if f, ok := w.(http.Flusher); ok {
					f.Flush()
				}
			}
		}
	})
	var req *http.Request
	if len(a) > 8 && a[8] == "1" {
		// unknown length (chunked): no Content-Length, a reader without Len()
		req = httptest.NewRequest("POST", "http://h.x/p?q=1", plainReader{strings.NewReader(reqbody)})
		req.ContentLength = -1
		req.TransferEncoding = []string{"chunked"}
	} else {
		req = httptest.NewRequest("POST", "http://h.x/p?q=1", strings.NewReader(reqbody))
	}
	if reqblock != "-" {
		req.Header.Set("X-Block", reqblock)
	}
	rec := httptest.NewRecorder()
	txhttp.WrapHandler(waf, h).ServeHTTP(rec, req)
	return fmt.Sprintf("inv=%s read=%s status=%d body=%s flushed=%s", gen.B01(invoked), gen.Field(string(read)), rec.Code,
		gen.Field(rec.Body.String()), gen.B01(rec.Flushed))
}

func init() {
	engines["http"] = &engine{Exec: execHTTP, Gen: func(c *ctx) {
		for i := 0; i < c.n; i++ {
			access, proc := c.r.Chance(0.7), c.r.Chance(0.8)
			limit := 1 + c.r.Intn(20)
			action := c.r.Pick("R", "P")
			xbad := c.r.Chance(0.1)
			reqblock := "-"
			if c.r.Chance(0.2) {
				reqblock = c.r.Pick("deny", "deny0", "redirect", "drop", "deny2")
			}
			nb := c.r.Intn(40)
			rb := make([]byte, nb)
			for k := range rb {
				rb[k] = byte('a' + k%26)
			}
			var ops []string
			total := 0
			for k := c.r.Intn(6); k > 0; k-- {
				switch c.r.Intn(6) {
				case 0:
					ops = append(ops, "h"+c.r.Pick("200", "201", "404", "500", "204", "101", "302"))
				case 1:
					ops = append(ops, "f")
				default:
					var n int
					switch c.r.Intn(5) {
					case 0:
						n = limit - total
					case 1:
						n = limit - total - 1
					case 2:
						n = limit - total + 1
					default:
						n = c.r.Intn(8)
					}
					if n < 0 {
						n = c.r.Intn(3)
					}
					b := make([]byte, n)
					for x := range b {
						b[x] = byte('A' + (total+x)%26)
					}
					if n >= 3 && c.r.Chance(0.15) {
						copy(b, "BAD")
					}
					total += n
					ops = append(ops, "w"+gen.Field(string(b)))
				}
			}
			sc := "-"
			if len(ops) > 0 {
				sc = strings.Join(ops, ",")
			}
			ctl3 := "-"
			if c.r.Chance(0.25) {
				ctl3 = c.r.Pick("on", "off")
				c.stats.Hit("phase3-ctl:responseBodyAccess")
			}
			if c.r.Chance(0.08) {
				// observation mode switched on at run time: nothing interrupts, the handler must get the whole body
				reqblock, access, ctl3 = "observe", false, "-"
				rb = make([]byte, 10+c.r.Intn(30))
				for k := range rb {
					rb[k] = byte('a' + k%26)
				}
				c.stats.Hit("request:observe")
			}
			chunked := c.r.Chance(0.4)
			if chunked {
				c.stats.Hit("request:unknown-length")
			}
			obs := c.run("http", gen.B01(access), gen.B01(proc), strconv.Itoa(limit), action, gen.B01(xbad), reqblock, gen.Field(string(rb)), sc, gen.B01(chunked), ctl3)
			if strings.Contains(obs, "inv=0") {
				c.stats.Hit("request-blocked")
			}
			if access && proc {
				c.stats.Hit("response:buffered")
			} else {
				c.stats.Hit("response:streamed")
			}
			if total >= limit {
				c.stats.Hit("response:limit-reached")
			}
		}
	}}
}
