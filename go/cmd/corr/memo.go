package main

import (
	"bufio"
	"fmt"
	"os"
	"os/exec"
	"strings"
	"testing/fstest"

	coraza "github.com/corazawaf/coraza/v3"
	"github.com/corazawaf/coraza/v3/experimental/verifhooks"
	"verifharness/internal/gen"
)

// memo <cfg;cfg;…> <probe,probe,…>
//
//	cfg  = <role>:<S>:<variant>   roles: pm, rxkey, ds, pmf, restpath, rx, ctl, relstatus
//	=> alone=<r1>/<r2>/… hist=<r1>/… hist2=<…after closing the others> keys=<hex key>|<type>,…
//
// Every configuration is built alone (empty process-wide cache) and then all together in order;
// the probe answers (and construction errors / panics) must be identical.
var memoStrings = []string{"abc", "ab", "x", "1", "a.c", "abc|x", "[ab]c", "list", "name", "(?i)abc", "^X-Tok", "Abc", "^abc", "müller", "MÜLLER", "u{id}", "{id}"} // the last two: a REST template with a placeholder that is also a (literal) regular expression

func memoConfig(role, s, variant string) (string, coraza.WAFConfig) {
	cfg := coraza.NewWAFConfig()
	var d string
	switch role {
	case "pm":
		d = fmt.Sprintf(`SecRule ARGS_GET:q "@pm %s" "id:1,phase:1,deny"`, s)
	case "rxkey":
		d = fmt.Sprintf(`SecRule ARGS_GET:/%s/ "@unconditionalMatch" "id:1,phase:1,deny"`, s)
	case "rxkeyh":
		d = fmt.Sprintf(`SecRule REQUEST_HEADERS:/%s/ "@unconditionalMatch" "id:1,phase:1,deny"`, s)
	case "ds":
		// variants 2/3: the same words, a phrase boundary written as a blank or as a line break
		content := map[string]string{"0": "abc\nx", "1": "zzz\n1", "2": "ab c\nx", "3": "ab\nc\nx", "4": "Abc\nMÜLLER", "5": "abc\nmüller"}[variant]
		d = fmt.Sprintf("SecDataset %s `\n%s\n`\nSecRule ARGS_GET:q \"@pmFromDataset %s\" \"id:1,phase:1,deny\"", s, content, s)
	case "pmf":
		content := map[string]string{"0": "abc\nx\n", "1": "zzz\n1\n", "2": "ab c\nx\n", "3": "ab\nc\nx\n", "4": "Abc\nMÜLLER\n", "5": "abc\nmüller\n"}[variant]
		cfg = cfg.WithRootFS(fstest.MapFS{s + ".data": &fstest.MapFile{Data: []byte(content)}})
		d = fmt.Sprintf(`SecRule ARGS_GET:q "@pmFromFile %s.data" "id:1,phase:1,deny"`, s)
	case "vschema":
		// one schema file name, two contents, in different root file systems
		content := map[string]string{"0": `{"type":"object","required":["a"]}`, "1": `{"type":"object","required":["b"]}`,
			"2": `{"type":"object","required":["a"]}`, "3": `{"type":"object","required":["b"]}`}[variant]
		cfg = cfg.WithRootFS(fstest.MapFS{s + ".json": &fstest.MapFile{Data: []byte(content)}})
		d = fmt.Sprintf(`SecRule ARGS_GET:q "@validateSchema %s.json" "id:1,phase:1,deny"`, s)
	case "restpath":
		d = fmt.Sprintf(`SecRule ARGS_GET:q "@restpath %s" "id:1,phase:1,deny"`, s)
	case "rx":
		d = fmt.Sprintf(`SecRule ARGS_GET:q "@rx %s" "id:1,phase:1,deny"`, s)
		if variant == "1" {
			d = "SecRxPreFilter On\n" + d
		}
	case "ctl":
		d = fmt.Sprintf("SecAction \"id:2,phase:1,pass,nolog,ctl:ruleRemoveTargetById=1;ARGS_GET:/%s/\"\nSecRule ARGS_GET \"@streq 1\" \"id:1,phase:1,deny\"", s)
	case "relstatus":
		d = fmt.Sprintf("SecAuditLogRelevantStatus %s\nSecRule ARGS_GET:q \"@streq %s\" \"id:1,phase:1,deny\"", s, s)
	}
	return d, cfg.WithDirectives("SecRuleEngine On\n" + d)
}

func memoBuild(c string) (w coraza.WAF, res string) {
	defer func() {
		if r := recover(); r != nil {
			w, res = nil, "PANIC"
		}
	}()
	p := strings.SplitN(c, ":", 3)
	_, cfg := memoConfig(p[0], gen.Unfield(p[1]), p[2])
	waf, err := coraza.NewWAF(cfg)
	if err != nil {
		return nil, "E"
	}
	return waf, ""
}

func memoProbe(w coraza.WAF, probes []string) (res string) {
	defer func() {
		if r := recover(); r != nil {
			res = "PANIC"
		}
	}()
	var sb strings.Builder
	for _, p := range probes {
		tx := w.NewTransaction()
		v := gen.Unfield(p)
		tx.AddGetRequestArgument("q", v)
		tx.AddGetRequestArgument(v, "1")
		tx.AddRequestHeader(v, "1")
		tx.AddRequestHeader("X-Tok-1", "1")
		tx.AddGetRequestArgument("X-Tok-2", "1")
		if tx.ProcessRequestHeaders() != nil {
			sb.WriteByte('1')
		} else {
			sb.WriteByte('0')
		}
		tx.ProcessLogging()
		tx.Close()
	}
	return sb.String()
}

func closeWAF(w coraza.WAF) {
	if c, ok := w.(interface{ Close() error }); ok {
		c.Close()
	}
}

// the same harness built with -tags coraza.no_memoize, as a coprocess (VERIF_NOMEMO_BIN): C13 demands
// that behaviour with the process-wide cache equals behaviour with the cache compiled out
var (
	nomemoIn  *bufio.Writer
	nomemoOut *bufio.Scanner
)

func nomemoObs(lhs string) string {
	bin := os.Getenv("VERIF_NOMEMO_BIN")
	if bin == "" {
		return ""
	}
	if nomemoIn == nil {
		cmd := exec.Command(bin, "serve")
		cmd.Env = append(os.Environ(), "VERIF_IS_NOMEMO=1") // the coprocess must not start one of its own
		in, err1 := cmd.StdinPipe()
		out, err2 := cmd.StdoutPipe()
		if err1 != nil || err2 != nil || cmd.Start() != nil {
			return "NOMEMO-UNAVAILABLE"
		}
		nomemoIn = bufio.NewWriter(in)
		nomemoOut = bufio.NewScanner(out)
		nomemoOut.Buffer(make([]byte, 1<<20), 1<<26)
	}
	nomemoIn.WriteString(lhs + "\n")
	nomemoIn.Flush()
	if !nomemoOut.Scan() {
		return "NOMEMO-DIED"
	}
	return nomemoOut.Text()
}

// the fields that must not depend on the cache
func memoBehaviour(obs string) string {
	var keep []string
	for _, t := range strings.Fields(obs) {
		if strings.HasPrefix(t, "alone=") || strings.HasPrefix(t, "hist=") || strings.HasPrefix(t, "last=") {
			keep = append(keep, t)
		}
	}
	if len(keep) == 0 {
		return strings.ReplaceAll(obs, " ", "_")
	}
	return strings.Join(keep, "|")
}

func execMemo(a []string) string {
	obs := execMemoLocal(a)
	if os.Getenv("VERIF_NOMEMO_BIN") != "" && os.Getenv("VERIF_IS_NOMEMO") == "" {
		other := nomemoObs("memo " + strings.Join(a, " "))
		if memoBehaviour(other) == memoBehaviour(obs) {
			obs += " nomemo=same"
		} else {
			obs += " nomemo=DIFFERS:" + memoBehaviour(other)
		}
	}
	return obs
}

func execMemoLocal(a []string) string {
	cfgs := strings.Split(a[0], ";")
	probes := strings.Split(a[1], ",")
	alone := make([]string, len(cfgs))
	for i, c := range cfgs {
		w, e := memoBuild(c)
		if w == nil {
			alone[i] = e
			continue
		}
		alone[i] = memoProbe(w, probes)
		closeWAF(w)
	}
	if left := verifhooks.MemoizeKeys(); len(left) != 0 {
		return "LEAKED-ENTRIES " + fmt.Sprint(len(left))
	}
	wafs := make([]coraza.WAF, len(cfgs))
	hist := make([]string, len(cfgs))
	for i, c := range cfgs {
		w, e := memoBuild(c)
		wafs[i] = w
		hist[i] = e
	}
	var keys []string
	for _, k := range verifhooks.MemoizeKeys() {
		p := strings.Split(k, "\x00")
		keys = append(keys, gen.Field(p[0])+"|"+strings.NewReplacer(" ", "_", "*", "").Replace(p[1]))
	}
	for i, w := range wafs {
		if w != nil {
			hist[i] = memoProbe(w, probes)
		}
	}
	// close all but the last, then probe the last again
	hist2 := "-"
	if n := len(wafs); n > 0 && wafs[n-1] != nil {
		for _, w := range wafs[:n-1] {
			if w != nil {
				closeWAF(w)
			}
		}
		hist2 = memoProbe(wafs[n-1], probes)
		closeWAF(wafs[n-1])
	} else {
		for _, w := range wafs {
			if w != nil {
				closeWAF(w)
			}
		}
	}
	return fmt.Sprintf("alone=%s hist=%s last=%s keys=%s", strings.Join(alone, "/"), strings.Join(hist, "/"), hist2, orDash(strings.Join(keys, ",")))
}

func init() {
	engines["memo"] = &engine{Exec: execMemo, Gen: func(c *ctx) {
		roles := []string{"pm", "rxkey", "rxkeyh", "rxkeyh", "rxkey", "ds", "pmf", "restpath", "rx", "ctl", "relstatus", "vschema", "vschema"}
		for i := 0; i < c.n; i++ {
			n := 2 + c.r.Intn(3)
			// few distinct strings so that the same text shows up in different roles
			pool := []string{memoStrings[c.r.Intn(len(memoStrings))], memoStrings[c.r.Intn(len(memoStrings))]}
			var cfgs []string
			same := ""
			if c.r.Chance(0.5) {
				// a history of one role: the entries most likely to meet in the cache are those of one operator
				same = roles[c.r.Intn(len(roles))]
			}
			for j := 0; j < n; j++ {
				role := roles[c.r.Intn(len(roles))]
				if same != "" {
					role = same
				}
				variant := c.r.Pick("0", "1")
				if (role == "ds" || role == "pmf") && c.r.Chance(0.6) {
					// 2/3: the same words with another phrase boundary; 4/5: the same phrases in another letter case, ASCII and not
					variant = c.r.Pick("2", "3", "4", "5")
				}
				cfgs = append(cfgs, role+":"+gen.Field(pool[c.r.Intn(2)])+":"+variant)
				c.stats.Hit("role:" + role)
			}
			probes := []string{gen.Field("abc"), gen.Field("x"), gen.Field("zzz"), gen.Field("1"), gen.Field(pool[0]), gen.Field("ABC"), gen.Field("c"), gen.Field("ab c"), gen.Field(`{"a":1}`), gen.Field(`{"b":1}`), gen.Field("müller"), gen.Field("MÜLLER"), gen.Field("u42"), gen.Field("u{id}"), gen.Field("{id}")}
			obs := c.run("memo", strings.Join(cfgs, ";"), strings.Join(probes, ","))
			if strings.Contains(obs, "1") {
				c.stats.Hit("some-probe-blocked")
			}
		}
	}}
}
