package main

import (
	"fmt"
	"sort"
	"strings"

	coraza "github.com/corazawaf/coraza/v3"
	"github.com/corazawaf/coraza/v3/collection"
	"github.com/corazawaf/coraza/v3/experimental/plugins/plugintypes"
	"verifharness/internal/gen"
)

var decodeWAF, decodeLimitWAF, decodeRoomyWAF coraza.WAF

func dumpColl(c collection.Collection) string {
	var out []string
	for _, md := range c.FindAll() {
		out = append(out, gen.Field(md.Key())+"="+gen.Field(md.Value()))
	}
	sort.Strings(out)
	return orDash(strings.Join(out, ","))
}

// decode query <raw> | cookie <raw> | body <raw> | hdr <name> <value> <lookup name>
func execDecode(a []string) string {
	if a[0] == "json" {
		return execDecodeJSON(a)
	}
	if a[0] == "mp" || a[0] == "mpbad" || a[0] == "mpbadE" {
		return execDecodeMP(a)
	}
	if a[0] == "xml" || a[0] == "xmlbad" {
		return execDecodeXML(a)
	}
	if decodeWAF == nil {
		w, err := coraza.NewWAF(coraza.NewWAFConfig().WithDirectives("SecRuleEngine On\nSecRequestBodyAccess On\n"))
		if err != nil {
			panic(err)
		}
		decodeWAF = w
	}
	if decodeLimitWAF == nil {
		w, err := coraza.NewWAF(coraza.NewWAFConfig().WithDirectives("SecRuleEngine On\nSecArgumentsLimit 3\n"))
		if err != nil {
			panic(err)
		}
		decodeLimitWAF = w
	}
	if decodeRoomyWAF == nil {
		w, err := coraza.NewWAF(coraza.NewWAFConfig().WithDirectives("SecRuleEngine On\nSecArgumentsLimit 12\n"))
		if err != nil {
			panic(err)
		}
		decodeRoomyWAF = w
	}
	waf := decodeWAF
	if a[0] == "limit" {
		waf = decodeLimitWAF
	}
	if a[0] == "queryL" {
		// a request far below an argument limit of 12, on a WAF whose (pooled) transactions have seen many other names
		waf = decodeRoomyWAF
		a = append([]string{"query"}, a[1:]...)
	}
	tx := waf.NewTransaction()
	defer tx.Close()
	st := tx.(plugintypes.TransactionState)
	v := st.Variables()
	switch a[0] {
	case "query":
		raw := gen.Unfield(a[1])
		tx.ProcessURI("/p?"+raw, "GET", "HTTP/1.1")
		return fmt.Sprintf("get=%s args=%s names=%s qs=%s err=%s", dumpColl(v.ArgsGet()), dumpColl(v.Args()), dumpColl(v.ArgsGetNames()),
			gen.Field(v.QueryString().Get()), gen.B01(v.UrlencodedError().Get() != "0" && v.UrlencodedError().Get() != ""))
	case "limit":
		// SecArgumentsLimit 3: more argument names than the limit must be visible or flagged
		raw := gen.Unfield(a[1])
		tx.ProcessURI("/p?"+raw, "GET", "HTTP/1.1")
		tx.ProcessRequestHeaders()
		flagged := tx.IsInterrupted() || (v.UrlencodedError().Get() != "0" && v.UrlencodedError().Get() != "") || v.RequestBodyError().Get() == "1"
		return fmt.Sprintf("get=%s flagged=%s", dumpColl(v.ArgsGet()), gen.B01(flagged))
	case "cookie":
		tx.AddRequestHeader("Cookie", gen.Unfield(a[1]))
		return fmt.Sprintf("cookies=%s", dumpColl(v.RequestCookies()))
	case "body":
		raw := gen.Unfield(a[1])
		tx.AddRequestHeader("Content-Type", "application/x-www-form-urlencoded")
		tx.ProcessRequestHeaders()
		tx.WriteRequestBody([]byte(raw))
		tx.ProcessRequestBody()
		return fmt.Sprintf("post=%s args=%s body=%s", dumpColl(v.ArgsPost()), dumpColl(v.Args()), gen.Field(v.RequestBody().Get()))
	case "hdr":
		tx.AddRequestHeader(gen.Unfield(a[1]), gen.Unfield(a[2]))
		var got []string
		for _, x := range v.RequestHeaders().Get(gen.Unfield(a[3])) {
			got = append(got, gen.Field(x))
		}
		return fmt.Sprintf("all=%s get=%s", dumpColl(v.RequestHeaders()), orDash(strings.Join(got, ",")))
	}
	return "BADOP"
}

func pctAll(s string) string {
	var sb strings.Builder
	for i := 0; i < len(s); i++ {
		b := s[i]
		if (b >= '0' && b <= '9') || (b >= 'a' && b <= 'z') || (b >= 'A' && b <= 'Z') {
			sb.WriteByte(b)
		} else {
			fmt.Fprintf(&sb, "%%%02X", b)
		}
	}
	return sb.String()
}

func init() {
	engines["decode"] = &engine{Exec: execDecode, Gen: func(c *ctx) {
		names := []string{"a", "A", "b", "", "a b", "x%41", "k=", "n&m", "é", "\xff", "c+d", "%", "%4", "q#r", "long_name_1"}
		for i := 0; i < c.n; i++ {
			if c.arg == "bodyerr" {
				// C20: bodies whose processing fails or nearly fails (JSON nesting around the depth limit with
				// later siblings, malformed multipart) — the failure has to show in REQBODY_ERROR
				if i%3 == 0 {
					genDecodeMP(c)
				} else {
					genDecodeJSON(c)
				}
				continue
			}
			if i%4 == 1 {
				genDecodeJSON(c)
				continue
			}
			if i%8 == 2 {
				genDecodeMP(c)
				continue
			}
			if i%8 == 6 {
				genDecodeXML(c)
				continue
			}
			kind := c.r.Pick("query", "query", "body", "cookie", "hdr")
			if i%50 == 7 {
				// over the argument limit (3): six distinct names
				var ps []string
				for k := 0; k < 4+c.r.Intn(3); k++ {
					ps = append(ps, fmt.Sprintf("n%d=%d", k, c.r.Intn(10)))
				}
				c.stats.Hit("kind:limit")
				c.run("decode", "limit", gen.Field(strings.Join(ps, "&")))
				continue
			}
			c.stats.Hit("kind:" + kind)
			if kind == "hdr" {
				n := c.r.Pick("X-A", "x-a", "Content-Length", "A", "aB")
				look := n
				if c.r.Chance(0.6) {
					look = c.r.Pick(strings.ToUpper(n), strings.ToLower(n), "other")
				}
				c.run("decode", "hdr", gen.Field(n), gen.Field(c.r.Bytes(3)), gen.Field(look))
				continue
			}
			var parts []string
			for k := c.r.Intn(5); k > 0; k-- {
				n, v := names[c.r.Intn(len(names))], c.r.Pick(eVals...)
				if c.r.Chance(0.3) {
					v = c.r.Bytes(2)
				}
				switch {
				case kind == "cookie":
					parts = append(parts, c.r.Pick("", " ")+n+"="+v)
				case c.r.Chance(0.7):
					parts = append(parts, pctAll(n)+"="+pctAll(v)) // the independent encoder
					c.stats.Hit("pair:encoded")
				default:
					parts = append(parts, n+c.r.Pick("=", "", "==")+v) // raw, possibly malformed
					c.stats.Hit("pair:raw")
				}
			}
			sep := "&"
			if kind == "cookie" {
				sep = c.r.Pick("; ", ";", " ; ")
			}
			raw := strings.Join(parts, sep)
			if c.r.Chance(0.1) {
				raw += c.r.Pick("&", "&&", "=", "%", "%4", "#frag", ";")
			}
			if kind == "query" && c.r.Chance(0.3) {
				c.stats.Hit("kind:queryL")
				if c.r.Chance(0.5) {
					raw += fmt.Sprintf("&u%d=%d", c.r.Intn(400), c.r.Intn(10))
				}
				kind = "queryL"
			}
			c.run("decode", kind, gen.Field(raw))
		}
	}}
}
