package main

import (
	"bytes"
	"fmt"
	"io"
	"os"
	"path/filepath"
	"strings"
	"time"

	coraza "github.com/corazawaf/coraza/v3"
	"github.com/corazawaf/coraza/v3/experimental/verifhooks"
	"verifharness/internal/gen"
)

// nopanic <config text (hex)> <request script (hex)>  =>  cfg=ok|err|PANIC|HANG run=ok|PANIC|HANG|-
// Everything runs under recover() with a wall-clock watchdog.

var fileDirectives = []string{"secdebuglog", "secauditlog", "secauditlogdir", "secauditlogstoragedir", "secuploaddir", "sectmpdir", "secdatadir", "include", "secauditlog2"}

func safeDir() string {
	d := filepath.Join(os.TempDir(), "nopanic")
	os.MkdirAll(d, 0o755)
	return d
}

// sanitize drops lines that would make the library open arbitrary files
func sanitize(cfg string) string {
	var out []string
	for _, l := range strings.Split(cfg, "\n") {
		t := strings.ToLower(strings.TrimSpace(l))
		bad := false
		name := t
		if i := strings.IndexAny(t, " \t"); i >= 0 {
			name = t[:i]
		}
		for _, d := range fileDirectives {
			// the directive name itself (SecAuditLogFormat, SecAuditLogParts, … are not file directives)
			if name == d && !strings.Contains(l, safeDir()) {
				bad = true
			}
		}
		if strings.Contains(t, "fromfile") || strings.Contains(t, "inspectfile") || strings.Contains(t, "exec:") {
			bad = true
		}
		if !bad {
			out = append(out, l)
		}
	}
	return strings.Join(out, "\n")
}

func withWatchdog(f func() string) string {
	ch := make(chan string, 1)
	go func() {
		defer func() {
			if r := recover(); r != nil {
				ch <- "PANIC"
			}
		}()
		ch <- f()
	}()
	select {
	case r := <-ch:
		return r
	case <-time.After(5 * time.Second):
		return "HANG"
	}
}

func execNoPanic(a []string) string {
	cfg := sanitize(gen.Unfield(a[0]))
	script := gen.Unfield(a[1])
	var waf coraza.WAF
	c := withWatchdog(func() string {
		w, err := coraza.NewWAF(coraza.NewWAFConfig().WithDirectives(cfg))
		if err != nil {
			return "err"
		}
		waf = w
		return "ok"
	})
	if c != "ok" {
		return "cfg=" + c + " run=-"
	}
	defer closeWAF(waf)
	r := withWatchdog(func() string {
		tx := waf.NewTransaction()
		defer func() { tx.Close() }()
		// script: lines "<op> <arg…>"
		for _, l := range strings.Split(script, "\n") {
			p := strings.SplitN(l, "\x00", 3)
			for len(p) < 3 {
				p = append(p, "")
			}
			switch p[0] {
			case "conn":
				tx.ProcessConnection(p[1], len(p[2]), "srv", 80)
			case "uri":
				tx.ProcessURI(p[1], p[2], "HTTP/1.1")
			case "hdr":
				tx.AddRequestHeader(p[1], p[2])
			case "get":
				tx.AddGetRequestArgument(p[1], p[2])
			case "post":
				tx.AddPostRequestArgument(p[1], p[2])
			case "h1":
				tx.ProcessRequestHeaders()
			case "wb":
				tx.WriteRequestBody([]byte(p[1]))
			case "rb":
				tx.ReadRequestBodyFrom(bytes.NewReader([]byte(p[1])))
			case "b2":
				tx.ProcessRequestBody()
			case "rhdr":
				tx.AddResponseHeader(p[1], p[2])
			case "h3":
				tx.ProcessResponseHeaders(200+len(p[1]), "HTTP/1.1")
			case "wr":
				tx.WriteResponseBody([]byte(p[1]))
			case "b4":
				tx.ProcessResponseBody()
			case "lg":
				tx.ProcessLogging()
			case "newtx":
				// the connector is done with this request and serves the next one on the same WAF (a recycled object)
				tx.Close()
				tx = waf.NewTransaction()
			case "rqr":
				if rd, err := tx.RequestBodyReader(); err == nil && rd != nil {
					io.Copy(io.Discard, rd)
				}
			case "rsr":
				if rd, err := tx.ResponseBodyReader(); err == nil && rd != nil {
					io.Copy(io.Discard, rd)
				}
			case "mr":
				for _, m := range tx.MatchedRules() {
					_ = m.ErrorLog()
					_ = m.AuditLog()
				}
			}
		}
		return "ok"
	})
	return "cfg=ok run=" + r
}

func init() {
	engines["nopanic"] = &engine{Exec: execNoPanic, Gen: func(c *ctx) {
		dirs, acts, ops, tfs, vars := verifhooks.Names()
		pick := func(l []string) string { return l[c.r.Intn(len(l))] }
		argFor := func() string {
			switch c.r.Intn(12) {
			case 0:
				return ""
			case 1:
				return c.r.Pick("On", "Off", "DetectionOnly", "RelevantOnly", "Reject", "ProcessPartial", "Serial", "Native", "JSON")
			case 2:
				return fmt.Sprint(c.r.Intn(2000) - 5)
			case 3:
				return c.r.Pick("ABCFHZ", "AZ", "ABZ", "Z", "+E", "-A", "^4", "(", "[a", "\\", "\"", "'")
			case 4:
				return "tx." + c.r.ASCII(3) + "=" + c.r.Pick("+1", "-x", "%{tx.a}", "%{", "%{.}", "%{json.a}", "%{xml.a}", "%{rule.id}", "%{env.HOME}", "%{matched_var}", "")
			case 5:
				return c.r.Pick("ruleEngine=Off", "ruleRemoveById=1-2", "ruleRemoveById=x", "ruleRemoveTargetById=1;ARGS:/(/", "requestBodyLimit=-1", "requestBodyLimit=0", "responseBodyLimit=-5", "auditLogParts=+E", "auditLogParts=", "ruleRemoveTargetByTag=t;", "debugLogLevel=99", "requestBodyProcessor=XML", "forceRequestBodyVariable=on", "=")
			case 6:
				return c.r.Bytes(3)
			default:
				return c.r.ASCII(6)
			}
		}
		target := func() string {
			v := pick(vars)
			switch c.r.Intn(8) {
			case 0:
				return "&" + v
			case 1:
				return "!" + v + ":" + c.r.ASCII(3)
			case 2:
				return v + ":/" + c.r.Pick("a", "(", "[", "\\", "a|b", "^x$") + "/"
			case 3:
				return v + ":" + c.r.ASCII(4)
			case 4:
				return v + ":" + c.r.Pick("'", "/", "//", "&", "!", "|", "")
			default:
				return v
			}
		}
		goodAction := func() string {
			switch c.r.Intn(30) {
			case 0:
				return c.r.Pick("deny", "drop", "pass", "block", "allow", "allow:phase", "allow:request")
			case 1:
				return "redirect:http://e.x/" + c.r.ASCII(3)
			case 2:
				return "status:" + c.r.Pick("403", "302", "0", "999", "200")
			case 3:
				return "skip:" + fmt.Sprint(1+c.r.Intn(3))
			case 4:
				return "skipAfter:M" + fmt.Sprint(c.r.Intn(3))
			case 5:
				return c.r.Pick("capture", "multiMatch", "log", "nolog", "auditlog", "noauditlog")
			case 6:
				return "severity:" + c.r.Pick("0", "2", "7", "CRITICAL", "NOTICE")
			case 7:
				return "msg:'" + c.r.Pick("m", "x %{MATCHED_VAR}", "%{", "%{%{", "%{}", "%{.}", "%{tx.}", "%{tx.a}", "%{rule.id}", "%{json.a}", "%{xml.b}", "%{args.q}") + "'"
			case 8:
				return "logdata:'" + c.r.Pick("%{MATCHED_VAR}", "%{MATCHED_VAR}", "%{", "%", "%{tx", "%{MATCHED_VAR_NAME}", "%{tx.0}", "d", "%{request_headers.host}", "%{files_tmp_content.a}", "%{geo.country}") + "'"
			case 9:
				return "tag:'" + c.r.ASCII(3) + "'"
			case 10, 11, 12:
				return "setvar:'" + c.r.Pick("tx.a=+1", "tx.a=-1", "!tx.a", "tx.a", "tx.b=%{tx.a}", "tx.%{tx.a}=1", "tx.c=%{matched_var}", "tx.a=+%{tx.b}", "tx.s=", "TX.a=x", "tx.a=%{env.x}", "tx.a=%{rule.msg}", "tx.a=%{json.x}", "tx.a=%{xml.x}", "tx.a=%{", "tx.a=%{%{", "tx.%{=1", "tx.a=%", "tx.b=%{tx.s}", "tx.q=%{query_string}", "tx.q=%{request_body}", "tx.q=%{args.e}", "tx.q=%{request_headers.x-empty}", "tx.q=%{matched_var}%{tx.s}") + "'"
			case 13:
				return "setenv:'" + c.r.Pick("a=b", "a", "=b", "a=%{tx.a}") + "'"
			case 14, 15, 16:
				return "ctl:" + c.r.Pick("ruleEngine=Off", "ruleEngine=DetectionOnly", "ruleEngine=On", "ruleRemoveById=1", "ruleRemoveById=1-20", "ruleRemoveByTag=t", "ruleRemoveByMsg=m",
					"ruleRemoveTargetById=1;ARGS:a", "ruleRemoveTargetById=1-9;ARGS", "ruleRemoveTargetByTag=t;ARGS:/a/", "ruleRemoveTargetByMsg=m;REQUEST_HEADERS", "requestBodyLimit=-1", "requestBodyLimit=0", "requestBodyLimit=3",
					"responseBodyLimit=-1", "responseBodyLimit=2", "requestBodyAccess=On", "requestBodyAccess=Off", "responseBodyAccess=On", "forceRequestBodyVariable=On", "forceResponseBodyVariable=On",
					"requestBodyProcessor=XML", "requestBodyProcessor=JSON", "requestBodyProcessor=MULTIPART", "requestBodyProcessor=URLENCODED", "requestBodyProcessor=nope", "responseBodyProcessor=JSON",
					"auditEngine=On", "auditLogParts=+E", "auditLogParts=-B", "debugLogLevel=9", "hashEngine=On")
			case 17, 18, 19:
				return "t:" + pick(tfs)
			case 20:
				return c.r.Pick("rev:1", "ver:'x'", "maturity:1", "accuracy:1", "initcol:ip=%{REMOTE_ADDR}", "expirevar:tx.a=1", "sanitiseArg:x", "chain")
			default:
				return c.r.Pick("pass", "nolog", "t:none")
			}
		}
		goodOp := func() string {
			o := pick(ops)
			switch o {
			case "eq", "ge", "gt", "le", "lt":
				return "@" + o + " " + c.r.Pick("0", "1", "%{tx.a}", "x")
			case "rx":
				return "@rx " + c.r.Pick("a", "^a$", "(a)(b)?", "a|b", "(?i)x", "[", "\\d+", "(a)(b)(c)(d)(e)(f)(g)(h)(i)(j)", "\\xff")
			case "ipMatch":
				return "@ipMatch " + c.r.Pick("1.2.3.4", "10.0.0.0/8", "::1", "x", "1.2.3.4/99", "")
			case "validateByteRange":
				return "@validateByteRange " + c.r.Pick("1-255", "0", "10,13,32-126", "300", "5-1", "a")
			case "pm", "pmf", "pmFromFile", "pmFromDataset":
				return "@pm " + c.r.Pick("a b", "x", "  ", "A B C")
			case "restpath":
				return "@restpath " + c.r.Pick("/a/{id}", "/{a}/{b}", "{", "/a")
			case "validateNid":
				return "@validateNid " + c.r.Pick("cl \\d+", "us \\d{3}", "xx a", "cl", "", "cl .*", "us .*", "cl [-.k0-9]+", "us \\S+")
			case "inspectFile", "ipMatchFromFile", "ipMatchF", "validateSchema", "validateDTD":
				return "@unconditionalMatch"
			}
			return "@" + o + " " + c.r.Pick("a", "", "%{tx.a}", "x y", "1", "%{", "%{%{")
		}
		goodRule := func() string {
			nt := 1 + c.r.Intn(2)
			ts := make([]string, nt)
			for i := range ts {
				if c.r.Chance(0.75) {
					ts[i] = c.r.Pick("ARGS", "ARGS:a", "ARGS_GET", "ARGS_NAMES", "&ARGS", "REQUEST_HEADERS", "REQUEST_HEADERS:Host", "REQUEST_URI", "REQUEST_BODY", "TX", "TX:a", "REQUEST_COOKIES",
						"FILES", "FILES_NAMES", "XML:/*", "JSON", "RESPONSE_BODY", "RESPONSE_HEADERS", "MATCHED_VAR", "MATCHED_VARS", "ARGS:/^a/", "!ARGS:a", "REQUEST_LINE", "ENV", "RULE", "GEO", "MULTIPART_PART_HEADERS", "ARGS_COMBINED_SIZE", "DURATION", "TIME", "UNIQUE_ID")
				} else {
					ts[i] = target()
				}
			}
			as := []string{"id:" + fmt.Sprint(1+c.r.Intn(50)), "phase:" + fmt.Sprint(1+c.r.Intn(5))}
			for k := c.r.Intn(5); k > 0; k-- {
				as = append(as, goodAction())
			}
			return fmt.Sprintf("SecRule %s \"%s\" \"%s\"", strings.Join(ts, "|"), goodOp(), strings.Join(as, ","))
		}
		goodDirective := func() string {
			return c.r.Pick("SecRuleEngine On", "SecRuleEngine DetectionOnly", "SecRequestBodyAccess On", "SecResponseBodyAccess On", "SecRequestBodyLimit 20", "SecRequestBodyLimit 5",
				"SecRequestBodyInMemoryLimit 3", "SecRequestBodyLimitAction ProcessPartial", "SecRequestBodyLimitAction Reject", "SecResponseBodyLimit 10", "SecResponseBodyLimitAction ProcessPartial",
				"SecResponseBodyMimeType text/plain", "SecArgumentsLimit 2", "SecRuleRemoveById 1", "SecRuleRemoveById 1 2 3-9", "SecRuleRemoveByTag t", "SecRuleRemoveByMsg m",
				"SecRuleUpdateTargetById 1 \"!ARGS:a\"", "SecRuleUpdateTargetById 1-5 \"ARGS:b\"", "SecRuleUpdateTargetByTag t \"!ARGS\"", "SecRuleUpdateActionById 1 \"deny,status:500\"",
				"SecMarker M1", "SecMarker M0", "SecDefaultAction \"phase:2,log,pass\"", "SecDefaultAction \"phase:1,deny,status:401\"", "SecAuditEngine On", "SecAuditLogParts ABCFHZ",
				"SecAuditLogRelevantStatus ^4", "SecAuditLogFormat JSON", "SecComponentSignature x", "SecWebAppId a", "SecRxPreFilter On", "SecRequestBodyJsonDepthLimit 2", "SecUploadKeepFiles Off",
				"SecAction \"id:"+fmt.Sprint(60+c.r.Intn(30))+",phase:"+fmt.Sprint(1+c.r.Intn(5))+",pass,"+goodAction()+"\"")
		}
		rule := func() string {
			if c.r.Chance(0.88) {
				return goodRule()
			}
			nt := 1 + c.r.Intn(3)
			ts := make([]string, nt)
			for i := range ts {
				ts[i] = target()
			}
			op := "@" + pick(ops) + " " + argFor()
			if c.r.Chance(0.15) {
				op = c.r.Pick("!", "") + argFor()
			}
			na := 1 + c.r.Intn(5)
			as := []string{"id:" + fmt.Sprint(1+c.r.Intn(50)), "phase:" + fmt.Sprint(c.r.Intn(6))}
			for i := 0; i < na; i++ {
				a := pick(acts)
				switch {
				case a == "t":
					a = "t:" + pick(tfs)
				case c.r.Chance(0.6):
					a += ":" + c.r.Pick("", "'") + argFor()
				}
				as = append(as, a)
			}
			return fmt.Sprintf("SecRule %s \"%s\" \"%s\"", strings.Join(ts, "|"), op, strings.Join(as, ","))
		}
		for i := 0; i < c.n; i++ {
			var lines []string
			for k := 1 + c.r.Intn(5); k > 0; k-- {
				switch c.r.Intn(10) {
				case 0, 1, 2, 5, 6, 7:
					lines = append(lines, rule())
				case 8:
					lines = append(lines, goodDirective())
				case 3:
					lines = append(lines, "SecAction \"id:"+fmt.Sprint(100+c.r.Intn(50))+",phase:"+fmt.Sprint(1+c.r.Intn(5))+","+pick(acts)+":"+argFor()+"\"")
				case 4:
					lines = append(lines, goodDirective())
				default:
					d := pick(dirs)
					lines = append(lines, d+" "+argFor())
				}
			}
			if c.r.Chance(0.35) {
				// actions that certainly run: an unconditional rule with two or three well-formed actions
				as := []string{goodAction(), goodAction()}
				if c.r.Chance(0.5) {
					as = append(as, goodAction())
				}
				lines = append(lines, "SecAction \"id:"+fmt.Sprint(200+c.r.Intn(9))+",phase:"+fmt.Sprint(1+c.r.Intn(5))+",pass,"+strings.Join(as, ",")+"\"")
			}
			if c.r.Chance(0.5) {
				lines = append([]string{"SecRuleEngine On", "SecRequestBodyAccess On", "SecResponseBodyAccess On"}, lines...)
			}
			cfg := strings.Join(lines, "\n")
			if c.r.Chance(0.25) && len(cfg) > 0 {
				// byte-level mutation
				k := c.r.Intn(len(cfg))
				switch c.r.Intn(4) {
				case 0:
					cfg = cfg[:k] + cfg[k+1:]
				case 1:
					cfg = cfg[:k] + string(cfg[k]) + cfg[k:]
				case 2:
					cfg = cfg[:k] + c.r.Pick("\"", "'", "\\", "\n", "`", "|", ",", ":", "%{", "\x00") + cfg[k:]
				default:
					cfg = cfg[:k] + " \\\n" + cfg[k:]
				}
				c.stats.Hit("config:mutated")
			}
			// request script
			var sc []string
			for k := c.r.Intn(14); k > 0; k-- {
				op := c.r.Pick("conn", "uri", "hdr", "hdr", "get", "post", "h1", "wb", "rb", "b2", "rhdr", "h3", "wr", "b4", "lg", "mr", "newtx", "rqr", "rsr", "wb", "lg")
				a1, a2 := c.r.Bytes(3), c.r.Bytes(3)
				if c.r.Chance(0.08) {
					// long values around the 280-byte log truncation, made of multi-byte pieces
					a2 = strings.Repeat(c.r.Pick("\x80", "a", "\xc3\xa9", "\xe4\xbd\xa0", "\xf0\x9f\x98\x80", "%80"), 270+c.r.Intn(40))
					if c.r.Chance(0.5) {
						a1 = a2
					}
					c.stats.Hit("value:long")
				}
				switch op {
				case "uri":
					a1, a2 = "/"+c.r.ASCII(5)+"?"+c.r.Bytes(3), "GET"
					if c.r.Chance(0.3) {
						// variables that exist and are empty: no query string, an argument without a value
						a1 = c.r.Pick("/p", "/p?", "/p?e=", "/p?e=&a=1", "/", "")
					}
				case "hdr":
					if c.r.Chance(0.4) {
						a1 = c.r.Pick("Content-Type", "Cookie", "Content-Length", "Host")
						a2 = c.r.Pick("application/x-www-form-urlencoded", "multipart/form-data; boundary=x", "application/json", "text/xml", "a=b; c", "multipart/form-data", "")
					}
				case "wb", "rb", "wr":
					a1 = c.r.Pick("a=1&b=2", "{\"a\":{\"b\":[1,2]}}", "<a><b>x</b></a>", "--x\r\nContent-Disposition: form-data; name=\"f\"; filename=\"a\"\r\n\r\nzz\r\n--x--\r\n", "{", "<a", "--x\r\n", "") + c.r.Bytes(2)
				}
				if c.r.Chance(0.1) {
					// values an operator's own parsing may trip over: separator runs, digits with check characters, addresses, ranges
					a2 = c.r.Pick("--------", "........k", "12345678-5", "000000000", "123-45-6789", "kkkkkkkkkk", "1.2.3.4", "::ffff:1.2.3.4", "99999999999999999999", "-", "%", "%u", "\\", "11.111.111-1", "---------k")
				}
				sc = append(sc, op+"\x00"+a1+"\x00"+a2)
			}
			if i%10 == 3 {
				// logging stress: every value is matched, logged and rendered (error log + audit record)
				// every registered audit format x parts with and without the rule list (K), trailer (H), bodies; both file writers
				auditCfg := "SecAuditLogParts " + c.r.Pick("ABCFHKZ", "ABCFHKZ", "ABCFHZ", "AHZ", "ABCDEFGHIJKZ", "AKZ", "ABCZ", "AZ") + "\nSecAuditLogFormat " + c.r.Pick("Native", "JSON", "JsonLegacy", "ocsf", "OCSF", "json") + "\n"
				if c.r.Chance(0.3) {
					auditCfg += "SecAuditLogType Concurrent\nSecAuditLogStorageDir " + safeDir() + "\n"
				}
				cfg = "SecRuleEngine On\nSecAuditEngine On\n" + auditCfg + "SecAuditLog " + filepath.Join(safeDir(), "a.log") + "\n" +
					"SecRule ARGS|ARGS_NAMES|REQUEST_HEADERS|REQUEST_URI \"@unconditionalMatch\" \"id:1,phase:1,pass,log,auditlog,msg:'" + c.r.Pick("%{MATCHED_VAR}", "m", "%{MATCHED_VAR_NAME}") +
					"',logdata:'" + c.r.Pick("%{MATCHED_VAR}", "%{MATCHED_VAR_NAME}", "d") + "'" + c.r.Pick("", ",t:urlDecode", ",t:lowercase", ",multiMatch,t:urlDecode") + "\""
				long := strings.Repeat(c.r.Pick("\x80", "a", "\xc3\xa9", "\xe4\xbd\xa0", "\xf0\x9f\x98\x80", "%80", "\""), 275+c.r.Intn(12))
				sc = []string{"uri\x00/p?q=" + long + "\x00GET", "get\x00" + long + "\x00" + long, "hdr\x00X\x00" + long, "h1\x00\x00", "mr\x00\x00", "lg\x00\x00"}
				c.stats.Hit("profile:logging-stress")
			}
			if i%10 == 4 {
				// body stress over recycled transactions: small limits (bodies spill to a file, reach the limit, are cut),
				// two to four requests served one after the other by one WAF, each a random subset of writes, reads of the
				// buffered bodies by the connector, phases and logging with the bodies in the audit record
				cfg = "SecRuleEngine " + c.r.Pick("On", "DetectionOnly") + "\nSecRequestBodyAccess On\nSecResponseBodyAccess On\nSecResponseBodyMimeType text/plain\n" +
					"SecRequestBodyInMemoryLimit " + fmt.Sprint(1+c.r.Intn(8)) + "\nSecRequestBodyLimit " + fmt.Sprint(4+c.r.Intn(30)) + "\nSecResponseBodyLimit " + fmt.Sprint(4+c.r.Intn(30)) + "\n" +
					"SecRequestBodyLimitAction " + c.r.Pick("Reject", "ProcessPartial") + "\nSecResponseBodyLimitAction " + c.r.Pick("Reject", "ProcessPartial") + "\n" +
					"SecAuditEngine On\nSecAuditLogParts ABCEFHZ\nSecAuditLogFormat " + c.r.Pick("Native", "JSON") + "\nSecAuditLog " + filepath.Join(safeDir(), "a.log") + "\n" +
					"SecRule REQUEST_BODY|RESPONSE_BODY|ARGS \"@contains a\" \"id:1,phase:" + fmt.Sprint(2+c.r.Intn(3)) + ",pass,log,auditlog\""
				sc = nil
				for t := 2 + c.r.Intn(3); t > 0; t-- {
					sc = append(sc, "hdr\x00Content-Type\x00"+c.r.Pick("text/plain", "application/x-www-form-urlencoded", "application/json"), "h1\x00\x00")
					for k := c.r.Intn(4); k > 0; k-- {
						sc = append(sc, c.r.Pick("wb", "wb", "rb")+"\x00"+strings.Repeat("a", c.r.Intn(24))+"\x00")
					}
					for _, op := range []string{"b2", "rqr", "rhdr\x00Content-Type\x00text/plain", "h3", "wr\x00" + strings.Repeat("a", c.r.Intn(24)), "b4", "rsr", "rqr", "lg"} {
						if c.r.Chance(0.7) {
							if !strings.Contains(op, "\x00") {
								op += "\x00\x00"
							}
							sc = append(sc, op)
						}
					}
					sc = append(sc, "newtx\x00\x00")
				}
				c.stats.Hit("profile:body-stress")
			}
			obs := c.run("nopanic", gen.Field(cfg), gen.Field(strings.Join(sc, "\n")))
			c.stats.Hit("obs:" + strings.ReplaceAll(obs, " ", ","))
		}
	}}
}
