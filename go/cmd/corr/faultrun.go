package main

import (
	"bytes"
	"fmt"
	"io"
	"os"
	"path/filepath"
	"runtime"
	"strconv"
	"strings"
	"syscall"
	"time"

	coraza "github.com/corazawaf/coraza/v3"
	"github.com/corazawaf/coraza/v3/debuglog"
	"github.com/corazawaf/coraza/v3/experimental/plugins/plugintypes"
)

// faultrun: ONE scripted transaction per process, meant to run under
//
//	strace -f -e trace=<sc> -e inject=<sc>:error=<E>:when=<N>
//
// The transaction's window is delimited by two sentinel writes to fd 2; the report is written
// to stdout after the window.
//
//	-arg "kind=spill|mem|upload|trunc uploads=<k> keep=Off|On|RelevantOnly base=<dir> stop=<calls>"
type countingWriter struct{ n int }

func (c *countingWriter) Write(p []byte) (int, error) { c.n++; return len(p), nil }

func faultRun(c *ctx) {
	// strace's inject=…:when=N counts per thread: keep the whole transaction on one OS thread
	runtime.LockOSThread()
	kv := map[string]string{"kind": "spill", "uploads": "1", "keep": "Off", "stop": "99"}
	for _, f := range strings.Fields(c.arg) {
		if i := strings.Index(f, "="); i > 0 {
			kv[f[:i]] = f[i+1:]
		}
	}
	base := kv["base"]
	tmp, upl := filepath.Join(base, "tmp"), filepath.Join(base, "upload")
	os.RemoveAll(base)
	os.MkdirAll(tmp, 0o755)
	os.MkdirAll(upl, 0o755)
	os.Setenv("TMPDIR", tmp)
	mem := "8"
	if kv["kind"] == "mem" {
		mem = "1000"
	}
	logs := &countingWriter{}
	cfg := coraza.NewWAFConfig().WithDebugLogger(debuglog.Default().WithOutput(logs).WithLevel(debuglog.LevelError)).WithDirectives(
		"SecRuleEngine On\nSecRequestBodyAccess On\nSecRequestBodyLimit 1000\nSecRequestBodyInMemoryLimit " + mem + "\nSecUploadDir " + upl + "\nSecUploadKeepFiles " + kv["keep"] + "\n" +
			`SecAction "id:1,phase:1,pass,log,ctl:requestBodyProcessor=` + map[bool]string{true: "MULTIPART", false: "RAW"}[kv["kind"] == "upload" || kv["kind"] == "trunc" || kv["kind"] == "uploadoff"] + `"` + "\n" +
			`SecRule REQUEST_BODY "@rx ." "id:2,phase:2,pass,nolog"` + "\n" + `SecRule FILES "@rx ." "id:3,phase:2,pass,nolog"` + "\n" +
			// uploadoff: the last rule of the body phase switches the engine off for the rest of the transaction (Close still has to clean up)
			map[bool]string{true: `SecAction "id:4,phase:2,pass,nolog,ctl:ruleEngine=Off"` + "\n", false: ""}[kv["kind"] == "uploadoff"])
	waf, err := coraza.NewWAF(cfg)
	if err != nil {
		fmt.Println("CONFIGERR", err)
		return
	}
	nUploads, _ := strconv.Atoi(kv["uploads"])
	stop, _ := strconv.Atoi(kv["stop"])
	var body []byte
	ctype := "text/plain"
	if kv["kind"] == "upload" || kv["kind"] == "trunc" || kv["kind"] == "uploadoff" {
		var sb strings.Builder
		for i := 0; i < nUploads; i++ {
			fmt.Fprintf(&sb, "--bnd\r\nContent-Disposition: form-data; name=\"f%d\"; filename=\"n%d.txt\"\r\n\r\nfile-content-%d\r\n", i, i, i)
		}
		sb.WriteString("--bnd\r\nContent-Disposition: form-data; name=\"a\"\r\n\r\nv\r\n--bnd--\r\n")
		body = []byte(sb.String())
		if kv["kind"] == "trunc" {
			// the client went away in the middle of the last file part
			body = body[:strings.LastIndex(sb.String(), "file-content-")+8]
		}
		ctype = "multipart/form-data; boundary=bnd"
	} else {
		body = []byte("abcdefghijklmno")
	}
	res := map[string]string{"panic": "0"}
	calls := 0
	errs := []string{}
	func() {
		defer func() {
			if r := recover(); r != nil {
				res["panic"] = "1"
			}
		}()
		_ = time.Now().Local().Format(time.RFC3339) // load the time zone database outside the window
		syscall.Write(2, []byte("SENTINEL-BEGIN\n"))
		tx := waf.NewTransaction()
		step := func(name string, f func() error) {
			if calls >= stop {
				return
			}
			calls++
			syscall.Access("MARK-"+name, 0) // a traced, never injected syscall that names the step
			if e := f(); e != nil {
				errs = append(errs, name)
			}
		}
		tx.AddRequestHeader("Content-Type", ctype)
		step("h1", func() error { tx.ProcessRequestHeaders(); return nil })
		chunks := [][]byte{body[:4], body[4:10], body[10:]}
		for i, ch := range chunks {
			ch := ch
			step("w"+strconv.Itoa(i+1), func() error { _, _, e := tx.WriteRequestBody(ch); return e })
		}
		step("b2", func() error { _, e := tx.ProcessRequestBody(); return e })
		step("rd", func() error {
			r, e := tx.RequestBodyReader()
			if e != nil {
				return e
			}
			got, e := io.ReadAll(r)
			if e == nil && !bytes.Equal(got, body) {
				res["readback"] = "differs"
			}
			return e
		})
		step("lg", func() error { tx.ProcessLogging(); return nil })
		st := tx.(plugintypes.TransactionState)
		res["reqbodyerr"] = st.Variables().RequestBodyError().Get()
		res["msterr"] = st.Variables().MultipartStrictError().Get()
		insp := 0
		for _, mr := range tx.MatchedRules() {
			if id := mr.Rule().ID(); id == 2 || id == 3 {
				insp++
			}
		}
		res["inspected"] = strconv.Itoa(insp)
		syscall.Access("MARK-close", 0)
		if e := tx.Close(); e != nil {
			errs = append(errs, "close")
		}
		syscall.Write(2, []byte("SENTINEL-END\n"))
	}()
	left := func(d string) int {
		es, _ := os.ReadDir(d)
		return len(es)
	}
	if res["readback"] == "" {
		res["readback"] = "ok"
	}
	fmt.Printf("REPORT panic=%s errs=%s reqbodyerr=%s msterr=%s inspected=%s readback=%s logerrs=%d lefttmp=%d leftupload=%d\n", res["panic"], orDash(strings.Join(errs, "+")),
		orDash(res["reqbodyerr"]), orDash(res["msterr"]), orDash(res["inspected"]), res["readback"], logs.n, left(tmp), left(upl))
}

func init() {
	// keep the main goroutine on the process's first thread from the very start, so the number of
	// calls that thread makes before the window is the same in every run
	if len(os.Args) > 1 && os.Args[1] == "faultrun" {
		runtime.LockOSThread()
	}
	engines["faultrun"] = &engine{Gen: faultRun, Exec: func([]string) string { return "NOEXEC" }}
}
