package main

import (
	"fmt"
	"net"
	"strconv"
	"strings"
	"testing/fstest"

	coraza "github.com/corazawaf/coraza/v3"
	"github.com/corazawaf/coraza/v3/experimental/plugins/plugintypes"
	"github.com/corazawaf/coraza/v3/experimental/verifhooks"
	"verifharness/internal/gen"
)

var opWAF coraza.WAF

func opTx() (plugintypes.TransactionState, func()) {
	if opWAF == nil {
		w, err := coraza.NewWAF(coraza.NewWAFConfig())
		if err != nil {
			panic(err)
		}
		opWAF = w
	}
	tx := opWAF.NewTransaction()
	return tx.(plugintypes.TransactionState), func() { tx.Close() }
}

// op <name> <arg> <value> => 0|1|ERR : one direct operator call (no negation, no capture)
func execOp(a []string) string {
	name, arg, val := a[0], gen.Unfield(a[1]), gen.Unfield(a[2])
	opts := plugintypes.OperatorOptions{Arguments: arg}
	switch name {
	case "pmFromFile":
		// the argument field is the content of the data file
		opts = plugintypes.OperatorOptions{Arguments: "p.data", Path: []string{"."}, Root: fstest.MapFS{"p.data": &fstest.MapFile{Data: []byte(arg)}}}
	case "pmFromDataset":
		// the argument field is the dataset: phrases separated by line feeds
		opts = plugintypes.OperatorOptions{Arguments: "ds", Datasets: map[string][]string{"ds": strings.Split(arg, "\n")}}
	}
	op, err := verifhooks.Operator(name, opts)
	if err != nil {
		return "ERR"
	}
	tx, done := opTx()
	defer done()
	r1 := op.Evaluate(tx, val)
	r2 := op.Evaluate(tx, strings.Clone(val))
	if r1 != r2 {
		return "UNSTABLE"
	}
	return gen.B01(r1)
}

var opNames = []string{"streq", "contains", "beginsWith", "endsWith", "within", "eq", "ge", "gt", "le", "lt",
	"validateUrlEncoding", "validateUtf8Encoding", "validateByteRange", "pm", "unconditionalMatch", "noMatch", "ipMatch", "pmFromFile", "pmFromDataset"}

func numLike(r *gen.R) string {
	switch r.Intn(12) {
	case 0:
		return ""
	case 1:
		return r.Pick("+", "-", "+-1", "1_0", "0x10", " 1", "1 ", "1e3", "१")
	case 2:
		return r.Pick("99999999999999999999x", "18446744073709551616x", "18446744073709551615x", "-99999999999999999999z", "9223372036854775807", "9223372036854775808", "-9223372036854775808", "-9223372036854775809", "99999999999999999999", "-99999999999999999999", "000000000000000000000001")
	case 3:
		return r.Pick("+", "-", "") + strconv.Itoa(r.Intn(5))
	case 4:
		return r.Pick("+", "-", "") + "0" + strconv.Itoa(r.Intn(100))
	default:
		return r.Pick("", "", "-") + strconv.Itoa(r.Intn(20))
	}
}

func rangeText(r *gen.R) string {
	n := 1 + r.Intn(4)
	parts := make([]string, n)
	for i := range parts {
		b := func() string {
			switch r.Intn(10) {
			case 0:
				return r.Pick("256", "-1", "", "x", "+5", "0", "255", "300")
			default:
				return strconv.Itoa(r.Intn(256))
			}
		}
		if r.Chance(0.6) {
			parts[i] = b() + "-" + b()
		} else {
			parts[i] = b()
		}
		if r.Chance(0.3) {
			parts[i] = r.Pick(" ", "  ", "\t") + parts[i] + r.Pick("", " ")
		}
	}
	return strings.Join(parts, ",")
}

// ---- @ipMatch: addresses in every spelling Go's net package reads, networks around them

func ipV4(r *gen.R) [4]byte {
	switch r.Intn(4) {
	case 0:
		return [4]byte{10, byte(r.Intn(4)), byte(r.Intn(256)), byte(r.Intn(256))}
	case 1:
		return [4]byte{192, 168, byte(r.Intn(3)), byte(r.Intn(256))}
	default:
		return [4]byte{byte(r.Intn(256)), byte(r.Intn(256)), byte(r.Intn(256)), byte(r.Intn(256))}
	}
}

func ipV4Text(r *gen.R, a [4]byte) string {
	s := fmt.Sprintf("%d.%d.%d.%d", a[0], a[1], a[2], a[3])
	switch r.Intn(14) {
	case 0:
		return fmt.Sprintf("::ffff:%d.%d.%d.%d", a[0], a[1], a[2], a[3])
	case 1:
		return fmt.Sprintf("::ffff:%02x%02x:%02x%02x", a[0], a[1], a[2], a[3])
	case 2:
		return fmt.Sprintf("0:0:0:0:0:ffff:%d.%d.%d.%d", a[0], a[1], a[2], a[3])
	case 3:
		return fmt.Sprintf("0:0:0:0:0:FFFF:%x:%x", int(a[0])<<8|int(a[1]), int(a[2])<<8|int(a[3]))
	case 4:
		return fmt.Sprintf("%d.%d.%d.0%d", a[0], a[1], a[2], a[3]) // leading zero: rejected
	case 5:
		return s + r.Pick(".", " ", ".1", "%eth0", "/")
	}
	return s
}

func ipV6(r *gen.R) [16]byte {
	var b [16]byte
	switch r.Intn(4) {
	case 0:
		copy(b[:], []byte{0x20, 0x01, 0x0d, 0xb8})
		b[15] = byte(r.Intn(256))
		b[7] = byte(r.Intn(3))
	case 1:
		b[15] = byte(r.Intn(3)) // ::, ::1, ::2
	case 2:
		copy(b[:], []byte{0xfe, 0x80})
		for i := 8; i < 16; i++ {
			b[i] = byte(r.Intn(256))
		}
	default:
		for i := range b {
			b[i] = byte(r.Intn(256))
		}
	}
	return b
}

func ipV6Text(r *gen.R, b [16]byte) string {
	switch r.Intn(8) {
	case 0:
		// full form
		var parts []string
		for i := 0; i < 16; i += 2 {
			parts = append(parts, fmt.Sprintf("%x", int(b[i])<<8|int(b[i+1])))
		}
		return strings.Join(parts, ":")
	case 1:
		var parts []string
		for i := 0; i < 16; i += 2 {
			parts = append(parts, fmt.Sprintf("%04X", int(b[i])<<8|int(b[i+1])))
		}
		return strings.Join(parts, ":")
	case 2:
		return net.IP(b[:]).String() + r.Pick("%eth0", ":", "::", ":1", "g", " ")
	case 3:
		// trailing dotted quad
		var parts []string
		for i := 0; i < 12; i += 2 {
			parts = append(parts, fmt.Sprintf("%x", int(b[i])<<8|int(b[i+1])))
		}
		return strings.Join(parts, ":") + fmt.Sprintf(":%d.%d.%d.%d", b[12], b[13], b[14], b[15])
	}
	return net.IP(b[:]).String()
}

func ipArgVal(r *gen.R) (string, string) {
	k := 1 + r.Intn(3)
	var nets []string
	var base4 [][4]byte
	var base6 [][16]byte
	for i := 0; i < k; i++ {
		if r.Chance(0.6) {
			a := ipV4(r)
			base4 = append(base4, a)
			t := ipV4Text(r, a)
			switch r.Intn(6) {
			case 0:
			case 1:
				t += "/32"
			case 2:
				if strings.Contains(t, ":") {
					t += "/" + strconv.Itoa(96+r.Intn(33))
				} else {
					t += "/" + strconv.Itoa(r.Intn(33))
				}
			case 3:
				t += r.Pick("/33", "/129", "/-1", "/", "/08", "/8 ", "/x", "/99999999")
			default:
				if strings.Contains(t, ":") {
					t += "/" + strconv.Itoa(r.Intn(129))
				} else {
					t += "/" + strconv.Itoa(8*(1+r.Intn(4)))
				}
			}
			nets = append(nets, t)
		} else {
			b := ipV6(r)
			base6 = append(base6, b)
			t := ipV6Text(r, b)
			switch r.Intn(4) {
			case 0:
			case 1:
				t += "/128"
			default:
				t += "/" + strconv.Itoa(r.Intn(129))
			}
			nets = append(nets, t)
		}
	}
	sep := r.Pick(",", ", ", " ,", ",,")
	arg := strings.Join(nets, sep)
	// the value: near one of the networks, in any spelling, or junk
	var val string
	switch {
	case len(base4) > 0 && r.Chance(0.55):
		a := base4[r.Intn(len(base4))]
		if r.Chance(0.5) {
			a[3] ^= byte(1 << uint(r.Intn(8)))
		}
		if r.Chance(0.3) {
			a[r.Intn(3)] ^= byte(1 << uint(r.Intn(8)))
		}
		val = ipV4Text(r, a)
	case len(base6) > 0 && r.Chance(0.7):
		b := base6[r.Intn(len(base6))]
		if r.Chance(0.6) {
			b[r.Intn(16)] ^= byte(1 << uint(r.Intn(8)))
		}
		val = ipV6Text(r, b)
	case r.Chance(0.5):
		val = ipV4Text(r, ipV4(r))
	default:
		val = r.Pick("", "::", "1.2.3", "1.2.3.4.5", "256.1.1.1", "1::2::3", "::ffff:1.2.3", "12345::", "localhost", ":::", "1:2:3:4:5:6:7:8:9", "::1.2.3.4", "1:2:3:4:5:6:1.2.3.4", "1:2:3:4:5:1.2.3.4")
	}
	return arg, val
}

func init() {
	engines["op"] = &engine{Exec: execOp, Gen: func(c *ctx) {
		for i := 0; i < c.n; i++ {
			name := opNames[c.r.Intn(len(opNames))]
			if strings.HasPrefix(c.arg, "focus=") {
				name = c.arg[6:]
			}
			var arg, val string
			switch name {
			case "eq", "ge", "gt", "le", "lt":
				arg, val = numLike(c.r), numLike(c.r)
				if c.r.Chance(0.1) {
					val = c.r.Bytes(3)
				}
			case "validateByteRange":
				arg = rangeText(c.r)
				if c.r.Chance(0.05) {
					arg = ""
				}
				val = c.r.Bytes(5)
			case "pm":
				k := 1 + c.r.Intn(4)
				ws := make([]string, k)
				for j := range ws {
					ws[j] = c.r.ASCII(1 + c.r.Intn(5))
					ws[j] = strings.ReplaceAll(ws[j], " ", "x")
				}
				if c.r.Chance(0.15) {
					// white space other than the blank inside a phrase: only the blank separates phrases
					j := c.r.Intn(k)
					ws[j] = ws[j] + c.r.Pick("\t", "\n", "\v", "\f", "\r") + c.r.Pick("x", "ab", "q1")
				}
				arg = strings.Join(ws, " ")
				if c.r.Chance(0.1) {
					arg = strings.Replace(arg, " ", "  ", 1)
				}
				if c.r.Chance(0.1) {
					arg += c.r.Pick("İ", "K", "É", "ß")
				}
				switch c.r.Intn(4) {
				case 0:
					// a phrase placed at the very end / start, case-swapped
					w := ws[c.r.Intn(k)]
					val = c.r.ASCII(4) + strings.ToUpper(w)
					if c.r.Chance(0.5) {
						val = strings.ToLower(w) + c.r.ASCII(3)
					}
				case 1:
					w := ws[c.r.Intn(k)]
					if len(w) > 1 {
						val = w[:len(w)-1]
					}
				default:
					val = c.r.ASCII(8)
				}
			case "pmFromFile", "pmFromDataset":
				// phrases one per line; in a file: padded with blanks / tabs, CRLF line ends, comments, empty lines, no final line end
				k := 1 + c.r.Intn(4)
				ws := make([]string, k)
				for j := range ws {
					ws[j] = strings.ReplaceAll(c.r.ASCII(1+c.r.Intn(5)), " ", "x")
					if c.r.Chance(0.15) {
						ws[j] += " " + c.r.Pick("b", "Cd") // a phrase with a blank inside: one phrase here, not two
					}
				}
				lines := append([]string{}, ws...)
				if name == "pmFromFile" {
					for j := range lines {
						if c.r.Chance(0.3) {
							lines[j] = c.r.Pick(" ", "\t", "   ", "") + lines[j] + c.r.Pick(" ", "\t", "  \t", "")
						}
					}
					if c.r.Chance(0.3) {
						lines = append(lines, c.r.Pick("# comment", "", "   ", "#"+ws[0]))
						c.r.Shuffle(len(lines), func(i, j int) { lines[i], lines[j] = lines[j], lines[i] })
					}
					arg = strings.Join(lines, c.r.Pick("\n", "\n", "\r\n")) + c.r.Pick("\n", "", "\r\n")
				} else {
					arg = strings.Join(lines, "\n")
				}
				w := ws[c.r.Intn(k)]
				switch c.r.Intn(5) {
				case 0:
					val = strings.ToUpper(w) // exactly the phrase, other case: the shortest possible hit
				case 1:
					val = c.r.ASCII(3) + strings.ToLower(w)
				case 2:
					val = w + c.r.ASCII(2)
				case 3:
					if len(w) > 1 {
						val = w[:len(w)-1]
					}
				default:
					val = c.r.ASCII(8)
				}
			case "validateUrlEncoding":
				// '%' followed by arbitrary byte pairs (every byte value in both nibble positions), truncations
				k := c.r.Intn(4)
				var sb strings.Builder
				for j := 0; j < k; j++ {
					switch c.r.Intn(5) {
					case 0:
						sb.WriteString(c.r.ASCII(3))
					case 1:
						sb.WriteString("%" + string([]byte{byte(c.r.Intn(256)), "0123456789abcdefABCDEF"[c.r.Intn(22)]}))
					case 2:
						sb.WriteString("%" + string([]byte{"0123456789abcdefABCDEF"[c.r.Intn(22)], byte(c.r.Intn(256))}))
					case 3:
						sb.WriteString("%" + string([]byte{"0123456789abcdefABCDEF"[c.r.Intn(22)], "0123456789abcdefABCDEF"[c.r.Intn(22)]}))
					default:
						sb.WriteString(c.r.Pick("%", "%4", "%%", "%g1", "%1g", "%\x00\x00"))
					}
				}
				val = sb.String()
			case "ipMatch":
				arg, val = ipArgVal(c.r)
			case "validateUtf8Encoding":
				// well-formed sequences at the edges of every length class (U+FFFD itself among them), next to
				// overlong forms, surrogates, values past U+10FFFF, cut sequences and stray continuation bytes
				var sb strings.Builder
				for k := 1 + c.r.Intn(4); k > 0; k-- {
					sb.WriteString(c.r.Pick("a", "~", "\x00", "\u0080", "\u07ff", "\u0800", "\ufffd", "\uffff", "\ud7ff", "\ue000", "\U00010000", "\U0010ffff", "\ufffe", "é", "你",
						"\xc0\x80", "\xc1\xbf", "\xe0\x80\x80", "\xe0\x9f\xbf", "\xf0\x80\x80\x80", "\xf0\x8f\xbf\xbf", "\xed\xa0\x80", "\xed\xbf\xbf",
						"\xf4\x90\x80\x80", "\xf5\x80\x80\x80", "\xff", "\x80", "\xbf", "\xc3", "\xe4\xbd", "\xf0\x9f\x98", "\xef\xbf", "\xc3\x28"))
				}
				val = sb.String()
				if c.r.Chance(0.3) {
					val = c.r.Bytes(6)
				}
			case "unconditionalMatch", "noMatch":
				val = c.r.Bytes(6)
			default:
				arg = c.r.Bytes(3)
				if c.r.Chance(0.5) {
					arg = c.r.ASCII(4)
				}
				switch c.r.Intn(5) {
				case 0:
					val = arg
				case 1:
					val = c.r.ASCII(3) + arg + c.r.ASCII(3)
				case 2:
					val = arg + c.r.Bytes(2)
				case 3:
					val = c.r.Bytes(2) + arg
				default:
					val = c.r.Bytes(4)
				}
				if c.r.Chance(0.15) && len(val) > 0 {
					// within: value inside the data
					arg, val = val, arg
				}
			}
			obs := c.run("op", name, gen.Field(arg), gen.Field(val))
			c.stats.Hit("op:" + name)
			c.stats.Hit("obs:" + obs)
		}
	}}
}
