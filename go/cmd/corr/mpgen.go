package main

import (
	"fmt"
	"strings"

	coraza "github.com/corazawaf/coraza/v3"
	"github.com/corazawaf/coraza/v3/collection"
	"github.com/corazawaf/coraza/v3/experimental/plugins/plugintypes"
	"verifharness/internal/gen"
)

type mpPart struct {
	name, filename, data string
	file               bool
}

var mpWAF coraza.WAF

func dumpVals(c collection.Collection) string { return dumpColl(c) }

// decode mp <ctype> <parts> <body> / decode mpbad <ctype> <body>
//
//	=> post=… files=… fnames=… fsizes=… fcs=… err=… strict=…
func execDecodeMP(a []string) string {
	if mpWAF == nil {
		w, err := coraza.NewWAF(coraza.NewWAFConfig().WithDirectives("SecRuleEngine On\nSecRequestBodyAccess On\nSecRequestBodyLimit 1000000\n"))
		if err != nil {
			return "CONFIGERR"
		}
		mpWAF = w
	}
	ctype, body := gen.Unfield(a[1]), gen.Unfield(a[len(a)-1])
	tx := mpWAF.NewTransaction()
	defer tx.Close()
	v := tx.(plugintypes.TransactionState).Variables()
	tx.AddRequestHeader("Content-Type", ctype)
	tx.ProcessRequestHeaders()
	tx.WriteRequestBody([]byte(body))
	tx.ProcessRequestBody()
	fcs := v.FilesCombinedSize().Get()
	if fcs == "" {
		fcs = "-"
	}
	return fmt.Sprintf("post=%s files=%s fnames=%s fsizes=%s fcs=%s err=%s strict=%s", dumpColl(v.ArgsPost()), dumpVals(v.Files()), dumpVals(v.FilesNames()),
		dumpColl(v.FilesSizes()), fcs, gen.B01(v.RequestBodyError().Get() == "1"), gen.B01(v.MultipartStrictError().Get() == "1"))
}

var mpNames = []string{"a", "b", "A", "x y", "a.b", "é", "n1", "field", "q;r", "up"}
var mpFiles = []string{"f.txt", "a b.php", "é.bin", "F.TXT", "shell.php", "f.txt", "x"}
var mpData = []string{"x", "", "attack", "line1\r\nline2", "--", "\r\n", "a=1&b=2", "\x00\xff", "--boundary", "<?php ?>", "é"}

// the independent encoder: RFC 7578 text for the parts
func renderMP(r *gen.R, boundary string, parts []mpPart) string {
	var sb strings.Builder
	if r.Chance(0.1) {
		sb.WriteString("preamble\r\n")
	}
	for _, p := range parts {
		sb.WriteString("--" + boundary + "\r\n")
		cd := "Content-Disposition: form-data; name=\"" + p.name + "\""
		if p.file {
			cd += "; filename=\"" + p.filename + "\""
		}
		sb.WriteString(cd + "\r\n")
		if p.file && r.Chance(0.6) {
			sb.WriteString("Content-Type: " + r.Pick("text/plain", "application/octet-stream") + "\r\n")
		}
		sb.WriteString("\r\n" + p.data + "\r\n")
	}
	sb.WriteString("--" + boundary + "--\r\n")
	return sb.String()
}

func genDecodeMP(c *ctx) {
	r := c.r
	if r.Chance(0.2) {
		// malformed: a Content-Type that begins like form data but does not parse, or a broken body
		boundary := "XbX"
		parts := []mpPart{{name: "a", data: "attack"}}
		body := renderMP(r, boundary, parts)
		ctype := "multipart/form-data; boundary=" + boundary
		switch r.Intn(11) {
		case 7, 8, 9, 10:
			// the body ends while the reader is still looking for a delimiter: another boundary than the header announces,
			// a preamble only, a last delimiter without its end — nothing or not everything can be read, the error must show
			switch r.Intn(4) {
			case 0:
				body = strings.ReplaceAll(body, "--"+boundary, "--YbY")
			case 1:
				body = "just a preamble\r\nwith attack in it\r\n"
			case 2:
				body = strings.Replace(body, "--"+boundary+"--\r\n", "--"+boundary, 1)
			default:
				// ends inside the part's data, no line end: mime/multipart hands the data out and reports nothing
				body = strings.Replace(body, "--"+boundary+"--\r\n", "", 1)
				body = strings.TrimSuffix(body, "\r\n")
				c.stats.Hit("kind:mpbad")
				c.run("decode", "mpbad", gen.Field(ctype), gen.Field(body))
				return
			}
			c.stats.Hit("kind:mpbadE")
			c.run("decode", "mpbadE", gen.Field(ctype), gen.Field(body))
			return
		case 0:
			ctype += "; boundary=other"
		case 1:
			ctype += "; a=1; a=2"
		case 2:
			ctype = "multipart/form-data; boundary=\"" + boundary
		case 3:
			ctype = "multipart/form-data boundary=" + boundary
		case 4:
			ctype = "multipart/form-data"
		case 5:
			body = strings.Replace(body, "--"+boundary+"--", "", 1) // no closing boundary
		default:
			body = "--" + boundary + "\r\nContent-Disposition: form-data; name=\"a\r\n\r\nattack\r\n--" + boundary + "--\r\n"
		}
		c.stats.Hit("kind:mpbad")
		c.run("decode", "mpbad", gen.Field(ctype), gen.Field(body))
		return
	}
	var parts []mpPart
	var toks []string
	for k := r.Intn(5); k > 0; k-- {
		p := mpPart{name: r.Pick(mpNames...), data: r.Pick(mpData...)}
		if r.Chance(0.15) {
			p.data = r.ASCII(10)
		}
		fn := "-"
		if r.Chance(0.4) {
			p.file, p.filename = true, r.Pick(mpFiles...)
			fn = "=" + gen.Field(p.filename)
		}
		parts = append(parts, p)
		toks = append(toks, "P"+gen.Field(p.name)+":"+fn+":"+gen.Field(p.data))
	}
	boundary := r.Pick("XbX", "----WebKitFormBoundary7MA4YWxk", "b", "a-b_c")
	for _, p := range parts {
		if strings.Contains(p.data, boundary) {
			boundary = "Zq9Zq9Zq9"
		}
	}
	ctype := "multipart/form-data; boundary=" + boundary
	if r.Chance(0.2) {
		ctype = "multipart/form-data; boundary=\"" + boundary + "\""
	}
	if r.Chance(0.1) {
		ctype = "Multipart/Form-Data; charset=utf-8; boundary=" + boundary
	}
	c.stats.Hit("kind:mp")
	c.run("decode", "mp", gen.Field(ctype), orDash(strings.Join(toks, ",")), gen.Field(renderMP(r, boundary, parts)))
}
