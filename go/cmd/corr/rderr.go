package main

import (
	"errors"
	"fmt"
	"io"
	"strconv"

	"github.com/corazawaf/coraza/v3/types"
	"verifharness/internal/gen"
)

// rderr <req|resp> <limit> <R|P> <data> <cut> <kind>  => err=<0|1> n=<bytes reported> intr=<status|->
//
// The body arrives through Read{Request,Response}BodyFrom from a reader that hands out data[:cut] (in pieces) and
// then FAILS — the connection broke. The failure is never a bare io.EOF; it is a plain error, io.ErrUnexpectedEOF,
// an error that wraps io.EOF (fmt.Errorf("…: %w", io.EOF)) or errors.Join(io.EOF, …). Whenever the transaction has
// to read past the cut (cut < limit) the call must report the failure: a truncated body must not be inspected as
// if it were complete. No model: the driver applies the monitor.
type failingReader struct {
	data []byte
	err  error
}

func (f *failingReader) Read(b []byte) (int, error) {
	if len(f.data) == 0 {
		return 0, f.err
	}
	n := 1 + len(f.data)%3
	if n > len(f.data) {
		n = len(f.data)
	}
	if n > len(b) {
		n = len(b)
	}
	copy(b, f.data[:n])
	f.data = f.data[n:]
	return n, nil
}

var errBroken = errors.New("connection reset by peer")

func execRdErr(a []string) string {
	side := a[0]
	limit, _ := strconv.Atoi(a[1])
	data := []byte(gen.Unfield(a[3]))
	cut, _ := strconv.Atoi(a[4])
	if cut > len(data) {
		cut = len(data)
	}
	var e error
	switch a[5] {
	case "plain":
		e = errBroken
	case "unexpected":
		e = io.ErrUnexpectedEOF
	case "wrapped":
		e = fmt.Errorf("reading the body: %w", io.EOF)
	default:
		e = errors.Join(io.EOF, errBroken)
	}
	waf, err := bodyWAF(side, limit, 8, a[2])
	if err != nil {
		return "CONFIGERR"
	}
	tx := waf.NewTransaction()
	defer tx.Close()
	tx.ProcessRequestHeaders()
	var it *types.Interruption
	var n int
	var re error
	if side == "req" {
		it, n, re = tx.ReadRequestBodyFrom(&failingReader{data: data[:cut], err: e})
	} else {
		tx.ProcessRequestBody()
		tx.AddResponseHeader("Content-Type", "text/plain")
		tx.ProcessResponseHeaders(200, "HTTP/1.1")
		it, n, re = tx.ReadResponseBodyFrom(&failingReader{data: data[:cut], err: e})
	}
	return fmt.Sprintf("err=%s n=%d intr=%s", gen.B01(re != nil), n, itStatus(it))
}

func init() {
	engines["rderr"] = &engine{Exec: execRdErr, Gen: func(c *ctx) {
		for i := 0; i < c.n; i++ {
			limit := 8 + c.r.Intn(40)
			nb := c.r.Intn(limit + 12)
			b := make([]byte, nb)
			for k := range b {
				b[k] = byte('a' + k%26)
			}
			cut := c.r.Intn(nb + 1)
			kind := c.r.Pick("plain", "unexpected", "wrapped", "wrapped", "joined")
			c.stats.Hit("failure:" + kind)
			if cut < limit {
				c.stats.Hit("failure-before-limit")
			} else {
				c.stats.Hit("limit-before-failure")
			}
			c.run("rderr", c.r.Pick("req", "resp"), strconv.Itoa(limit), c.r.Pick("R", "P"), gen.Field(string(b)), strconv.Itoa(cut), kind)
		}
	}}
}
