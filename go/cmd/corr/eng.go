package main

import (
	"encoding/json"
	"fmt"
	"sort"
	"strconv"
	"strings"

	coraza "github.com/corazawaf/coraza/v3"
	"github.com/corazawaf/coraza/v3/experimental/plugins/plugintypes"
	"github.com/corazawaf/coraza/v3/types"
	"verifharness/internal/gen"
)

// ---- structured case (shared shape with lean/Driver/Engine.lean) ----

type eTarget struct {
	V string   `json:"v"`
	K string   `json:"k"` // hex field
	C bool     `json:"c"`
	X []string `json:"x"`
	O bool     `json:"o,omitempty"` // only the negations are written (update directives)
}

// the action list of a SecRuleUpdateActionById (modelled subset)
type eUpd struct {
	Disr string   `json:"disr"` // "-" = no disruptive action in the list
	Rt   string   `json:"rt"`
	St   int      `json:"st"`
	Sev  int      `json:"sev"`
	Tags []string `json:"tags"`
	NA   []eNAct  `json:"na"`
	Logs []string `json:"logs"`
	Skip int      `json:"skip"`
	Sa   string   `json:"sa"`
}
type eOp struct {
	N   string `json:"n"`
	A   string `json:"a"` // hex field of the argument text (may contain %{…} macros)
	Neg bool   `json:"neg"`
}
type eNAct struct {
	N   string `json:"n"`
	K   string `json:"k,omitempty"`
	V   string `json:"v,omitempty"`
	Rm  bool   `json:"rm,omitempty"`
	M   string `json:"m,omitempty"`
	ID  int    `json:"id,omitempty"`
	Lo  int    `json:"lo,omitempty"`
	Hi  int    `json:"hi,omitempty"`
	Tag string `json:"tag,omitempty"`
	Var string `json:"v2,omitempty"`
	Msg string `json:"msg,omitempty"`
}
type eLink struct {
	Tg  []eTarget `json:"tg"`
	Op  *eOp      `json:"op"`
	Tfs []string  `json:"tfs"`
	MM  bool      `json:"mm"`
	NA  []eNAct   `json:"na"`
	LID int       `json:"lid,omitempty"` // an id: action written on a chained (non-first) link; it names no rule of its own
}
type eRule struct {
	// a configuration-time directive instead of a rule (acts on the rules before it)
	Dir  string    `json:"dir,omitempty"` // removeById removeByTag updateTargetById updateTargetByTag updateActionById
	Sels [][]int   `json:"sels,omitempty"`
	Tag  string    `json:"tag,omitempty"`
	Tg   []eTarget `json:"tg,omitempty"`
	Upd  *eUpd     `json:"upd,omitempty"`

	ID    int      `json:"id"`
	Ph    int      `json:"ph"`
	Mk    string   `json:"mk"`
	Links []eLink  `json:"links"`
	Disr  string   `json:"disr"`
	Rt    string   `json:"rt"`
	St    int      `json:"st"`
	Skip  int      `json:"skip"`
	Sa    string   `json:"sa"`
	Sev   int      `json:"sev"`
	Tags  []string `json:"tags"`
	Log   bool     `json:"log"`
	Audit bool     `json:"audit"`
	Msg   string   `json:"msg,omitempty"` // msg text (hex field); absent = no msg action
}
type eCase struct {
	Ae    string      `json:"ae,omitempty"`    // audit engine (audit engine only)
	Rs    string      `json:"rs,omitempty"`    // relevant-status token: "-", pre:<d>, sub:<d>, eq:<d>
	Resp  string      `json:"resp,omitempty"`  // response status passed to ProcessResponseHeaders (hex field)
	Parts string      `json:"parts,omitempty"` // SecAuditLogParts (hex field)
	Uri   string      `json:"uri,omitempty"`   // request URI handed to ProcessURI (method GET) before the Add* calls (hex field)
	Bl    string      `json:"bl,omitempty"`    // "1": SecRequestBodyAccess On, SecRequestBodyLimit 64, SecRequestBodyInMemoryLimit 16
	Body  string      `json:"body,omitempty"`  // raw request body written before the first ProcessRequestBody (hex field); no body processor is selected
	Mode  string      `json:"mode"`
	Dst   [][2]int    `json:"dst,omitempty"` // SecDefaultAction "phase:P,pass,status:S" lines before the rules: (P, S)
	Rules []eRule     `json:"rules"`
	Get   [][2]string `json:"get"`
	Post  [][2]string `json:"post"`
	Hdr   [][2]string `json:"hdr"`
	Rhdr  [][2]string `json:"rhdr,omitempty"` // response headers, added before the first Process* call
	Calls []string    `json:"calls"`
}

// the JSON decoder of the Lean side reads ctlRemoveTargetById's variable from "v" and key from "k"
func (a eNAct) MarshalJSON() ([]byte, error) {
	m := map[string]any{"n": a.N}
	switch a.N {
	case "setvar":
		m["k"], m["rm"] = a.K, a.Rm
		if !a.Rm {
			m["v"] = a.V
		}
	case "ctlRuleEngine":
		m["m"] = a.M
	case "ctlRemoveById":
		m["id"] = a.ID
	case "ctlRemoveByRange":
		m["lo"], m["hi"] = a.Lo, a.Hi
	case "ctlRemoveByTag":
		m["tag"] = a.Tag
	case "ctlRemoveTargetById":
		m["lo"], m["hi"], m["v"], m["k"] = a.Lo, a.Hi, a.Var, a.K
	case "ctlRemoveByMsg":
		m["msg"] = a.Msg
	case "ctlRemoveTargetByTag":
		m["tag"], m["v"], m["k"] = a.Tag, a.Var, a.K
	case "ctlRemoveTargetByMsg":
		m["msg"], m["v"], m["k"] = a.Msg, a.Var, a.K
	case "ctlAuditEngine":
		m["m"] = a.M
	case "ctlAuditLogParts":
		m["k"] = a.K
	case "setenv":
		m["k"], m["v"] = a.K, a.V
	}
	return json.Marshal(m)
}

func (a *eNAct) UnmarshalJSON(b []byte) error {
	var m map[string]any
	if err := json.Unmarshal(b, &m); err != nil {
		return err
	}
	s := func(k string) string { v, _ := m[k].(string); return v }
	n := func(k string) int { v, _ := m[k].(float64); return int(v) }
	a.N = s("n")
	switch a.N {
	case "setvar":
		a.K, a.V = s("k"), s("v")
		a.Rm, _ = m["rm"].(bool)
	case "ctlRuleEngine", "ctlAuditEngine":
		a.M = s("m")
	case "ctlAuditLogParts":
		a.K = s("k")
	case "setenv":
		a.K, a.V = s("k"), s("v")
	case "ctlRemoveById":
		a.ID = n("id")
	case "ctlRemoveByRange":
		a.Lo, a.Hi = n("lo"), n("hi")
	case "ctlRemoveByTag":
		a.Tag = s("tag")
	case "ctlRemoveTargetById":
		a.Lo, a.Hi, a.Var, a.K = n("lo"), n("hi"), s("v"), s("k")
	case "ctlRemoveByMsg":
		a.Msg = s("msg")
	case "ctlRemoveTargetByTag":
		a.Tag, a.Var, a.K = s("tag"), s("v"), s("k")
	case "ctlRemoveTargetByMsg":
		a.Msg, a.Var, a.K = s("msg"), s("v"), s("k")
	}
	return nil
}

// ---- rendering to SecLang ----

func renderTargets(ts []eTarget) string {
	var parts []string
	for _, t := range ts {
		s := t.V
		if t.C {
			s = "&" + s
		}
		if k := gen.Unfield(t.K); k != "" {
			s += ":" + k
		}
		if !t.O {
			parts = append(parts, s)
		}
		for _, x := range t.X {
			e := "!" + t.V
			if k := gen.Unfield(x); k != "" {
				e += ":" + k
			}
			parts = append(parts, e)
		}
	}
	return strings.Join(parts, "|")
}

func renderNAct(a eNAct) string {
	switch a.N {
	case "setvar":
		if a.Rm {
			return "setvar:'!tx." + gen.Unfield(a.K) + "'"
		}
		return "setvar:'tx." + gen.Unfield(a.K) + "=" + gen.Unfield(a.V) + "'"
	case "ctlAuditEngine":
		return "ctl:auditEngine=" + a.M
	case "ctlAuditLogParts":
		return "ctl:auditLogParts=" + gen.Unfield(a.K)
	case "setenv":
		return "setenv:'" + gen.Unfield(a.K) + "=" + gen.Unfield(a.V) + "'"
	case "ctlRuleEngine":
		return "ctl:ruleEngine=" + a.M
	case "ctlRemoveById":
		return "ctl:ruleRemoveById=" + strconv.Itoa(a.ID)
	case "ctlRemoveByRange":
		return fmt.Sprintf("ctl:ruleRemoveById=%d-%d", a.Lo, a.Hi)
	case "ctlRemoveByTag":
		return "ctl:ruleRemoveByTag=" + gen.Unfield(a.Tag)
	case "ctlRemoveTargetById":
		id := strconv.Itoa(a.Lo)
		if a.Hi != a.Lo {
			id = fmt.Sprintf("%d-%d", a.Lo, a.Hi)
		}
		t := a.Var
		if k := gen.Unfield(a.K); k != "" {
			t += ":" + k
		}
		return "ctl:ruleRemoveTargetById=" + id + ";" + t
	case "ctlRemoveByMsg":
		return "ctl:ruleRemoveByMsg=" + gen.Unfield(a.Msg)
	case "ctlRemoveTargetByTag", "ctlRemoveTargetByMsg":
		t := a.Var
		if k := gen.Unfield(a.K); k != "" {
			t += ":" + k
		}
		if a.N == "ctlRemoveTargetByTag" {
			return "ctl:ruleRemoveTargetByTag=" + gen.Unfield(a.Tag) + ";" + t
		}
		return "ctl:ruleRemoveTargetByMsg=" + gen.Unfield(a.Msg) + ";" + t
	}
	return "nolog"
}

func renderLinkActions(l eLink) []string {
	acts := []string{"t:none"}
	for _, t := range l.Tfs {
		acts = append(acts, "t:"+t)
	}
	if l.MM {
		acts = append(acts, "multiMatch")
	}
	for _, a := range l.NA {
		if a.N != "nop" {
			acts = append(acts, renderNAct(a))
		}
	}
	return acts
}

func renderSels(sels [][]int) string {
	var p []string
	for _, s := range sels {
		if len(s) == 1 {
			p = append(p, strconv.Itoa(s[0]))
		} else {
			p = append(p, fmt.Sprintf("%d-%d", s[0], s[1]))
		}
	}
	return strings.Join(p, " ")
}

func renderDir(r eRule) string {
	switch r.Dir {
	case "removeById":
		return "SecRuleRemoveById " + renderSels(r.Sels) + "\n"
	case "removeByTag":
		return "SecRuleRemoveByTag " + gen.Unfield(r.Tag) + "\n"
	case "removeByMsg":
		return "SecRuleRemoveByMsg " + gen.Unfield(r.Msg) + "\n"
	case "updateTargetById":
		return "SecRuleUpdateTargetById " + renderSels(r.Sels) + " \"" + renderTargets(r.Tg) + "\"\n"
	case "updateTargetByTag":
		return "SecRuleUpdateTargetByTag " + gen.Unfield(r.Tag) + " \"" + renderTargets(r.Tg) + "\"\n"
	case "updateActionById":
		u := r.Upd
		var acts []string
		switch u.Disr {
		case "-":
		case "redirect":
			acts = append(acts, "redirect:"+gen.Unfield(u.Rt))
		default:
			acts = append(acts, u.Disr)
		}
		if u.St != 0 {
			acts = append(acts, "status:"+strconv.Itoa(u.St))
		}
		if u.Sev >= 0 {
			acts = append(acts, "severity:"+strconv.Itoa(u.Sev))
		}
		for _, t := range u.Tags {
			acts = append(acts, "tag:'"+gen.Unfield(t)+"'")
		}
		for _, a := range u.NA {
			acts = append(acts, renderNAct(a))
		}
		acts = append(acts, u.Logs...)
		if u.Skip > 0 {
			acts = append(acts, "skip:"+strconv.Itoa(u.Skip))
		}
		if u.Sa != "-" && u.Sa != "" {
			acts = append(acts, "skipAfter:"+gen.Unfield(u.Sa))
		}
		return "SecRuleUpdateActionById " + renderSels(r.Sels) + " \"" + strings.Join(acts, ",") + "\"\n"
	}
	return ""
}

func renderRule(r eRule) string {
	if r.Dir != "" {
		return renderDir(r)
	}
	if r.ID == 0 {
		return "SecMarker " + gen.Unfield(r.Mk) + "\n"
	}
	var sb strings.Builder
	for i, l := range r.Links {
		var acts []string
		if i == 0 {
			acts = append(acts, "id:"+strconv.Itoa(r.ID), "phase:"+strconv.Itoa(r.Ph))
			switch r.Disr {
			case "":
				acts = append(acts, "pass")
			case "redirect":
				acts = append(acts, "redirect:"+gen.Unfield(r.Rt))
			default:
				acts = append(acts, r.Disr)
			}
			if r.St != 0 {
				acts = append(acts, "status:"+strconv.Itoa(r.St))
			}
			if r.Skip > 0 {
				acts = append(acts, "skip:"+strconv.Itoa(r.Skip))
			}
			if r.Sa != "-" && r.Sa != "" {
				acts = append(acts, "skipAfter:"+gen.Unfield(r.Sa))
			}
			if r.Sev >= 0 {
				acts = append(acts, "severity:"+strconv.Itoa(r.Sev))
			}
			for _, t := range r.Tags {
				acts = append(acts, "tag:'"+gen.Unfield(t)+"'")
			}
			if r.Msg != "" {
				acts = append(acts, "msg:'"+gen.Unfield(r.Msg)+"'")
			}
			if r.Log {
				acts = append(acts, "log")
			} else {
				acts = append(acts, "nolog")
			}
			if r.Audit {
				acts = append(acts, "auditlog")
			} else {
				acts = append(acts, "noauditlog")
			}
		}
		acts = append(acts, renderLinkActions(l)...)
		if i > 0 && l.LID > 0 {
			acts = append(acts, "id:"+strconv.Itoa(l.LID))
		}
		if i+1 < len(r.Links) {
			acts = append(acts, "chain")
		}
		if l.Op == nil {
			sb.WriteString("SecAction \"" + strings.Join(acts, ",") + "\"\n")
			continue
		}
		op := "@" + l.Op.N
		if l.Op.Neg {
			op = "!" + op
		}
		if a := gen.Unfield(l.Op.A); a != "" {
			op += " " + a
		}
		sb.WriteString("SecRule " + renderTargets(l.Tg) + " \"" + op + "\" \"" + strings.Join(acts, ",") + "\"\n")
	}
	return sb.String()
}

func renderConfig(c *eCase) string {
	var sb strings.Builder
	sb.WriteString("SecRuleEngine " + c.Mode + "\nSecArgumentsLimit 8\n")
	if c.Bl != "" {
		sb.WriteString("SecRequestBodyAccess On\nSecRequestBodyLimit 64\nSecRequestBodyInMemoryLimit 16\n")
	}
	for _, d := range c.Dst {
		// phase 2 keeps what the built-in default gives it (log, auditlog)
		extra := ""
		if d[0] == 2 {
			extra = "log,auditlog,"
		}
		fmt.Fprintf(&sb, "SecDefaultAction \"phase:%d,%spass,status:%d\"\n", d[0], extra, d[1])
	}
	for _, r := range c.Rules {
		sb.WriteString(renderRule(r))
	}
	return sb.String()
}

// ---- execution on the real WAF ----

func renderIntr(it *types.Interruption) string {
	if it == nil {
		return "-"
	}
	return fmt.Sprintf("%d/%s/%d/%s", it.RuleID, it.Action, it.Status, gen.Field(it.Data))
}

func orDash(s string) string {
	if s == "" {
		return "-"
	}
	return s
}

func execEng(a []string) string {
	var c eCase
	if err := json.Unmarshal([]byte(a[0]), &c); err != nil {
		return "BADCASE"
	}
	waf, cb, errs := buildEngWAF(&c)
	if errs != "" {
		return errs
	}
	return runEngCase(waf, &c, cb)
}

var lastConfigErr string

// buildEngWAF compiles the case's configuration; cb collects error-callback rule ids.
func buildEngWAF(c *eCase) (coraza.WAF, *[]string, string) {
	cb := &[]string{}
	cfg := coraza.NewWAFConfig().WithDirectives(renderConfig(c)).WithErrorCallback(func(mr types.MatchedRule) {
		*cb = append(*cb, strconv.Itoa(mr.Rule().ID()))
	})
	waf, err := coraza.NewWAF(cfg)
	if err != nil {
		lastConfigErr = err.Error()
		return nil, nil, "CONFIGERR"
	}
	return waf, cb, ""
}

// runEngCase runs one transaction of the case on the given WAF and renders the observation.
func runEngCase(waf coraza.WAF, c *eCase, cbp *[]string) string {
	*cbp = (*cbp)[:0]
	tx := waf.NewTransaction()
	defer tx.Close()
	// equal names share one string, as they do when a connector feeds a parsed query string or form
	// (url.ParseQuery yields one key string per name): the transformation cache keys on that pointer
	names := map[string]string{}
	name := func(h string) string {
		k := gen.Unfield(h)
		if s, ok := names[k]; ok {
			return s
		}
		names[k] = k
		return k
	}
	if c.Uri != "" {
		// the request-line variables are substrings of this one string, as they are behind a connector
		tx.ProcessURI(gen.Unfield(c.Uri), "GET", "HTTP/1.1")
	}
	for _, p := range c.Get {
		tx.AddGetRequestArgument(name(p[0]), gen.Unfield(p[1]))
	}
	for _, p := range c.Post {
		tx.AddPostRequestArgument(name(p[0]), gen.Unfield(p[1]))
	}
	for _, p := range c.Hdr {
		tx.AddRequestHeader(name(p[0]), gen.Unfield(p[1]))
	}
	for _, p := range c.Rhdr {
		tx.AddResponseHeader(name(p[0]), gen.Unfield(p[1]))
	}
	var outs []string
	bodyWritten := false
	for _, call := range c.Calls {
		var it *types.Interruption
		switch call {
		case "h1":
			it = tx.ProcessRequestHeaders()
		case "b2":
			if c.Body != "" && !bodyWritten {
				// within the limit: it does not interrupt and, with no body processor, feeds no variable the rules read
				bodyWritten = true
				tx.WriteRequestBody([]byte(gen.Unfield(c.Body)))
			}
			it, _ = tx.ProcessRequestBody()
		case "h3":
			code := 200
			if c.Resp != "" {
				code, _ = strconv.Atoi(gen.Unfield(c.Resp))
			}
			it = tx.ProcessResponseHeaders(code, "HTTP/1.1")
		case "b4":
			it, _ = tx.ProcessResponseBody()
		case "lg":
			tx.ProcessLogging()
		}
		outs = append(outs, renderIntr(it))
	}
	var ms []string
	for _, mr := range tx.MatchedRules() {
		var ds []string
		for _, md := range mr.MatchedDatas() {
			ds = append(ds, md.Variable().Name()+"|"+gen.Field(md.Key())+"|"+gen.Field(md.Value()))
		}
		sort.Strings(ds)
		ms = append(ms, strconv.Itoa(mr.Rule().ID())+":"+strings.Join(ds, "+"))
	}
	st := tx.(plugintypes.TransactionState)
	var txs []string
	for _, md := range st.Variables().TX().FindAll() {
		txs = append(txs, gen.Field(md.Key())+"="+gen.Field(md.Value()))
	}
	sort.Strings(txs)
	hs := st.Variables().HighestSeverity().Get()
	return fmt.Sprintf("%s ; i=%s ; m=%s ; tx=%s ; hs=%s ; cb=%s", orDash(strings.Join(outs, ",")), renderIntr(tx.Interruption()),
		orDash(strings.Join(ms, ",")), orDash(strings.Join(txs, ",")), hs, orDash(strings.Join(*cbp, ",")))
}

// ---- generator ----

var (
	eKeys   = []string{"a", "b", "A", "c", "Ab"}
	eVals   = []string{"x", "y", "xy", "X", "1", "2", "10", "", " x ", "%78", "x\x00", "%2578", "%252578", "10.1.2.3", "192.168.1.7", "1.2.3.4"} // double encodings: urlDecode is not idempotent
	eTxKeys = []string{"s", "n", "k", "S", "1"}                                                                                                  // TX.1 exists from the start and is empty (capture slot)
	eMapVar = []string{"ARGS_GET", "ARGS_POST", "ARGS", "REQUEST_HEADERS", "TX", "ARGS_NAMES", "ARGS_GET_NAMES", "ARGS_POST_NAMES", "REQUEST_HEADERS_NAMES", "MATCHED_VARS", "MATCHED_VARS_NAMES",
		"REQUEST_COOKIES", "REQUEST_COOKIES_NAMES", "RESPONSE_HEADERS", "RESPONSE_HEADERS_NAMES"}
	eReqLineVars = []string{"REQUEST_URI", "REQUEST_URI_RAW", "REQUEST_FILENAME", "REQUEST_BASENAME", "QUERY_STRING", "REQUEST_LINE", "REQUEST_METHOD", "REQUEST_PROTOCOL"}
	eOps         = []string{"streq", "contains", "beginsWith", "endsWith", "within", "eq", "ge", "gt", "le", "lt", "pm", "unconditionalMatch", "noMatch", "ipMatch", "rx"}
	eTfs         = []string{"lowercase", "uppercase", "trim", "urlDecode", "removeNulls", "hexEncode", "length", "trimLeft", "urlEncode"}
	// regex keys (`VAR:/re/`, `!VAR:/re/`, ctl …;VAR:/re/) over the key vocabulary; all inside the
	// fragment of lean/Coraza/Model/Regex.lean; upper-case letters and \D \W \S because the code
	// lower-cases the expression text for case-insensitive variables
	eRxKeys = []string{"^a", "a", "^a$", "[ab]", "^A", "A", "b$", "^.$", "a|c", "^(a|b)$", "\\D", "^\\w+$", "[^a]", "^[A-Z]",
		"a?b", ".b", "x*", "^[a-c]{2}$", "^\\d", "B", "\\W", "^(?i)A", "a.", "^$", "\\bb", "[A-C]b", "^ab?$"}
)

func genKeySel(r *gen.R, p engProfile, tx bool) string {
	if r.Chance(0.1 + p.rxkeys) {
		return gen.Field("/" + r.Pick(eRxKeys...) + "/")
	}
	if tx {
		return gen.Field(r.Pick(eTxKeys...))
	}
	return gen.Field(r.Pick(eKeys...))
}

func isRxField(k string) bool {
	u := gen.Unfield(k)
	return len(u) >= 2 && u[0] == '/' && u[len(u)-1] == '/'
}

type engProfile struct {
	flow, disr, acct, ctl, chains, cache, apiOrder, modeSwitch, rxkeys, dirs, allows float64
}

func genLink(r *gen.R, p engProfile, first, prevDet bool, ruleIDs []int) (eLink, bool) {
	var l eLink
	l.Tg, l.Tfs, l.NA = []eTarget{}, []string{}, []eNAct{}
	det := true
	nt := 1 + r.Intn(2)
	for i := 0; i < nt; i++ {
		var t eTarget
		t.X = []string{}
		if !first && prevDet && det && r.Chance(0.3) {
			t.V = r.Pick("MATCHED_VAR", "MATCHED_VAR_NAME")
			t.K = "-"
		} else if r.Chance(0.06) {
			t.V = "ARGS_COMBINED_SIZE"
			t.K = "-"
		} else if r.Chance(0.1) {
			t.V = r.Pick(eReqLineVars...)
			t.K = "-"
		} else if p.acct > 0 && r.Chance(0.12) {
			// the ENV collection by key (whole-collection reads would show the process environment's absence only)
			t.V = "ENV"
			t.K = gen.Field(r.Pick("VERIF_E1", "VERIF_E2", "verif_e1"))
		} else {
			t.V = eMapVar[r.Intn(len(eMapVar))]
			if r.Chance(0.55) {
				t.K = genKeySel(r, p, t.V == "TX")
			} else {
				t.K = "-"
			}
			t.C = r.Chance(0.15)
			if r.Chance(0.2 + p.rxkeys/2) {
				t.X = append(t.X, genKeySel(r, p, false))
				if r.Chance(0.2) {
					t.X = append(t.X, genKeySel(r, p, false))
				}
			}
			if (t.K == "-" || isRxField(t.K)) && !t.C {
				det = false
			}
		}
		l.Tg = append(l.Tg, t)
	}
	op := &eOp{N: eOps[r.Intn(len(eOps))], Neg: r.Chance(0.15)}
	switch op.N {
	case "eq", "ge", "gt", "le", "lt":
		op.A = gen.Field(r.Pick("0", "1", "2", "10"))
	case "pm":
		op.A = gen.Field(r.Pick("x y", "xy", "X 10", "ab  x"))
	case "rx":
		op.A = gen.Field(r.Pick("x", "^x", "y$", "^xy$", "[0-9]+", "^\\d+$", "x|1", "(?i)^X", "\\bx\\b", "^$", ".", "x.y", "^[a-z ]+$", "a{2}", "%78", "\\x00"))
	case "ipMatch":
		// several networks: which entry matches depends on the value (the operator is shared by all transactions)
		op.A = gen.Field(r.Pick("10.0.0.0/8,192.168.1.0/24,1.2.3.4", "192.168.1.0/24,10.0.0.0/8", "1.2.3.4,::1,10.1.0.0/16"))
	case "unconditionalMatch", "noMatch":
		op.A = "-"
	default:
		op.A = gen.Field(r.Pick("x", "y", "xy", "1", "a", "ARGS_GET:a"))
	}
	if det && op.N != "unconditionalMatch" && op.N != "noMatch" && op.N != "pm" && op.N != "ipMatch" && op.N != "rx" && r.Chance(0.12) {
		op.A = gen.Field("%{tx." + r.Pick(eTxKeys...) + "}")
	}
	l.Op = op
	ntf := 0
	if r.Chance(0.45 + p.cache) {
		ntf = 1 + r.Intn(3)
	}
	for i := 0; i < ntf; i++ {
		l.Tfs = append(l.Tfs, eTfs[r.Intn(len(eTfs))])
	}
	if p.cache > 0 && len(curTfBase) > 0 && r.Chance(0.6) {
		// rules of one case share prefixes of one transformation list (the cache stores per prefix)
		l.Tfs = append([]string{}, curTfBase[:1+r.Intn(len(curTfBase))]...)
		if r.Chance(0.4) {
			// a sibling chain: the shared prefix followed by a different step
			l.Tfs = append(l.Tfs, eTfs[r.Intn(len(eTfs))])
		}
		ntf = len(l.Tfs)
	}
	l.MM = ntf > 0 && r.Chance(0.25)
	na := 0
	if r.Chance(0.5 + p.acct) {
		na = 1 + r.Intn(2)
	}
	for i := 0; i < na; i++ {
		l.NA = append(l.NA, genNAct(r, p, det, ruleIDs))
	}
	return l, det
}

func genNAct(r *gen.R, p engProfile, det bool, ruleIDs []int) eNAct {
	if r.Chance(p.modeSwitch) {
		return eNAct{N: "ctlRuleEngine", M: r.Pick("On", "On", "DetectionOnly", "Off")}
	}
	if r.Chance(0.15 + p.ctl) {
		id := ruleIDs[r.Intn(len(ruleIDs))]
		if r.Chance(0.18) {
			// the ByTag / ByMsg forms
			k := "-"
			if r.Chance(0.7) {
				k = genKeySel(r, p, false)
			}
			v := r.Pick("ARGS_GET", "ARGS", "ARGS_POST", "REQUEST_HEADERS", "TX")
			switch r.Intn(3) {
			case 0:
				return eNAct{N: "ctlRemoveByMsg", Msg: gen.Field(r.Pick("m1", "m2", "m9"))}
			case 1:
				return eNAct{N: "ctlRemoveTargetByTag", Tag: gen.Field(r.Pick("t1", "t2", "t9")), Var: v, K: k}
			default:
				return eNAct{N: "ctlRemoveTargetByMsg", Msg: gen.Field(r.Pick("m1", "m2", "m9")), Var: v, K: k}
			}
		}
		switch r.Intn(6) {
		case 0:
			return eNAct{N: "ctlRuleEngine", M: r.Pick("On", "DetectionOnly", "Off")}
		case 1:
			return eNAct{N: "ctlRemoveById", ID: id}
		case 2:
			lo := ruleIDs[r.Intn(len(ruleIDs))]
			if lo > id {
				lo, id = id, lo
			}
			return eNAct{N: "ctlRemoveByRange", Lo: lo, Hi: id}
		case 3:
			return eNAct{N: "ctlRemoveByTag", Tag: gen.Field(r.Pick("t1", "t2"))}
		default:
			k := "-"
			if r.Chance(0.7) {
				k = genKeySel(r, p, false)
			}
			return eNAct{N: "ctlRemoveTargetById", Lo: id, Hi: id, Var: r.Pick("ARGS_GET", "ARGS", "ARGS_POST", "REQUEST_HEADERS", "TX"), K: k}
		}
	}
	if p.acct > 0 && r.Chance(0.1) {
		// setenv: the transaction's ENV collection (names private to the harness: they also land in the process environment)
		v := r.Pick("1", "x", "on")
		if det {
			v = r.Pick("1", "x", "%{matched_var}", "%{tx.s}v", "%{args_get.a}e")
		}
		return eNAct{N: "setenv", K: gen.Field(r.Pick("VERIF_E1", "VERIF_E2", "verif_e1")), V: gen.Field(v)}
	}
	k := r.Pick(eTxKeys...)
	if det && r.Chance(0.12) {
		// a key built by macro expansion: text + macro, or nothing but one macro
		k = r.Pick("k%{tx.n}", "k%{tx.n}", "%{tx.s}", "%{tx.n}", "%{matched_var}")
	}
	a := eNAct{N: "setvar", K: gen.Field(k)}
	switch r.Intn(8) {
	case 0:
		a.Rm = true
	case 1, 2, 3:
		a.V = gen.Field("+" + strconv.Itoa(1+r.Intn(5)))
	case 4:
		a.V = gen.Field("-" + strconv.Itoa(1+r.Intn(3)))
	case 5:
		a.V = gen.Field(r.Pick("x", "1", "7", "abc"))
		if p.acct > 0 && r.Chance(0.25) {
			// the edges of the arithmetic: the int64 range (parsing, wrap-around), signs, text that is almost a number
			a.V = gen.Field(r.Pick("9223372036854775807", "-9223372036854775808", "+9223372036854775807", "-9223372036854775807", "+9223372036854775808",
				"9223372036854775808", "+-1", "--1", "+ 1", "+01", "-0", "+", "-", "+1x", "+tx.s"))
		}
	case 6:
		if det {
			a.V = gen.Field(r.Pick("%{matched_var}", "%{matched_var_name}", "v%{tx.s}", "+%{tx.n}", "%{args_get.a}", "%{request_cookies.a}", "%{request_cookies.b}", "%{args_get.b}", "%{query_string}", "%{request_filename}"))
		} else {
			a.V = gen.Field(r.Pick("+%{tx.n}", "%{tx.s}z"))
		}
	default:
		a.V = gen.Field("+1")
	}
	return a
}

// genSels: an id list for a configuration-time directive: existing ids, ids without a rule,
// ranges (also lo==hi, rarely inverted = configuration error)
func genSels(r *gen.R, ids []int) [][]int {
	var out [][]int
	for k := 1 + r.Intn(3); k > 0; k-- {
		id := ids[r.Intn(len(ids))]
		switch {
		case r.Chance(0.1):
			out = append(out, []int{[]int{5, 15, 99, 1000}[r.Intn(4)]})
		case r.Chance(0.3):
			lo, hi := ids[r.Intn(len(ids))], id
			if lo > hi && !r.Chance(0.03) {
				lo, hi = hi, lo
			}
			if r.Chance(0.3) {
				lo -= 5
			}
			if r.Chance(0.3) {
				hi += 5
			}
			out = append(out, []int{lo, hi})
		default:
			out = append(out, []int{id})
		}
	}
	return out
}

func genDirTargets(r *gen.R, p engProfile) []eTarget {
	var out []eTarget
	for k := 1 + r.Intn(2); k > 0; k-- {
		t := eTarget{V: r.Pick("ARGS", "ARGS_GET", "ARGS_POST", "REQUEST_HEADERS", "TX", "ARGS_NAMES"), K: "-", X: []string{}}
		if r.Chance(0.5) {
			// negation only
			t.O = true
			if r.Chance(0.85) {
				t.X = append(t.X, genKeySel(r, p, t.V == "TX"))
			} else {
				t.X = append(t.X, "-")
			}
		} else {
			// a positive target added to an existing rule must select deterministically (the rule may
			// carry order-dependent actions): plain key, or a count
			t.K = gen.Field(r.Pick(eKeys...))
			if t.V == "TX" {
				t.K = gen.Field(r.Pick(eTxKeys...))
			}
			if r.Chance(0.2) {
				t.C = true
				if r.Chance(0.5) {
					t.K = genKeySel(r, p, t.V == "TX")
				}
			}
			if r.Chance(0.2) {
				t.X = append(t.X, genKeySel(r, p, t.V == "TX"))
			}
		}
		out = append(out, t)
	}
	return out
}

func genDirective(r *gen.R, p engProfile, ids []int) eRule {
	d := eRule{Rt: "-", Sa: "-", Mk: "-", Sev: -1, Tags: []string{}, Links: []eLink{}}
	switch r.Intn(7) {
	case 0:
		d.Dir, d.Sels = "removeById", genSels(r, ids)
	case 1:
		d.Dir, d.Tag = "removeByTag", gen.Field(r.Pick("t1", "t2", "t9"))
		if r.Chance(0.4) {
			d.Dir, d.Tag, d.Msg = "removeByMsg", "", gen.Field(r.Pick("m1", "m2", "m9"))
		}
	case 2, 3:
		d.Dir, d.Sels, d.Tg = "updateTargetById", genSels(r, ids), genDirTargets(r, p)
	case 4:
		d.Dir, d.Tag, d.Tg = "updateTargetByTag", gen.Field(r.Pick("t1", "t2", "t9")), genDirTargets(r, p)
	default:
		d.Dir, d.Sels = "updateActionById", genSels(r, ids)
		u := &eUpd{Disr: "-", Rt: "-", Sev: -1, Tags: []string{}, NA: []eNAct{}, Logs: []string{}, Sa: "-"}
		if r.Chance(0.6) {
			u.Disr = r.Pick("deny", "deny", "drop", "pass", "allow", "redirect", "allow:phase")
			if u.Disr == "redirect" {
				u.Rt = gen.Field("http://e.x/u")
			}
		}
		if r.Chance(0.4) {
			u.St = []int{302, 400, 404, 500}[r.Intn(4)]
		}
		if r.Chance(0.3) {
			u.Sev = r.Intn(8)
		}
		if r.Chance(0.3) {
			u.Tags = append(u.Tags, gen.Field(r.Pick("t1", "t2")))
		}
		if r.Chance(0.5) {
			u.NA = append(u.NA, eNAct{N: "setvar", K: gen.Field(r.Pick(eTxKeys...)), V: gen.Field("+" + strconv.Itoa(1+r.Intn(5)))})
		}
		if r.Chance(0.3) {
			u.Logs = append(u.Logs, r.Pick("log", "nolog", "auditlog", "noauditlog"))
		}
		if r.Chance(0.15) {
			u.Skip = 1 + r.Intn(2)
		}
		if r.Chance(0.15) {
			u.Sa = gen.Field(r.Pick("M1", "M2"))
		}
		if u.Disr == "-" && u.St == 0 && u.Sev < 0 && len(u.Tags) == 0 && len(u.NA) == 0 && len(u.Logs) == 0 && u.Skip == 0 && u.Sa == "-" {
			u.Logs = append(u.Logs, "log")
		}
		d.Upd = u
	}
	return d
}

// the transformation list whose prefixes the rules of the current case share (cache profile)
var curTfBase []string

// the key (and collection) of the cache trio of the current case, "" if none
var cacheTrioName, cacheTrioVar string

func genEngCase(r *gen.R, p engProfile) *eCase {
	curTfBase = nil
	if p.cache > 0 {
		n := 2 + r.Intn(4) // shared prefixes of length 1..5
		for i := 0; i < n; i++ {
			t := eTfs[r.Intn(len(eTfs))]
			if i == 0 && r.Chance(0.6) {
				t = r.Pick("urlDecode", "urlDecode", "trim", "hexEncode") // not idempotent / changes the value
			}
			curTfBase = append(curTfBase, t)
		}
	}
	c := &eCase{Mode: "On", Get: [][2]string{}, Post: [][2]string{}, Hdr: [][2]string{}}
	switch {
	case r.Chance(0.2 + p.modeSwitch):
		c.Mode = "DetectionOnly"
	case r.Chance(0.06):
		c.Mode = "Off"
	}
	n := 1 + r.Intn(6)
	ids := make([]int, n)
	for i := range ids {
		ids[i] = 10 * (i + 1)
	}
	markers := []string{"M1", "M2"}
	for i := 0; i < n; i++ {
		if r.Chance(0.1 + p.flow/2) {
			c.Rules = append(c.Rules, eRule{ID: 0, Ph: 0, Mk: gen.Field(r.Pick(markers...)), Links: []eLink{{Tg: []eTarget{}, Tfs: []string{}, NA: []eNAct{}}}, Rt: "-", Sa: "-", Sev: -1, Tags: []string{}})
		}
		ru := eRule{ID: ids[i], Ph: 1 + r.Intn(5), Mk: "-", Rt: "-", Sa: "-", Sev: -1, Tags: []string{}, Log: r.Chance(0.7), Audit: r.Chance(0.7)}
		if r.Chance(0.5) {
			ru.Ph = 1 + r.Intn(2)
		}
		if r.Chance(0.12) {
			// SecAction
			l := eLink{Tg: []eTarget{}, Tfs: []string{}, NA: []eNAct{}}
			for k := r.Intn(3); k > 0; k-- {
				l.NA = append(l.NA, genNAct(r, p, true, ids))
			}
			ru.Links = []eLink{l}
		} else {
			nl := 1
			if r.Chance(0.25 + p.chains) {
				nl = 2 + r.Intn(3)
			}
			prevDet := false
			for k := 0; k < nl; k++ {
				l, det := genLink(r, p, k == 0, prevDet, ids)
				if k > 0 && r.Chance(0.25) {
					l.LID = ids[i]*10 + k
				}
				prevDet = det
				ru.Links = append(ru.Links, l)
			}
		}
		if r.Chance(0.25 + p.disr) {
			ru.Disr = r.Pick("deny", "deny", "drop", "redirect", "block", "allow", "allow:phase", "allow:request")
			if ru.Disr == "redirect" {
				ru.Rt = gen.Field("http://e.x/p")
			}
			if r.Chance(0.4) {
				ru.St = []int{301, 302, 307, 400, 404, 500, 200}[r.Intn(7)]
			}
		}
		if p.allows > 0 && r.Chance(p.allows) {
			// several allow scopes in one transaction, in the response phases too
			ru.Disr = r.Pick("allow", "allow:phase", "allow:request", "allow:request")
			if r.Chance(0.5) {
				ru.Ph = 2 + r.Intn(3)
			}
		}
		if r.Chance(0.08 + p.flow) {
			ru.Skip = 1 + r.Intn(3)
		}
		if r.Chance(0.08 + p.flow) {
			ru.Sa = gen.Field(r.Pick("M1", "M2", "M3"))
		}
		if r.Chance(0.3) {
			ru.Sev = r.Intn(8)
		}
		if r.Chance(0.3) {
			ru.Tags = append(ru.Tags, gen.Field(r.Pick("t1", "t2")))
		}
		if r.Chance(0.3) {
			ru.Msg = gen.Field(r.Pick("m1", "m2"))
		}
		c.Rules = append(c.Rules, ru)
	}
	if r.Chance(0.1 + p.flow/2) {
		c.Rules = append(c.Rules, eRule{ID: 0, Ph: 0, Mk: gen.Field(r.Pick(markers...)), Links: []eLink{{Tg: []eTarget{}, Tfs: []string{}, NA: []eNAct{}}}, Rt: "-", Sa: "-", Sev: -1, Tags: []string{}})
	}
	if p.allows > 0 && r.Chance(0.15) {
		// an unconditional allow in one of the phases 1–4, then in the logging phase a narrower allow followed by
		// rules that count what still runs (the logging phase keeps evaluating under a bare allow, not under allow:phase)
		act := func(id, ph int, disr string, na ...eNAct) eRule {
			return eRule{ID: id, Ph: ph, Mk: "-", Rt: "-", Sa: "-", Sev: -1, Tags: []string{}, Log: true, Audit: true, Disr: disr,
				Links: []eLink{{Tg: []eTarget{}, Tfs: []string{}, NA: append([]eNAct{}, na...)}}}
		}
		inc := eNAct{N: "setvar", K: gen.Field("n"), V: gen.Field("+1")}
		three := []eRule{act(22, 1+r.Intn(4), r.Pick("allow", "allow", "allow:request")), act(23, 5, r.Pick("allow:phase", "allow:phase", "allow:request", "allow"), inc), act(24, 5, "", inc)}
		pos := r.Intn(len(c.Rules) + 1)
		c.Rules = append(c.Rules[:pos], append(three, c.Rules[pos:]...)...)
	}
	if p.cache > 0 && r.Chance(0.25) {
		// three rules of one phase sharing a transformation prefix over one collection: the first two read
		// the whole collection (positions depend on the runtime's map order), the third one key of it;
		// the request repeats that key with a value, its urlDecode and the urlDecode of that, next to
		// another key — so one cache slot (key string, position) holds different values for different rules
		v := r.Pick("ARGS", "ARGS_GET", "ARGS_POST")
		ph := 1 + r.Intn(2)
		t2 := r.Pick("lowercase", "trim", "length", "hexEncode", "uppercase", "urlDecode", "hexDecode")
		mk := func(id int, key string, tfs []string, op, arg string) eRule {
			return eRule{ID: id, Ph: ph, Mk: "-", Rt: "-", Sa: "-", Sev: -1, Tags: []string{}, Log: true, Audit: true,
				Links: []eLink{{Tg: []eTarget{{V: v, K: key, X: []string{}}}, Op: &eOp{N: op, A: gen.Field(arg)}, Tfs: tfs, NA: []eNAct{}}}}
		}
		n := r.Pick("a", "b")
		trio := []eRule{
			mk(1, "-", []string{"urlDecode"}, "streq", r.Pick("never", "x", "%78")),
			mk(2, "-", []string{"urlDecode", t2}, r.Pick("streq", "contains"), r.Pick("never", "x", "3")),
			mk(3, gen.Field(n), []string{"urlDecode", t2}, r.Pick("streq", "contains", "beginsWith"), r.Pick("x", "X", "1", "78", "%")),
		}
		if r.Chance(0.3) {
			trio[0], trio[1] = trio[1], trio[0]
		}
		pos := r.Intn(len(c.Rules) + 1)
		c.Rules = append(c.Rules[:pos], append(trio, c.Rules[pos:]...)...)
		cacheTrioName, cacheTrioVar = n, v
	} else if p.cache > 0 && r.Chance(0.4) {
		// sibling chains: two or three rules of one phase reading the same target, not multiMatch, whose
		// transformation lists share a prefix of length 1..8 and differ in the step after it (and one that
		// extends a sibling); the prefix lengths include those at which a Go slice has spare capacity
		// (3, 5, 6, 7), so per-chain bookkeeping that is shared between chains is exercised
		cacheTrioName = ""
		v := r.Pick("ARGS", "ARGS_GET", "ARGS_GET", "REQUEST_HEADERS")
		key := r.Pick("-", gen.Field("a"), gen.Field("b"))
		ph := 1 + r.Intn(2)
		pre := []string{}
		for k := []int{1, 2, 3, 3, 3, 4, 5, 5, 6, 6, 7, 7, 8}[r.Intn(13)]; k > 0; k-- {
			pre = append(pre, r.Pick("trim", "removeNulls", "urlDecode", "trimLeft", "trimRight", "replaceNulls", "lowercase", "uppercase", "removeWhitespace", "compressWhitespace", "hexDecode"))
		}
		last := []string{"lowercase", "uppercase", "length", "hexEncode", "urlEncode", "urlDecode", "removeWhitespace", "trim", "verifAddA", "verifAddB", "verifAddA", "verifAddB", "hexDecode", "hexDecode"}
		r.Shuffle(len(last), func(i, j int) { last[i], last[j] = last[j], last[i] })
		mk := func(id int, tfs []string) eRule {
			return eRule{ID: id, Ph: ph, Mk: "-", Rt: "-", Sa: "-", Sev: -1, Tags: []string{}, Log: true, Audit: true,
				Links: []eLink{{Tg: []eTarget{{V: v, K: key, X: []string{}}}, Op: &eOp{N: r.Pick("contains", "contains", "streq", "beginsWith"),
					A: gen.Field(r.Pick("x", "X", "78", "58", "1", "2", "%", "25"))}, Tfs: tfs, NA: []eNAct{}}}}
		}
		chain := func(extra ...string) []string { return append(append([]string{}, pre...), extra...) }
		sib := []eRule{mk(1, chain(last[0])), mk(2, chain(last[1]))}
		if r.Chance(0.3) {
			// two transformations registered by a plugin and made by one factory, at the same position of otherwise equal lists
			sib = []eRule{mk(1, chain("verifAddA")), mk(2, chain("verifAddB"))}
			for i := range sib {
				sib[i].Links[0].Op = &eOp{N: r.Pick("endsWith", "contains"), A: gen.Field(r.Pick("A", "B"))}
			}
		}
		if r.Chance(0.5) {
			sib = append(sib, mk(3, chain(last[r.Intn(2)], last[2])))
		}
		if r.Chance(0.3) {
			sib = append(sib, mk(4, chain(last[0])))
		}
		r.Shuffle(len(sib), func(i, j int) { sib[i], sib[j] = sib[j], sib[i] })
		pos := r.Intn(len(c.Rules) + 1)
		c.Rules = append(c.Rules[:pos], append(sib, c.Rules[pos:]...)...)
	} else {
		cacheTrioName = ""
	}
	if p.ctl >= 0.3 && r.Chance(0.2) && n >= 2 {
		// two or three run-time id ranges in one transaction: nested, overlapping, adjacent, the same twice, in either order
		l := eLink{Tg: []eTarget{}, Tfs: []string{}, NA: []eNAct{}}
		lo, hi := ids[0], ids[len(ids)-1]
		rs := [][2]int{{lo, hi}, {lo + 10, hi - 10}, {lo + 10, lo + 10}, {hi - 10, hi + 20}, {lo, lo + 10}, {lo + 11, hi}, {lo - 5, lo + 5}}
		for k := 2 + r.Intn(2); k > 0; k-- {
			x := rs[r.Intn(len(rs))]
			if x[0] > x[1] {
				x[0], x[1] = x[1], x[0]
			}
			l.NA = append(l.NA, eNAct{N: "ctlRemoveByRange", Lo: x[0], Hi: x[1]})
		}
		g := eRule{ID: 15, Ph: 1, Mk: "-", Rt: "-", Sa: "-", Sev: -1, Tags: []string{}, Links: []eLink{l}}
		c.Rules = append([]eRule{g}, c.Rules...)
	}
	if p.ctl >= 0.3 && r.Chance(0.3) {
		// run-time target exclusions aimed at a rule that exists and at variables it really reads:
		// two or three of them for one rule (string keys, regex keys, the whole variable, repeated),
		// executed by a phase-1 SecAction placed first
		var cands []eRule
		for _, ru := range c.Rules {
			if ru.ID != 0 && len(ru.Links) > 0 && len(ru.Links[0].Tg) > 0 {
				cands = append(cands, ru)
			}
		}
		if len(cands) > 0 {
			ru := cands[r.Intn(len(cands))]
			l := eLink{Tg: []eTarget{}, Tfs: []string{}, NA: []eNAct{}}
			for k := 2 + r.Intn(2); k > 0; k-- {
				lk := ru.Links[r.Intn(len(ru.Links))]
				if len(lk.Tg) == 0 {
					lk = ru.Links[0]
				}
				t := lk.Tg[r.Intn(len(lk.Tg))]
				key := "-"
				switch r.Intn(4) {
				case 0:
					key = gen.Field(r.Pick(eKeys...))
				case 1, 2:
					key = gen.Field("/" + r.Pick(eRxKeys...) + "/")
				}
				l.NA = append(l.NA, eNAct{N: "ctlRemoveTargetById", Lo: ru.ID, Hi: ru.ID, Var: t.V, K: key})
			}
			g := eRule{ID: 6, Ph: 1, Mk: "-", Rt: "-", Sa: "-", Sev: -1, Tags: []string{}, Links: []eLink{l}}
			c.Rules = append([]eRule{g}, c.Rules...)
		}
	}
	if p.flow >= 0.3 && r.Chance(0.3) {
		// a skipAfter scenario in one phase: a rule before the jump, the jumping rule, a rule that is jumped over,
		// the marker (sometimes absent or duplicated), and two rules after it that leave a trace; the rule list
		// is often edited at configuration time afterwards (a removal of a rule placed before / after the marker),
		// so the positions of the rules of the final list differ from the positions at the time each was added
		ph := 1 + r.Intn(2)
		m := r.Pick("M1", "M2", "M3")
		mk := func(id int, key string, disr string, sa string) eRule {
			ru := eRule{ID: id, Ph: ph, Mk: "-", Rt: "-", Sa: sa, Sev: -1, Tags: []string{}, Log: true, Audit: true, Disr: disr,
				Links: []eLink{{Tg: []eTarget{}, Tfs: []string{}, NA: []eNAct{{N: "setvar", K: gen.Field(key), V: gen.Field("+1")}}}}}
			if r.Chance(0.3) {
				ru.Tags = append(ru.Tags, gen.Field(r.Pick("t1", "t2")))
			}
			return ru
		}
		marker := eRule{ID: 0, Ph: 0, Mk: gen.Field(m), Links: []eLink{{Tg: []eTarget{}, Tfs: []string{}, NA: []eNAct{}}}, Rt: "-", Sa: "-", Sev: -1, Tags: []string{}}
		blk := []eRule{mk(1, "s", "", "-")}
		if r.Chance(0.3) {
			blk[0].Ph = 1 + r.Intn(5)
		}
		blk = append(blk, mk(2, "n", "", gen.Field(m)), mk(3, "k", r.Pick("", "deny"), "-"))
		if r.Chance(0.85) {
			blk = append(blk, marker)
		}
		blk = append(blk, mk(4, "S", "", "-"), mk(7, "N", r.Pick("", "", "deny"), "-"))
		if r.Chance(0.15) {
			blk = append(blk, marker, mk(8, "n", "", "-"))
		}
		pos := r.Intn(len(c.Rules) + 1)
		c.Rules = append(c.Rules[:pos], append(blk, c.Rules[pos:]...)...)
		if r.Chance(0.6) {
			d := eRule{Rt: "-", Sa: "-", Mk: "-", Sev: -1, Tags: []string{}, Links: []eLink{}, Dir: "removeById"}
			switch r.Intn(4) {
			case 0:
				d.Sels = [][]int{{1}}
			case 1:
				d.Sels = [][]int{{3}}
			case 2:
				d.Sels = [][]int{{1}, {3}, {4}}
			default:
				d.Sels = [][]int{{[]int{1, 3, 4, 7, 10, 20}[r.Intn(6)]}}
			}
			c.Rules = append(c.Rules, d)
		}
		ids = append(ids, 1, 2, 3, 4, 7)
	}
	if p.dirs > 0 && r.Chance(p.dirs) {
		// configuration-time exclusions/updates, each placed after at least one rule (a directive
		// acts on the rules before it; some are placed early so that later rules are not affected)
		for k := 1 + r.Intn(3); k > 0; k-- {
			d := genDirective(r, p, ids)
			pos := len(c.Rules)
			if r.Chance(0.35) {
				pos = 1 + r.Intn(len(c.Rules))
			}
			c.Rules = append(c.Rules[:pos], append([]eRule{d}, c.Rules[pos:]...)...)
		}
	}
	if r.Chance(0.35) {
		// a request line: path of unreserved characters, sometimes a query (its arguments join ARGS_GET) and a fragment
		u := r.Pick("/", "/a", "/a/b.php", "/Admin/Shell.PHP", "/x/", "/a.b/c_d-e", "/index", "/a//b", "/x.y")
		if r.Chance(0.6) {
			var qs []string
			for k := 1 + r.Intn(3); k > 0; k-- {
				qs = append(qs, r.Pick(eKeys...)+r.Pick("=", "=", "")+r.Pick("x", "y", "1", "X%20y", "%78", "a+b", "10", ""))
			}
			u += "?" + strings.Join(qs, "&")
		}
		if r.Chance(0.15) {
			u += "#frag"
		}
		c.Uri = gen.Field(u)
	}
	if p.cache > 0 && c.Uri != "" && r.Chance(0.5) {
		// two chains whose second link reads MATCHED_VAR through one transformation list: the first is started by the
		// whole request URI, the second by a part of it (REQUEST_FILENAME, REQUEST_BASENAME, QUERY_STRING) — values
		// that differ but live in the same memory
		ph := 1 + r.Intn(2)
		tfs := append([]string{}, curTfBase...)
		if len(tfs) == 0 {
			tfs = []string{"lowercase"}
		}
		mk := func(id int, v string, tfs2 []string) eRule {
			return eRule{ID: id, Ph: ph, Mk: "-", Rt: "-", Sa: "-", Sev: -1, Tags: []string{}, Log: true, Audit: true, Links: []eLink{
				{Tg: []eTarget{{V: v, K: "-", X: []string{}}}, Op: &eOp{N: "unconditionalMatch", A: "-"}, Tfs: []string{}, NA: []eNAct{}},
				{Tg: []eTarget{{V: "MATCHED_VAR", K: "-", X: []string{}}}, Op: &eOp{N: r.Pick("endsWith", "contains", "streq"), A: gen.Field(r.Pick(".php", "?", "x", "/a", "b.php"))}, Tfs: tfs2, NA: []eNAct{}}}}
		}
		pair := []eRule{mk(1, r.Pick("REQUEST_URI_RAW", "REQUEST_URI", "REQUEST_LINE"), tfs), mk(2, r.Pick("REQUEST_FILENAME", "REQUEST_BASENAME", "QUERY_STRING", "REQUEST_URI"), tfs[:1+r.Intn(len(tfs))])}
		if r.Chance(0.3) {
			pair[0], pair[1] = pair[1], pair[0]
		}
		hasLow := false
		for _, ru := range c.Rules {
			if ru.ID >= 1 && ru.ID <= 4 {
				hasLow = true
			}
		}
		if !hasLow {
			pos := r.Intn(len(c.Rules) + 1)
			c.Rules = append(c.Rules[:pos], append(pair, c.Rules[pos:]...)...)
		}
	}
	oddKeys := r.Chance(0.1) // non-ASCII names in some cases only: with regex keys they leave the modelled fragment
	pairs := func() [][2]string {
		out := [][2]string{}
		for k := r.Intn(4); k > 0; k-- {
			v := r.Pick(eVals...)
			if r.Chance(0.1) {
				v = r.Bytes(2)
			}
			if p.cache > 0 && r.Chance(0.35) {
				v = r.Pick("%78", "%2578", "%252578", "x", " %78", "%2578 ") // each the urlDecode of the next
			}
			k := r.Pick(eKeys...)
			if oddKeys && r.Chance(0.3) {
				k = r.Pick("\xff", "K", "c\xc3\xa9", "İ")
			} else if r.Chance(0.12) {
				k = r.Pick("ab", "ba", "a1", "B", "", "a.b", "aB")
			}
			out = append(out, [2]string{gen.Field(k), gen.Field(v)})
		}
		return out
	}
	c.Get, c.Post, c.Hdr = pairs(), pairs(), pairs()
	if r.Chance(0.3) {
		c.Rhdr = pairs()
	}
	if r.Chance(0.3) {
		// a Cookie header: names from the key vocabulary (also differing only in letter case, repeated, empty values, no '=')
		var cs []string
		for k := 1 + r.Intn(4); k > 0; k-- {
			cs = append(cs, r.Pick(eKeys...)+r.Pick("=", "=", "= ", "")+r.Pick("x", "y", "1", "xy", "", "10"))
		}
		if r.Chance(0.5) {
			// the same name in another letter case (one bucket of the collection), and a rule whose outcome is the
			// first value of that bucket: the order of the header decides, nothing else may
			n := r.Pick("a", "b", "c")
			cs = append(cs, n+"=lower", strings.ToUpper(n)+"=UPPER")
			r.Shuffle(len(cs), func(i, j int) { cs[i], cs[j] = cs[j], cs[i] })
			c.Rules = append(c.Rules, eRule{ID: 13, Ph: 1 + r.Intn(2), Mk: "-", Rt: "-", Sa: "-", Sev: -1, Tags: []string{}, Log: true, Audit: true,
				Links: []eLink{{Tg: []eTarget{}, Tfs: []string{}, NA: []eNAct{{N: "setvar", K: gen.Field("ck"), V: gen.Field("%{request_cookies." + n + "}")}}}}})
		}
		c.Hdr = append(c.Hdr, [2]string{gen.Field(r.Pick("Cookie", "cookie", "COOKIE")), gen.Field(strings.Join(cs, r.Pick("; ", ";", " ; ")))})
	}
	if c.Uri != "" && strings.Contains(gen.Unfield(c.Uri), "?") && r.Chance(0.3) {
		// the same for the query string: a name in both letter cases, and a rule reading the first value
		n := r.Pick("a", "b", "c")
		c.Uri = gen.Field(gen.Unfield(c.Uri) + r.Pick("&"+n+"=lower&"+strings.ToUpper(n)+"=UPPER", "&"+strings.ToUpper(n)+"=UPPER&"+n+"=lower"))
		c.Rules = append(c.Rules, eRule{ID: 14, Ph: 1 + r.Intn(2), Mk: "-", Rt: "-", Sa: "-", Sev: -1, Tags: []string{}, Log: true, Audit: true,
			Links: []eLink{{Tg: []eTarget{}, Tfs: []string{}, NA: []eNAct{{N: "setvar", K: gen.Field("qa"), V: gen.Field("%{args_get." + n + "}")}}}}})
	}
	if cacheTrioName != "" {
		other := map[string]string{"a": "b", "b": "a"}[cacheTrioName]
		add := [][2]string{{gen.Field(other), gen.Field(r.Pick("z", "x", "%78"))}}
		for _, val := range []string{"%252578", "%2578", "%78"} {
			if r.Chance(0.75) {
				add = append(add, [2]string{gen.Field(cacheTrioName), gen.Field(val)})
			}
		}
		if cacheTrioVar == "ARGS_POST" {
			c.Post = append(c.Post, add...)
		} else {
			c.Get = append(c.Get, add...)
		}
	}
	if p.apiOrder > 0 && r.Chance(0.3) {
		// default actions carrying a status for one or two phases: a rule's own status still wins
		for _, ph := range r.Perm(4)[:1+r.Intn(2)] {
			c.Dst = append(c.Dst, [2]int{ph + 1, []int{503, 401, 302, 200, 418}[r.Intn(5)]})
		}
	}
	if r.Chance(0.6 - p.apiOrder) {
		c.Calls = []string{"h1", "b2", "h3", "b4", "lg"}
	} else {
		c.Calls = []string{}
		for k := r.Intn(9); k > 0; k-- {
			c.Calls = append(c.Calls, r.Pick("h1", "b2", "h3", "b4", "lg", "h1", "b2"))
		}
	}
	return c
}

var engProfiles = map[string]engProfile{
	"":      {},
	"flow":  {flow: 0.3, chains: 0.1, disr: 0.1, allows: 0.2, dirs: 0.3, ctl: 0.3},
	"api":   {disr: 0.35, apiOrder: 0.35, ctl: 0.1, modeSwitch: 0.2},
	"acct":  {acct: 0.4, chains: 0.2},
	"ctl":   {ctl: 0.35, rxkeys: 0.15, dirs: 0.45, flow: 0.15},
	"dirs":  {dirs: 1, rxkeys: 0.15, disr: 0.1},
	"cache": {cache: 0.5, chains: 0.2},
	"match": {chains: 0.3, rxkeys: 0.25},
}

// engrep: the same case N times on fresh WAFs; any difference between repetitions is reported
func execEngRep(a []string) string {
	first := execEng(a)
	if strings.HasPrefix(first, "CONFIGERR") || first == "BADCASE" {
		return first
	}
	for i := 0; i < 5; i++ {
		if o := execEng(a); o != first {
			return "UNSTABLE-FRESH " + first + " ||| " + o
		}
	}
	// the same transaction repeated on one long-lived WAF (pooled transaction objects are reused)
	var c eCase
	json.Unmarshal([]byte(a[0]), &c)
	waf, cb, errs := buildEngWAF(&c)
	if errs != "" {
		return errs
	}
	for i := 0; i < 7; i++ {
		if o := runEngCase(waf, &c, cb); o != first {
			return "UNSTABLE-LONGLIVED " + first + " ||| " + o
		}
	}
	return first
}

// iso <predecessor case> <probe case>: both on ONE WAF (same rules), predecessor first, closed
// (its transaction object goes back to the pool), then the probe; only the probe is observed.
func execIso(a []string) string {
	var pred, probe eCase
	if json.Unmarshal([]byte(a[0]), &pred) != nil || json.Unmarshal([]byte(a[1]), &probe) != nil {
		return "BADCASE"
	}
	waf, cb, errs := buildEngWAF(&probe)
	if errs != "" {
		return errs
	}
	for i := 0; i < 2; i++ { // twice: the pool may hold more than one object
		runEngCase(waf, &pred, cb)
	}
	return runEngCase(waf, &probe, cb)
}

func init() {
	engines["iso"] = &engine{Exec: execIso, Gen: func(c *ctx) {
		for i := 0; i < c.n; i++ {
			p := engProfiles[[]string{"api", "ctl", "flow", "acct"}[i%4]]
			probe := genEngCase(c.r, p)
			guarded := c.r.Chance(0.5)
			failingGuard := false
			if guarded {
				// a first rule whose actions only the predecessor triggers (ARGS_GET:trig=1): anything it
				// changes must die with the predecessor
				g := eRule{ID: 5, Ph: 1, Mk: "-", Rt: "-", Sa: "-", Sev: -1, Tags: []string{}, Log: false, Audit: false}
				l := eLink{Tg: []eTarget{{V: "ARGS_GET", K: gen.Field("trig"), X: []string{}}}, Op: &eOp{N: "streq", A: gen.Field("1")}, Tfs: []string{}, NA: []eNAct{}}
				ids := []int{}
				for _, ru := range probe.Rules {
					if ru.ID != 0 {
						ids = append(ids, ru.ID)
					}
				}
				for k := 1 + c.r.Intn(2); k > 0; k-- {
					a := genNAct(c.r, engProfile{ctl: 0.7}, true, ids)
					if a.N == "ctlRemoveTargetById" {
						// aim at a target that really exists in that rule
						for _, ru := range probe.Rules {
							if ru.ID == a.Lo && len(ru.Links) > 0 && len(ru.Links[0].Tg) > 0 {
								t := ru.Links[c.r.Intn(len(ru.Links))].Tg
								if len(t) > 0 {
									a.Var, a.K = t[0].V, t[0].K
								}
							}
						}
					}
					l.NA = append(l.NA, a)
				}
				g.Links = []eLink{l}
				if c.r.Chance(0.35) {
					// the guard as a chain whose second link never matches: its first link's actions run, the rule never counts as matched
					g.Links = append(g.Links, eLink{Tg: []eTarget{{V: "ARGS_GET", K: gen.Field("trig"), X: []string{}}}, Op: &eOp{N: "streq", A: gen.Field("never")}, Tfs: []string{}, NA: []eNAct{}})
					failingGuard = true
				}
				probe.Rules = append([]eRule{g}, probe.Rules...)
			}
			if c.r.Chance(0.3) {
				// request bodies within SecRequestBodyLimit 64, the predecessor's usually above the in-memory limit 16 (spilled to a
				// file): buffer state carried over to the probe would push it over the limit
				probe.Bl = "1"
				probe.Body = gen.Field(strings.Repeat("A", 1+c.r.Intn(58)))
			}
			listRule := c.r.Chance(0.15)
			if listRule {
				// an operator whose argument is one macro: the list it compares against is the transaction's own
				// (set from a request argument), never the one an earlier transaction expanded
				probe.Rules = append(probe.Rules,
					eRule{ID: 25, Ph: 1, Mk: "-", Rt: "-", Sa: "-", Sev: -1, Tags: []string{}, Log: false, Audit: false,
						Links: []eLink{{Tg: []eTarget{}, Tfs: []string{}, NA: []eNAct{{N: "setvar", K: gen.Field("lst"), V: gen.Field("%{args_get.m}")}}}}},
					eRule{ID: 26, Ph: 1 + c.r.Intn(2), Mk: "-", Rt: "-", Sa: "-", Sev: -1, Tags: []string{}, Log: true, Audit: true,
						Links: []eLink{{Tg: []eTarget{{V: "ARGS_GET", K: gen.Field("q"), X: []string{}}}, Op: &eOp{N: c.r.Pick("within", "within", "streq", "contains", "beginsWith"),
							A: gen.Field("%{tx.lst}")}, Tfs: []string{}, NA: []eNAct{}}}})
				probe.Get = append(probe.Get, [2]string{gen.Field("m"), gen.Field(c.r.Pick("ab xy", "xy", "ab"))}, [2]string{gen.Field("q"), gen.Field(c.r.Pick("ab", "xy", "ab xy"))})
				c.stats.Hit("macro-list-operator")
			}
			pred := *probe
			other := genEngCase(c.r, p)
			pred.Get, pred.Post, pred.Hdr, pred.Calls = other.Get, other.Post, other.Hdr, other.Calls
			if listRule {
				pred.Get = append(pred.Get, [2]string{gen.Field("m"), gen.Field(c.r.Pick("zz", "ab xy", "q"))}, [2]string{gen.Field("q"), gen.Field(c.r.Pick("ab", "zz"))})
			}
			if probe.Bl != "" {
				pred.Body = gen.Field(strings.Repeat("B", 1+c.r.Intn(58)))
				c.stats.Hit("bodies")
			}
			// the predecessor brings its own argument names (argument-limit accounting must not carry over)
			for k := 0; k < 5; k++ {
				pred.Get = append(pred.Get, [2]string{gen.Field("p" + strconv.Itoa(c.r.Intn(40))), gen.Field("v")})
			}
			if guarded {
				pred.Get = append([][2]string{{gen.Field("trig"), gen.Field("1")}}, pred.Get...)
				c.stats.Hit("predecessor-only-actions")
			}
			if failingGuard && c.r.Chance(0.6) {
				// a predecessor in which (often) no rule at all ends up matched: nothing but the trigger
				pred.Get, pred.Post, pred.Hdr, pred.Uri, pred.Rhdr = [][2]string{{gen.Field("trig"), gen.Field("1")}}, [][2]string{}, [][2]string{}, "", nil
				c.stats.Hit("predecessor-bare")
			}
			if c.r.Chance(0.3) && len(pred.Calls) > 0 {
				pred.Calls = pred.Calls[:len(pred.Calls)-1] // e.g. no ProcessLogging
			}
			b1, _ := json.Marshal(&pred)
			b2, _ := json.Marshal(probe)
			obs := c.run("iso", string(b1), string(b2))
			if strings.Contains(obs, "; m=-") {
				c.stats.Hit("probe-fired:none")
			} else {
				c.stats.Hit("probe-fired:some")
			}
		}
	}}
	engines["engrep"] = &engine{Exec: execEngRep, Gen: func(c *ctx) {
		for i := 0; i < c.n; i++ {
			p := engProfiles[[]string{"cache", "ctl", "acct"}[i%3]]
			cs := genEngCase(c.r, p)
			// repeated names within and across collections
			for k := 0; k < 2; k++ {
				cs.Get = append(cs.Get, [2]string{gen.Field(c.r.Pick("a", "b", "A")), gen.Field(c.r.Pick(eVals...))})
				cs.Post = append(cs.Post, [2]string{gen.Field(c.r.Pick("a", "b", "A")), gen.Field(c.r.Pick(eVals...))})
			}
			if c.r.Chance(0.5) {
				// one name carrying a value, its urlDecode and the urlDecode of that
				n := c.r.Pick("a", "b")
				for _, v := range []string{"%252578", "%2578", "%78"} {
					if c.r.Chance(0.8) {
						cs.Get = append(cs.Get, [2]string{gen.Field(n), gen.Field(v)})
					}
				}
			}
			b, _ := json.Marshal(cs)
			obs := c.run("engrep", string(b))
			if strings.HasPrefix(obs, "UNSTABLE") {
				c.stats.Hit("unstable")
			}
			if strings.Contains(obs, "; m=-") {
				c.stats.Hit("fired:none")
			} else {
				c.stats.Hit("fired:some")
			}
		}
	}}
	engines["eng"] = &engine{Exec: execEng, Gen: func(c *ctx) {
		prof := strings.TrimPrefix(c.arg, "profile=")
		if strings.HasPrefix(c.arg, "focus=") {
			prof = ""
		}
		p := engProfiles[prof]
		for i := 0; i < c.n; i++ {
			cs := genEngCase(c.r, p)
			b, _ := json.Marshal(cs)
			obs := c.run("eng", string(b))
			c.stats.Hit("mode:" + cs.Mode)
			if strings.Contains(obs, "; m=-") {
				c.stats.Hit("fired:none")
			} else {
				c.stats.Hit("fired:some")
			}
			if !strings.Contains(obs, "; i=- ;") {
				c.stats.Hit("interrupted")
			}
			if strings.HasPrefix(obs, "CONFIGERR") {
				c.stats.Hit("configerr")
				m := lastConfigErr
				if i := strings.LastIndex(m, ": "); i >= 0 {
					m = m[i+2:]
				}
				m = strings.Map(func(r rune) rune {
					if r >= '0' && r <= '9' {
						return -1
					}
					return r
				}, m)
				if len(m) > 40 {
					m = m[:40]
				}
				c.stats.Hit("configerr:" + m)
			}
			for _, ru := range cs.Rules {
				if ru.Dir != "" {
					c.stats.Hit("dir:" + ru.Dir)
				}
			}
			for _, ru := range cs.Rules {
				if len(ru.Links) > 1 {
					c.stats.Hit("rule:chain")
				}
				if ru.Skip > 0 || ru.Sa != "-" {
					c.stats.Hit("rule:flow")
				}
				if strings.HasPrefix(ru.Disr, "allow") {
					c.stats.Hit("rule:allow")
				}
			}
		}
	}}
}
