package main

import (
	"fmt"
	"io"
	"strconv"
	"strings"

	coraza "github.com/corazawaf/coraza/v3"
	"verifharness/internal/gen"
)

// reader <limit> <memlimit> <pred body> <k> <probe body> <side>
//
//	a predecessor buffers <pred body> (in memory or spilled past memlimit), hands out a body reader, reads k bytes
//	from it, is closed (its object goes back to the pool); the probe on the same WAF buffers <probe body>; then the
//	STALE reader is read to the end and the probe's own reader too. Repeated 6 times (the pool may hold several objects).
//	=> stale=<bytes the stale readers yielded after Close, hex> probe=<what the probe's reader yields>
var readerWAFs = map[string]coraza.WAF{}

func execReader(a []string) string {
	limit, mem, pred, probe, side := a[0], a[1], gen.Unfield(a[2]), gen.Unfield(a[4]), a[5]
	k, _ := strconv.Atoi(a[3])
	key := limit + "/" + mem
	waf := readerWAFs[key]
	if waf == nil {
		w, err := coraza.NewWAF(coraza.NewWAFConfig().WithDirectives("SecRuleEngine On\nSecRequestBodyAccess On\nSecResponseBodyAccess On\nSecResponseBodyMimeType text/plain\n" +
			"SecRequestBodyLimit " + limit + "\nSecRequestBodyInMemoryLimit " + mem + "\nSecResponseBodyLimit " + limit + "\nSecRequestBodyLimitAction ProcessPartial\nSecResponseBodyLimitAction ProcessPartial\n"))
		if err != nil {
			return "CONFIGERR"
		}
		readerWAFs[key] = w
		waf = w
	}
	feed := func(body string) (tx interface {
		Close() error
	}, rd io.Reader) {
		t := waf.NewTransaction()
		t.ProcessRequestHeaders()
		if side == "req" {
			t.WriteRequestBody([]byte(body))
			t.ProcessRequestBody()
			rd, _ = t.RequestBodyReader()
		} else {
			t.ProcessRequestBody()
			t.AddResponseHeader("Content-Type", "text/plain")
			t.ProcessResponseHeaders(200, "HTTP/1.1")
			t.WriteResponseBody([]byte(body))
			t.ProcessResponseBody()
			rd, _ = t.ResponseBodyReader()
		}
		return t, rd
	}
	var staleAll strings.Builder
	probeGot := ""
	for round := 0; round < 6; round++ {
		ptx, stale := feed(pred)
		if stale != nil && k > 0 {
			io.ReadFull(stale, make([]byte, k))
		}
		ptx.Close()
		qtx, own := feed(probe)
		if stale != nil {
			b, _ := io.ReadAll(stale)
			staleAll.Write(b)
		}
		if own != nil {
			b, _ := io.ReadAll(own)
			if round > 0 && string(b) != probeGot {
				return "UNSTABLE-PROBE"
			}
			probeGot = string(b)
		}
		qtx.Close()
	}
	return fmt.Sprintf("stale=%s probe=%s", gen.Field(staleAll.String()), gen.Field(probeGot))
}

func init() {
	engines["reader"] = &engine{Exec: execReader, Gen: func(c *ctx) {
		for i := 0; i < c.n; i++ {
			r := c.r
			limit := 24 + r.Intn(40)
			mem := 4 + r.Intn(limit-4)
			n1 := r.Intn(limit + 8)
			if r.Chance(0.5) {
				n1 = mem + 1 + r.Intn(limit-mem) // spilled to the temporary file
			}
			pred := strings.Repeat("A", n1)
			probe := "secret-of-the-next-transaction-" + r.ASCII(1+r.Intn(20))
			if r.Chance(0.3) {
				probe = r.ASCII(r.Intn(mem + 3))
			}
			k := 0
			if n1 > 0 {
				k = r.Intn(n1 + 1)
			}
			obs := c.run("reader", strconv.Itoa(limit), strconv.Itoa(mem), gen.Field(pred), strconv.Itoa(k), gen.Field(probe), r.Pick("req", "req", "resp"))
			if n1 > mem {
				c.stats.Hit("predecessor:spilled")
			} else {
				c.stats.Hit("predecessor:in-memory")
			}
			if strings.HasPrefix(obs, "stale=- ") {
				c.stats.Hit("stale-reader:silent")
			} else {
				c.stats.Hit("stale-reader:yielded-data")
			}
		}
	}}
}
