package main

import (
	"bytes"
	"fmt"
	"io"
	"strconv"
	"strings"

	coraza "github.com/corazawaf/coraza/v3"
	"github.com/corazawaf/coraza/v3/types"
	"verifharness/internal/gen"
)

type plainReader struct{ r io.Reader } // hides Len(): "unknown length"

func (p plainReader) Read(b []byte) (int, error) { return p.r.Read(b) }

// pieceReader hands its data out in short reads of `step` bytes (a network body arriving in segments); with
// eofWithData the last piece comes together with io.EOF, as io.Reader allows
type pieceReader struct {
	data        []byte
	step        int
	eofWithData bool
}

func (p *pieceReader) Read(b []byte) (int, error) {
	if len(p.data) == 0 {
		return 0, io.EOF
	}
	n := p.step
	if n > len(p.data) {
		n = len(p.data)
	}
	if n > len(b) {
		n = len(b)
	}
	copy(b, p.data[:n])
	p.data = p.data[n:]
	if len(p.data) == 0 && p.eofWithData {
		return n, io.EOF
	}
	return n, nil
}

var bodyWAFs = map[string]coraza.WAF{}

func bodyWAF(side string, limit, mem int, action string) (coraza.WAF, error) {
	key := fmt.Sprintf("%s/%d/%d/%s", side, limit, mem, action)
	if w, ok := bodyWAFs[key]; ok {
		return w, nil
	}
	act := "Reject"
	if strings.HasPrefix(action, "P") {
		act = "ProcessPartial"
	}
	// "Rc" / "Pc": the limit in force is set for the transaction by a phase-1 ctl action, below the configured one
	ctlLine := ""
	if strings.HasSuffix(action, "c") {
		if side == "req" {
			ctlLine = fmt.Sprintf("SecAction \"id:8,phase:1,pass,nolog,ctl:requestBodyLimit=%d\"\n", limit)
		} else {
			ctlLine = fmt.Sprintf("SecAction \"id:8,phase:1,pass,nolog,ctl:responseBodyLimit=%d\"\n", limit)
		}
		limit += 7
	}
	var sb strings.Builder
	sb.WriteString("SecRuleEngine On\nSecRequestBodyAccess On\nSecResponseBodyAccess On\nSecResponseBodyMimeType text/plain\n")
	if side == "req" {
		fmt.Fprintf(&sb, "SecRequestBodyLimit %d\nSecRequestBodyInMemoryLimit %d\nSecRequestBodyLimitAction %s\n", limit, mem, act)
	} else {
		fmt.Fprintf(&sb, "SecResponseBodyLimit %d\nSecResponseBodyLimitAction %s\n", limit, act)
	}
	sb.WriteString(ctlLine)
	sb.WriteString(`SecAction "id:1,phase:1,pass,nolog,ctl:requestBodyProcessor=RAW"
SecAction "id:2,phase:2,pass,nolog"
SecRule REQUEST_BODY "@unconditionalMatch" "id:3,phase:2,pass,nolog"
SecAction "id:4,phase:4,pass,nolog"
SecRule RESPONSE_BODY "@unconditionalMatch" "id:5,phase:4,pass,nolog"
SecRule INBOUND_DATA_ERROR "@eq 1" "id:6,phase:5,pass,nolog"
SecRule OUTBOUND_DATA_ERROR "@eq 1" "id:7,phase:5,pass,nolog"
`)
	w, err := coraza.NewWAF(coraza.NewWAFConfig().WithDirectives(sb.String()))
	if err != nil {
		return nil, err
	}
	if len(bodyWAFs) > 256 {
		bodyWAFs = map[string]coraza.WAF{}
	}
	bodyWAFs[key] = w
	return w, nil
}

func itStatus(it *types.Interruption) string {
	if it == nil {
		return "-"
	}
	return strconv.Itoa(it.Status)
}

// body <req|resp> <limit> <memlimit> <R|P> <op,op,…>   op = s:<hex> | k:<hex> | u:<hex> | c:<hex> (short reads) | e:<hex> (short reads, EOF with the last)
//
//	=> <intr>/<n>/<err>,… ; runs=<k> var=<field> reader=<field> dataerr=<0|1> intr=<status|->
func execBody(a []string) string {
	side := a[0]
	limit, _ := strconv.Atoi(a[1])
	mem, _ := strconv.Atoi(a[2])
	waf, err := bodyWAF(side, limit, mem, a[3])
	if err != nil {
		return "CONFIGERR"
	}
	tx := waf.NewTransaction()
	defer tx.Close()
	tx.ProcessRequestHeaders()
	if side == "resp" {
		tx.ProcessRequestBody()
		tx.AddResponseHeader("Content-Type", "text/plain")
		tx.ProcessResponseHeaders(200, "HTTP/1.1")
	}
	var obs []string
	if a[4] != "-" {
		for _, op := range strings.Split(a[4], ",") {
			kind, data := op[:1], []byte(gen.Unfield(op[2:]))
			var it *types.Interruption
			var n int
			var e error
			switch {
			case kind == "s" && side == "req":
				it, n, e = tx.WriteRequestBody(data)
			case kind == "s":
				it, n, e = tx.WriteResponseBody(data)
			case kind == "k" && side == "req":
				it, n, e = tx.ReadRequestBodyFrom(bytes.NewReader(data))
			case kind == "k":
				it, n, e = tx.ReadResponseBodyFrom(bytes.NewReader(data))
			case (kind == "c" || kind == "e") && side == "req":
				it, n, e = tx.ReadRequestBodyFrom(&pieceReader{data: data, step: 1 + len(data)%3, eofWithData: kind == "e"})
			case kind == "c" || kind == "e":
				it, n, e = tx.ReadResponseBodyFrom(&pieceReader{data: data, step: 1 + len(data)%3, eofWithData: kind == "e"})
			case side == "req":
				it, n, e = tx.ReadRequestBodyFrom(plainReader{bytes.NewReader(data)})
			default:
				it, n, e = tx.ReadResponseBodyFrom(plainReader{bytes.NewReader(data)})
			}
			obs = append(obs, fmt.Sprintf("%s/%d/%s", itStatus(it), n, gen.B01(e != nil)))
		}
	}
	var rd io.Reader
	if side == "req" {
		tx.ProcessRequestBody()
		rd, _ = tx.RequestBodyReader()
	} else {
		tx.ProcessResponseBody()
		rd, _ = tx.ResponseBodyReader()
	}
	// read back the way connectors do: sometimes in one go, sometimes a prefix through Read and the rest through
	// io.Copy (which uses the reader's WriteTo / the writer's ReadFrom when there is one), sometimes byte-sized reads
	var content []byte
	var rerr error
	switch (limit + mem + len(a[4])) % 3 {
	case 0:
		content, rerr = io.ReadAll(rd)
	case 1:
		pre := make([]byte, 1+(limit+len(a[4]))%7)
		n, e := io.ReadFull(rd, pre)
		content = append(content, pre[:n]...)
		if e == nil {
			var rest bytes.Buffer
			_, rerr = io.Copy(&rest, rd)
			content = append(content, rest.Bytes()...)
		}
	default:
		one := make([]byte, 1)
		for {
			n, e := rd.Read(one)
			content = append(content, one[:n]...)
			if e != nil {
				if e != io.EOF {
					rerr = e
				}
				break
			}
		}
	}
	if rerr != nil {
		return "READERR"
	}
	tx.ProcessLogging()
	runs, dataerr := 0, false
	bodyVar := ""
	runID, varID, errID := 2, 3, 6
	if side == "resp" {
		runID, varID, errID = 4, 5, 7
	}
	for _, mr := range tx.MatchedRules() {
		switch mr.Rule().ID() {
		case runID:
			runs++
		case varID:
			for _, md := range mr.MatchedDatas() {
				bodyVar = md.Value()
			}
		case errID:
			dataerr = true
		}
	}
	o := "-"
	if len(obs) > 0 {
		o = strings.Join(obs, ",")
	}
	return fmt.Sprintf("%s ; runs=%d var=%s reader=%s dataerr=%s intr=%s", o, runs, gen.Field(bodyVar), gen.Field(string(content)),
		gen.B01(dataerr), itStatus(tx.Interruption()))
}

func init() {
	engines["body"] = &engine{Exec: execBody, Gen: func(c *ctx) {
		for i := 0; i < c.n; i++ {
			side := c.r.Pick("req", "req", "resp")
			limit := 1 + c.r.Intn(24)
			mem := 1 + c.r.Intn(limit)
			if c.r.Chance(0.3) {
				mem = limit
			}
			action := c.r.Pick("R", "P")
			k := c.r.Intn(6)
			total := 0
			var ops []string
			for j := 0; j < k; j++ {
				// sizes aimed at the thresholds: remaining-1, remaining, remaining+1 of limit and memLimit
				var n int
				switch c.r.Intn(8) {
				case 0:
					n = 0
				case 1:
					n = limit - total - 1
				case 2:
					n = limit - total
				case 3:
					n = limit - total + 1
				case 4:
					n = mem - total
				case 5:
					n = mem - total + 1
				default:
					n = c.r.Intn(8)
				}
				if n < 0 {
					n = c.r.Intn(4)
				}
				b := make([]byte, n)
				for x := range b {
					b[x] = byte('a' + (total+x)%26)
				}
				if c.r.Chance(0.2) {
					for x := range b {
						b[x] = byte(c.r.Intn(256))
					}
				}
				total += n
				kind := c.r.Pick("s", "s", "k", "u", "c", "e")
				ops = append(ops, kind+":"+gen.Field(string(b)))
				c.stats.Hit("write:" + kind)
			}
			opf := "-"
			if len(ops) > 0 {
				opf = strings.Join(ops, ",")
			}
			if c.r.Chance(0.15) {
				action += "c"
				c.stats.Hit("limit:by-ctl")
			}
			obs := c.run("body", side, strconv.Itoa(limit), strconv.Itoa(mem), action, opf)
			c.stats.Hit("side:" + side + "/" + action)
			switch {
			case total < limit:
				c.stats.Hit("total:below-limit")
			case total == limit:
				c.stats.Hit("total:at-limit")
			default:
				c.stats.Hit("total:above-limit")
			}
			if side == "req" && total > mem {
				c.stats.Hit("spill:yes")
			}
			if strings.Contains(obs, "413") || strings.Contains(obs, "500") {
				c.stats.Hit("obs:rejected")
			}
		}
	}}
}
