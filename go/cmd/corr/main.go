// corr runs the real implementation (built from /repo with -tags verif) on generated
// cases and writes protocol lines `<engine> <args…> => <observed output>` that the Lean
// driver then judges. Sub-command = engine name.
package main

import (
	"bufio"
	"encoding/json"
	"flag"
	"fmt"
	"os"
	"sort"
	"strings"

	"verifharness/internal/gen"
)

// An engine generates cases (Gen) and can re-execute a stored left-hand side (Exec).
type engine struct {
	Gen  func(c *ctx)
	Exec func(args []string) string
}

type ctx struct {
	r     *gen.R
	n     int
	tier  string
	w     *bufio.Writer
	stats *gen.Stats
	lines int
	arg   string
}

func (c *ctx) emit(line string) {
	c.w.WriteString(line)
	c.w.WriteByte('\n')
	c.lines++
}

var engines = map[string]*engine{}

// run executes one case on the implementation and emits the protocol line.
func (c *ctx) run(name string, args ...string) string {
	obs := safeExec(engines[name], args)
	c.emit(name + " " + strings.Join(args, " ") + " => " + obs)
	return obs
}

func safeExec(e *engine, args []string) (obs string) {
	defer func() {
		if r := recover(); r != nil {
			obs = "PANIC"
		}
	}()
	return e.Exec(args)
}

// execFile re-executes stored left-hand sides (corpus, replay, shrinking).
func execFile(c *ctx) {
	b, err := os.ReadFile(c.arg)
	if err != nil {
		panic(err)
	}
	for _, l := range strings.Split(string(b), "\n") {
		l = strings.TrimSpace(l)
		if l == "" || strings.HasPrefix(l, "#") {
			continue
		}
		if i := strings.Index(l, " => "); i >= 0 {
			l = l[:i]
		}
		toks := strings.Fields(l)
		e, ok := engines[toks[0]]
		if !ok {
			c.emit(l + " => NOENGINE")
			continue
		}
		c.emit(l + " => " + safeExec(e, toks[1:]))
	}
}

func main() {
	if len(os.Args) < 2 {
		names := []string{}
		for k := range engines {
			names = append(names, k)
		}
		sort.Strings(names)
		fmt.Fprintln(os.Stderr, "usage: corr <engine> [-seed N] [-n N] [-out file] [-stats file]; engines:", names)
		os.Exit(2)
	}
	name := os.Args[1]
	if name == "serve" {
		// coprocess mode: one left-hand side per line on stdin, its observation per line on stdout
		// (used to run the same cases on a differently built harness, e.g. -tags coraza.no_memoize)
		sc := bufio.NewScanner(os.Stdin)
		sc.Buffer(make([]byte, 1<<20), 1<<26)
		w := bufio.NewWriter(os.Stdout)
		for sc.Scan() {
			toks := strings.Fields(sc.Text())
			obs := "NOENGINE"
			if len(toks) > 0 {
				if e, ok := engines[toks[0]]; ok {
					obs = safeExec(e, toks[1:])
				}
			}
			w.WriteString(obs + "\n")
			w.Flush()
		}
		return
	}
	fs := flag.NewFlagSet(name, flag.ExitOnError)
	seed := fs.Int64("seed", 1, "PRNG seed")
	n := fs.Int("n", 1000, "number of cases")
	out := fs.String("out", "-", "output file for protocol lines")
	statsF := fs.String("stats", "", "output file for distribution statistics (JSON)")
	tier := fs.String("tier", "quick", "quick|thorough")
	arg := fs.String("arg", "", "engine-specific argument (e.g. replay file)")
	fs.Parse(os.Args[2:])
	e, ok := engines[name]
	if name == "exec" {
		e, ok = &engine{Gen: execFile}, true
	}
	if !ok {
		fmt.Fprintln(os.Stderr, "unknown engine", name)
		os.Exit(2)
	}
	var f *os.File = os.Stdout
	if *out != "-" {
		var err error
		f, err = os.Create(*out)
		if err != nil {
			panic(err)
		}
		defer f.Close()
	}
	c := &ctx{r: gen.New(*seed), n: *n, tier: *tier, w: bufio.NewWriterSize(f, 1<<20), stats: gen.NewStats(), arg: *arg}
	e.Gen(c)
	c.w.Flush()
	if *statsF != "" {
		b, _ := json.MarshalIndent(map[string]any{"engine": name, "seed": *seed, "lines": c.lines, "distribution": c.stats.Counts}, "", " ")
		os.WriteFile(*statsF, b, 0o644)
	}
}
