package main

import (
	"encoding/hex"
	"regexp"
	"strconv"
	"strings"

	"github.com/corazawaf/coraza/v3/experimental/plugins/plugintypes"
	"github.com/corazawaf/coraza/v3/experimental/verifhooks"
	"verifharness/internal/gen"
)

// rxm <hexpattern> <hexin;hexin;…> => re=<ERR|bits> op=<ERR|bits> caps=<ok|BAD@k|->
//
//	re:   regexp.Compile(pattern).MatchString(input)           (how regex keys are matched)
//	op:   the @rx operator, not capturing, prefilter off       ("(?sm)" + pattern)
//	caps: the @rx operator capturing, all inputs in order on ONE capture store (as TX.0-9 live on in a
//	      transaction); after every evaluation the store must equal the previous store overwritten with
//	      Go's own submatches 0..9 of "(?sm)"+pattern (a group that did not take part = ""), unchanged
//	      when there is no match. BAD@k = first input where it does not.
func execRxm(a []string) string {
	pat := gen.Unfield(a[0])
	var inputs []string
	if len(a) > 1 && a[1] != "" {
		for _, h := range strings.Split(a[1], ";") {
			inputs = append(inputs, gen.Unfield(h))
		}
	}
	reS := "ERR"
	if re, err := regexp.Compile(pat); err == nil {
		var sb strings.Builder
		for _, in := range inputs {
			sb.WriteString(gen.B01(re.MatchString(in)))
		}
		reS = sb.String()
		if reS == "" {
			reS = "-"
		}
	}
	opS, capS := "ERR", "-"
	op, err := verifhooks.Operator("rx", plugintypes.OperatorOptions{Arguments: pat})
	if err == nil {
		tx, done := opTx()
		defer done()
		var sb strings.Builder
		for _, in := range inputs {
			sb.WriteString(gen.B01(op.Evaluate(tx, in)))
		}
		opS = sb.String()
		if opS == "" {
			opS = "-"
		}
		// the binary matcher (expressions that can match non-UTF-8 bytes) has byte semantics of its own
		_, _, _, _, isRx := verifhooks.RxParts(op)
		if oracle, err := regexp.Compile("(?sm)" + pat); err == nil && isRx {
			capS = "ok"
			ct := &capTx{TransactionState: tx}
			want := []string{}
			for k, in := range inputs {
				got := op.Evaluate(ct, in)
				m := oracle.FindStringSubmatchIndex(in)
				if got != (m != nil) {
					capS = "BAD@" + strconv.Itoa(k) + ":verdict"
					break
				}
				if m != nil {
					for i := 0; i < len(m)/2 && i < 10; i++ {
						for len(want) <= i {
							want = append(want, "\x00unset")
						}
						if m[2*i] >= 0 {
							want[i] = in[m[2*i]:m[2*i+1]]
						} else {
							want[i] = ""
						}
					}
				}
				if capsField(ct.caps) != capsField(want) {
					capS = "BAD@" + strconv.Itoa(k) + ":" + capsField(ct.caps) + "/" + capsField(want)
					break
				}
			}
		}
	}
	return "re=" + reS + " op=" + opS + " caps=" + capS
}

func rxmInFragment(p string) bool {
	for i := 0; i < len(p); i++ {
		if p[i] >= 0x80 {
			return false
		}
	}
	for _, bad := range []string{"\\p", "\\P", "[[:", "\\x{", "(?P<", "\\Q", "\\C", "\\z{", "\\pL"} {
		if strings.Contains(p, bad) {
			return false
		}
	}
	return true
}

func init() {
	engines["rxm"] = &engine{Exec: execRxm, Gen: func(c *ctx) {
		for c.lines < c.n {
			pat := c.rxPattern()
			if !rxmInFragment(pat) && c.r.Chance(0.85) {
				continue // mostly patterns the Lean regex model reads; a small stream outside (monitor only)
			}
			if c.r.Chance(0.25) {
				// groups that may or may not take part, and more than nine groups
				pat = c.r.Pick("(a)?(b)?(c)?", "^(\\w+)(?:-(\\w+))?$", "(x)|(y)|(z)", "(a)(b)(c)(d)(e)(f)(g)(h)(i)(j)(k)", "(a(b)?)+", "((a)|(b))*c", "(?i)(k)(s)?", "(\\d+)(\\.\\d+)?", "^(?:(a)|b)*$") + c.r.Pick("", "", pat)
			}
			ins := c.rxInputs(pat)
			if c.r.Chance(0.6) {
				ins = append(ins, "abcdefghijk", "a-b", "ab", "b", "ks", "12.5", "c", "aab", "ax", "xyz")
				c.r.Shuffle(len(ins), func(i, j int) { ins[i], ins[j] = ins[j], ins[i] })
			}
			hs := make([]string, len(ins))
			for i, s := range ins {
				if len(s) > 60 {
					s = s[:60]
				}
				hs[i] = hex.EncodeToString([]byte(s))
			}
			obs := c.run("rxm", gen.Field(pat), strings.Join(hs, ";"))
			switch {
			case strings.Contains(obs, "op=ERR"):
				c.stats.Hit("pattern:rejected")
			case strings.Contains(obs, "1"):
				c.stats.Hit("pattern:matched-some")
			default:
				c.stats.Hit("pattern:matched-none")
			}
			if strings.Contains(obs, "caps=BAD") {
				c.stats.Hit("captures:bad")
			}
		}
	}}
}
