package main

import (
	"github.com/corazawaf/coraza/v3/experimental/plugins"
	"github.com/corazawaf/coraza/v3/experimental/plugins/plugintypes"
)

// Two transformations registered the way a plugin registers a family of them: from a table, every
// entry made by the same factory (one function literal, differently configured closures). The
// model knows them as "append A" and "append B" (Driver/Tf.lean).
//
//go:noinline
func suffixTransformation(suffix string) plugintypes.Transformation {
	return func(in string) (string, bool, error) { return in + suffix, true, nil }
}

func init() {
	for _, e := range []struct{ name, suffix string }{{"verifAddA", "A"}, {"verifAddB", "B"}} {
		plugins.RegisterTransformation(e.name, suffixTransformation(e.suffix))
	}
}
