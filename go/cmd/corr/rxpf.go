package main

import (
	"bufio"
	"encoding/hex"
	"os"
	"regexp/syntax"
	"strconv"
	"strings"
	"unicode"
	"unicode/utf8"

	"github.com/corazawaf/coraza/v3/experimental/plugins/plugintypes"
	"github.com/corazawaf/coraza/v3/experimental/verifhooks"
	"verifharness/internal/gen"
)

// a TransactionState that captures
type capTx struct {
	plugintypes.TransactionState
	caps []string
}

func (c *capTx) Capturing() bool { return true }
func (c *capTx) CaptureField(i int, v string) {
	for len(c.caps) <= i {
		c.caps = append(c.caps, "\x00unset")
	}
	c.caps[i] = v
}

func capsField(c []string) string {
	if len(c) == 0 {
		return "-"
	}
	out := make([]string, len(c))
	for i, v := range c {
		if v == "\x00unset" {
			out[i] = "u"
		} else {
			out[i] = "h" + hex.EncodeToString([]byte(v))
		}
	}
	return strings.Join(out, ".")
}

// rxpf <hexpattern> <hexin;hexin;…>
//
//	=> ast=<tree of (?sm)pattern> ast0=<tree of pattern> mml=<n> pfnil=<0/1> exact=<hex|-> eci=<0/1> res=<pf,on,off,capsOn,capsOff;…>
//
// `on` = @rx built with RxPreFilterEnabled, `off` = without; both evaluated twice: capturing and not.
func execRxpf(a []string) string {
	pat := gen.Unfield(a[0])
	var inputs []string
	if a[1] != "" {
		for _, h := range strings.Split(a[1], ";") {
			inputs = append(inputs, gen.Unfield(h))
		}
	}
	opOn, err1 := verifhooks.Operator("rx", plugintypes.OperatorOptions{Arguments: pat, RxPreFilterEnabled: true})
	opOff, err2 := verifhooks.Operator("rx", plugintypes.OperatorOptions{Arguments: pat})
	if err1 != nil || err2 != nil {
		if (err1 == nil) != (err2 == nil) {
			return "COMPILE-DIFFERS"
		}
		return "badpattern"
	}
	mml, pf, exact, eci, isRx := verifhooks.RxParts(opOn)
	if !isRx {
		return "binary"
	}
	ast, e1 := verifhooks.RxAST("(?sm)" + pat)
	ast0, e2 := verifhooks.RxAST(pat)
	if e1 != nil {
		ast = "-"
	}
	if e2 != nil {
		ast0 = "-"
	}
	tx, done := opTx()
	defer done()
	var res []string
	for _, in := range inputs {
		pfv := "-"
		if pf != nil {
			pfv = gen.B01(pf(in))
		}
		cOn := &capTx{TransactionState: tx}
		cOff := &capTx{TransactionState: tx}
		on := opOn.Evaluate(cOn, in)
		off := opOff.Evaluate(cOff, in)
		// the non-capturing path must agree with the capturing one
		on2 := opOn.Evaluate(tx, in)
		off2 := opOff.Evaluate(tx, in)
		onS, offS := gen.B01(on), gen.B01(off)
		if on != on2 {
			onS = "X"
		}
		if off != off2 {
			offS = "X"
		}
		res = append(res, pfv+","+onS+","+offS+","+capsField(cOn.caps)+","+capsField(cOff.caps))
	}
	ex := "-"
	if exact != "" {
		ex = hex.EncodeToString([]byte(exact))
	}
	return "ast=" + ast + " ast0=" + ast0 + " mml=" + strconv.Itoa(mml) + " pfnil=" + gen.B01(pf == nil) + " exact=" + ex + " eci=" + gen.B01(eci) + " res=" + orDash(strings.Join(res, ";"))
}

// ---- pattern generation from the regexp/syntax grammar

var rxWords = []string{"select", "set", "sleep", "substr", "union", "update", "insert", "script", "onload", "onerror", "eval", "exec", "etc", "passwd",
	"foo", "foobar", "bar", "ab", "a", "b", "x", "10", "00", "k", "K", "s", "S", "ks", "Ssk", "@x", "a@", "[a", "a]", "^_", "_`", "{|", "é", "É", "ſ", "K", "ß", "ǆ", "σ", "ς", "Σ",
	"\\.", "\\(", "\\)", "\\+", "\\?", "\\\\", "\\/", "--", "/*", "<", ">", "=", "'", "\"", ";", "%", "&", " ", "\\t", "\\n", "\\x{fffd}", "\xef\xbf\xbd", "\\x41", "\\x{212a}"}
var rxClasses = []string{".", "\\d", "\\s", "\\w", "\\W", "\\S", "[a-z]", "[A-Z]", "[0-9a-f]", "[^a-z]", "[k]", "[ks]", "[[:alpha:]]", "[\\s\\S]", "[\\x00-\\x7f]", "[^\\n]", "[é-ü]", "\\pL", "[a-zé]"}

func (c *ctx) rxAtom(depth int) string {
	r := c.r
	switch r.Intn(12) {
	case 0, 1, 2, 3, 4:
		return rxWords[r.Intn(len(rxWords))]
	case 5:
		return rxClasses[r.Intn(len(rxClasses))]
	case 6:
		// alternation with shared prefixes
		k := 2 + r.Intn(4)
		var bs []string
		for i := 0; i < k; i++ {
			if r.Chance(0.7) {
				bs = append(bs, rxWords[r.Intn(22)])
			} else {
				bs = append(bs, c.rxSeq(depth+1))
			}
		}
		open := r.Pick("(?:", "(", "(?i:", "(?P<n>")
		return open + strings.Join(bs, "|") + ")"
	case 7:
		if depth < 3 {
			return r.Pick("(?:", "(", "(?i:", "(?-i:", "(?s:", "(?m:") + c.rxSeq(depth+1) + ")"
		}
		return "y"
	case 8:
		return r.Pick("^", "$", "\\A", "\\z", "\\b", "\\B", "(?m:^)", "(?m:$)")
	case 9:
		return rxWords[r.Intn(len(rxWords))] + r.Pick("?", "*", "+", "{2}", "{0,2}", "{1,3}", "{2,}", "??", "*?", "+?")
	case 10:
		return rxClasses[r.Intn(len(rxClasses))] + r.Pick("?", "*", "+", "{2}", "{0,2}", "{1,3}", "*?", "+?")
	default:
		if depth < 3 {
			return "(?:" + c.rxSeq(depth+1) + ")" + r.Pick("?", "*", "+", "{2}", "{0,2}", "{1,2}")
		}
		return "z"
	}
}

func (c *ctx) rxSeq(depth int) string {
	n := 1 + c.r.Intn(4)
	var sb strings.Builder
	for i := 0; i < n; i++ {
		sb.WriteString(c.rxAtom(depth))
	}
	return sb.String()
}

func (c *ctx) rxPattern() string {
	r := c.r
	p := c.rxSeq(0)
	switch r.Intn(10) {
	case 0, 1:
		p = "(?i)" + p
	case 2:
		p = "^" + p + "$"
	case 3:
		p = "(?i)^" + p + "$"
	case 4:
		p = "\\A" + r.Pick("", ".*", "\\s*", "x?") + p
	case 5:
		p = p + r.Pick("", ".*", "\\s*", "x?") + "\\z"
	case 6:
		p = "\\A" + r.Pick("", ".*") + p + r.Pick("", ".*") + "\\z"
	case 8:
		if r.Chance(0.5) {
			// an alternation of long literals, around the 255/256 byte mark (tables indexed by a byte-sized window length)
			mk := func(seedCh string) string {
				n := []int{200, 254, 255, 256, 257, 300, 512}[r.Intn(7)]
				var sb strings.Builder
				sb.WriteString(seedCh)
				for sb.Len() < n {
					sb.WriteString(r.Pick("ab", "cd1", "x", "Qz", "09"))
				}
				return sb.String()[:n]
			}
			k := 2 + r.Intn(2)
			alts := make([]string, k)
			for i := range alts {
				alts[i] = mk(string(rune('A' + i)))
			}
			p = r.Pick("", "(?i)", "x?") + "(?:" + strings.Join(alts, "|") + ")" + r.Pick("", "y*", "$")
		}
	case 7:
		// pure literal equality and friends
		w := rxWords[r.Intn(22)]
		p = r.Pick("^", "\\A", "(?i)^", "(?i)\\A") + w + r.Pick("$", "\\z")
		if r.Chance(0.4) {
			// the same inside a group (capturing or not): the exact-match shape seen through a group
			p = r.Pick("(", "(?:", "((?i)", "(?i)(") + strings.TrimPrefix(p, "(?i)") + ")"
		}
	}
	return p
}

// ---- inputs derived from the pattern: sample the language of the simplified tree

func (c *ctx) rxSample(re *syntax.Regexp, sb *strings.Builder, depth int) {
	r := c.r
	fold := re.Flags&syntax.FoldCase != 0
	switch re.Op {
	case syntax.OpLiteral:
		for _, x := range re.Rune {
			y := x
			if fold && r.Chance(0.5) {
				// any member of the fold orbit
				k := r.Intn(4)
				for i := 0; i < k; i++ {
					y = unicode.SimpleFold(y)
				}
			}
			if x == utf8.RuneError && r.Chance(0.5) {
				sb.WriteByte(byte(0x80 + r.Intn(0x40)))
				continue
			}
			sb.WriteRune(y)
		}
	case syntax.OpCharClass:
		if len(re.Rune) >= 2 {
			i := 2 * r.Intn(len(re.Rune)/2)
			lo, hi := re.Rune[i], re.Rune[i+1]
			if hi > lo+200 {
				hi = lo + 200
			}
			sb.WriteRune(lo + rune(r.Intn(int(hi-lo)+1)))
		}
	case syntax.OpAnyCharNotNL:
		sb.WriteString(r.Pick("a", "Z", "0", " ", "é", "\xff", "-"))
	case syntax.OpAnyChar:
		sb.WriteString(r.Pick("a", "Z", "0", " ", "é", "\xff", "\n"))
	case syntax.OpCapture, syntax.OpPlus:
		c.rxSample(re.Sub[0], sb, depth+1)
		if re.Op == syntax.OpPlus && r.Chance(0.4) {
			c.rxSample(re.Sub[0], sb, depth+1)
		}
	case syntax.OpStar:
		for i := r.Intn(3); i > 0; i-- {
			c.rxSample(re.Sub[0], sb, depth+1)
		}
	case syntax.OpQuest:
		if r.Chance(0.5) {
			c.rxSample(re.Sub[0], sb, depth+1)
		}
	case syntax.OpRepeat:
		n := re.Min
		if re.Max != re.Min && r.Chance(0.5) {
			n++
		}
		for i := 0; i < n && i < 6; i++ {
			c.rxSample(re.Sub[0], sb, depth+1)
		}
	case syntax.OpConcat:
		for _, s := range re.Sub {
			c.rxSample(s, sb, depth+1)
		}
	case syntax.OpAlternate:
		if len(re.Sub) > 0 {
			c.rxSample(re.Sub[r.Intn(len(re.Sub))], sb, depth+1)
		}
	}
}

func (c *ctx) rxInputs(pat string) []string {
	r := c.r
	var ins []string
	re, err := syntax.Parse("(?sm)"+pat, syntax.Perl)
	if err == nil {
		re = re.Simplify()
		for i := 0; i < 6; i++ {
			var sb strings.Builder
			c.rxSample(re, &sb, 0)
			s := sb.String()
			if len(s) > 900 {
				s = s[:900]
			}
			ins = append(ins, s)
			// perturbations of a (probably) matching string
			b := []byte(s)
			switch r.Intn(9) {
			case 0:
				if len(b) > 0 {
					p := r.Intn(len(b))
					ins = append(ins, string(append(append([]byte{}, b[:p]...), b[p+1:]...)))
				}
			case 1:
				if len(b) > 0 {
					p := r.Intn(len(b))
					b2 := append([]byte{}, b...)
					b2[p] ^= 0x20
					ins = append(ins, string(b2))
				}
			case 2:
				ins = append(ins, r.Pick("x", " ", "\n", "xx\n", "é", "\xff")+s)
			case 3:
				ins = append(ins, s+r.Pick("x", " ", "\n", "\nxx", "é", "\xff"))
			case 4:
				ins = append(ins, strings.ToUpper(s))
			case 5:
				ins = append(ins, strings.ToLower(s))
			case 6:
				// Unicode-fold variants of ASCII letters
				ins = append(ins, strings.NewReplacer("k", "K", "K", "K", "s", "ſ", "S", "ſ").Replace(s))
			case 7:
				if len(b) > 1 {
					p := 1 + r.Intn(len(b)-1)
					ins = append(ins, string(b[:p])+"\n"+string(b[p:]))
				}
			case 8:
				ins = append(ins, s+s)
			}
		}
	}
	ins = append(ins, "", r.Bytes(6), r.ASCII(12))
	return ins
}

func (c *ctx) rxCase(pat string) {
	ins := c.rxInputs(pat)
	hs := make([]string, len(ins))
	for i, s := range ins {
		hs[i] = hex.EncodeToString([]byte(s))
	}
	obs := c.run("rxpf", gen.Field(pat), strings.Join(hs, ";"))
	switch {
	case strings.HasPrefix(obs, "badpattern"):
		c.stats.Hit("pattern:invalid")
	case strings.HasPrefix(obs, "binary"):
		c.stats.Hit("pattern:binary")
	case strings.Contains(obs, " pfnil=1 "):
		c.stats.Hit("pattern:no-prefilter")
	default:
		c.stats.Hit("pattern:prefilter")
	}
	if strings.Contains(obs, " exact=") && !strings.Contains(obs, " exact=- ") {
		c.stats.Hit("pattern:exact-match")
	}
}

func genRxpf(c *ctx) {
	// every @rx pattern of the bundled CRS first (arg = corpus file)
	if c.arg != "" {
		f, err := os.Open(c.arg)
		if err == nil {
			sc := bufio.NewScanner(f)
			sc.Buffer(nil, 1<<22)
			for sc.Scan() {
				l := strings.TrimSpace(sc.Text())
				if l == "" || strings.HasPrefix(l, "#") {
					continue
				}
				b, err := hex.DecodeString(l)
				if err != nil {
					continue
				}
				c.stats.Hit("source:crs")
				c.rxCase(string(b))
			}
			f.Close()
		}
	}
	for c.lines < c.n {
		c.stats.Hit("source:generated")
		c.rxCase(c.rxPattern())
	}
}

func init() {
	engines["rxpf"] = &engine{Gen: genRxpf, Exec: execRxpf}
}
