package main

import (
	"fmt"
	"os"
	"path/filepath"
	"strconv"
	"strings"

	coraza "github.com/corazawaf/coraza/v3"
)

// twolog <n> <spec,spec,…> <order>  => ok=1 | ok=0 <what went where>
//
//	spec  = <format J|N><type: d = no SecAuditLogType directive, s = SecAuditLogType Serial>
//	order = the WAF index of each transaction, e.g. 0102
//
// Two or three WAFs alive in one process, each writing its audit log to its own file. All are built first, then the
// transactions run in the given order. Every record must land in the file of the WAF that created the transaction,
// once: nothing a WAF's construction sets up may be shared with the others. No model: the driver demands ok=1.
func execTwoLog(a []string) string {
	n, _ := strconv.Atoi(a[0])
	specs := strings.Split(a[1], ",")
	if len(specs) != n {
		return "BADCASE"
	}
	dir, err := os.MkdirTemp("", "twolog")
	if err != nil {
		return "CONFIGERR"
	}
	defer os.RemoveAll(dir)
	wafs := make([]coraza.WAF, n)
	files := make([]string, n)
	for i, sp := range specs {
		files[i] = filepath.Join(dir, fmt.Sprintf("audit%d.log", i))
		d := "SecRuleEngine On\nSecAuditEngine On\nSecAuditLogParts ABHZ\nSecAuditLog " + files[i] + "\n"
		if sp[0] == 'J' {
			d += "SecAuditLogFormat JSON\n"
		} else {
			d += "SecAuditLogFormat Native\n"
		}
		if sp[1] == 's' {
			d += "SecAuditLogType Serial\n"
		}
		d += "SecAction \"id:1,phase:1,log,auditlog,pass\"\n"
		w, err := coraza.NewWAF(coraza.NewWAFConfig().WithDirectives(d))
		if err != nil {
			return "CONFIGERR"
		}
		wafs[i] = w
		defer closeWAF(w)
	}
	want := make([][]string, n)
	for k, ch := range a[2] {
		i := int(ch - '0')
		if i < 0 || i >= n {
			return "BADCASE"
		}
		id := fmt.Sprintf("TXw%dk%dq", i, k)
		want[i] = append(want[i], id)
		tx := wafs[i].NewTransactionWithID(id)
		tx.ProcessRequestHeaders()
		tx.ProcessLogging()
		tx.Close()
	}
	var bad []string
	for i := range wafs {
		b, _ := os.ReadFile(files[i])
		text := string(b)
		for j := range wafs {
			for _, id := range want[j] {
				c := strings.Count(text, id) > 0
				if c != (i == j) {
					bad = append(bad, fmt.Sprintf("%s:in-file-%d=%v", id, i, c))
				}
			}
		}
	}
	if len(bad) > 0 {
		return "ok=0 " + strings.Join(bad, ",")
	}
	return "ok=1"
}

func init() {
	engines["twolog"] = &engine{Exec: execTwoLog, Gen: func(c *ctx) {
		for i := 0; i < c.n; i++ {
			n := 2 + c.r.Intn(2)
			specs := make([]string, n)
			for k := range specs {
				specs[k] = c.r.Pick("J", "N") + c.r.Pick("d", "d", "s")
			}
			var order strings.Builder
			for k := 2 + c.r.Intn(4); k > 0; k-- {
				order.WriteByte(byte('0' + c.r.Intn(n)))
			}
			c.stats.Hit("wafs:" + strconv.Itoa(n))
			c.run("twolog", strconv.Itoa(n), strings.Join(specs, ","), order.String())
		}
	}}
}
