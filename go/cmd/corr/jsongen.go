package main

import (
	"fmt"
	"strconv"
	"strings"

	coraza "github.com/corazawaf/coraza/v3"
	"github.com/corazawaf/coraza/v3/experimental/plugins/plugintypes"
	"verifharness/internal/gen"
)

// A JSON document as a tree; the text is rendered from it by renderJSON (the independent encoder:
// hand-written, random but valid spellings), the Lean model reads the tree (tokens).
type jNode struct {
	kind  byte // N T F # S A O
	text  string
	items []*jNode
	keys  []string
}

var jsonNames = []string{"a", "b", "a.b", "A", "", "x y", "0", "1", "é", "q\"t", "a\\b", "n\nl", "b.0", "json"}
var jsonStrs = []string{"x", "", "attack", "a.b", "1", "<script>", "q\"t", "back\\slash", "tab\there", "é", "\xff", "nul\x00", "/slash", " "}
var jsonNums = []string{"0", "-1", "1.5", "1e3", "-0.0", "12345678901234567890", "2", "3"}

func genJSON(r *gen.R, depth int) *jNode {
	k := r.Intn(10)
	if depth <= 0 && k >= 6 {
		k = r.Intn(6)
	}
	switch {
	case k == 0:
		return &jNode{kind: 'N'}
	case k == 1:
		return &jNode{kind: r.Pick("T", "F")[0]}
	case k == 2 || k == 3:
		return &jNode{kind: '#', text: r.Pick(jsonNums...)}
	case k == 4 || k == 5:
		return &jNode{kind: 'S', text: r.Pick(jsonStrs...)}
	case k == 6 || k == 7:
		n := &jNode{kind: 'A'}
		for i := r.Intn(4); i > 0; i-- {
			n.items = append(n.items, genJSON(r, depth-1))
		}
		return n
	default:
		n := &jNode{kind: 'O'}
		for i := r.Intn(4); i > 0; i-- {
			name := r.Pick(jsonNames...)
			if len(n.keys) > 0 && r.Chance(0.12) {
				name = n.keys[r.Intn(len(n.keys))] // a duplicate member name
			}
			n.keys = append(n.keys, name)
			n.items = append(n.items, genJSON(r, depth-1))
		}
		return n
	}
}

func jTokens(n *jNode, out *[]string) {
	switch n.kind {
	case 'N', 'T', 'F':
		*out = append(*out, string(n.kind))
	case '#':
		*out = append(*out, "#"+gen.Field(n.text))
	case 'S':
		*out = append(*out, "S"+gen.Field(n.text))
	case 'A':
		*out = append(*out, "A"+strconv.Itoa(len(n.items)))
		for _, c := range n.items {
			jTokens(c, out)
		}
	case 'O':
		*out = append(*out, "O"+strconv.Itoa(len(n.items)))
		for i, c := range n.items {
			*out = append(*out, "K"+gen.Field(n.keys[i]))
			jTokens(c, out)
		}
	}
}

// renderJSONString: a valid JSON string literal for arbitrary bytes; control bytes must be escaped,
// everything else is escaped or not at random (\uXXXX only for ASCII, so no surrogate questions)
func renderJSONString(r *gen.R, s string) string {
	var sb strings.Builder
	sb.WriteByte('"')
	for i := 0; i < len(s); i++ {
		b := s[i]
		switch {
		case b == '"':
			sb.WriteString(`\"`)
		case b == '\\':
			sb.WriteString(`\\`)
		case b == '\n':
			sb.WriteString(r.Pick(`\n`, `\u000a`, `\u000A`))
		case b == '\t':
			sb.WriteString(r.Pick(`\t`, `\u0009`))
		case b == '\r':
			sb.WriteString(`\r`)
		case b < 0x20:
			fmt.Fprintf(&sb, `\u%04x`, b)
		case b == '/' && r.Chance(0.3):
			sb.WriteString(`\/`)
		case b < 0x80 && r.Chance(0.1):
			fmt.Fprintf(&sb, `\u%04x`, b)
		default:
			sb.WriteByte(b)
		}
	}
	sb.WriteByte('"')
	return sb.String()
}

func renderJSON(r *gen.R, n *jNode, sb *strings.Builder) {
	ws := func() {
		if r.Chance(0.2) {
			sb.WriteString(r.Pick(" ", "\n", "\t", "  ", "\r\n"))
		}
	}
	ws()
	switch n.kind {
	case 'N':
		sb.WriteString("null")
	case 'T':
		sb.WriteString("true")
	case 'F':
		sb.WriteString("false")
	case '#':
		sb.WriteString(n.text)
	case 'S':
		sb.WriteString(renderJSONString(r, n.text))
	case 'A':
		sb.WriteByte('[')
		for i, c := range n.items {
			if i > 0 {
				sb.WriteByte(',')
			}
			renderJSON(r, c, sb)
		}
		ws()
		sb.WriteByte(']')
	case 'O':
		sb.WriteByte('{')
		for i, c := range n.items {
			if i > 0 {
				sb.WriteByte(',')
			}
			ws()
			sb.WriteString(renderJSONString(r, n.keys[i]))
			ws()
			sb.WriteByte(':')
			renderJSON(r, c, sb)
		}
		ws()
		sb.WriteByte('}')
	}
	ws()
}

var jsonWAFs = map[string]coraza.WAF{}

// decode json <depth> <tree tokens> <text> => post=<ARGS_POST sorted> err=<REQBODY_ERROR set?>
func execDecodeJSON(a []string) string {
	depth, text := a[1], gen.Unfield(a[3])
	waf := jsonWAFs[depth]
	if waf == nil {
		w, err := coraza.NewWAF(coraza.NewWAFConfig().WithDirectives("SecRuleEngine On\nSecRequestBodyAccess On\nSecRequestBodyJsonDepthLimit " + depth + "\n" +
			"SecRule REQUEST_HEADERS:Content-Type \"@beginsWith application/json\" \"id:1,phase:1,pass,nolog,ctl:requestBodyProcessor=JSON\"\n"))
		if err != nil {
			return "CONFIGERR"
		}
		jsonWAFs[depth] = w
		waf = w
	}
	tx := waf.NewTransaction()
	defer tx.Close()
	v := tx.(plugintypes.TransactionState).Variables()
	tx.AddRequestHeader("Content-Type", "application/json")
	tx.ProcessRequestHeaders()
	tx.WriteRequestBody([]byte(text))
	tx.ProcessRequestBody()
	return fmt.Sprintf("post=%s err=%s", dumpColl(v.ArgsPost()), gen.B01(v.RequestBodyError().Get() == "1"))
}

func genDecodeJSON(c *ctx) {
	maxDepth := 3
	if c.arg == "bodyerr" {
		maxDepth = 2 + c.r.Intn(4)
	}
	t := genJSON(c.r, maxDepth)
	if c.r.Chance(0.8) && t.kind != 'O' && t.kind != 'A' {
		t = &jNode{kind: 'O', keys: []string{c.r.Pick(jsonNames...)}, items: []*jNode{t}}
	}
	var toks []string
	jTokens(t, &toks)
	var sb strings.Builder
	renderJSON(c.r, t, &sb)
	depth := c.r.Pick("1024", "1024", "1024", "3", "2", "1")
	c.stats.Hit("kind:json")
	c.run("decode", "json", depth, strings.Join(toks, ","), gen.Field(sb.String()))
}
