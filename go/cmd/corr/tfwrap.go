package main

import (
	"fmt"
	"strings"

	coraza "github.com/corazawaf/coraza/v3"
)

// tfwrap <round>: the process-wide table of transformation chains grows with every WAF ever built and is never
// shrunk. A family O of 121 chains is registered first, then other WAFs register 65355 further chains (each rule
// one new chain: the prefixes of its list are registered by the rules before it), then a family N of 121 chains:
// the identifiers of N lie 65536 above those of O. One WAF then runs all 242 rules over one argument; every rule
// must see the value its own list produces.
//   => matched=<n>/<total> flood=<chains registered by the other WAFs>
// Meaningful once per process (the table is what it is afterwards); later calls in the same process report "again".

var tfwrapDone bool

func tfwrapFamily(root string) [][]string {
	tails := []string{"trim", "removeNulls", "trimLeft"}
	out := [][]string{{root}}
	level := [][]string{{root}}
	for d := 0; d < 4; d++ {
		var next [][]string
		for _, c := range level {
			for _, t := range tails {
				n := append(append([]string{}, c...), t)
				next = append(next, n)
				out = append(out, n)
			}
		}
		level = next
	}
	return out // 1+3+9+27+81 = 121 lists, parents before children
}

func tfwrapRules(lists [][]string, firstID int, op string) string {
	var sb strings.Builder
	for i, l := range lists {
		fmt.Fprintf(&sb, "SecRule ARGS_GET:p \"%s\" \"id:%d,phase:1,pass,log,t:none", op, firstID+i)
		for _, t := range l {
			sb.WriteString(",t:" + t)
		}
		sb.WriteString("\"\n")
	}
	return sb.String()
}

func execTfWrap(a []string) string {
	if tfwrapDone {
		return "again"
	}
	tfwrapDone = true
	build := func(rules string) (coraza.WAF, error) {
		return coraza.NewWAF(coraza.NewWAFConfig().WithDirectives("SecRuleEngine On\n" + rules))
	}
	famO, famN := tfwrapFamily("lowercase"), tfwrapFamily("uppercase")
	// 1. family O
	w, err := build(tfwrapRules(famO, 1, "@streq abc"))
	if err != nil {
		return "CONFIGERR"
	}
	closeWAF(w)
	// 2. the other WAFs: lists over 8 further names, every list one new chain (parents first)
	names := []string{"trimRight", "removeWhitespace", "compressWhitespace", "urlDecode", "hexEncode", "replaceNulls", "cmdLine", "removeCommentsChar"}
	want := 65536 - len(famO) - len(famN)/2
	var lists [][]string
	level := [][]string{{}}
	for len(lists) < want {
		var next [][]string
		for _, c := range level {
			for _, t := range names {
				n := append(append([]string{}, c...), t)
				next = append(next, n)
				if len(lists) < want {
					lists = append(lists, n)
				}
			}
			if len(lists) >= want {
				break
			}
		}
		level = next
	}
	for i := 0; i < len(lists); i += 8192 {
		j := i + 8192
		if j > len(lists) {
			j = len(lists)
		}
		w, err := build(tfwrapRules(lists[i:j], 1, "@noMatch"))
		if err != nil {
			return "CONFIGERR"
		}
		closeWAF(w)
	}
	// 3. family N and the WAF under test
	w, err = build(tfwrapRules(famO, 1, "@streq abc") + tfwrapRules(famN, 1000, "@streq ABC"))
	if err != nil {
		return "CONFIGERR"
	}
	defer closeWAF(w)
	tx := w.NewTransaction()
	defer tx.Close()
	tx.AddGetRequestArgument("p", "aBc")
	tx.ProcessRequestHeaders()
	n := len(tx.MatchedRules())
	return fmt.Sprintf("matched=%d/%d flood=%d", n, len(famO)+len(famN), len(lists))
}

func init() {
	engines["tfwrap"] = &engine{Exec: execTfWrap, Gen: func(c *ctx) {
		for i := 0; i < c.n; i++ {
			c.run("tfwrap", fmt.Sprint(i))
		}
	}}
}
