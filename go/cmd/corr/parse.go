package main

import (
	"fmt"
	"os"
	"sort"
	"strconv"
	"strings"
	"testing/fstest"

	"github.com/corazawaf/coraza/v3/experimental/verifhooks"
	"verifharness/internal/gen"
)

// parse cfg <files> <text>        whole pipeline: directives -> compiled rules (dumps) or err
//   <files> = "-" or name:hexcontent;name:hexcontent (Include targets, flat names)
// parse acts <text>               the action-list scanner alone
// parse split <text>              the SecRule-argument splitter alone
// parse var <NAME>                variable table
func execParse(a []string) string {
	switch a[0] {
	case "cfg":
		fsys := fstest.MapFS{}
		if a[1] != "-" {
			for _, f := range strings.Split(a[1], ";") {
				nm, hx, _ := strings.Cut(f, ":")
				fsys[nm] = &fstest.MapFile{Data: []byte(gen.Unfield(hx))}
			}
		}
		dumps, err := verifhooks.ParseDump(fsys, gen.Unfield(a[2]))
		if err != nil {
			if os.Getenv("PARSE_DEBUG") != "" {
				fmt.Fprintf(os.Stderr, "ERR %v\n   %q\n", err, gen.Unfield(a[2]))
			}
			return "err" + parseCanon(a)
		}
		out := "ok " + orDash(strings.Join(dumps, " | "))
		return out + parseCanon(a)
	case "acts":
		kv, err := verifhooks.ParseActions(gen.Unfield(a[1]))
		if err != nil {
			return "err"
		}
		var out []string
		for _, x := range kv {
			out = append(out, x[0]+"="+gen.Field(x[1])+"/"+x[2])
		}
		return "ok " + orDash(strings.Join(out, ","))
	case "split":
		v, o, ac, err := verifhooks.ParseActionOperator(gen.Unfield(a[1]))
		if err != nil {
			return "err"
		}
		return "ok " + gen.Field(v) + " " + gen.Field(o) + " " + gen.Field(ac)
	case "var":
		known, canon, sel := verifhooks.VariableInfo(gen.Unfield(a[1]))
		if !known {
			return "unknown"
		}
		return canon + " " + gen.B01(sel)
	}
	return "BADKIND"
}

// parseCanon: when the case names the canonical rendering of the same description (canon=<hex>), that
// text is compiled too, so that the comparison is between two runs on the tree under test
func parseCanon(a []string) string {
	for _, t := range a[3:] {
		if strings.HasPrefix(t, "canon=") {
			dumps, err := verifhooks.ParseDump(fstest.MapFS{}, gen.Unfield(t[6:]))
			if err != nil {
				return " ## err"
			}
			return " ## ok " + orDash(strings.Join(dumps, " | "))
		}
	}
	return ""
}

func parseTables() {
	_, acts, _, tfs, vars := verifhooks.Names()
	sort.Strings(vars)
	fmt.Println("-- variables")
	for _, v := range vars {
		_, canon, sel := verifhooks.VariableInfo(v)
		fmt.Printf("  (%q, %q, %v),\n", v, canon, sel)
	}
	fmt.Println("-- actions")
	for _, a := range acts {
		kv, err := verifhooks.ParseActions(a)
		if err != nil {
			fmt.Printf("  -- %s: %v\n", a, err)
			continue
		}
		fmt.Printf("  (%q, %s),\n", a, kv[0][2])
	}
	fmt.Println("-- transformations")
	for _, t := range tfs {
		fmt.Printf("  %q,\n", t)
	}
}

func init() {
	engines["parse"] = &engine{Gen: genParse, Exec: execParse}
	engines["parsetab"] = &engine{Gen: func(*ctx) { parseTables() }, Exec: func([]string) string { return "NOEXEC" }}
}


// ---------------------------------------------------------------------------------------------
// structured rule descriptions, their renderings and near-miss texts

type pTgt struct {
	neg, count bool
	name       string
	kind       int // 0 none, 1 plain key, 2 /regex/, 3 '/regex/', 4 xpath
	key        string
}
type pAct struct {
	name, val string
}
type pRule struct {
	isAction bool
	tgts     []pTgt
	opNeg    bool
	opName   string // "" = implicit @rx is not generated; always explicit here
	opArg    string
	acts     []pAct
}

// every selectable variable except XML and JSON, whose keys are XPath expressions with a scanner state of their own
// (covered by the raw `parse var` cases against the model)
var pSelVars = []string{"ARGS", "ARGS_GET", "ARGS_GET_NAMES", "ARGS_NAMES", "ARGS_PATH", "ARGS_POST", "ARGS_POST_NAMES", "ENV", "FILES", "FILES_NAMES", "FILES_SIZES", "FILES_TMPNAMES", "FILES_TMP_CONTENT", "GEO", "MATCHED_VARS", "MATCHED_VARS_NAMES", "MULTIPART_FILENAME", "MULTIPART_NAME", "MULTIPART_PART_HEADERS", "REQUEST_COOKIES", "REQUEST_COOKIES_NAMES", "REQUEST_HEADERS", "REQUEST_HEADERS_NAMES", "REQUEST_XML", "RESPONSE_ARGS", "RESPONSE_HEADERS", "RESPONSE_HEADERS_NAMES", "RESPONSE_XML", "RULE", "TX"}
var pPlainVars = []string{"ARGS_COMBINED_SIZE", "AUTH_TYPE", "DURATION", "FILES_COMBINED_SIZE", "FULL_REQUEST", "FULL_REQUEST_LENGTH", "HIGHEST_SEVERITY", "INBOUND_DATA_ERROR", "IP", "MATCHED_VAR", "MATCHED_VAR_NAME", "MULTIPART_BOUNDARY_QUOTED", "MULTIPART_BOUNDARY_WHITESPACE", "MULTIPART_CRLF_LF_LINES", "MULTIPART_DATA_AFTER", "MULTIPART_DATA_BEFORE", "MULTIPART_FILE_LIMIT_EXCEEDED", "MULTIPART_HEADER_FOLDING", "MULTIPART_INVALID_HEADER_FOLDING", "MULTIPART_INVALID_PART", "MULTIPART_INVALID_QUOTING", "MULTIPART_LF_LINE", "MULTIPART_MISSING_SEMICOLON", "MULTIPART_STRICT_ERROR", "MULTIPART_UNMATCHED_BOUNDARY", "OUTBOUND_DATA_ERROR", "PATH_INFO", "QUERY_STRING", "REMOTE_ADDR", "REMOTE_HOST", "REMOTE_PORT", "REQBODY_ERROR", "REQBODY_ERROR_MSG", "REQBODY_PROCESSOR", "REQBODY_PROCESSOR_ERROR", "REQBODY_PROCESSOR_ERROR_MSG", "REQUEST_BASENAME", "REQUEST_BODY", "REQUEST_BODY_LENGTH", "REQUEST_FILENAME", "REQUEST_LINE", "REQUEST_METHOD", "REQUEST_PROTOCOL", "REQUEST_URI", "REQUEST_URI_RAW", "RESPONSE_BODY", "RESPONSE_CONTENT_LENGTH", "RESPONSE_CONTENT_TYPE", "RESPONSE_PROTOCOL", "RESPONSE_STATUS", "RES_BODY_ERROR", "RES_BODY_ERROR_MSG", "RES_BODY_PROCESSOR", "RES_BODY_PROCESSOR_ERROR", "RES_BODY_PROCESSOR_ERROR_MSG", "SERVER_ADDR", "SERVER_NAME", "SERVER_PORT", "SESSIONID", "STATUS_LINE", "TIME", "TIME_DAY", "TIME_EPOCH", "TIME_HOUR", "TIME_MIN", "TIME_MON", "TIME_SEC", "TIME_WDAY", "TIME_YEAR", "UNIQUE_ID", "URLENCODED_ERROR", "USERID"}
var pSafeOps = []string{"streq", "contains", "beginsWith", "endsWith", "within", "pm", "strmatch", "unconditionalMatch", "noMatch", "eq", "ge", "gt", "le", "lt"}
var pTfs = []string{"lowercase", "urlDecode", "urlDecodeUni", "trim", "compressWhitespace", "removeNulls", "htmlEntityDecode", "normalisePath", "normalizePath", "base64Decode", "length", "sha1", "hexEncode", "cmdLine", "jsDecode", "cssDecode", "utf8toUnicode", "removeWhitespace"}

func pCaseSensitive(v string) bool {
	switch v {
	case "ARGS", "ARGS_NAMES", "ARGS_GET", "ARGS_POST", "ARGS_GET_NAMES", "ARGS_POST_NAMES":
		return true
	}
	return false
}

// bytes allowed in a key: no space, newline, '|'
func (c *ctx) pKey(wild bool) string {
	r := c.r
	const plain = "abcdefghijklmnopqrstuvwxyzABCDEFGHIJKLMNOPQRSTUVWXYZ0123456789_-.[]"
	const odd = ":,;=%+*?()@#$~^&!{}<>\"\\`"
	n := 1 + r.Intn(7)
	b := make([]byte, 0, n)
	for i := 0; i < n; i++ {
		switch {
		case wild && r.Chance(0.12):
			b = append(b, "/'"[r.Intn(2)])
		case r.Chance(0.12):
			b = append(b, odd[r.Intn(len(odd))])
		case r.Chance(0.04):
			b = append(b, byte(0x80+r.Intn(0x80)))
		default:
			b = append(b, plain[r.Intn(len(plain))])
		}
	}
	if !wild {
		for len(b) > 0 && (b[0] == '/' || b[0] == '\'') {
			b = b[1:]
		}
		if len(b) == 0 {
			b = []byte("k")
		}
	}
	return string(b)
}

// regexes of the class whose validity the model decides: letters, digits, _ - . |, \/ \. \\, ^ first, $ last
func (c *ctx) pRegex() string {
	r := c.r
	var sb strings.Builder
	if r.Chance(0.4) {
		sb.WriteByte('^')
	}
	n := 1 + r.Intn(6)
	for i := 0; i < n; i++ {
		switch r.Intn(12) {
		case 0:
			sb.WriteString(`\/`)
		case 1:
			sb.WriteString(`\.`)
		case 2:
			sb.WriteString(`\\`)
		case 3:
			sb.WriteByte('|')
		case 4:
			sb.WriteByte('.')
		case 5:
			sb.WriteByte("ABCXYZ"[r.Intn(6)])
		default:
			sb.WriteByte("abcdefghijklmnopqrstuvwxyz0123456789_-"[r.Intn(38)])
		}
	}
	if r.Chance(0.3) {
		sb.WriteByte('$')
	}
	return sb.String()
}

// operator arguments and action values: anything but newline; WF unless wild
func (c *ctx) pValue(wild bool, quoteCh byte) string {
	r := c.r
	toks := []string{"a", "b", "Z", "0", "x y", ",", ":", ";", "=", "|", "/", "#", "%", "&", "!", "@", "(", ")", "[", "]", "{", "}", "<", ">", "*", "+", "?", "~", "^", "$", ".", "-", "_", "`", "\t",
		"\\n", "\\\\", "\\x", "\\", "'", "\"", "\\'", "\\\"", "it's", "\xc3\xa9", "\xff", "\xc2\xa0", "  ", "tx.a=1", "%{tx.a}", "http://x/y?z=1&w=2", "SecRule", "id:9", "phase:1", "t:none", "a,b:c"}
	n := r.Intn(6)
	var sb strings.Builder
	for i := 0; i < n; i++ {
		sb.WriteString(toks[r.Intn(len(toks))])
	}
	v := sb.String()
	if !wild {
		for strings.Contains(v, "%{") {
			v = strings.ReplaceAll(v, "%{", "%")
		}
		// a quote character only after a backslash is not representable either way: drop bare quotes and backslashes before quotes
		v = strings.ReplaceAll(v, "\\"+string(quoteCh), "")
		v = strings.ReplaceAll(v, string(quoteCh), "")
		for {
			w := strings.TrimSpace(strings.TrimRight(strings.ReplaceAll(v, "%{", "%"), "\\"))
			for len(w) >= 2 && (w[0] == '\'' || w[0] == '"') && w[len(w)-1] == w[0] {
				w = w[1 : len(w)-1]
			}
			if w == v {
				break
			}
			v = w
		}
	}
	return v
}

func (c *ctx) pRuleDesc(id int, chained bool, wantChain bool, wild bool) pRule {
	r := c.r
	d := pRule{isAction: !chained && r.Chance(0.15)}
	if !d.isAction {
		nt := 1 + r.Intn(3)
		for i := 0; i < nt; i++ {
			t := pTgt{}
			if r.Chance(0.7) {
				t.name = pSelVars[r.Intn(len(pSelVars))]
				switch r.Intn(6) {
				case 0:
				case 1, 2:
					t.kind, t.key = 1, c.pKey(wild)
				case 3:
					t.kind, t.key = 2, c.pRegex()
				case 4:
					t.kind, t.key = 3, c.pRegex()
				case 5:
					t.kind, t.key = 1, c.pKey(false)
				}
				if !pCaseSensitive(t.name) && !wild {
					t.key = strings.Map(func(r rune) rune {
						if r >= 0x80 {
							return 'u'
						}
						return r
					}, strings.ToValidUTF8(t.key, "u"))
				}
			} else if r.Chance(0.15) {
				t.name = r.Pick("XML", "JSON")
				t.kind, t.key = 4, r.Pick("/*", "//a/b", "a.b.c", "/a[@x='1']", "*")
			} else {
				t.name = pPlainVars[r.Intn(len(pPlainVars))]
			}
			if r.Chance(0.12) {
				t.count = true
			}
			d.tgts = append(d.tgts, t)
			// an exclusion of the same collection
			if t.kind == 0 && r.Chance(0.35) && contains(pSelVars, t.name) {
				e := pTgt{neg: true, name: t.name}
				if r.Chance(0.7) {
					e.kind, e.key = 1, c.pKey(false)
				} else {
					e.kind, e.key = 2+r.Intn(2), c.pRegex()
				}
				d.tgts = append(d.tgts, e)
			}
		}
		if r.Chance(0.3) {
			// letter case of variable names is free
			for i := range d.tgts {
				if d.tgts[i].name != "XML" && d.tgts[i].name != "JSON" && r.Chance(0.5) {
					d.tgts[i].name = strings.ToLower(d.tgts[i].name)
				}
			}
		}
		d.opNeg = r.Chance(0.2)
		d.opName = pSafeOps[r.Intn(len(pSafeOps))]
		d.opArg = orX(c.pValue(wild, '"'))
	}
	// actions
	if !chained {
		d.acts = append(d.acts, pAct{"id", strconv.Itoa(id)})
		if r.Chance(0.7) {
			d.acts = append(d.acts, pAct{"phase", r.Pick("1", "2", "3", "4", "5", "request", "response", "logging")})
		}
	}
	na := r.Intn(6)
	for i := 0; i < na; i++ {
		switch r.Intn(16) {
		case 0, 1, 2:
			d.acts = append(d.acts, pAct{"msg", orX(c.pValue(wild, '\''))})
		case 3, 4:
			d.acts = append(d.acts, pAct{"tag", orX(c.pValue(wild, '\''))})
		case 5:
			d.acts = append(d.acts, pAct{"logdata", orX(c.pValue(wild, '\''))})
		case 6:
			d.acts = append(d.acts, pAct{"severity", r.Pick("0", "2", "5", "7", "CRITICAL", "warning", "Notice", "emergency")})
		case 7:
			d.acts = append(d.acts, pAct{"rev", orX(c.pValue(wild, '\''))})
		case 8:
			d.acts = append(d.acts, pAct{"ver", orX(c.pValue(wild, '\''))})
		case 9:
			d.acts = append(d.acts, pAct{"t", pTfs[r.Intn(len(pTfs))]})
		case 10:
			d.acts = append(d.acts, pAct{"t", "none"})
		case 11:
			d.acts = append(d.acts, pAct{r.Pick("capture", "multiMatch", "log", "nolog", "auditlog", "noauditlog"), ""})
		case 12:
			d.acts = append(d.acts, pAct{"status", r.Pick("403", "200", "500", "302")})
		case 13:
			d.acts = append(d.acts, pAct{"maturity", strconv.Itoa(1 + r.Intn(9))})
		case 14:
			d.acts = append(d.acts, pAct{"skipAfter", r.Pick("END", "MARK_1", "x-y")})
		case 15:
			d.acts = append(d.acts, pAct{"skip", strconv.Itoa(1 + r.Intn(3))})
		}
	}
	if !chained && r.Chance(0.6) {
		d.acts = append(d.acts, pAct{r.Pick("pass", "deny", "drop", "block", "allow", "allow:phase", "redirect:http://x/?a=1,b"), ""})
		if i := strings.Index(d.acts[len(d.acts)-1].name, ":"); i > 0 {
			a := &d.acts[len(d.acts)-1]
			a.name, a.val = a.name[:i], a.name[i+1:]
		}
	}
	if wantChain {
		d.acts = append(d.acts, pAct{"chain", ""})
	}
	if len(d.acts) == 0 {
		d.acts = append(d.acts, pAct{"nolog", ""})
	}
	return d
}

func orX(s string) string {
	if s == "" {
		return "x"
	}
	return s
}

func contains(xs []string, x string) bool {
	for _, y := range xs {
		if x == y {
			return true
		}
	}
	return false
}

// ---- rendering

type pStyle struct {
	dirCase, actCase int
	spaceAfterComma  bool
	quoteAll         bool
	extraSpaces      bool
}

func pCase(s string, mode int, r *gen.R) string {
	switch mode {
	case 1:
		return strings.ToLower(s)
	case 2:
		return strings.ToUpper(s)
	case 3:
		b := []byte(s)
		for i := range b {
			if r.Chance(0.5) {
				b[i] = []byte(strings.ToUpper(string(b[i])))[0]
			} else {
				b[i] = []byte(strings.ToLower(string(b[i])))[0]
			}
		}
		return string(b)
	}
	return s
}

func pNeedsQuote(v string) bool {
	return strings.ContainsAny(v, ",'") || v != strings.TrimSpace(v) || v == ""
}

func (d pRule) renderTargets() string {
	var parts []string
	for _, t := range d.tgts {
		s := ""
		if t.neg {
			s += "!"
		}
		if t.count {
			s += "&"
		}
		s += t.name
		switch t.kind {
		case 1, 4:
			s += ":" + t.key
		case 2:
			s += ":/" + t.key + "/"
		case 3:
			s += ":'/" + t.key + "/'"
		}
		parts = append(parts, s)
	}
	return strings.Join(parts, "|")
}

func (d pRule) renderActions(st pStyle, r *gen.R) string {
	var parts []string
	for _, a := range d.acts {
		s := pCase(a.name, st.actCase, r)
		takesVal := a.val != "" || a.name == "msg" || a.name == "tag"
		if takesVal {
			if st.quoteAll || pNeedsQuote(a.val) {
				s += ":'" + a.val + "'"
			} else {
				s += ":" + a.val
			}
		}
		parts = append(parts, s)
	}
	sep := ","
	if st.spaceAfterComma {
		sep = ", "
	}
	return strings.Join(parts, sep)
}

func (d pRule) render(st pStyle, r *gen.R) string {
	sp := " "
	if st.extraSpaces {
		sp = "   "
	}
	if d.isAction {
		return pCase("SecAction", st.dirCase, r) + " \"" + d.renderActions(st, r) + "\""
	}
	op := "@" + d.opName
	if d.opNeg {
		op = "!" + op
	}
	if d.opArg != "" {
		op += " " + d.opArg
	}
	op = strings.ReplaceAll(op, `"`, `\"`)
	return pCase("SecRule", st.dirCase, r) + sp + d.renderTargets() + sp + "\"" + op + "\"" + sp + "\"" + d.renderActions(st, r) + "\""
}

// the description as the compiled rule must show it (dump without acts=, log=, audit=)
func pExpect(ds []pRule) string {
	var sb strings.Builder
	depth := 0
	for i, d := range ds {
		id, ph := 0, 2
		if i > 0 {
			ph = 0
		}
		msg, logdata, rev, ver := "", "", "", ""
		sev, mat, status := -1, 0, 0
		var tags, tfs []string
		capt, mm, hasChain := false, false, false
		for _, a := range d.acts {
			switch strings.ToLower(a.name) {
			case "id":
				id, _ = strconv.Atoi(a.val)
			case "phase":
				if i == 0 {
					switch a.val {
					case "request":
						ph = 2
					case "response":
						ph = 4
					case "logging":
						ph = 5
					default:
						ph, _ = strconv.Atoi(a.val)
					}
				}
			case "msg":
				msg = a.val
			case "logdata":
				logdata = a.val
			case "rev":
				rev = a.val
			case "ver":
				ver = a.val
			case "tag":
				tags = append(tags, gen.Field(a.val))
			case "severity":
				if len(a.val) == 1 {
					sev, _ = strconv.Atoi(a.val)
				} else {
					sev = map[string]int{"emergency": 0, "alert": 1, "critical": 2, "error": 3, "warning": 4, "notice": 5, "info": 6, "debug": 7}[strings.ToLower(a.val)]
				}
			case "maturity":
				mat, _ = strconv.Atoi(a.val)
			case "status":
				status, _ = strconv.Atoi(a.val)
			case "t":
				if a.val == "none" {
					tfs = nil
				} else {
					n := strings.ToLower(a.val)
					if n == "normalisepath" {
						n = "normalizepath"
					}
					tfs = append(tfs, n)
				}
			case "capture":
				capt = true
			case "multimatch":
				mm = true
			case "chain":
				hasChain = true
			}
		}
		fmt.Fprintf(&sb, "R{id=%d ph=%d v=[", id, ph)
		type stored struct {
			name, key, rx string
			count       bool
			excs        []string
		}
		var st []stored
		for _, t := range d.tgts {
			name := strings.ToUpper(t.name)
			key, rx := t.key, "-"
			if t.kind == 2 || t.kind == 3 {
				key = "/" + t.key + "/"
				x := t.key
				if !pCaseSensitive(name) {
					x = strings.ToLower(x)
				}
				rx = "r" + gen.Field(x)
				if x == "" {
					rx = "r"
				}
			}
			if t.neg {
				for j := range st {
					if st[j].name == name {
						st[j].excs = append(st[j].excs, gen.Field(key)+"/"+rx)
					}
				}
				continue
			}
			if !pCaseSensitive(name) {
				key = strings.ToLower(key)
			}
			st = append(st, stored{name: name, key: key, rx: rx, count: t.count})
		}
		for j, t := range st {
			if j > 0 {
				sb.WriteString(",")
			}
			fmt.Fprintf(&sb, "%s:%s:%s:%s:[%s]", t.name, gen.B01(t.count), gen.Field(t.key), t.rx, strings.Join(t.excs, ";"))
		}
		sb.WriteString("] op=")
		if d.isAction {
			sb.WriteString("-")
		} else {
			fn := "@" + d.opName
			if d.opNeg {
				fn = "!" + fn
			}
			fmt.Fprintf(&sb, "%s:%s:%s", gen.Field(fn), gen.Field(d.opArg), gen.B01(d.opNeg))
		}
		fmt.Fprintf(&sb, " tf=[%s] msg=%s logdata=%s tags=[%s] sev=%d rev=%s ver=%s mat=%d acc=0 status=%d cap=%s mm=%s haschain=%s chain=",
			strings.Join(tfs, ","), gen.Field(msg), gen.Field(logdata), strings.Join(tags, ","), sev, gen.Field(rev), gen.Field(ver), mat, status,
			gen.B01(capt), gen.B01(mm), gen.B01(hasChain))
		if i == len(ds)-1 {
			sb.WriteString("-")
		}
		depth++
	}
	sb.WriteString(strings.Repeat("}", depth))
	return sb.String()
}

// layout: continuation splits, indentation, comment and blank lines, CRLF
func (c *ctx) pLayout(lines []string) string {
	r := c.r
	var out []string
	junk := func() {
		for r.Chance(0.25) {
			out = append(out, r.Pick("", "   ", "# a comment", "  # SecRule ARGS \"@rx x\" \"id:99,deny\"", "\t", "#",
				"# a comment that ends in a backslash \\", "# C:\\windows\\system32\\", "#\\", "  # SecRule ARGS \"@rx x\" \\  "))
		}
	}
	for _, l := range lines {
		junk()
		// split points: between bytes, the next piece must not start with space, '#' ; pieces are trimmed by the parser
		for r.Chance(0.35) && len(l) > 4 {
			p := 1 + r.Intn(len(l)-2)
			next := l[p]
			if next == ' ' || next == '\t' || next == '#' || next >= 0x80 || l[p-1] >= 0x80 {
				break
			}
			// the piece before must not end with a backslash (it would read as an escaped continuation… it is just dropped one level)
			if l[p-1] == '\\' {
				break
			}
			out = append(out, r.Pick("", "  ", "\t")+l[:p]+"\\"+r.Pick("", " ", "\t"))
			junk()
			l = l[p:]
		}
		out = append(out, r.Pick("", "    ", "\t")+l+r.Pick("", "  "))
	}
	junk()
	nl := "\n"
	if r.Chance(0.15) {
		nl = "\r\n"
	}
	s := strings.Join(out, nl)
	if r.Chance(0.7) {
		s += nl
	}
	return s
}

func pFilesArg(files map[string]string) string {
	if len(files) == 0 {
		return "-"
	}
	var ks []string
	for k := range files {
		ks = append(ks, k)
	}
	sort.Strings(ks)
	var out []string
	for _, k := range ks {
		out = append(out, k+":"+gen.Field(files[k]))
	}
	return strings.Join(out, ";")
}

func genParse(c *ctx) {
	r := c.r
	// the tables the model carries, against the running binary
	_, acts, _, _, vars := verifhooks.Names()
	for _, v := range append(vars, "args", "Request_Headers", "NOPE", "ARGS ", "AR!GS", "") {
		c.run("parse", "var", gen.Field(v))
	}
	for _, a := range append(acts, "nope", "ID", " id ", "") {
		c.run("parse", "acts", gen.Field(a))
	}
	id := 100
	for c.lines < c.n {
		wild := r.Chance(0.12)
		// a small configuration: 1-3 rules, some chained
		var rules [][]pRule
		nr := 1 + r.Intn(3)
		for i := 0; i < nr; i++ {
			id++
			links := 1
			if r.Chance(0.25) {
				links = 2 + r.Intn(2)
			}
			var ch []pRule
			for j := 0; j < links; j++ {
				ch = append(ch, c.pRuleDesc(id, j > 0, j < links-1, wild))
			}
			if ch[0].isAction && links > 1 {
				for ch[0].isAction {
					ch[0] = c.pRuleDesc(id, false, true, wild)
				}
			}
			rules = append(rules, ch)
		}
		var exp []string
		for _, ch := range rules {
			exp = append(exp, pExpect(ch))
		}
		expArg := "exp=" + gen.Field("ok "+strings.Join(exp, " | "))
		if wild {
			expArg = "exp=?"
		}
		canonLines := func(st pStyle) []string {
			var ls []string
			for _, ch := range rules {
				for _, d := range ch {
					ls = append(ls, d.render(st, r))
				}
			}
			return ls
		}
		// 1. canonical
		canon := strings.Join(canonLines(pStyle{}), "\n") + "\n"
		c.stats.Hit("render:canonical")
		if wild {
			c.stats.Hit("desc:wild")
		}
		c.run("parse", "cfg", "-", gen.Field(canon), "k=canon", expArg)
		sameArg := "canon=" + gen.Field(canon)
		if wild {
			sameArg = "same=?"
		}
		// 2. equivalent renderings
		for v := 0; v < 3; v++ {
			st := pStyle{dirCase: r.Intn(4), actCase: r.Intn(4), spaceAfterComma: r.Chance(0.5), quoteAll: r.Chance(0.5), extraSpaces: r.Chance(0.3)}
			ls := canonLines(st)
			files := map[string]string{}
			if r.Chance(0.3) && len(ls) > 1 {
				// file splitting: a prefix/suffix of the rules moves into an included file (never inside a chain)
				cut := 0
				k := r.Intn(len(rules))
				for i := 0; i <= k; i++ {
					cut += len(rules[i])
				}
				if cut < len(ls) {
					files["b.conf"] = c.pLayout(ls[cut:])
					ls = append(append([]string{}, ls[:cut]...), pCase("Include", st.dirCase, r)+" b.conf")
				} else {
					files["a.conf"] = c.pLayout(ls[:cut])
					ls = []string{pCase("Include", st.dirCase, r) + " a.conf"}
				}
				c.stats.Hit("render:include")
			}
			text := c.pLayout(ls)
			c.stats.Hit("render:variant")
			c.run("parse", "cfg", pFilesArg(files), gen.Field(text), "k=variant", expArg, sameArg)
		}
		// 3. near-miss texts: one delimiter deleted, duplicated or replaced
		for v := 0; v < 4; v++ {
			b := []byte(canon)
			var pos []int
			for i, ch := range b {
				if strings.IndexByte("\"',:|/\\ !&@\n", ch) >= 0 {
					pos = append(pos, i)
				}
			}
			if len(pos) == 0 {
				break
			}
			p := pos[r.Intn(len(pos))]
			var m []byte
			switch r.Intn(4) {
			case 0:
				m = append(append([]byte{}, b[:p]...), b[p+1:]...)
				c.stats.Hit("miss:delete " + strconv.Quote(string(b[p])))
			case 1:
				m = append(append(append([]byte{}, b[:p+1]...), b[p]), b[p+1:]...)
				c.stats.Hit("miss:duplicate " + strconv.Quote(string(b[p])))
			case 2:
				m = append([]byte{}, b...)
				m[p] = "\"',:|/\\ !&\t"[r.Intn(11)]
				c.stats.Hit("miss:replace")
			default:
				q := pos[r.Intn(len(pos))]
				m = append([]byte{}, b...)
				m[p], m[q] = m[q], m[p]
				c.stats.Hit("miss:swap")
			}
			c.run("parse", "cfg", "-", gen.Field(string(m)), "k=miss")
		}
		// 4. the scanners alone on the same material
		if len(rules[0][0].acts) > 0 {
			st := pStyle{actCase: r.Intn(4), spaceAfterComma: r.Chance(0.5), quoteAll: r.Chance(0.5)}
			a := rules[0][0].renderActions(st, r)
			c.run("parse", "acts", gen.Field(a))
			if r.Chance(0.5) && len(a) > 1 {
				p := r.Intn(len(a))
				c.run("parse", "acts", gen.Field(a[:p]+r.Pick("'", ",", ":", "\\", " ", "")+a[p+1:]))
			}
		}
		if !rules[0][0].isAction {
			l := rules[0][0].render(pStyle{}, r)
			l = l[strings.Index(l, " ")+1:]
			c.run("parse", "split", gen.Field(l))
			if len(l) > 1 {
				p := r.Intn(len(l))
				c.run("parse", "split", gen.Field(l[:p]+r.Pick("\"", "\\", " ", "\\\"", "")+l[p+1:]))
			}
		}
	}
}
