import Coraza.Model.Memo
/-! Driver engine `memo` (C13): monitor only — behaviour alone = behaviour after any history,
    and every live cache key has the shape `<tag>:<input>` of `Coraza.Memo.key`, one value type per tag. -/
namespace Driver.Memo
open Coraza Coraza.Memo

def kindOfKey (k : Bytes) : Option Kind :=
  let tag := k.takeWhile (· != 0x3a)
  if tag.length == k.length then none   -- no ':' at all
  else [Kind.pm, .pmds, .pmf, .re, .rx, .rxbin, .schema].find? (fun kd => kd.tag == tag)

def field (obs : List String) (name : String) : Option String :=
  (obs.find? (·.startsWith (name ++ "="))).map (fun s => (s.drop (name.length + 1)).toString)

def keysOK (ks : String) : Bool :=
  if ks == "-" then true else
  let items := ks.splitOn ","
  let parsed := items.map fun it =>
    match it.splitOn "|" with
    | [h, ty] => (Bytes.ofField h >>= kindOfKey, ty)
    | _ => (none, "")
  parsed.all (fun p => p.1.isSome) &&
  -- one dynamic type per kind
  parsed.all (fun p => parsed.all (fun q => p.1 != q.1 || p.2 == q.2))

def judge (_args : List String) (obs : List String) : Bool :=
  match field obs "alone", field obs "hist", field obs "last", field obs "keys" with
  | some a, some h, some l, some ks =>
    a == h && !(a.splitOn "PANIC").length > 1 && keysOK ks &&
    (l == "-" || some l == (a.splitOn "/").getLast?) &&
    -- the same case on the harness built with -tags coraza.no_memoize (when the run provides it)
    (match field obs "nomemo" with | some v => v == "same" | none => true)
  | _, _, _, _ => false

end Driver.Memo
