import Driver.Tf
import Driver.Op
import Driver.Body
import Driver.Engine
import Driver.Memo
import Driver.Decode
import Driver.Http
import Driver.Faults
import Driver.Parse
import Driver.Rx
import Driver.Rxm
/-!
  Line-protocol driver.  One request per line:

      <engine> <arg> … => <observed implementation output tokens>

  Reply per line:
      A                    model output = observed output (and the property predicate holds)
      V 0 <model out>      model = implementation, but the property predicate is false of both
      D <P> <model out>    they differ; P = property predicate on the observed output (1 = holds)
      X <P>                input outside the modelled fragment; only the monitor ran
      E <msg>              malformed line
-/
open Driver

def splitArrow (toks : List String) : List String × List String :=
  (toks.takeWhile (· != "=>"), (toks.dropWhile (· != "=>")).drop 1)

def engineModel (eng : String) (args : List String) : Option String :=
  match eng with
  | "tf" => Tf.model args
  | "tfchain" => TfChain.model args
  | "op" => Op.model args
  | "body" => Body.model args
  | "eng" => Eng.model args
  | "engrep" => Eng.model args
  | "iso" => Eng.isoModel args
  | "conc" => Eng.concModel args
  | "tfid" => Eng.tfidModel args
  | "audit" => Eng.auditModel args
  | "auditiso" => Eng.auditIsoModel args
  | "reader" =>
    -- C05_readers_dead: a reader handed out before Close yields nothing afterwards; the probe's own
    -- reader yields the probe's body up to the limit (C10)
    (match args with
     | [lim, _, _, _, probe, _] => do
       let l ← lim.toNat?
       let b ← Coraza.Bytes.ofField probe
       pure s!"stale=- probe={Coraza.Bytes.toField (b.take l)}"
     | _ => none)
  | "decode" => Decode.model args
  | "http" => Http.model args
  | "parse" => Parse.model args
  | _ => none

/-- `prop` = the property being decided (env VERIF_PROP): some monitors belong to one property only -/
def engineJudge (prop eng : String) (args obs : List String) : Bool :=
  match eng with
  | "tf" => Tf.judge args obs
  | "tfchain" => TfChain.judge args obs
  | "op" => Op.judge args obs
  | "body" => Body.judge args obs
  | "eng" => Eng.judge args obs && (prop != "C01" || (Eng.specViolation args).isNone)
  | "engrep" => Eng.judge args obs
  | "audit" => (match Eng.auditModel args with | some m => m == " ".intercalate obs | none => !obs.contains "PANIC")
  | "reader" => (match engineModel "reader" args with | some m => m == " ".intercalate obs | none => false)
  | "auditiso" => (match Eng.auditIsoModel args with | some m => m == " ".intercalate obs | none => !obs.contains "PANIC")
  | "auditconc" =>
    -- C19_no_interleave on the observed file: every line a whole record, none lost
    (match obs with
     | [r, b, e] => b == "bad=0" && (r.drop 8).toString == (e.drop 9).toString
     | _ => false)
  | "decode" => Decode.judge args obs
  | "http" => Http.judge args obs
  | "parse" => Parse.judge args obs
  | "nopanic" => obs.all (fun t => t == "cfg=ok" || t == "cfg=err" || t == "run=ok" || t == "run=-")   -- never PANIC / HANG
  | "conc" =>
    -- C06 monitor: no transaction differed from its sequential outcome, no race report, no panic
    -- (a configuration both sides reject — a directive naming no rule — has nothing to run)
    (obs == ["CONFIGERR"] && Eng.concModel args == some "CONFIGERR") ||
    (obs.contains "mismatch=0" && obs.contains "races=0" && obs.contains "panics=0" &&
      (match Eng.concModel args with | some m => m == " ".intercalate obs | none => true))
  | "tfid" => (match Eng.tfidModel args with | some m => m == " ".intercalate obs | none => false)
  | "memo" => Memo.judge args obs
  | "capseq" =>
    -- C09 monitor: the capture slots after the phase are those of the rules that matched, in order; a capturing
    -- rule that did not match changes nothing (expectation computed by the harness with Go's regexp)
    (match args.getLast?, obs with
     | some e, [g] => e.startsWith "exp=" && g.startsWith "got=" && (e.drop 4).toString == (g.drop 4).toString
     | _, _ => false)
  | "rderr" =>
    -- C20 monitor: a body reader that fails before the limit is reached must make the call report an error
    -- (whatever the failure wraps); past the limit the reader is not consulted any more
    (match args with
     | [_, lim, _, _, cut, _] =>
       (match lim.toNat?, cut.toNat? with
        | some l, some c => !obs.contains "PANIC" && (c ≥ l || obs.contains "err=1")
        | _, _ => false)
     | _ => false)
  | "twolog" =>
    -- C13 monitor: with several WAFs alive, every audit record is in the file of the WAF that created the transaction
    obs == ["ok=1"]
  | "tfwrap" =>
    -- C13 monitor: after 65536 chains registered by other WAFs every rule still sees its own list's value
    (match obs with
     | ["again"] => true
     | [m, _] => (match ((m.drop 8).toString).splitOn "/" with | [a, b] => a == b && a != "0" | _ => false)
     | _ => false)
  | "iso" => (match Eng.isoModel args with | some m => m == " ".intercalate obs | none => !obs.contains "PANIC")
  | _ => true

/-- `fault` lines compare the model with a projection of the report (the report has extra tokens) -/
def handleFault (args obs : List String) : String :=
  let p := if Faults.monitor args obs then "1" else "0"
  match Faults.model args with
  | none => s!"X {p}"
  | some m => if m == Faults.project obs then (if p == "1" then "A" else s!"V 0 {m}") else s!"D {p} {m}"

/-- `rxpf` lines: the model predicts some fields of the observation (the tree is taken from it) -/
def handleRx (args obs : List String) : String :=
  let (m, proj, ok) := Rx.judgeLine args obs
  let p := if ok then "1" else "0"
  match m with
  | none => s!"X {p}"
  | some m => if m == proj then (if ok then "A" else s!"V 0 {m}") else s!"D {p} {m}"

/-- `rxm` lines: the model predicts the match bits of the ASCII inputs -/
def handleRxm (args obs : List String) : String :=
  let (m, ag, ok) := Rxm.judgeLine args obs
  let p := if ok then "1" else "0"
  match m with
  | none => s!"X {p}"
  | some m => if ag then (if ok then "A" else s!"V 0 {m}") else s!"D {p} {m}"

def handle (prop line : String) : String :=
  let toks := (line.splitOn " ").filter (· != "")
  match toks with
  | [] => "E empty"
  | eng :: rest =>
    let (args, obs) := splitArrow rest
    if eng == "fault" then handleFault args obs else
    if eng == "rxpf" then handleRx args obs else
    if eng == "rxm" then handleRxm args obs else
    let p := if engineJudge prop eng args obs then "1" else "0"
    match engineModel eng args with
    | none => s!"X {p}"
    | some m =>
      if m == " ".intercalate obs then
        (if p == "1" then "A" else
          -- agree, but the property fails of both; eng-family lines say why
          let why := if eng == "eng" then (Eng.specViolation args).getD "" else ""
          s!"V 0 {m} {why}".trimAsciiEnd.toString)
      else s!"D {p} {m}"

partial def loop (prop : String) (hin hout : IO.FS.Stream) : IO Unit := do
  let line ← hin.getLine
  if line.isEmpty then return ()
  let l := line.trimAscii.toString
  hout.putStrLn (handle prop l)
  loop prop hin hout

def main : IO Unit := do
  let hin ← IO.getStdin
  let hout ← IO.getStdout
  let prop := (← IO.getEnv "VERIF_PROP").getD ""
  loop prop hin hout
  hout.flush
