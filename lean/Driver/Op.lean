import Coraza.Model.Operators
import Coraza.Model.IpMatch
import Coraza.Model.RegexBudget
/-! Driver engine `op`: `op <name> <arg> <value> => 0|1|ERR` (direct operator call, no negation) -/
namespace Driver.Op
open Coraza Coraza.Op

def allAscii (x : Bytes) : Bool := x.all isAscii

def hasMacro : Bytes → Bool
  | 0x25 :: 0x7b :: _ => true
  | _ :: tl => hasMacro tl
  | [] => false

/-- evaluation of an operator on an already expanded argument (used by the engine) -/
def eval (name : String) (arg v : Bytes) : Option Bool :=
  match name with
  | "streq" => some (streq arg v) | "contains" => some (contains arg v)
  | "beginsWith" => some (beginsWith arg v) | "endsWith" => some (endsWith arg v)
  | "within" => some (within arg v) | "eq" => some (eq arg v) | "ge" => some (ge arg v)
  | "gt" => some (gt arg v) | "le" => some (le arg v) | "lt" => some (lt arg v)
  | "validateUrlEncoding" => some (validateUrlEncoding v)
  | "validateUtf8Encoding" => some (validateUtf8Encoding v)
  | "validateByteRange" => if allAscii arg then validateByteRange arg v else Option.none
  | "pm" => if allAscii arg then some (pm arg v) else Option.none
  | "unconditionalMatch" => some true
  | "noMatch" => some false
  | "ipMatch" => if allAscii arg then some (ipMatch arg v) else Option.none
  | "rx" =>
    -- rx.go:65: "(?sm)" ++ argument; the modelled RE2 fragment over ASCII text
    if allAscii arg && allAscii v then
      (Coraza.Regex.parse {} (Bytes.ofString "(?sm)" ++ arg)).bind (Coraza.Regex.searchB 4000 · v)
    else Option.none
  | _ => Option.none

/-- `none` = outside the modelled fragment; `some none` = factory error -/
def run (name : String) (arg v : Bytes) : Option (Option Bool) :=
  let macroOp (f : Bytes → Bytes → Bool) : Option (Option Bool) :=
    if arg.isEmpty then some Option.none        -- macro.NewMacro: "empty data"
    else if hasMacro arg then Option.none
    else some (some (f arg v))
  match name with
  | "streq" => macroOp streq
  | "contains" => macroOp contains
  | "beginsWith" => macroOp beginsWith
  | "endsWith" => macroOp endsWith
  | "within" => macroOp within
  | "eq" => macroOp eq
  | "ge" => macroOp ge
  | "gt" => macroOp gt
  | "le" => macroOp le
  | "lt" => macroOp lt
  | "validateUrlEncoding" => some (some (validateUrlEncoding v))
  | "validateUtf8Encoding" => some (some (validateUtf8Encoding v))
  | "validateByteRange" => if allAscii arg then some (validateByteRange arg v) else Option.none
  | "pm" => if allAscii arg then some (some (pm arg v)) else Option.none
  | "unconditionalMatch" => some (some true)
  | "noMatch" => some (some false)
  | "ipMatch" => if allAscii arg then some (some (ipMatch arg v)) else Option.none
  -- the argument field carries the *content* of the data file / the dataset's phrases joined by LF
  | "pmFromFile" => if allAscii arg && allAscii v then some (some (pmFromFile arg v)) else Option.none
  | "pmFromDataset" =>
    -- (an empty phrase is outside the contract assumed of the Aho-Corasick matcher; SecDataset never yields one)
    if allAscii arg && allAscii v && (splitOn 0x0a arg).all (fun p => !p.isEmpty) then
      some (some (pmFromDataset (splitOn 0x0a arg) v)) else Option.none
  | _ => Option.none

def render : Option Bool → String
  | Option.none => "ERR"
  | some true => "1"
  | some false => "0"

def model (args : List String) : Option String :=
  match args with
  | [name, a, v] => do
    let arg ← Bytes.ofField a
    let val ← Bytes.ofField v
    let r ← run name arg val
    pure (render r)
  | _ => Option.none

/-- C15 monitor: the observed answer equals the documented predicate (= the naive
    definition, which is what the model is); never PANIC. Unmodelled operators: any
    well-formed answer is accepted here (they are compared elsewhere or trusted). -/
def judge (args : List String) (obs : List String) : Bool :=
  match obs with
  | [o] =>
    (o == "0" || o == "1" || o == "ERR") &&
    (match model args with
     | some m => m == o
     | Option.none => true)
  | _ => false

end Driver.Op
