import Coraza.Model.Multipart
import Driver.Engine
/-!
  Driver kinds (engine `decode`):
    `decode mp <ctype> <parts> <body>`   parts = P<name>:<filename|->:<data> joined by ','  (all fields hex)
      ⇒ post=… files=… fnames=… fsizes=… fcs=<n> err=<0/1> strict=<0/1>
    `decode mpbad <ctype> <body>`        a Content-Type beginning with multipart/form-data that may not parse,
      or a body that is not well formed: only the monitor runs — some data exposed, or an error flagged
-/
namespace Driver.Multipart
open Coraza Coraza.Multipart

def parsePart (s : String) : Option Part :=
  if !s.startsWith "P" then none else
  match ((s.drop 1).toString.splitOn ":") with
  | [n, f, d] => do
    let name ← Bytes.ofField n
    let data ← Bytes.ofField d
    if f == "-" then pure ⟨name, none, data⟩
    else do
      let fn ← Bytes.ofField (f.drop 1).toString     -- "=<hex>" so that an empty file name is distinct from none
      pure ⟨name, some fn, data⟩
  | _ => none

def dumpKV (ps : List (Bytes × Bytes)) : String :=
  let items := ps.map fun p => s!"{Bytes.toField p.1}={Bytes.toField p.2}"
  if items.isEmpty then "-" else ",".intercalate (Driver.Eng.sortStrings items)

def dumpV (vs : List Bytes) : String := dumpKV (vs.map fun v => ([], v))

def model (parts : String) : Option String := do
  let ps ← (if parts == "-" then some [] else (parts.splitOn ",").mapM parsePart)
  let fcs := toString (combinedSize ps)     -- FILES_COMBINED_SIZE starts as 0
  pure s!"post={dumpKV (argsPost ps)} files={dumpV (files ps)} fnames={dumpV (filesNames ps)} fsizes={dumpKV (filesSizes ps)} fcs={fcs} err=0 strict=0"

/-- malformed stream: never silently skipped -/
def judgeBad (obs : List String) : Bool :=
  let f (k : String) := match obs.find? (·.startsWith k) with | some t => (t.drop k.length).toString | none => ""
  f "err=" == "1" || f "strict=" == "1" || f "post=" != "-" || f "files=" != "-"

/-- bodies that end while the reader is still looking for a delimiter: what was read may be exposed, but
    the failure has to be flagged -/
def judgeBadE (obs : List String) : Bool :=
  let f (k : String) := match obs.find? (·.startsWith k) with | some t => (t.drop k.length).toString | none => ""
  f "err=" == "1" || f "strict=" == "1"

end Driver.Multipart
