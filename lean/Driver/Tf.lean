import Coraza.Model.TfChain
import Coraza.Model.Transformations
import Coraza.Model.UrlDecodeUni
import Coraza.Model.Transformations2
import Coraza.Model.Transformations3
/-! Driver engine `tf`: `tf <name> <in> => <out> <changed> <err>` -/
namespace Driver.Tf
open Coraza Coraza.Tf

def allAscii (x : Bytes) : Bool := x.all isAscii

/-- the modelled transformations; `none` = not modelled for this input -/
def run (name : String) (x : Bytes) : Option Res :=
  match name with
  | "urldecode" => some (urlDecode x)
  | "urldecodeuni" => some (urlDecodeUni x)
  | "urlencode" => some (urlEncode x)
  | "jsdecode" => some (jsDecode x)
  | "cmdline" => some (cmdLine x)
  | "removecommentschar" => some (removeCommentsChar x)
  | "compresswhitespace" => if allAscii x then some (compressWhitespace x) else Option.none
  | "removewhitespace" => if allAscii x then some (removeWhitespace x) else Option.none
  | "escapeseqdecode" => some (escapeSeqDecode x)
  | "cssdecode" => some (cssDecode x)
  | "removecomments" => some (removeComments x)
  | "replacecomments" => some (replaceComments x)
  | "base64encode" => some (base64Encode x)
  | "base64decode" => some (base64Decode x)
  | "base64decodeext" => some (base64DecodeExt x)
  | "verifadda" => some ⟨x ++ [0x41], true, false⟩   -- registered by the harness the way a plugin does (plugintf.go)
  | "verifaddb" => some ⟨x ++ [0x42], true, false⟩
  | "hexencode" => some (hexEncode x)
  | "hexdecode" => some (hexDecode x)
  | "removenulls" => some (removeNulls x)
  | "replacenulls" => some (replaceNulls x)
  | "trim" => some (trim x)
  | "trimleft" => some (trimLeft x)
  | "trimright" => some (trimRight x)
  | "length" => some (length x)
  | "none" => some (Tf.none x)
  | "lowercase" => if allAscii x then some (lowercaseAscii x) else Option.none
  | "uppercase" => if allAscii x then some (uppercaseAscii x) else Option.none
  | _ => Option.none

def b01 (b : Bool) : String := if b then "1" else "0"

def render (r : Res) : String :=
  -- on error the Go caller ignores the returned value, so only the flag is compared
  if r.err then "- 0 1" else s!"{Bytes.toField r.out} {b01 r.changed} 0"

def model (args : List String) : Option String :=
  match args with
  | [name, inp] => do
    let x ← Bytes.ofField inp
    let r ← run name x
    pure (render r)
  | _ => Option.none

/-- C14 monitor on an observed result: never "unchanged" with a different output. -/
def judge (args : List String) (obs : List String) : Bool :=
  match args, obs with
  | [_, inp], [out, ch, er] =>
    match Bytes.ofField inp, Bytes.ofField out with
    | some x, some y => er == "1" || ch == "1" || x == y
    | _, _ => false
  | _, _ => false

end Driver.Tf

/-! Driver engine `tfchain`: `tfchain <mm> <n1,n2,…> <in> => <vals…> | <prefix results…>` -/
namespace Driver.TfChain
open Coraza Coraza.Tf Driver.Tf

/-- walk the chain with the partial models; `none` if some step is outside the model -/
def covered : List String → Bytes → Bool
  | [], _ => true
  | n :: ns, v =>
    match run n v with
    | Option.none => false
    | some r => covered ns (if r.err then v else r.out)

def asT (n : String) : T := fun x => (run n x).getD ⟨x, false, false⟩

def fields (l : List Bytes) : String := " ".intercalate (l.map Bytes.toField)

def prefixes (ts : List T) (v : Bytes) : List Bytes :=
  (List.range (ts.length + 1)).map (fun k => execTfs (ts.take k) v)

def model (args : List String) : Option String :=
  match args with
  | [mm, names, inp] => do
    let x ← Bytes.ofField inp
    let ns := names.splitOn ","
    if !covered ns x then Option.none else
    let ts := ns.map asT
    let vals := if mm == "1" then execMulti ts x else [execTfs ts x]
    pure (fields vals ++ " | " ++ fields (prefixes ts x))
  | _ => Option.none

def identityPair (ns : List String) : Bool :=
  ns == ["hexencode", "hexdecode"] || ns == ["base64encode", "base64decode"] || ns == ["urlencode", "urldecode"]

def idemPair (ns : List String) : Bool :=
  match ns with
  | [a, b] => a == b && ["trim", "trimleft", "trimright", "removenulls", "removewhitespace", "compresswhitespace"].contains a
  | _ => false

/-- C14 monitor for chains: multiMatch hands the operator the original and exactly the
    distinct intermediate values; without multiMatch exactly the final value; the
    defining identities and idempotences hold on the observed prefix results. -/
def judge (args : List String) (obs : List String) : Bool :=
  match args with
  | [mm, names, inp] =>
    let ns := names.splitOn ","
    let vals := obs.takeWhile (· != "|")
    let pre := (obs.dropWhile (· != "|")).drop 1
    pre.length == ns.length + 1 && pre.head? == some inp &&
    (if mm == "1" then
       vals.head? == some inp && pre.all (vals.contains ·) && vals.all (pre.contains ·)
     else vals == [pre.getLast?.getD ""]) &&
    (!identityPair ns || pre.getLast? == some inp) &&
    (!idemPair ns || pre.getLast? == pre[1]?)
  | _ => false

end Driver.TfChain
