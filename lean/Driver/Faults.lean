import Coraza.Model.Faults
/-! Driver engine `fault` (C20): `fault <kind> <uploads> <keep> <stop> <syscall> <idx> <errno> [eofprobe] => <report tokens>` -/
namespace Driver.Faults
open Coraza Coraza.Faults

def kindOf (s : String) : Option Kind :=
  match s with
  | "openat" => some .openat | "write" => some .write | "pread64" => some .pread
  | "close" => some .close | "unlinkat" => some .unlink | _ => none

def tok (obs : List String) (name : String) : String :=
  match obs.find? (·.startsWith (name ++ "=")) with
  | some s => (s.drop (name.length + 1)).toString
  | none => ""

def rawBody : Bytes := Bytes.ofString "abcdefghijklmno"

/-- the multipart body the harness builds has this many bytes (only its chunking 4/6/rest matters) -/
def mpLen (uploads : Nat) : Nat :=
  -- per file part: "--bnd\r\nContent-Disposition: form-data; name=\"fN\"; filename=\"nN.txt\"\r\n\r\nfile-content-N\r\n"
  uploads * 87 + 63

def stepsFor (kind : String) (uploads : Nat) : List Step :=
  let body : Bytes := if kind == "upload" then List.replicate (mpLen uploads) 0x78 else rawBody
  [.h1, .w (body.take 4) "w1", .w ((body.drop 4).take 6) "w2", .w (body.drop 10) "w3", .b2, .rd, .lg]

def model (args : List String) : Option String :=
  match args with
  | kind0 :: up :: keep :: stop :: sc :: idx :: _ => do
    -- `trunc`: the multipart body ends inside the last file part; the processor tolerates that
    -- (io.ErrUnexpectedEOF) and stores what it got: same file-system behaviour as `upload`, but a
    -- read fault changes what mime/multipart sees, which is outside the model
    if kind0 == "trunc" && (sc == "pread64") then none else
    -- `uploadoff`: the last rule of the body phase switches the engine off; the file-system behaviour (Close removes
    -- what was stored) must be that of `upload`
    let kind := if kind0 == "trunc" || kind0 == "uploadoff" then "upload" else kind0
    let uploads ← up.toNat?
    let stopN ← stop.toNat?
    let i ← idx.toNat?
    let oracle : Kind → Nat → Bool := match kindOf sc with
      | some k => fun k' n => k' == k && n == i
      | none => fun _ _ => false
    -- a failure while the multipart body is being buffered corrupts the body text; what mime/multipart
    -- then makes of it is outside the model (parameter): only the monitor judges those runs
    if kind == "upload" && ((sc == "openat" && i == 1) || (sc == "write" && i ≤ 3)) then none else
    let memLimit := if kind == "mem" then 1000 else 8
    let (w, tx) := runTx oracle memLimit (kind == "upload") uploads (keep != "Off") (stepsFor kind uploads) stopN
    let errs := if tx.errs.isEmpty then "-" else "+".intercalate tx.errs
    let inspected := if kind == "upload" then (if tx.filesSeen > 0 then 1 else 0) else (if tx.bodyVar then 1 else 0)
    let leftTmp := match tx.bb.file with | some _ => 1 | none => (if w.files.any (fun id => !tx.uploads.contains id) then 1 else 0)
    let leftUp := (w.files.filter (fun id => tx.uploads.contains id)).length
    pure s!"errs={errs} reqbodyerr={if tx.reqbodyErr then 1 else 0} msterr={if tx.msErr then "1" else "-"} inspected={inspected} lefttmp={leftTmp} leftupload={leftUp}"
  | _ => none

/-- the observed tokens that the model predicts -/
def project (obs : List String) : String :=
  let ms := tok obs "msterr"
  s!"errs={tok obs "errs"} reqbodyerr={tok obs "reqbodyerr"} msterr={if ms == "1" then "1" else "-"} inspected={tok obs "inspected"} lefttmp={tok obs "lefttmp"} leftupload={tok obs "leftupload"}"

/-- C20 monitor on one fault run: no panic; unless uploads are kept, nothing is left behind or Close
    said so; an injected failure surfaced somewhere (returned error, error variable, error log entry),
    except for an EOF probe whose data had already been delivered; a body is not reported as
    inspected when its buffering failed silently -/
def monitor (args obs : List String) : Bool :=
  let injected := args.getD 4 "none" != "none"
  let eofProbe := args.contains "eofprobe"
  let keep := args.getD 2 "Off" != "Off"
  let errs := tok obs "errs"
  let closeErr := (errs.splitOn "+").contains "close"
  -- a file may stay only if its own removal failed: at most one injected unlink failure per run
  let left := (tok obs "lefttmp").toNat?.getD 99 + (tok obs "leftupload").toNat?.getD 99
  let unlinkFailed := if args.getD 4 "none" == "unlinkat" then 1 else 0
  let noLeak := keep || (left == 0) || (closeErr && left ≤ unlinkFailed)
  let surfaced := errs != "-" || tok obs "reqbodyerr" == "1" || tok obs "msterr" == "1" || tok obs "logerrs" != "0"
  tok obs "panic" == "0" && noLeak && (!injected || eofProbe || surfaced)

def judgeLine (args obs : List String) : Option String × Bool :=
  (model args, monitor args obs)

end Driver.Faults
