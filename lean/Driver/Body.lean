import Coraza.Model.Body
/-! Driver engine `body` (C10): see go/cmd/corr/body.go for the line format -/
namespace Driver.Body
open Coraza Coraza.Body

def parseOp (s : String) : Option Wr :=
  match s.splitOn ":" with
  | [k, h] => do
    let d ← Bytes.ofField h
    match k with
    | "s" => some (.slice d)
    | "k" => some (.known d)
    | "u" => some (.unknown d)
    | "c" => some (.unknown d)     -- a reader of unknown length that hands the data out in short reads
    | "e" => some (.unknown d)     -- the same, the last piece together with io.EOF
    | _ => none
  | _ => none

def parseOps (s : String) : Option (List Wr) :=
  if s == "-" then some [] else (s.splitOn ",").mapM parseOp

def st (o : Option Nat) : String := match o with | some n => toString n | none => "-"
def b01 (b : Bool) : String := if b then "1" else "0"

def model (args : List String) : Option String :=
  match args with
  | [side, lim, mem, act, ops] => do
    let limit ← lim.toNat?
    let memLimit ← mem.toNat?
    let ws ← parseOps ops
    let sd := if side == "req" then Side.req else Side.resp
    let s0 := init sd limit memLimit (act == "R" || act == "Rc")
    let (s1, obs) := run s0 ws
    let s2 := processBody s1                       -- the explicit Process*Body call
    let content := readLoop s2.bb.content 0 (List.replicate (s2.bb.content.length + 1) 512)
    let o := if obs.isEmpty then "-" else ",".intercalate (obs.map fun w => s!"{st w.intr}/{w.n}/{b01 w.err}")
    pure s!"{o} ; runs={s2.bodyRuns} var={Bytes.toField (s2.bodyVar.getD [])} reader={Bytes.toField content} dataerr={b01 s2.dataErr} intr={st s2.intr}"
  | _ => none

/-- C10 monitor: the model is proved to refine the byte-faithful specification
    (Properties/C10.lean), so the predicate on an observation is agreement with it. -/
def judge (args : List String) (obs : List String) : Bool :=
  match model args with
  | some m => m == " ".intercalate obs
  | none => false

end Driver.Body
