import Coraza.Model.Xml
import Driver.Engine
/-!
  Driver kind `decode xml <tree> <text>`: the tree in prefix tokens
    E<nattr>.<nkids> (V<field>)… kids…   T<field>   C<field>   O
-/
namespace Driver.Xml
open Coraza Coraza.Xml

def pVals : Nat → List String → Option (List Bytes × List String)
  | 0, rest => some ([], rest)
  | n + 1, t :: rest =>
    if t.startsWith "V" then
      match Bytes.ofField (t.drop 1).toString, pVals n rest with
      | some b, some (vs, r) => some (b :: vs, r)
      | _, _ => none
    else none
  | _ + 1, [] => none

mutual
def pTree : Nat → List String → Option (X × List String)
  | 0, _ => none
  | _, [] => none
  | f + 1, t :: rest =>
    if t == "O" then some (.other, rest)
    else if t.startsWith "T" then (Bytes.ofField (t.drop 1).toString).map fun b => (.text b, rest)
    else if t.startsWith "C" then (Bytes.ofField (t.drop 1).toString).map fun b => (.cdata b, rest)
    else if t.startsWith "E" then
      match (t.drop 1).toString.splitOn "." with
      | [na, nk] =>
        match na.toNat?, nk.toNat? with
        | some na, some nk =>
          match pVals na rest with
          | some (vs, r) => (pKids f nk r).map fun (ks, r2) => (.elem vs ks, r2)
          | none => none
        | _, _ => none
      | _ => none
    else none

def pKids : Nat → Nat → List String → Option (List X × List String)
  | 0, _, _ => none
  | _, 0, rest => some ([], rest)
  | f + 1, n + 1, rest =>
    match pTree f rest with
    | some (x, r) => (pKids f n r).map fun (xs, r2) => (x :: xs, r2)
    | none => none
end

def parseTree (s : String) : Option X :=
  let toks := s.splitOn ","
  match pTree (2 * toks.length + 2) toks with
  | some (t, []) => some t
  | _ => none

def fields (l : List Bytes) : String :=
  if l.isEmpty then "-" else ",".intercalate (l.map Bytes.toField)

/-- `decode xml <tree> <text>` ⇒ attrs=<//@*> contents=</*> err=0 -/
def model (tree : String) : Option String := do
  let t ← parseTree tree
  let (as, cs) := readXML t
  pure s!"attrs={fields as} contents={fields cs} err=0"

end Driver.Xml
