import Coraza.Model.Rx
/-! Driver engine `rxpf` (C11):
    `rxpf <hexpattern> <hexin;…> => ast=<tree of (?sm)pattern> ast0=<tree of pattern> mml=<n> pfnil=<0/1> exact=<hex|-> eci=<0/1> res=<pf,on,off,capsOn,capsOff;…>` -/
namespace Driver.Rx
open Coraza Coraza.Rx

inductive Item where
  | num (n : Int)
  | node (r : Re)

mutual
partial def parseNode (cs : List Char) : Option (Re × List Char) :=
  let name := cs.takeWhile (· != '[')
  match cs.dropWhile (· != '[') with
  | '[' :: rest =>
    match parseItems rest [] with
    | some (items, rest') =>
      let nm := String.ofList name
      let nums := items.filterMap (fun | .num n => some n | _ => none)
      let nodes := items.filterMap (fun | .node r => some r | _ => none)
      match nums with
      | [] => none
      | f0 :: args =>
        let f := f0 != 0
        let re : Option Re :=
          match nm, nodes with
          | "nomatch", _ => some (.nomatch f)
          | "empty", _ => some (.empty f)
          | "lit", _ => some (.lit f (args.map Int.toNat))
          | "cc", _ => some (.cc f (args.map Int.toNat))
          | "anynl", _ => some (.anynl f)
          | "any", _ => some (.any f)
          | "bol", _ => some (.bol f)
          | "eol", _ => some (.eol f)
          | "bot", _ => some (.bot f)
          | "eot", _ => some (.eot f)
          | "wb", _ => some (.wb f)
          | "nwb", _ => some (.nwb f)
          | "cap", [r] => some (.cap f r)
          | "star", [r] => some (.star f r)
          | "plus", [r] => some (.plus f r)
          | "quest", [r] => some (.quest f r)
          | "rep", [r] => (match args with | [mn, mx] => some (.rep f mn.toNat mx r) | _ => none)
          | "cat", rs => some (.cat f rs)
          | "alt", rs => some (.alt f rs)
          | _, _ => none
        re.map (fun r => (r, rest'))
    | none => none
  | _ => none
partial def parseItems (cs : List Char) (acc : List Item) : Option (List Item × List Char) :=
  match cs with
  | ']' :: rest => some (acc.reverse, rest)
  | ';' :: rest => parseItems rest acc
  | c :: _ =>
    if c.isDigit || c == '-' then
      let tok := cs.takeWhile (fun x => x.isDigit || x == '-')
      match (String.ofList tok).toInt? with
      | some n => parseItems (cs.drop tok.length) (.num n :: acc)
      | none => none
    else
      match parseNode cs with
      | some (r, rest) => parseItems rest (.node r :: acc)
      | none => none
  | [] => none
end

def parseAST (s : String) : Option Re :=
  match parseNode s.toList with
  | some (r, []) => some r
  | _ => none

def tok (obs : List String) (name : String) : Option String :=
  (obs.find? (·.startsWith (name ++ "="))).map (fun s => (s.drop (name.length + 1)).toString)

def b01 (b : Bool) : String := if b then "1" else "0"

/-- what the model predicts of the observation: mml, whether a prefilter exists, the exact-match
    literal, and the prefilter's verdict on every input -/
def model (args obs : List String) : Option String := do
  let inputs ← (match args with
    | [_, ins] => (if ins == "" then some [] else (ins.splitOn ";").mapM (fun h => if h == "" then some [] else Bytes.ofHexChars h.toList))
    | [_] => some []
    | _ => none)
  let ast ← (tok obs "ast") >>= parseAST
  let ex : String :=
    match (tok obs "ast0") >>= parseAST with
    | none => "exact=- eci=0"
    | some a0 => match exactMatch a0 with
      | some (rs, f) => s!"exact={Bytes.toHex (encodeRunes rs)} eci={b01 f}"
      | none => "exact=- eci=0"
  match prefilterOf ast with
  | .unm => none
  | .nil => some s!"mml={minLen ast} pfnil=1 {ex} pf={";".intercalate (inputs.map (fun _ => "-"))}"
  | .some p => some s!"mml={minLen ast} pfnil=0 {ex} pf={";".intercalate (inputs.map (fun i => b01 (p.eval i)))}"

/-- the same fields taken from the observation -/
def project (obs : List String) : String :=
  let g (k : String) := (tok obs k).getD "?"
  let res := g "res"
  let pfs := if res == "-" then [] else (res.splitOn ";").map (fun r => (r.splitOn ",").headD "?")
  s!"mml={g "mml"} pfnil={g "pfnil"} exact={g "exact"} eci={g "eci"} pf={";".intercalate pfs}"

/-- C11 on the observation: with the prefilter on, every input gives the same match result and
    the same captures as with it off (capturing and non-capturing evaluation agreeing) -/
def judge (_args obs : List String) : Bool :=
  match obs with
  | ["badpattern"] => true
  | ["binary"] => true
  | _ =>
    match tok obs "res" with
    | none => false
    | some "-" => true
    | some res =>
      (res.splitOn ";").all (fun r =>
        match r.splitOn "," with
        | [_, on, off, con, coff] => on == off && (on == "0" || on == "1") && con == coff
        | _ => false)

def judgeLine (args obs : List String) : Option String × String × Bool :=
  (match obs with
   | ["badpattern"] => none
   | ["binary"] => none
   | _ => model args obs, project obs, judge args obs)

end Driver.Rx
