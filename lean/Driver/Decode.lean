import Coraza.Model.Decode
import Coraza.Model.Engine
import Driver.Engine
import Driver.Json
import Driver.Xml
import Driver.Multipart
/-! Driver engine `decode` (C03) -/
namespace Driver.Decode
open Coraza Coraza.Decode Coraza.Engine

def dump (ps : List (Bytes × Bytes)) : String :=
  let items := ps.map fun p => s!"{Bytes.toField p.1}={Bytes.toField p.2}"
  if items.isEmpty then "-" else ",".intercalate (Driver.Eng.sortStrings items)

def isCTL (b : UInt8) : Bool := b < 0x20 || b == 0x7f

def model (args : List String) : Option String :=
  match args with
  | ["query", h] | ["queryL", h] => do
    let raw ← Bytes.ofField h
    let q := cutFragment raw
    -- url.ParseRequestURI (a parameter of the model) rejects control bytes anywhere in the URI
    if q.any isCTL then pure s!"get=- args=- names=- qs=- err=1"
    else
      let ps := parseQuery q
      pure s!"get={dump ps} args={dump ps} names={dump (ps.map fun p => (p.1, p.1))} qs={Bytes.toField q} err=0"
  | ["limit", h] => do
    -- specification: every argument is visible, or the overflow is flagged
    let raw ← Bytes.ofField h
    pure s!"get={dump (parseQuery raw)} flagged=0"
  | ["cookie", h] => do
    let raw ← Bytes.ofField h
    pure s!"cookies={dump (parseCookies raw)}"
  | ["body", h] => do
    let raw ← Bytes.ofField h
    let ps := parseQuery raw
    if raw.isEmpty then pure "post=- args=- body=-"
    else pure s!"post={dump ps} args={dump ps} body={Bytes.toField raw}"
  | ["json", d, tree, _] => Driver.Json.model d tree
  | ["mp", _, parts, _] => Driver.Multipart.model parts
  | ["xml", tree, _] => Driver.Xml.model tree
  | ["hdr", n, v, l] => do
    let name ← Bytes.ofField n
    let val ← Bytes.ofField v
    let look ← Bytes.ofField l
    if name.isEmpty then pure "all=- get=-" else
    let m := (({} : CMap).add name val)
    let got := (m.get look).map Bytes.toField
    pure s!"all={dump [(name, val)]} get={if got.isEmpty then "-" else ",".intercalate got}"
  | _ => none

def judge (args obs : List String) : Bool :=
  if args.head? == some "mpbad" then Driver.Multipart.judgeBad obs && !obs.contains "PANIC" else
  if args.head? == some "mpbadE" then Driver.Multipart.judgeBadE obs && !obs.contains "PANIC" else
  if args.head? == some "limit" then
    -- data over the limit may be dropped only if that is flagged
    (match model args with
     | some m => m == " ".intercalate obs || obs.getLast? == some "flagged=1"
     | none => false)
  else
  match model args with
  | some m => m == " ".intercalate obs
  | none => !obs.contains "PANIC"

end Driver.Decode
