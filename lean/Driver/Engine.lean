import Lean.Data.Json
import Coraza.Model.Engine
import Coraza.Model.Macro
import Coraza.Model.Recycle
import Coraza.Model.Uri
import Coraza.Model.Operators
import Coraza.Model.Regex
import Driver.Tf
import Driver.Op
/-!
  Driver engine `eng`: `eng <json case> => <observation tokens>`
  The JSON case is produced by go/cmd/corr/eng.go (structured rule set, request, API calls).
-/
namespace Driver.Eng
open Lean Coraza Coraza.Engine

/-- operators/transformations of the engine = the C15 / C14 models -/
def envOp (name : String) (arg v : Bytes) : Bool :=
  match Driver.Op.eval name arg v with
  | some b => b
  | none => false

def envTf (name : String) (v : Bytes) : Bytes × Bool × Bool :=
  match Driver.Tf.run name.toLower v with
  | some r => (r.out, r.changed, r.err)
  | none => (v, false, false)

/-- regex keys: Go's `regexp.MustCompile(p).MatchString(k)` on the fragment of Model/Regex.lean;
    cases with an expression outside the fragment are `outsideModel` -/
def envRx (p k : Bytes) : Bool :=
  match Regex.parse {} p with
  | some r => Regex.search r k
  | none => false

def env : Env := ⟨envOp, envTf, envRx⟩

def hexField (j : Json) (k : String) : Except String Bytes := do
  let s ← j.getObjValAs? String k
  match Bytes.ofField s with
  | some b => pure b
  | none => throw s!"bad hex in {k}"

def parseVarName (s : String) : Except String Var :=
  match parseVar (Bytes.ofString s) with
  | some v => pure v
  | none => throw s!"var {s}"

def macroOf (b : Bytes) : Except String Engine.Macro :=
  match compileMacro b with
  | some m => pure m
  | none => throw "macro"

/-- one written target followed by its negations, in textual order -/
def parseTarget (mode : RxMode) (j : Json) : Except String (List TItem) := do
  let v ← parseVarName (← j.getObjValAs? String "v")
  let k ← hexField j "k"
  let c ← j.getObjValAs? Bool "c"
  let xs ← j.getObjValAs? (Array String) "x"
  let exc ← xs.toList.mapM fun s => match Bytes.ofField s with | some b => pure b | none => throw "bad exc"
  -- "o": only the negations are written (`!VAR:key` without a positive target; update directives)
  let only := match j.getObjValAs? Bool "o" with | .ok b => b | _ => false
  let negs := exc.map (fun e => TItem.neg v (mkExc mode v e))
  pure (if only then negs else TItem.incl (mkTarget mode v k c) :: negs)

def parseMode (s : String) : Except String EngineMode :=
  match s with
  | "On" => pure .on | "DetectionOnly" => pure .detectionOnly | "Off" => pure .off
  | _ => throw "mode"

def parseNAct (mode : RxMode) (j : Json) : Except String NAct := do
  let n ← j.getObjValAs? String "n"
  match n with
  | "setvar" =>
    let k ← macroOf (← hexField j "k")
    let rm ← j.getObjValAs? Bool "rm"
    if rm then pure (.setvar k .remove)
    else
      let vt ← hexField j "v"
      -- an empty value text means `tx.k=` : macro.NewMacro("") errors, so the harness never emits it
      let v ← macroOf vt
      pure (.setvar k (.assign v))
  | "ctlRuleEngine" => pure (.ctlRuleEngine (← parseMode (← j.getObjValAs? String "m")))
  | "ctlRemoveById" => pure (.ctlRemoveById (← j.getObjValAs? Nat "id"))
  | "ctlRemoveByRange" => pure (.ctlRemoveByRange (← j.getObjValAs? Nat "lo") (← j.getObjValAs? Nat "hi"))
  | "ctlRemoveByTag" => pure (.ctlRemoveByTag (← hexField j "tag"))
  | "ctlRemoveTargetById" =>
    let v ← parseVarName (← j.getObjValAs? String "v")
    pure (.ctlRemoveTargetById (← j.getObjValAs? Nat "lo") (← j.getObjValAs? Nat "hi") v (mkCtlExc mode v (← hexField j "k")))
  | "ctlRemoveByMsg" => pure (.ctlRemoveByMsg (← hexField j "msg"))
  | "ctlRemoveTargetByTag" =>
    let v ← parseVarName (← j.getObjValAs? String "v")
    pure (.ctlRemoveTargetByTag (← hexField j "tag") v (mkCtlExc mode v (← hexField j "k")))
  | "ctlRemoveTargetByMsg" =>
    let v ← parseVarName (← j.getObjValAs? String "v")
    pure (.ctlRemoveTargetByMsg (← hexField j "msg") v (mkCtlExc mode v (← hexField j "k")))
  | "ctlAuditEngine" =>
    let m ← j.getObjValAs? String "m"
    pure (.ctlAuditEngine (match m with | "On" => .on | "RelevantOnly" => .relevantOnly | _ => .off))
  | "ctlAuditLogParts" => pure (.ctlAuditLogParts (← hexField j "k"))
  | "setenv" => pure (.setenv (← hexField j "k") (← macroOf (← hexField j "v")))
  | "nop" => pure .nop
  | _ => throw s!"nact {n}"

def parseOp (j : Json) : Except String (Option Operator) := do
  match j.getObjVal? "op" with
  | .ok Json.null => pure none
  | .ok o =>
    let n ← o.getObjValAs? String "n"
    let a ← hexField o "a"
    let neg ← o.getObjValAs? Bool "neg"
    -- operators without a macro argument get the literal text
    let m ← if a.isEmpty then pure [] else macroOf a
    pure (some ⟨n, m, neg⟩)
  | .error _ => pure none

def parseLink (mode : RxMode) (j : Json) : Except String Link := do
  let items ← (← j.getObjValAs? (Array Json) "tg").toList.mapM (parseTarget mode)
  let tg := compileTargets items.flatten
  let op ← parseOp j
  let tfs ← j.getObjValAs? (Array String) "tfs"
  let mm ← j.getObjValAs? Bool "mm"
  let na ← (← j.getObjValAs? (Array Json) "na").toList.mapM (parseNAct mode)
  let lid := match j.getObjValAs? Nat "lid" with | .ok n => n | _ => 0
  pure ⟨tg, op, tfs.toList, mm, na, lid⟩

def parseDisr (j : Json) : Except String Disr := do
  let d ← j.getObjValAs? String "disr"
  match d with
  | "" => pure .none | "pass" => pure .pass | "block" => pure .block | "deny" => pure .deny | "drop" => pure .drop
  | "redirect" => pure (.redirect (← hexField j "rt"))
  | "allow" => pure (.allow .all) | "allow:phase" => pure (.allow .phase) | "allow:request" => pure (.allow .request)
  | _ => throw s!"disr {d}"

def parseRule (mode : RxMode) (j : Json) : Except String Rule := do
  let id ← j.getObjValAs? Nat "id"
  let ph ← j.getObjValAs? Nat "ph"
  let mk ← hexField j "mk"
  let links ← (← j.getObjValAs? (Array Json) "links").toList.mapM (parseLink mode)
  let disr ← parseDisr j
  let st ← j.getObjValAs? Nat "st"
  let skip ← j.getObjValAs? Nat "skip"
  let sa ← hexField j "sa"
  let sev ← j.getObjValAs? Int "sev"
  let tags ← (← j.getObjValAs? (Array String) "tags").toList.mapM fun s =>
    match Bytes.ofField s with | some b => pure b | none => throw "tag"
  let log ← j.getObjValAs? Bool "log"
  let audit ← j.getObjValAs? Bool "audit"
  let msg := match j.getObjValAs? String "msg" with | .ok h => (Bytes.ofField h).getD [] | _ => []
  pure ⟨id, ph, mk, links, disr, st, skip, sa, if sev < 0 then none else some sev.toNat, tags, log, audit, msg⟩

def parseSel (j : Json) : Except String IdSel := do
  let a ← fromJson? (α := Array Nat) j
  match a.toList with
  | [x] => pure (.one x)
  | [x, y] => pure (.range x y)
  | _ => throw "sel"

def parseLogAct (s : String) : Except String LogAct :=
  match s with
  | "log" => pure .log | "nolog" => pure .nolog | "auditlog" => pure .auditlog | "noauditlog" => pure .noauditlog
  | _ => throw "logact"

def parseUpd (mode : RxMode) (j : Json) : Except String ActUpd := do
  let d ← j.getObjValAs? String "disr"
  let disr ← if d == "-" then pure none else (do let x ← parseDisr j; pure (some x))
  let st ← j.getObjValAs? Nat "st"
  let sev ← j.getObjValAs? Int "sev"
  let tags ← (← j.getObjValAs? (Array String) "tags").toList.mapM fun s =>
    match Bytes.ofField s with | some b => pure b | none => throw "tag"
  let na ← (← j.getObjValAs? (Array Json) "na").toList.mapM (parseNAct mode)
  let logs ← (← j.getObjValAs? (Array String) "logs").toList.mapM parseLogAct
  let skip ← j.getObjValAs? Nat "skip"
  let sa ← hexField j "sa"
  pure { disr := disr, status := if st == 0 then none else some st, sev := if sev < 0 then none else some sev.toNat,
         tags := tags, nacts := na, logs := logs, skip := if skip == 0 then none else some skip,
         skipAfter := if sa.isEmpty then none else some sa }

def parseItem (mode : RxMode) (j : Json) : Except String Item := do
  match j.getObjValAs? String "dir" with
  | .ok d =>
    let sels : Except String (List IdSel) := do
      (← j.getObjValAs? (Array Json) "sels").toList.mapM parseSel
    let items : Except String (List TItem) := do
      let l ← (← j.getObjValAs? (Array Json) "tg").toList.mapM (parseTarget mode)
      pure l.flatten
    match d with
    | "removeById" => pure (.dir (.removeById (← sels)))
    | "removeByTag" => pure (.dir (.removeByTag (← hexField j "tag")))
    | "removeByMsg" => pure (.dir (.removeByMsg (← hexField j "msg")))
    | "updateTargetById" => pure (.dir (.updateTargetById (← sels) (← items)))
    | "updateTargetByTag" => pure (.dir (.updateTargetByTag (← hexField j "tag") (← items)))
    | "updateActionById" => pure (.dir (.updateActionById (← sels) (← parseUpd mode (← j.getObjVal? "upd"))))
    | _ => throw s!"dir {d}"
  | .error _ => pure (.rule (← parseRule mode j))

def parsePairs (j : Json) (k : String) : Except String (List (Bytes × Bytes)) := do
  let arr ← j.getObjValAs? (Array (Array String)) k
  arr.toList.mapM fun p =>
    match p.toList with
    | [a, b] => match Bytes.ofField a, Bytes.ofField b with
      | some x, some y => pure (x, y)
      | _, _ => throw "pair hex"
    | _ => throw "pair"

def parseCall (s : String) : Except String Call :=
  match s with
  | "h1" => pure .reqHeaders | "b2" => pure .reqBody | "h3" => pure .respHeaders | "b4" => pure .respBody
  | "lg" => pure .logging | _ => throw "call"

structure Case where
  ae : AuditEngine := .off
  rs : String := "-"
  resp : Bytes := []
  parts : Bytes := []
  mode : EngineMode
  rules : List Rule            -- the rule list NewWAF ends up with (buildRules)
  cfgErr : Bool := false       -- a directive made NewWAF fail
  get : List (Bytes × Bytes)
  post : List (Bytes × Bytes)
  hdr : List (Bytes × Bytes)
  calls : List Call
  uri : Option Bytes := none   -- ProcessURI(uri, "GET", "HTTP/1.1") before the Add* calls
  rhdr : List (Bytes × Bytes) := []   -- AddResponseHeader calls (made before the first Process* call)

def parseCase (s : String) (rxm : RxMode := .code) : Except String Case := do
  let j ← Json.parse s
  let mode ← parseMode (← j.getObjValAs? String "mode")
  let items ← (← j.getObjValAs? (Array Json) "rules").toList.mapM (parseItem rxm)
  -- "dst": SecDefaultAction "phase:P,pass,status:S" lines written before the rules (generated without directives)
  let dst : List (Nat × Nat) := match j.getObjValAs? (Array (Array Nat)) "dst" with
    | .ok a => a.toList.filterMap fun p => match p.toList with | [ph, st] => some (ph, st) | _ => none
    | _ => []
  let (rules, cfgErr) := match buildRules items with
    | some rs => (rs.map (inheritStatus dst), false)
    | none => ([], true)
  let get ← parsePairs j "get"
  let post ← parsePairs j "post"
  let hdr ← parsePairs j "hdr"
  let calls ← (← j.getObjValAs? (Array String) "calls").toList.mapM parseCall
  let ae := match j.getObjValAs? String "ae" with
    | .ok "On" => AuditEngine.on | .ok "RelevantOnly" => .relevantOnly | _ => .off
  let rs := match j.getObjValAs? String "rs" with | .ok s => s | _ => "-"
  let resp := match j.getObjValAs? String "resp" with | .ok s => (Bytes.ofField s).getD [] | _ => []
  let parts := match j.getObjValAs? String "parts" with | .ok s => (Bytes.ofField s).getD [] | _ => []
  let uri := match j.getObjValAs? String "uri" with | .ok s => Bytes.ofField s | _ => none
  let rhdr ← match j.getObjVal? "rhdr" with | .ok _ => parsePairs j "rhdr" | _ => pure []
  pure { rhdr := rhdr, ae := ae, rs := rs, resp := resp, parts := parts, mode := mode, rules := rules, cfgErr := cfgErr, get := get, post := post, hdr := hdr, calls := calls, uri := uri }

def initTx (c : Case) : Tx :=
  let tx0 := newTx c.mode {} c.ae c.parts
  let tx1 := match c.uri with
    | some u => processURI tx0 u (Bytes.ofString "GET")
    | none => tx0
  { feed tx1 c.get c.post c.hdr c.rhdr with respCode := c.resp }

/-! ### canonical rendering (must match go/cmd/corr/eng.go) -/

def renderIntr : Option Intr → String
  | none => "-"
  | some i => s!"{i.ruleId}/{i.action}/{i.status}/{Bytes.toField i.data}"

def insertSorted (x : String) : List String → List String
  | [] => [x]
  | y :: ys => if x ≤ y then x :: y :: ys else y :: insertSorted x ys

def sortStrings (l : List String) : List String := l.foldr insertSorted []

def renderMD (m : MD) : String :=
  s!"{String.fromUTF8! (ByteArray.mk m.var.name.toArray)}|{Bytes.toField m.key}|{Bytes.toField m.value}"

def renderMatched (m : Matched) : String :=
  s!"{m.id}:" ++ "+".intercalate (sortStrings (m.datas.map renderMD))

def renderTxc (m : CMap) : String :=
  let items := m.all.map fun e => s!"{Bytes.toField e.key}={Bytes.toField e.value}"
  if items.isEmpty then "-" else ",".intercalate (sortStrings items)

def orDash (s : String) : String := if s.isEmpty then "-" else s

def runCase (c : Case) : String :=
  if c.cfgErr then "CONFIGERR" else
  let (tx, outs) := runCalls env c.rules (initTx c) c.calls
  let calls := orDash (",".intercalate (outs.map renderIntr))
  let ms := orDash (",".intercalate (tx.matched.map renderMatched))
  s!"{calls} ; i={renderIntr tx.intr} ; m={ms} ; tx={renderTxc tx.txc} ; hs={tx.highestSeverity} ; cb={orDash (",".intercalate (tx.errCb.map toString))}"

/-- @rx arguments of the case: each must be inside the regex fragment (and free of macros) -/
def ruleRxArgs (r : Rule) : List Bytes :=
  r.links.filterMap fun l => match l.op with
    | some o => if o.name == "rx" then some (o.arg.flatMap fun t => match t with | .text b => b | .var _ _ orig => [0x25, 0x7b] ++ orig ++ [0x7d]) else none
    | none => none

def rulePatterns (r : Rule) : List Bytes :=
  r.links.flatMap fun l =>
    (l.targets.flatMap fun t => t.rx.toList ++ t.exc.flatMap (·.rx.toList)) ++
    (l.nacts.flatMap fun a => match a with
      | .ctlRemoveTargetById _ _ _ e => e.rx.toList
      | .ctlRemoveTargetByTag _ _ e => e.rx.toList
      | .ctlRemoveTargetByMsg _ _ e => e.rx.toList
      | _ => [])

/-- does a transformation list hand a value that is not ASCII to a case or white-space transformation?
    (a failing step is skipped, as in the engine) -/
def chainLeavesAscii : List String → Bytes → Bool
  | [], _ => false
  | t :: ts, v =>
    if !v.all isAscii && ["lowercase", "uppercase", "removewhitespace", "compresswhitespace"].contains t.toLower then true
    else
      let (o, _, e) := envTf t v
      chainLeavesAscii ts (if e then v else o)

/-- inputs outside the modelled fragment: lowercase/uppercase are modelled on ASCII only; regex keys and
    @rx arguments outside the regex fragment -/
def outsideModel (c0 : Case) : Bool :=
  -- the arguments of the request URI's query count as GET arguments, the URI itself as a value
  let uriArgs : List (Bytes × Bytes) := match c0.uri with
    | some u => (u, u) :: Coraza.Decode.parseQuery ((cut1 0x3f (cut1 0x23 u).1).2.getD [])
    | none => []
  let uriOut := match c0.uri with | some u => !uriInFragment u | none => false
  let c : Case := { c0 with get := uriArgs ++ c0.get, hdr := c0.hdr ++ c0.rhdr }
  uriOut ||
  let nonAscii (ps : List (Bytes × Bytes)) := ps.any fun p => !(p.1.all isAscii && p.2.all isAscii)
  let nonAsciiKey (ps : List (Bytes × Bytes)) := ps.any fun p => !p.1.all isAscii
  -- transformations modelled on ASCII input only (Go decodes runes: case mapping, unicode.IsSpace, U+FFFD for bytes that are not UTF-8)
  let caseTf := c.rules.any fun r => r.links.any fun l => l.tfs.any fun t =>
    ["lowercase", "uppercase", "removewhitespace", "compresswhitespace"].contains t.toLower
  let pats := c.rules.flatMap rulePatterns
  -- regex keys: the expression must be inside the fragment and the keys ASCII (Go matches runes)
  let rxOut := !pats.isEmpty &&
    (pats.any (fun p => (Regex.parse {} p).isNone) || nonAsciiKey c.get || nonAsciiKey c.post || nonAsciiKey c.hdr)
  -- urlDecode turns ASCII text with a percent sign into arbitrary bytes, which a later case transformation may meet
  let hasTf (n : String) := c.rules.any fun r => r.links.any fun l => l.tfs.any fun t => t.toLower == n
  -- (decoding again and again, as a chain of several urlDecode would)
  let udec (v : Bytes) : Bytes := match Driver.Tf.run "urldecode" v with | some r => r.out | none => v
  let badDec (v : Bytes) : Bool :=
    let v1 := udec v; let v2 := udec v1; let v3 := udec v2
    !(v1.all isAscii && v2.all isAscii && v3.all isAscii)
  let pct (ps : List (Bytes × Bytes)) := ps.any fun p => badDec p.1 || badDec p.2
  let decoded := hasTf "urldecode" && (pct c.get || pct c.post || pct c.hdr)
  -- @rx: the expression inside the fragment, and all request data ASCII (a transformed value stays ASCII
  -- unless urlDecode makes it otherwise: `decoded`)
  let rxArgs := c.rules.flatMap ruleRxArgs
  let rxOpOut := !rxArgs.isEmpty &&
    (rxArgs.any (fun p => (Regex.parse {} (Bytes.ofString "(?sm)" ++ p)).isNone) ||
     nonAscii c.get || nonAscii c.post || nonAscii c.hdr || decoded)
  -- a TX key built by macro expansion is lower-cased by the collection with strings.ToLower, which rewrites
  -- bytes that are not UTF-8: outside the fragment when request data that is not ASCII can reach a key
  let macroKey := c.rules.any fun r => r.links.any fun l => l.nacts.any fun a =>
    match a with
    | .setvar key _ => key.any (fun t => match t with | .var _ _ _ => true | .text _ => false)
    | _ => false
  let macroOut := macroKey && (nonAscii c.get || nonAscii c.post || nonAscii c.hdr || decoded)
  -- hexDecode turns ASCII text ("ab") into arbitrary bytes: outside when a chain with it hands such a value of the
  -- request to a case or white-space transformation
  let pool : List Bytes := (c.get ++ c.post ++ c.hdr).flatMap fun p => [p.1, p.2]
  let hexOut := c.rules.any fun r => r.links.any fun l =>
    l.tfs.any (fun t => t.toLower == "hexdecode") && pool.any (chainLeavesAscii l.tfs)
  -- the harness configures SecArgumentsLimit 8 and the model has no argument limit: with eight distinct names in
  -- ARGS_GET (or ARGS_POST) the engine refuses further values, so such requests are outside the model
  let distinctNames (ps : List (Bytes × Bytes)) : Nat := ((ps.map fun p => p.1.map asciiLower).eraseDups).length
  let limitOut := distinctNames (uriArgs.drop 1 ++ c0.get) ≥ 8 || distinctNames c0.post ≥ 8
  (caseTf && (nonAscii c.get || nonAscii c.post || nonAscii c.hdr || decoded)) || rxOut || rxOpOut || macroOut || hexOut || limitOut

def modelIn (rxm : RxMode) (args : List String) : Option String :=
  match args with
  | [js] =>
    match parseCase js rxm with
    | .ok c => if outsideModel c then none else some (runCase c)
    | .error _ => none
  | _ => none

def model (args : List String) : Option String := modelIn .code args

/-- C01 monitor beyond agreement with the model: the outcome must not change when every regex key
    is read as its specification says (the expression as written, case-insensitively over the
    case-folded keys) instead of the way the code compiles it. `some why` = the property is false
    of model and implementation alike (verdict V). -/
def specViolation (args : List String) : Option String :=
  match modelIn .code args, modelIn .spec args with
  | some a, some b => if a == b then none else some "why=regex-key-case"
  | _, _ => none

/-- the relevant-status patterns the harness uses: pre:<d> = ^d, sub:<d> = d, eq:<d> = ^d$ -/
def statusMatcher (rs : String) : Option (Bytes → Bool) :=
  match rs.splitOn ":" with
  | ["pre", d] => some (fun s => (Bytes.ofString d).isPrefixOf s)
  | ["sub", d] => some (fun s => Coraza.Op.isInfixB (Bytes.ofString d) s)
  | ["eq", d] => some (fun s => s == Bytes.ofString d)
  | _ => none

/-- `audit <case>`: what ProcessLogging writes: record count, rule ids of its messages, parts, callback ids -/
def auditModel (args : List String) : Option String :=
  match args with
  | [js] =>
    match parseCase js with
    | .ok c =>
      if outsideModel c then none
      else if c.cfgErr then some "CONFIGERR" else
      let (tx, _) := runCalls env c.rules (initTx c) c.calls
      let w := auditDecision tx (statusMatcher c.rs)
      let ids := if w then orDash (",".intercalate ((auditMessageIds c.rules tx).map toString)) else "-"
      let parts := if w then Bytes.toField tx.auditParts else "-"
      some s!"w={if w then 1 else 0} ids={ids} parts={parts} cb={orDash (",".intercalate (tx.errCb.map toString))}"
    | .error _ => none
  | _ => none

/-- `auditiso <predecessor> <probe>`: by C05_probe (the recycled transaction starts with the WAF's
    audit engine and parts, whatever ctl did in the predecessor) the probe is logged as on a fresh
    WAF: record written?, its parts -/
def auditIsoModel (args : List String) : Option String :=
  match args with
  | [_, js] =>
    match parseCase js with
    | .ok c =>
      if outsideModel c then none
      else if c.cfgErr then some "CONFIGERR" else
      let (tx, _) := runCalls env c.rules (initTx c) c.calls
      let w := auditDecision tx (statusMatcher c.rs)
      some s!"w={if w then 1 else 0} parts={if w then Bytes.toField tx.auditParts else "-"}"
    | .error _ => none
  | _ => none

/-- `conc G M case0 …`: the sequential outcome of case0 (callback ids not compared) -/
def concModel (args : List String) : Option String :=
  match args with
  | _ :: _ :: c0 :: _ =>
    (model [c0]).map fun m =>
      if m == "CONFIGERR" then m else
      let cut := (m.splitOn " ; cb=").head!
      cut ++ " ; cb=- ;; mismatch=0 races=0 panics=0"
  | _ => none

/-- `tfid caseA caseB`: both outcomes as on WAFs built one at a time -/
def tfidModel (args : List String) : Option String :=
  match args with
  | [a, b] => do
    let ma ← model [a]
    let mb ← model [b]
    let strip (m : String) := if m == "CONFIGERR" then m else (m.splitOn " ; cb=").head! ++ " ; cb=-"
    pure (strip ma ++ " ||| " ++ strip mb)
  | _ => none

/-- `iso <predecessor case> <probe case>`: by C05_probe the probe's outcome on a recycled
    transaction equals its outcome on a fresh one, whatever the predecessor did -/
def isoModel (args : List String) : Option String :=
  match args with
  | [_, probe] => model [probe]
  | _ => none

/-- engine monitor = agreement with the model (the model is what the theorems are about) -/
def judge (args : List String) (obs : List String) : Bool :=
  match model args with
  | some m => m == " ".intercalate obs
  | none => !obs.contains "PANIC"

end Driver.Eng
