import Coraza.Spec.Parse
/-! Driver engine `parse` (C16):
    `parse cfg <files> <text> [k=…] [exp=…] => ok <dump> | <dump> … | err`
    `parse acts <text> => ok k=v/t,… | err`
    `parse split <text> => ok <vars> <op> <acts> | err`
    `parse var <name> => <CANON> <0/1> | unknown` -/
namespace Driver.Parse
open Coraza Coraza.Parse

def hx (b : Bytes) : String := Bytes.toField b
def asciiStr (b : Bytes) : String := String.ofList (b.map (fun x => Char.ofNat x.toNat))
def b01 (b : Bool) : String := if b then "1" else "0"
def rxs (r : Option Bytes) : String := match r with | none => "-" | some b => "r" ++ (if b.isEmpty then "" else Bytes.toHex b)

def dumpTarget (t : Target) : String :=
  s!"{asciiStr t.var}:{b01 t.count}:{hx t.key}:{rxs t.rx}:[" ++ ";".intercalate (t.excs.map (fun e => s!"{hx e.key}/{rxs e.rx}")) ++ "]"

def dumpBody (r : RuleB) (chain : String) : String :=
  let op := match r.op with
    | none => "-"
    | some o => s!"{hx o.fn}:{hx o.data}:{b01 o.neg}"
  s!"R\{id={r.id} ph={r.phase} v=[" ++ ",".intercalate (r.targets.map dumpTarget) ++ s!"] op={op} acts=[" ++
    ",".intercalate (r.acts.map asciiStr) ++ "] tf=[" ++ ",".intercalate (r.tfs.map asciiStr) ++
    s!"] msg={hx r.msg} logdata={hx r.logdata} tags=[" ++ ",".intercalate (r.tags.map hx) ++
    s!"] sev={r.sev} rev={hx r.rev} ver={hx r.ver} mat={r.mat} acc=0 status={r.status} cap={b01 r.cap} mm={b01 r.mm} log={b01 r.log} audit={b01 r.audit} haschain={b01 r.hasChain} chain={chain}}"

def dumpLinks : List RuleB → String
  | [] => "-"
  | l :: ls => dumpBody l (dumpLinks ls)

def dumpRule (c : CRule) : String := dumpBody c.head (dumpLinks c.links)

def parseFiles (s : String) : Option (List (Bytes × Bytes)) :=
  if s == "-" then some []
  else (s.splitOn ";").mapM (fun f =>
    match f.splitOn ":" with
    | [n, h] => (Bytes.ofField h).map (fun c => (Bytes.ofString n, c))
    | _ => none)

def cfgModel (files text : String) : Option String := do
  let fs ← parseFiles files
  let t ← Bytes.ofField text
  match parseConfig fs t with
  | .ok c => some ("ok " ++ (if c.rules.isEmpty then "-" else " | ".intercalate (c.rules.map dumpRule)))
  | .err => some "err"
  | .unm => none

def actsModel (text : String) : Option String := do
  let t ← Bytes.ofField text
  match parseActions t with
  | none => some "err"
  | some as => some ("ok " ++ (if as.isEmpty then "-" else ",".intercalate (as.map (fun a => s!"{asciiStr a.key}={hx a.val}/{a.typ}"))))

def splitModel (text : String) : Option String := do
  let t ← Bytes.ofField text
  match parseActionOperator t with
  | none => some "err"
  | some (v, o, a) => some s!"ok {hx v} {hx o} {hx a}"

def varModel (name : String) : Option String := do
  let n ← Bytes.ofField name
  match lookupVar n with
  | none => some "unknown"
  | some (c, sel) => some s!"{asciiStr c} {b01 sel}"

def argVal (args : List String) (k : String) : Option String :=
  (args.find? (·.startsWith (k ++ "="))).map (fun s => (s.drop (k.length + 1)).toString)

def model (args : List String) : Option String :=
  match args with
  | "cfg" :: files :: text :: _ =>
    (match argVal args "canon" with
     | none => cfgModel files text
     | some ct => do
       let a ← cfgModel files text
       let b ← cfgModel "-" ct
       pure (a ++ " ## " ++ b))
  | ["acts", t] => actsModel t
  | ["split", t] => splitModel t
  | ["var", n] => varModel n
  | _ => none

/-! ### the property predicate on an observation -/

/-- every SecRule line of `text` whose target list the scanner accepts must be read by the reference
    grammar the same way -/
def alteredText (text : Bytes) : Bool :=
  let (ls, _, pending) := logicalLines text
  (ls ++ (if pending.isEmpty then [] else [pending])).any (fun l =>
    let (dir, opts) := splitDirective l
    dir == b!"secrule" &&
      match parseActionOperator opts with
      | none => false
      | some (vars, _, _) =>
        match parseVariables vars with
        | none => false
        | some tops => Spec.strictTargets vars != some tops)

def dropVolatile (toks : List String) : List String :=
  toks.filter (fun t => !(t.startsWith "acts=[" || t.startsWith "log=" || t.startsWith "audit="))

def judge (args obs : List String) : Bool :=
  if obs.contains "PANIC" then false else
  match args with
  | "cfg" :: files :: text :: _ =>
    let canonObs := (obs.dropWhile (· != "##")).drop 1
    let obs := obs.takeWhile (· != "##")
    let exp := argVal args "exp"
    (match exp with
     | some "?" => true
     | some e =>
       -- a rendering of a well-formed description: the compiled rules are exactly the description
       (match Bytes.ofField e with
        | some eb => " ".intercalate (dropVolatile obs) == asciiStr eb
        | none => false)
     | none => true) &&
    -- an equivalent rendering compiles to exactly what the canonical rendering compiled to
    ((argVal args "canon").isNone || obs == canonObs) &&
    -- accepted text is never read differently from the reference grammar
    (obs.head? != some "ok" ||
      (match Bytes.ofField text, parseFiles files with
       | some t, some fs => !alteredText t && fs.all (fun f => !alteredText f.2)
       | _, _ => false))
  | _ => true

end Driver.Parse
