import Coraza.Model.Http
import Coraza.Model.Operators
/-! Driver engine `http` (C18) -/
namespace Driver.Http
open Coraza Coraza.Http

def parseOp (s : String) : Option HOp :=
  if s == "f" then some .flush
  else if s.startsWith "h" then (s.drop 1).toString.toNat?.map .writeHeader
  else if s.startsWith "w" then (Bytes.ofField (s.drop 1).toString).map .write
  else none

def bad : Bytes := [0x42, 0x41, 0x44]

def reqIntr (tok : String) : Option Intr :=
  match tok with
  | "deny" => some ⟨"deny", 403⟩ | "deny0" => some ⟨"deny", 0⟩ | "redirect" => some ⟨"redirect", 302⟩
  | "drop" => some ⟨"drop", 0⟩ | "deny2" => some ⟨"deny", 402⟩ | _ => none

def model (args : List String) : Option String :=
  match args with
  | acc :: proc :: lim :: act :: xbad :: rb :: reqbody :: script :: rest => do
    let limit ← lim.toNat?
    let body ← Bytes.ofField reqbody
    let ops ← if script == "-" then some [] else (script.splitOn ",").mapM parseOp
    match requestOutcome (reqIntr rb) with
    | some st => pure s!"inv=0 read=- status={st} body=- flushed=0"
    | none =>
      let a3 : Option Bool := match rest with | [_, "on"] => some true | [_, "off"] => some false | _ => none
      -- "observe": the transaction runs under DetectionOnly from phase 1 on (generated with response access off): no rule interrupts
      let observe := rb == "observe"
      let cfg : Cfg := { access := acc == "1" && !observe, access3 := if observe then none else a3, processable := proc == "1", limit := limit, reject := act == "R",
                         p3 := fun code => if observe then none else if code == 404 then some ⟨"deny", 406⟩ else if xbad == "1" then some ⟨"deny", 407⟩ else none,
                         p4 := fun b => if !observe && Coraza.Op.isInfixB bad b then some ⟨"deny", 502⟩ else none }
      let s := runHandler cfg ops
      let rd := handlerBody body true 16
      pure s!"inv=1 read={Bytes.toField rd} status={clientStatus s} body={Bytes.toField s.downBody} flushed={if s.downFlushes > 0 then 1 else 0}"
  | _ => none

/-- C18 monitor: agreement with the model, and for a request-phase interruption the client must
    get that interruption's status (not a 200) without the handler running -/
def judge (args obs : List String) : Bool :=
  let agrees := match model args with
    | some m => m == " ".intercalate obs
    | none => false
  let statusOK := match args with
    | _ :: _ :: _ :: _ :: _ :: rb :: _ =>
      (match reqIntr rb with
       | some it => it.action == "deny" || obs.contains s!"status={it.status}"
       | none => true)
    | _ => false
  agrees && statusOK

end Driver.Http
