import Coraza.Model.RegexBudget
/-!
  Driver engine `rxm`: `rxm <pattern> <in;in;…> => re=<ERR|bits> op=<ERR|bits> caps=<ok|BAD…|->`
  The model predicts, for every ASCII input, whether Go's regexp finds the pattern as written
  (`re`: regex keys) and with the `(?sm)` prefix @rx adds (`op`), through the parser and the
  derivative matcher of Coraza/Model/Regex.lean (proved exact w.r.t. `Regex.Matches`).
  The monitor also demands `caps=ok`: what a capturing @rx leaves in TX.0-9 equals Go's own
  submatches (the harness computes that oracle; submatch positions are not modelled in Lean).
-/
namespace Driver.Rxm
open Coraza Coraza.Regex

def splitInputs (s : String) : Option (List Bytes) :=
  if s.isEmpty then some [] else (s.splitOn ";").mapM Bytes.ofField

def bitsOf (r : Re) (ins : List Bytes) : String :=
  -- '?': not compared — input that is not ASCII, or a derivative past the size budget (searchB, sound w.r.t. search)
  String.ofList (ins.map fun i => if i.all isAscii then
    (match searchB 4000 r i with | some true => '1' | some false => '0' | none => '?') else '?')

def agree (m o : String) : Bool :=
  m.length == o.length && (m.toList.zip o.toList).all fun p => p.1 == '?' || p.1 == p.2

def field (obs : List String) (k : String) : String :=
  match obs.find? (·.startsWith k) with
  | some t => (t.drop k.length).toString
  | none => ""

/-- (model rendering or none, did model and observation agree, monitor) -/
def judgeLine (args obs : List String) : Option String × Bool × Bool :=
  let caps := field obs "caps="
  let mon := (caps == "ok" || caps == "-") && !obs.contains "PANIC"
  match args with
  | pat :: rest =>
    let insS := rest.headD ""
    match Bytes.ofField pat, splitInputs insS with
    | some p, some ins =>
      if !p.all isAscii then (none, true, mon) else
      match parse {} p, parse {} (Bytes.ofString "(?sm)" ++ p) with
      | some r1, some r2 =>
        let dash (s : String) := if s.isEmpty then "-" else s
        let m1 := dash (bitsOf r1 ins)
        let m2 := dash (bitsOf r2 ins)
        (some s!"re={m1} op={m2}", agree m1 (field obs "re=") && agree m2 (field obs "op="), mon)
      | _, _ => (none, true, mon)
    | _, _ => (none, true, mon)
  | [] => (none, true, mon)

end Driver.Rxm
