import Coraza.Model.Json
import Driver.Engine
/-!
  Driver kind `decode json <depth> <tree> <text>`: the tree in prefix tokens
    N T F  #<hex raw number>  S<field>  A<n> v…  O<n> (K<field> v)…
  (the text is what the harness's independent encoder rendered from the tree; the model reads the tree)
-/
namespace Driver.Json
open Coraza Coraza.Json

mutual
def pTree : Nat → List String → Option (J × List String)
  | 0, _ => none
  | _, [] => none
  | f + 1, t :: rest =>
    if t == "N" then some (.null, rest)
    else if t == "T" then some (.tru, rest)
    else if t == "F" then some (.fls, rest)
    else if t.startsWith "#" then (Bytes.ofField (t.drop 1).toString).map fun b => (.num b, rest)
    else if t.startsWith "S" then (Bytes.ofField (t.drop 1).toString).map fun b => (.str b, rest)
    else if t.startsWith "A" then
      match (t.drop 1).toString.toNat? with
      | some n => (pItems f n rest).map fun (xs, r) => (.arr xs, r)
      | none => none
    else if t.startsWith "O" then
      match (t.drop 1).toString.toNat? with
      | some n => (pMembers f n rest).map fun (kvs, r) => (.obj kvs, r)
      | none => none
    else none

def pItems : Nat → Nat → List String → Option (List J × List String)
  | 0, _, _ => none
  | _, 0, rest => some ([], rest)
  | f + 1, n + 1, rest =>
    match pTree f rest with
    | some (x, r) => (pItems f n r).map fun (xs, r2) => (x :: xs, r2)
    | none => none

def pMembers : Nat → Nat → List String → Option (List (Bytes × J) × List String)
  | 0, _, _ => none
  | _, 0, rest => some ([], rest)
  | f + 1, n + 1, rest =>
    match rest with
    | k :: r0 =>
      if !k.startsWith "K" then none else
      match Bytes.ofField (k.drop 1).toString, pTree f r0 with
      | some name, some (x, r) => (pMembers f n r).map fun (kvs, r2) => ((name, x) :: kvs, r2)
      | _, _ => none
    | [] => none
end

def parseTree (s : String) : Option J :=
  let toks := s.splitOn ","
  match pTree (2 * toks.length + 2) toks with
  | some (t, []) => some t
  | _ => none

def dump (ps : List (Bytes × Bytes)) : String :=
  let items := ps.map fun p => s!"{Bytes.toField p.1}={Bytes.toField p.2}"
  if items.isEmpty then "-" else ",".intercalate (Driver.Eng.sortStrings items)

/-- `decode json <depth> <tree> <text>` ⇒ post=<sorted ARGS_POST> err=<REQBODY_ERROR> -/
def model (depth tree : String) : Option String := do
  let d ← depth.toNat?
  let t ← parseTree tree
  let (es, err) := argsPost d t
  pure s!"post={dump es} err={if err then 1 else 0}"

end Driver.Json
