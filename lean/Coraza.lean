import Coraza.Base.Bytes
import Coraza.Model.Transformations
