/-
  `b!"text"` : the UTF-8 bytes of a string literal as an explicit `List UInt8` literal, built at
  elaboration time (so that `decide` and `rfl` can compute with it in the kernel).
-/
import Lean.Elab.Term
import Coraza.Base.Bytes
open Lean Elab Term

elab "b!" s:str : term => do
  let bytes := s.getString.toUTF8.toList
  let lits ← bytes.mapM (fun b => `(($(Syntax.mkNumLit (toString b.toNat)) : UInt8)))
  let arr := lits.toArray
  elabTerm (← `(([$arr,*] : List UInt8))) none
