/-
  Lifting finite checks over `Fin 256` to `∀ b : UInt8`.
-/
namespace Coraza

theorem UInt8.forall_of_fin {P : UInt8 → Prop}
    (h : ∀ n : Fin 256, P (UInt8.ofNat n.val)) : ∀ b : UInt8, P b := by
  intro b
  have := h ⟨b.toNat, b.toNat_lt⟩
  simpa using this

theorem UInt8.forall₂_of_fin {P : UInt8 → UInt8 → Prop}
    (h : ∀ n m : Fin 256, P (UInt8.ofNat n.val) (UInt8.ofNat m.val)) : ∀ a b : UInt8, P a b := by
  intro a b
  have := h ⟨a.toNat, a.toNat_lt⟩ ⟨b.toNat, b.toNat_lt⟩
  simpa using this

end Coraza
