/-
  Byte strings as `List UInt8`; ASCII helpers; hex codec used by the line protocol.
  Core Lean only (no Mathlib) so that the driver links as an executable.
-/
namespace Coraza

abbrev Bytes := List UInt8

namespace Bytes

def ofString (s : String) : Bytes := s.toUTF8.toList

def hexDigit (n : Nat) : Char :=
  if n < 10 then Char.ofNat (48 + n) else Char.ofNat (87 + n)

def toHex (b : Bytes) : String :=
  String.ofList (b.foldr (fun x acc => hexDigit (x.toNat / 16) :: hexDigit (x.toNat % 16) :: acc) [])

def hexVal (c : Char) : Option Nat :=
  if '0' ≤ c ∧ c ≤ '9' then some (c.toNat - 48)
  else if 'a' ≤ c ∧ c ≤ 'f' then some (c.toNat - 87)
  else if 'A' ≤ c ∧ c ≤ 'F' then some (c.toNat - 55)
  else none

def ofHexChars : List Char → Option Bytes
  | [] => some []
  | [_] => none
  | a :: b :: rest =>
    match hexVal a, hexVal b, ofHexChars rest with
    | some x, some y, some r => some (UInt8.ofNat (x * 16 + y) :: r)
    | _, _, _ => none

/-- protocol fields: `-` is the empty string, otherwise lower-case hex -/
def ofField (s : String) : Option Bytes :=
  if s == "-" then some [] else ofHexChars s.toList

def toField (b : Bytes) : String :=
  if b.isEmpty then "-" else toHex b

end Bytes

/-- ASCII lower-casing of one byte (Go: `c + 'a' - 'A'` for 'A'..'Z'). -/
def asciiLower (b : UInt8) : UInt8 := if 65 ≤ b ∧ b ≤ 90 then b + 32 else b
def asciiUpper (b : UInt8) : UInt8 := if 97 ≤ b ∧ b ≤ 122 then b - 32 else b

def isAscii (b : UInt8) : Bool := b < 128

/-- decimal rendering of a natural number as bytes (Go `strconv.Itoa` on non-negative ints). -/
def natToDec (n : Nat) : Bytes := (toString n).toUTF8.toList

/-- internal/strings/strings.go:137 HasRegex: `/…/` with an even number of backslashes before the
    closing slash; returns the text between the slashes -/
def trailingBackslashes : Bytes → Nat
  | [] => 0
  | b :: t => if b == 0x5c then trailingBackslashes t + 1 else 0

def hasRegex (s : Bytes) : Option Bytes :=
  if s.length < 2 || s.head? != some 0x2f || s.getLast? != some 0x2f then none
  else if s.length == 2 then some []
  else
    let inner := (s.drop 1).dropLast
    if trailingBackslashes inner.reverse % 2 == 0 then some inner else none

end Coraza
