/-
  C05 — Transactions are isolated from earlier transactions on the same WAF.
  Model: Coraza/Model/Recycle.lean (newTransaction / Close over the engine model's state).
-/
import Coraza.Model.Recycle
import Coraza.Model.Readers
open Coraza Coraza.Engine

/-- C05_reinit: whatever state a finished transaction was left in — matches, interruption in
    any phase, pending skip / skipAfter / allow, ctl-changed engine mode, per-transaction rule
    and target removals, TX variables, captures, MATCHED_* — closing it and handing the object
    out again yields exactly the state of a brand-new transaction. -/
theorem C05_reinit (mode : EngineMode) (dirty : Tx) : newTx mode (closeTx dirty) = freshTx mode := by
  simp [newTx, closeTx, freshTx]

/-- hence no two predecessors can be told apart -/
theorem C05_history_independent (mode : EngineMode) (d₁ d₂ : Tx) :
    newTx mode (closeTx d₁) = newTx mode (closeTx d₂) := by
  rw [C05_reinit, C05_reinit]

/-- C05_probe: for every predecessor state, every request and every sequence of API calls,
    the probe's complete trace (state after every call and every returned interruption) on
    the recycled object equals its trace on a fresh one. -/
theorem C05_probe (env : Env) (rules : List Rule) (mode : EngineMode) (dirty : Tx)
    (get post hdr : List (Bytes × Bytes)) (calls : List Call) :
    runCalls env rules (feed (newTx mode (closeTx dirty)) get post hdr) calls =
    runCalls env rules (feed (freshTx mode) get post hdr) calls := by
  rw [C05_reinit]

/-- the reset is needed: without Close's collection reset a left-over TX variable survives
    (what a missed reset would look like; the statement above would be false) -/
def C05_leftover : Tx := { argsGet := (CMap.add ⟨[]⟩ [0x61] [0x62]) }

theorem C05_close_needed : ∃ dirty : Tx, newTx .on dirty ≠ freshTx .on :=
  ⟨C05_leftover, by decide⟩

/-- non-vacuity: a dirty state that differs from a fresh one in every recycled aspect -/
def C05_dirty : Tx :=
  { skip := 3, skipAfter := [1], allow := Allow.all, engine := EngineMode.off, rmIds := [5], lastPhase := 4,
    intr := some ⟨1, "deny", 403, []⟩ }
example : closeTx C05_dirty ≠ freshTx .on := by decide

/-! ## body readers of a closed transaction (Model/Readers.lean) -/

open Coraza.Readers in
/-- every reader handed out and not yet closed is registered with the buffer -/
def C05_RInv (s : St) : Prop :=
  ∀ i r, s.readers[i]? = some r → r.closed = false → i ∈ s.registered

open Coraza.Readers in
theorem C05_rinv_step (s : St) (op : Op) (h : C05_RInv s) : C05_RInv (step s op) := by
  intro i r hi hc
  cases op with
  | write b => exact h i r hi hc
  | reader =>
    simp only [step] at hi ⊢
    by_cases hlt : i < s.readers.length
    · rw [List.getElem?_append_left hlt] at hi
      exact List.mem_append_left _ (h i r hi hc)
    · obtain ⟨hle, _⟩ := List.getElem?_eq_some_iff.mp hi
      have : i = s.readers.length := by simp at hle; omega
      subst this
      simp
  | read j n =>
    simp only [step] at hi ⊢
    rw [List.getElem?_map] at hi
    cases hz : s.readers.zipIdx[i]? with
    | none => simp [hz] at hi
    | some p =>
      obtain ⟨r0, j0⟩ := p
      simp only [hz, Option.map_some, Option.some.injEq] at hi
      have hz' := hz
      rw [List.getElem?_zipIdx] at hz'
      cases hr : s.readers[i]? with
      | none => simp [hr] at hz'
      | some r1 =>
        simp only [hr, Option.map_some, Option.some.injEq, Prod.mk.injEq] at hz'
        obtain ⟨rfl, _⟩ := hz'
        apply h i r1 hr
        subst hi
        split at hc
        · rename_i hcond
          simp only [Bool.and_eq_true, Bool.not_eq_true'] at hcond
          exact hcond.2
        · exact hc
  | reset =>
    simp only [step, closeAll] at hi
    rw [List.getElem?_map] at hi
    cases hz : s.readers.zipIdx[i]? with
    | none => simp [hz] at hi
    | some p =>
      obtain ⟨r0, j0⟩ := p
      simp only [hz, Option.map_some, Option.some.injEq] at hi
      have hz' := hz
      rw [List.getElem?_zipIdx] at hz'
      cases hr : s.readers[i]? with
      | none => simp [hr] at hz'
      | some r1 =>
        simp only [hr, Option.map_some, Option.some.injEq, Prod.mk.injEq] at hz'
        obtain ⟨rfl, rfl⟩ := hz'
        subst hi
        split at hc
        · simp at hc
        · rename_i hnot
          have := h i r1 hr hc
          simp only [Nat.zero_add] at hnot
          exact absurd (by simpa using this) hnot

open Coraza.Readers in
theorem C05_rinv_run (ops : List Op) (s : St) (h : C05_RInv s) : C05_RInv (run s ops) := by
  unfold run
  induction ops generalizing s with
  | nil => exact h
  | cons op ops ih => exact ih (step s op) (C05_rinv_step s op h)

open Coraza.Readers in
/-- after Reset every reader handed out so far is closed -/
theorem C05_reset_closes_all (s : St) (h : C05_RInv s) :
    ∀ (i : Nat) (r : Rd), (step s .reset).readers[i]? = some r → r.closed = true := by
  intro i r hi
  cases hc : r.closed with
  | true => rfl
  | false =>
    have := C05_rinv_step s .reset h i r hi hc
    simp [step] at this

open Coraza.Readers in
/-- **C05_readers_dead**: take any history of writes, readers handed out and reads on a body
    buffer; close the transaction (Reset); then let the recycled object serve any further history
    (new writes, new readers, reads): a reader handed out *before* the Close yields no byte, whatever
    it is asked for and whatever the buffer holds by then. -/
theorem C05_readers_dead (before after : List Op) (i n : Nat)
    (hi : i < (run {} before).readers.length) :
    readOut (run (step (run {} before) .reset) after) i n = [] := by
  -- closed readers stay closed and keep their index under every later operation
  have closedStays : ∀ (ops : List Op) (s : St) (r : Rd), s.readers[i]? = some r → r.closed = true →
      ∃ r', (run s ops).readers[i]? = some r' ∧ r'.closed = true := by
    intro ops
    induction ops with
    | nil => intro s r h1 h2; exact ⟨r, h1, h2⟩
    | cons op ops ih =>
      intro s r h1 h2
      have : ∃ r', (step s op).readers[i]? = some r' ∧ r'.closed = true := by
        cases op with
        | write b => exact ⟨r, h1, h2⟩
        | reader =>
          refine ⟨r, ?_, h2⟩
          simp only [step]
          obtain ⟨hlt, _⟩ := List.getElem?_eq_some_iff.mp h1
          rw [List.getElem?_append_left hlt]; exact h1
        | read j m =>
          simp only [step]
          rw [List.getElem?_map, List.getElem?_zipIdx, h1]
          simp only [Option.map_some, Nat.zero_add]
          refine ⟨_, rfl, ?_⟩
          simp [h2]
        | reset =>
          simp only [step, closeAll]
          rw [List.getElem?_map, List.getElem?_zipIdx, h1]
          simp only [Option.map_some, Nat.zero_add]
          refine ⟨_, rfl, ?_⟩
          split <;> simp [h2]
      obtain ⟨r', h1', h2'⟩ := this
      exact ih (step s op) r' h1' h2'
  have inv0 : C05_RInv ({} : St) := by intro i r h; simp at h
  have inv := C05_rinv_run before {} inv0
  obtain ⟨r0, hr0⟩ : ∃ r0, (step (run {} before) .reset).readers[i]? = some r0 := by
    have : i < (step (run {} before) .reset).readers.length := by simpa [step, closeAll] using hi
    exact ⟨_, List.getElem?_eq_getElem this⟩
  have hc0 := C05_reset_closes_all _ inv i r0 hr0
  obtain ⟨r', h1, h2⟩ := closedStays after _ r0 hr0 hc0
  simp [readOut, h1, h2]

open Coraza.Readers in
/-- non-vacuity: a spilled-style history; the stale reader (index 0) would otherwise see the
    next transaction's bytes -/
example : readOut (run {} [.write [1, 2, 3], .reader, .read 0 1, .reset, .write [9, 9], .reader]) 0 10 = [] ∧
          readOut (run {} [.write [1, 2, 3], .reader, .read 0 1, .reset, .write [9, 9], .reader]) 1 10 = [9, 9] := by decide
