/-
  C05 — Transactions are isolated from earlier transactions on the same WAF.
  Model: Coraza/Model/Recycle.lean (newTransaction / Close over the engine model's state).
-/
import Coraza.Model.Recycle
open Coraza Coraza.Engine

/-- C05_reinit: whatever state a finished transaction was left in — matches, interruption in
    any phase, pending skip / skipAfter / allow, ctl-changed engine mode, per-transaction rule
    and target removals, TX variables, captures, MATCHED_* — closing it and handing the object
    out again yields exactly the state of a brand-new transaction. -/
theorem C05_reinit (mode : EngineMode) (dirty : Tx) : newTx mode (closeTx dirty) = freshTx mode := by
  simp [newTx, closeTx, freshTx]

/-- hence no two predecessors can be told apart -/
theorem C05_history_independent (mode : EngineMode) (d₁ d₂ : Tx) :
    newTx mode (closeTx d₁) = newTx mode (closeTx d₂) := by
  rw [C05_reinit, C05_reinit]

/-- C05_probe: for every predecessor state, every request and every sequence of API calls,
    the probe's complete trace (state after every call and every returned interruption) on
    the recycled object equals its trace on a fresh one. -/
theorem C05_probe (env : Env) (rules : List Rule) (mode : EngineMode) (dirty : Tx)
    (get post hdr : List (Bytes × Bytes)) (calls : List Call) :
    runCalls env rules (feed (newTx mode (closeTx dirty)) get post hdr) calls =
    runCalls env rules (feed (freshTx mode) get post hdr) calls := by
  rw [C05_reinit]

/-- the reset is needed: without Close's collection reset a left-over TX variable survives
    (what a missed reset would look like; the statement above would be false) -/
def C05_leftover : Tx := { argsGet := (CMap.add ⟨[]⟩ [0x61] [0x62]) }

theorem C05_close_needed : ∃ dirty : Tx, newTx .on dirty ≠ freshTx .on :=
  ⟨C05_leftover, by decide⟩

/-- non-vacuity: a dirty state that differs from a fresh one in every recycled aspect -/
def C05_dirty : Tx :=
  { skip := 3, skipAfter := [1], allow := Allow.all, engine := EngineMode.off, rmIds := [5], lastPhase := 4,
    intr := some ⟨1, "deny", 403, []⟩ }
example : closeTx C05_dirty ≠ freshTx .on := by decide
