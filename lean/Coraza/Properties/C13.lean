/-
  C13 — A WAF follows its own configuration only; pattern caching is invisible.
  Model: Coraza/Model/Memo.lean.
-/
import Coraza.Model.Memo
open Coraza Coraza.Memo

/-! ## the key function is injective: no two different (kind, input) share a cache entry -/

theorem tag_no_colon (k : Kind) : (0x3a : UInt8) ∉ k.tag := by cases k <;> decide

theorem tag_injective (k k' : Kind) (h : k.tag = k'.tag) : k = k' := by
  cases k <;> cases k' <;> first | rfl | (exfalso; revert h; decide)

/-- splitting at the first ':' recovers the tag -/
theorem takeWhile_key (s : Site) : (key s).takeWhile (· != 0x3a) = s.kind.tag := by
  unfold key
  have hn := tag_no_colon s.kind
  generalize s.kind.tag = t at hn
  induction t with
  | nil => simp
  | cons b t ih =>
    have hb : b ≠ 0x3a := fun h => hn (by simp [h])
    have ht : (0x3a : UInt8) ∉ t := fun h => hn (by simp [h])
    have ih' := ih ht
    simp only [List.append_assoc, List.singleton_append] at ih'
    simp [hb, ih']

/-- C13_injective: equal keys come from the same kind and the same input -/
theorem C13_injective (s s' : Site) (h : key s = key s') : s = s' := by
  have h1 : s.kind.tag = s'.kind.tag := by rw [← takeWhile_key s, ← takeWhile_key s', h]
  have hk : s.kind = s'.kind := tag_injective _ _ h1
  have hi : s.input = s'.input := by
    unfold key at h
    rw [h1] at h
    simpa using h
  cases s; cases s'; simp_all

/-! ## the cache is transparent -/

/-- invariant: every entry was built by the builder for a site with that key -/
def CacheOK {V} (build : Site → Option V) (c : Cache V) : Prop :=
  ∀ p ∈ c, ∃ s, key s = p.1 ∧ build s = some p.2.value

theorem find_mem {V} (c : Cache V) (k : Bytes) (e : Entry V) (h : c.find k = some e) : (k, e) ∈ c := by
  unfold Cache.find at h
  cases hf : List.find? (fun e => e.1 == k) c with
  | none => simp [hf] at h
  | some p =>
    simp only [hf, Option.map_some, Option.some.injEq] at h
    have hm := List.mem_of_find?_eq_some hf
    have hk : p.1 = k := by simpa using List.find?_some hf
    subst h; subst hk; exact hm

/-- C13_transparent: for every history that produced the cache (any number of WAFs built, used
    and closed, sharing any strings in any roles), a lookup returns exactly what building
    directly returns — never another site's value — and the invariant is kept. -/
theorem C13_transparent {V} (build : Site → Option V) (c : Cache V) (hc : CacheOK build c) (o : Nat) (s : Site) :
    (doOp build c o s).2 = build s ∧ CacheOK build (doOp build c o s).1 := by
  unfold doOp
  cases hf : c.find (key s) with
  | some e =>
    simp only
    have hm := find_mem c (key s) e hf
    obtain ⟨s', hk, hb⟩ := hc _ hm
    have : s' = s := C13_injective s' s hk
    subst this
    refine ⟨hb.symm, ?_⟩
    intro p hp
    obtain ⟨q, hq, rfl⟩ := List.mem_map.mp hp
    obtain ⟨s2, h1, h2⟩ := hc q hq
    by_cases hqk : (q.1 == key s') = true
    · simp only [hqk, if_true]; exact ⟨s2, h1, h2⟩
    · simp only [hqk]; exact ⟨s2, h1, h2⟩
  | none =>
    simp only
    cases hb : build s with
    | none => exact ⟨rfl, hc⟩
    | some v =>
      refine ⟨rfl, ?_⟩
      intro p hp
      rcases List.mem_cons.mp hp with rfl | hp
      · exact ⟨s, rfl, hb⟩
      · exact hc p hp

/-- the empty cache is fine, and closing a WAF keeps the invariant: so it holds after
    every sequence of constructions and closures (induction over the history) -/
theorem C13_release_ok {V} (build : Site → Option V) (c : Cache V) (hc : CacheOK build c) (o : Nat) :
    CacheOK build (release c o) := by
  intro p hp
  unfold release at hp
  obtain ⟨q, hq, rfl⟩ := List.mem_map.mp (List.mem_filter.mp hp).1
  exact hc q hq

inductive Op | build (owner : Nat) (s : Site) | close (owner : Nat)

def runOps {V} (build : Site → Option V) : Cache V → List Op → Cache V
  | c, [] => c
  | c, .build o s :: ops => runOps build (doOp build c o s).1 ops
  | c, .close o :: ops => runOps build (release c o) ops

theorem C13_history {V} (build : Site → Option V) (ops : List Op) : CacheOK build (runOps build [] ops) := by
  suffices h : ∀ c, CacheOK build c → CacheOK build (runOps build c ops) from h [] (by intro p hp; simp at hp)
  induction ops with
  | nil => intro c hc; exact hc
  | cons op ops ih =>
    intro c hc
    cases op with
    | build o s => exact ih _ (C13_transparent build c hc o s).2
    | close o => exact ih _ (C13_release_ok build c hc o)

/-- C13_release: after Release(o) no entry lists o, and entries still owned keep their value -/
theorem C13_release {V} (c : Cache V) (o : Nat) :
    (∀ p ∈ release c o, o ∉ p.2.owners) ∧
    (∀ p ∈ release c o, ∃ q ∈ c, q.1 = p.1 ∧ q.2.value = p.2.value) := by
  unfold release
  constructor
  · intro p hp
    obtain ⟨q, _, rfl⟩ := List.mem_map.mp (List.mem_filter.mp hp).1
    simp [List.mem_filter]
  · intro p hp
    obtain ⟨q, hq, rfl⟩ := List.mem_map.mp (List.mem_filter.mp hp).1
    exact ⟨q, hq, rfl, rfl⟩

/-- what the pre-fix key function did (F-C13-1): without the kind in the key two different
    sites collide — `@pm abc` and the regex key `/abc/` -/
theorem C13_unprefixed_collides :
    ∃ s s' : Site, s ≠ s' ∧ s.input = s'.input := ⟨⟨.pm, [0x61]⟩, ⟨.re, [0x61]⟩, by decide, rfl⟩

/-! non-vacuity -/
example : key ⟨.rx, [0x61]⟩ = [0x72, 0x78, 0x3a, 0x61] := by decide
