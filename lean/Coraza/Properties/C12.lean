/-
  C12 — Sharing transformation work between rules never substitutes a wrong value.
  Model: Coraza/Model/TfCache.lean (rule.go:423 transformArg + the cache of rulegroup.go:288).
-/
import Coraza.Model.TfCache
open Coraza Coraza.Engine

/-- the interning table (rule.go:665 transformationID): every prefix id denotes one chain -/
structure Interned (chainOf : Nat → List String) (tfs : List String) (pids : List Nat) : Prop where
  len : pids.length = tfs.length
  chain : ∀ i (h : i < pids.length), chainOf (pids[i]) = tfs.take (i + 1)

/-- cache invariant: every entry holds the result of its chain applied to its own `orig`
    (no assumption that the key determines `orig`) -/
def CacheOK (env : Env) (chainOf : Nat → List String) (c : Cache) : Prop :=
  ∀ e ∈ c, e.2.arg = execTfs env (chainOf e.1.tid) e.2.orig

theorem execTfs_append (env : Env) (l1 l2 : List String) (v : Bytes) :
    execTfs env (l1 ++ l2) v = execTfs env l2 (execTfs env l1 v) := by
  induction l1 generalizing v with
  | nil => rfl
  | cons t l1 ih => simp only [List.cons_append, execTfs]; exact ih _

theorem Cache.get_mem (c : Cache) (k : CKey) (v : CVal) (h : c.get k = some v) : (k, v) ∈ c := by
  unfold Cache.get at h
  cases hf : c.find? (fun e => e.1 == k) with
  | none => simp [hf] at h
  | some e =>
    simp only [hf, Option.map_some, Option.some.injEq] at h
    have hm := List.mem_of_find?_eq_some hf
    have hk := List.find?_some hf
    have : e.1 = k := by simpa using hk
    subst h; subst this; exact hm

/-- a hit returns the chain prefix applied to the *current* value -/
theorem findHit_sound (env : Env) (chainOf : Nat → List String) (tfs : List String) (pids : List Nat)
    (hI : Interned chainOf tfs pids) (cache : Cache) (hc : CacheOK env chainOf cache) (base : Nat) (value : Bytes)
    (n : Nat) (hn : n ≤ pids.length) (k : Nat) (v : Bytes)
    (h : findHit cache base pids value n = some (k, v)) :
    k ≤ pids.length ∧ 0 < k ∧ v = execTfs env (tfs.take k) value := by
  induction n with
  | zero => simp [findHit] at h
  | succ n ih =>
    have hlt : n < pids.length := by omega
    simp only [findHit, List.getElem?_eq_getElem hlt] at h
    cases hg : cache.get ⟨base, pids[n]⟩ with
    | none => simp only [hg] at h; exact ih (by omega) h
    | some cv =>
      simp only [hg] at h
      by_cases ho : (cv.orig == value) = true
      · simp only [ho, if_true, Option.some.injEq, Prod.mk.injEq] at h
        obtain ⟨rfl, rfl⟩ := h
        have hm := Cache.get_mem cache _ cv hg
        have := hc _ hm
        simp only at this
        rw [hI.chain n hlt] at this
        have ho' : cv.orig = value := by simpa using ho
        exact ⟨by omega, by omega, by rw [this, ho']⟩
      · simp only [ho, Bool.false_eq_true, if_false] at h
        exact ih (by omega) h

theorem computeRest_ok (env : Env) (chainOf : Nat → List String) (base : Nat) (orig : Bytes)
    (done : List String) (rest : List (String × Nat)) (v : Bytes) (c : Cache)
    (hv : v = execTfs env done orig) (hc : CacheOK env chainOf c)
    (hch : ∀ i (h : i < rest.length), chainOf (rest[i]).2 = done ++ (rest.take (i + 1)).map (·.1)) :
    (computeRest env base orig rest v c).1 = execTfs env (done ++ rest.map (·.1)) orig ∧
    CacheOK env chainOf (computeRest env base orig rest v c).2 := by
  induction rest generalizing done v c with
  | nil => simp [computeRest, hv, hc]
  | cons p rest ih =>
    obtain ⟨t, tid⟩ := p
    simp only [computeRest]
    have hv' : (if (env.tf t v).2.2 then v else (env.tf t v).1) = execTfs env (done ++ [t]) orig := by
      rw [execTfs_append, ← hv]; simp [execTfs]
    have h0 := hch 0 (by simp)
    simp only [List.getElem_cons_zero, List.take_succ_cons, List.take_zero, List.map_cons, List.map_nil] at h0
    have hc' : CacheOK env chainOf ((⟨base, tid⟩, ⟨orig, if (env.tf t v).2.2 then v else (env.tf t v).1⟩) :: c) := by
      intro e he
      rcases List.mem_cons.mp he with rfl | he
      · simp only; rw [h0]; exact hv'
      · exact hc e he
    have := ih (done ++ [t]) _ _ hv' hc' (by
      intro i hi
      have := hch (i + 1) (by simp; omega)
      simpa [List.append_assoc] using this)
    simpa [List.append_assoc] using this

/-- C12_cache_transparent: whatever the cache contains (subject to the invariant, which the
    empty cache of a new phase satisfies and every call preserves), whatever keys collide, the
    value handed to the operator is the rule's own transformation list applied to the current
    value of the target — and the invariant is preserved. -/
theorem C12_cache_transparent (env : Env) (chainOf : Nat → List String) (tfs : List String) (pids : List Nat)
    (hI : Interned chainOf tfs pids) (isTX : Bool) (base : Nat) (value : Bytes) (cache : Cache)
    (hc : CacheOK env chainOf cache) :
    (transformArg env tfs pids isTX base value cache).1 = execTfs env tfs value ∧
    CacheOK env chainOf (transformArg env tfs pids isTX base value cache).2 := by
  unfold transformArg
  by_cases he : tfs.isEmpty = true
  · have : tfs = [] := List.isEmpty_iff.mp he
    subst this; simp [execTfs, hc]
  · simp only [he, Bool.false_eq_true, if_false]
    cases isTX with
    | true => simp [hc]
    | false =>
      simp only [Bool.false_eq_true, if_false]
      have zipCh : ∀ (k : Nat) i (h : i < ((tfs.zip pids).drop k).length),
          chainOf (((tfs.zip pids).drop k)[i]).2 = tfs.take k ++ (((tfs.zip pids).drop k).take (i + 1)).map (·.1) := by
        intro k i h
        have hl : (tfs.zip pids).length = tfs.length := by simp [hI.len]
        have hik : k + i < pids.length := by simp [hl] at h; rw [hI.len]; omega
        have e1 : (((tfs.zip pids).drop k)[i]).2 = pids[k + i] := by simp
        rw [e1, hI.chain (k + i) hik]
        have hm : (tfs.zip pids).map (·.1) = tfs := by
          apply List.map_fst_zip; rw [hI.len]; exact Nat.le_refl _
        have e2 : (((tfs.zip pids).drop k).take (i + 1)).map (·.1) = (tfs.drop k).take (i + 1) := by
          rw [List.map_take, List.map_drop, hm]
        rw [e2, show k + i + 1 = k + (i + 1) by omega, List.take_add]
      cases hf : findHit cache base pids value pids.length with
      | none =>
        simp only
        have := computeRest_ok env chainOf base value [] (tfs.zip pids) value cache (by simp [execTfs]) hc (by
          intro i h; simpa using zipCh 0 i (by simpa using h))
        have hm : (tfs.zip pids).map (·.1) = tfs := by
          apply List.map_fst_zip; rw [hI.len]; exact Nat.le_refl _
        simpa [hm] using this
      | some kv =>
        obtain ⟨k, v⟩ := kv
        obtain ⟨hk1, hk2, hv⟩ := findHit_sound env chainOf tfs pids hI cache hc base value _ (Nat.le_refl _) k v hf
        simp only
        by_cases hfull : (k == pids.length) = true
        · have : k = tfs.length := by rw [← hI.len]; simpa using hfull
          simp only [hfull, if_true]
          exact ⟨by rw [hv, this, List.take_length], hc⟩
        · simp only [hfull, Bool.false_eq_true, if_false]
          have := computeRest_ok env chainOf base value (tfs.take k) ((tfs.zip pids).drop k) v cache hv hc (zipCh k)
          have hm : ((tfs.zip pids).drop k).map (·.1) = tfs.drop k := by
            rw [List.map_drop]
            congr 1
            apply List.map_fst_zip; rw [hI.len]; exact Nat.le_refl _
          simpa [hm] using this
