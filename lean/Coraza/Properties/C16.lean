/-
  C16 — Directive text means the same however it is written; nothing is silently altered.
  Models: Coraza/Model/Parse.lean (the scanners and the rule compiler as written in Go),
  Coraza/Spec/Parse.lean (the reference grammar of target lists).
-/
import Coraza.Spec.Parse
open Coraza Coraza.Parse

/-! ## layout: comment lines, blank lines, indentation -/

/-- a physical line the parser ignores: blank after trimming, or a comment -/
def Ignored (l : Bytes) : Prop := trimSpace l = [] ∨ (trimSpace l).head? = some 0x23

theorem lineStep_ignored (bt : Bool) (buf l : Bytes) (h : Ignored l) : lineStep bt buf l = (bt, buf, none) := by
  unfold lineStep
  rcases h with h | h
  · simp [h]
  · cases ht : trimSpace l with
    | nil => simp
    | cons f t =>
      rw [ht] at h
      simp only [List.head?_cons, Option.some.injEq] at h
      subst h
      cases hl : (35 :: t : Bytes).getLast? with
      | none => simp at hl
      | some last => simp only [hl]; simp

theorem assemble_cons (bt : Bool) (buf raw : Bytes) (rest : List Bytes) :
    assemble bt buf (raw :: rest) =
      match lineStep bt buf raw with
      | (bt', buf', none) => assemble bt' buf' rest
      | (bt', buf', some l) => (l :: (assemble bt' buf' rest).1, (assemble bt' buf' rest).2.1, (assemble bt' buf' rest).2.2) := by
  conv => lhs; unfold assemble
  rfl

/-- C16_comment_blank_lines: comment lines and blank lines may be inserted anywhere — between
    directives, inside a continuation, inside a backtick block — without changing the logical
    lines the parser evaluates (for every parser state) -/
theorem C16_comment_blank_lines (bt : Bool) (buf : Bytes) (pre post : List Bytes) (l : Bytes) (h : Ignored l) :
    assemble bt buf (pre ++ l :: post) = assemble bt buf (pre ++ post) := by
  induction pre generalizing bt buf with
  | nil => simp only [List.nil_append]; rw [assemble_cons, lineStep_ignored bt buf l h]
  | cons p pre ih =>
    simp only [List.cons_append]
    rw [assemble_cons, assemble_cons]
    obtain ⟨bt', buf', o⟩ := lineStep bt buf p
    cases o with
    | none => exact ih _ _
    | some x => simp only; rw [ih]

theorem lineStep_trim (bt : Bool) (buf l l' : Bytes) (h : trimSpace l = trimSpace l') :
    lineStep bt buf l = lineStep bt buf l' := by
  unfold lineStep; rw [h]

/-- C16_indentation: only the trimmed text of a physical line matters — indentation and trailing
    blanks (any bytes `trimSpace` removes) never change the logical lines -/
theorem C16_indentation (bt : Bool) (buf : Bytes) (ls ls' : List Bytes)
    (h : ls.map trimSpace = ls'.map trimSpace) : assemble bt buf ls = assemble bt buf ls' := by
  induction ls generalizing bt buf ls' with
  | nil =>
    cases ls' with
    | nil => rfl
    | cons _ _ => simp at h
  | cons l ls ih =>
    cases ls' with
    | nil => simp at h
    | cons l' ls' =>
      simp only [List.map_cons, List.cons.injEq] at h
      rw [assemble_cons, assemble_cons, lineStep_trim bt buf l l' h.1]
      obtain ⟨bt', buf', o⟩ := lineStep bt buf l'
      cases o with
      | none => exact ih _ _ _ h.2
      | some x => simp only; rw [ih _ _ _ h.2]

/-! ## line continuation -/

/-- a trimmed, non-empty, non-comment line outside a backtick block that ends in a backslash is
    appended to the buffer without the backslash -/
theorem lineStep_cont (buf a : Bytes) (fa : UInt8) (ha : trimSpace (a ++ [0x5c]) = a ++ [0x5c])
    (hfa : (a ++ [0x5c]).head? = some fa) (hfa' : fa ≠ 0x23) :
    lineStep false buf (a ++ [0x5c]) = (false, buf ++ a, none) := by
  unfold lineStep
  rw [ha]
  have hl : (a ++ [0x5c] : Bytes).getLast? = some 0x5c := by simp
  cases hc : (a ++ [0x5c] : Bytes) with
  | nil => simp at hc
  | cons f t =>
    rw [hc] at hl hfa
    simp only [List.head?_cons, Option.some.injEq] at hfa
    subst hfa
    simp only [hl]
    have e1 : ((0x5c : UInt8) == 0x60) = false := by decide
    have hd : (f :: t : Bytes).dropLast = a := by rw [← hc, List.dropLast_concat]
    simp [hfa', e1, hd]

/-- a trimmed, non-empty, non-comment line outside a backtick block that ends neither in a
    backslash nor in a backtick completes the logical line -/
theorem lineStep_emit (buf b : Bytes) (fb lb : UInt8) (hb : trimSpace b = b)
    (hfb : b.head? = some fb) (hfb' : fb ≠ 0x23) (hlb : b.getLast? = some lb) (h1 : lb ≠ 0x60) (h2 : lb ≠ 0x5c) :
    lineStep false buf b = (false, [], some (buf ++ b)) := by
  unfold lineStep
  rw [hb]
  cases hc : b with
  | nil => rw [hc] at hfb; simp at hfb
  | cons f t =>
    rw [hc] at hlb hfb
    simp only [List.head?_cons, Option.some.injEq] at hfb
    subst hfb
    simp only [hlb]
    simp [hfb', h1, h2]

/-- C16_continuation: a directive may be split with a backslash at the end of a line: the two
    physical lines `a\` and `b` give the same logical line as the single line `a ++ b`, whenever
    the pieces are what the parser sees after trimming (`a` does not start, `b` does not start or
    end, with white space), neither piece starts with '#', and the directive does not end in a
    backslash or backtick -/
theorem C16_continuation (buf a b : Bytes) (rest : List Bytes) (fa fb lb : UInt8)
    (ha : trimSpace (a ++ [0x5c]) = a ++ [0x5c]) (hb : trimSpace b = b) (hab : trimSpace (a ++ b) = a ++ b)
    (hfa : a.head? = some fa) (hfa' : fa ≠ 0x23)
    (hfb : b.head? = some fb) (hfb' : fb ≠ 0x23) (hlb : b.getLast? = some lb) (h1 : lb ≠ 0x60) (h2 : lb ≠ 0x5c) :
    assemble false buf ((a ++ [0x5c]) :: b :: rest) = assemble false buf ((a ++ b) :: rest) := by
  have hane : a ≠ [] := by intro e; subst e; simp at hfa
  have hbne : b ≠ [] := by intro e; subst e; simp at hfb
  have hfa2 : (a ++ [0x5c]).head? = some fa := by rw [List.head?_append, hfa]; rfl
  have hfab : (a ++ b).head? = some fa := by rw [List.head?_append, hfa]; rfl
  have hlab : (a ++ b).getLast? = some lb := by rw [List.getLast?_append, hlb]; rfl
  rw [assemble_cons, lineStep_cont buf a fa ha hfa2 hfa']
  simp only
  rw [assemble_cons, lineStep_emit (buf ++ a) b fb lb hb hfb hfb' hlb h1 h2]
  rw [assemble_cons, lineStep_emit buf (a ++ b) fa lb hab hfab hfa' hlab h1 h2]
  simp [List.append_assoc]

/-! ## letter case of directive names -/

theorem cutSpace_nospace (d rest : Bytes) (h : ∀ x ∈ d, x ≠ 0x20) :
    cutSpace (d ++ 0x20 :: rest) = (d, rest, true) := by
  induction d with
  | nil => simp [cutSpace]
  | cons x t ih =>
    have hx : x ≠ 0x20 := h x (by simp)
    simp only [List.cons_append, cutSpace, beq_iff_eq, hx, if_false]
    rw [ih (fun y hy => h y (by simp [hy]))]

/-- C16_directive_case: the directive name is case-insensitive — two spellings of the name that
    agree up to ASCII letter case give the same directive and the same options -/
theorem C16_directive_case (d d' opts : Bytes) (h : lower d = lower d')
    (hd : ∀ x ∈ d, x ≠ 0x20) (hd' : ∀ x ∈ d', x ≠ 0x20) :
    splitDirective (d ++ 0x20 :: opts) = splitDirective (d' ++ 0x20 :: opts) := by
  unfold splitDirective
  rw [cutSpace_nospace d opts hd, cutSpace_nospace d' opts hd']
  simp [h]

/-! ## action names and values -/

/-- C16_action_spelling: an action is identified by its trimmed, lower-cased name and its trimmed
    value without one enclosing pair of quotes: spellings that agree on those are the same action
    (letter case of the name, blanks around name and value, optional quoting of the value) -/
theorem C16_action_spelling (res : List Act) (k k' v v' : Bytes) (d : Option Nat)
    (hk : lower (trimSpace k) = lower (trimSpace k'))
    (hv : maybeRemoveQuotes (trimSpace v) = maybeRemoveQuotes (trimSpace v')) :
    appendAct res k v d = appendAct res k' v' d := by
  unfold appendAct
  simp only [hk, hv]

/-- quoting a value is the identity on what the action receives, for every value that is not
    itself blank-padded (any bytes, including commas, colons and quotes inside) -/
theorem C16_quoted_value (v : Bytes) :
    maybeRemoveQuotes ([0x27] ++ v ++ [0x27]) = v := by
  have hlen : ¬ ([0x27] ++ v ++ [0x27] : Bytes).length < 2 := by simp
  have h1 : ([0x27] ++ v ++ [0x27] : Bytes).head? = some 0x27 := by simp
  have h2 : ([0x27] ++ v ++ [0x27] : Bytes).getLast? = some 0x27 := by
    rw [List.getLast?_append]; rfl
  unfold maybeRemoveQuotes
  simp only [hlen, if_false, h1, h2]
  simp

/-! ## the operator string: escaping round trip -/

/-- how an operator is written inside the double quotes: every '"' becomes '\"' -/
def escQ : Bytes → Bytes
  | [] => []
  | c :: t => if c == 0x22 then 0x5c :: 0x22 :: escQ t else c :: escQ t

/-- operators that can be written at all: no backslash directly before a double quote or at the end -/
def opWF : Bytes → Bool
  | [] => true
  | [c] => c != 0x5c
  | c :: d :: t => !(c == 0x5c && d == 0x22) && opWF (d :: t)

theorem escQ_cons (c : UInt8) (t : Bytes) :
    escQ (c :: t) = if c == 0x22 then 0x5c :: 0x22 :: escQ t else c :: escQ t := rfl

theorem unescape_cons2 (b c : UInt8) (t : Bytes) :
    unescapeQuoted (b :: c :: t) = if b == 0x5c && c == 0x22 then 0x22 :: unescapeQuoted t else b :: unescapeQuoted (c :: t) := by
  rw [unescapeQuoted]

/-- C16_operator_roundtrip (unescaping half): writing every '"' of the operator as '\"' and
    reading it back gives the operator, for every operator without a backslash directly before a
    double quote or at its end (those cannot be written: the scanner's escape rule has no way to
    spell a literal backslash there) -/
theorem C16_unescape_esc (op : Bytes) (h : opWF op = true) : unescapeQuoted (escQ op) = op := by
  induction op with
  | nil => rfl
  | cons c t ih =>
    cases t with
    | nil =>
      by_cases hc : c = 0x22
      · subst hc; rfl
      · have : (c == 0x22) = false := by simpa using hc
        simp [escQ, this, unescapeQuoted]
    | cons d t' =>
      have hh : (!(c == 0x5c && d == 0x22) && opWF (d :: t')) = true := h
      simp only [Bool.and_eq_true, Bool.not_eq_true'] at hh
      have ih' := ih hh.2
      by_cases hc : c = 0x22
      · subst hc
        rw [escQ_cons]
        simp only [beq_self_eq_true, if_true]
        rw [unescape_cons2]
        simp only [beq_self_eq_true, Bool.and_self, if_true]
        rw [ih']
      · have hcf : (c == 0x22) = false := by simpa using hc
        rw [escQ_cons]
        simp only [hcf, Bool.false_eq_true, if_false]
        -- the next byte of the escaped text is either a backslash (d was '"') or d itself
        rw [escQ_cons] at ih' ⊢
        by_cases hd : d = 0x22
        · subst hd
          simp only [beq_self_eq_true, if_true] at ih' ⊢
          have hc5 : (c == 0x5c) = false := by simpa using hh.1
          rw [unescape_cons2]
          have e : ((0x5c : UInt8) == 0x22) = false := by decide
          simp only [hc5, Bool.false_and, Bool.false_eq_true, if_false]
          rw [ih']
        · have hdf : (d == 0x22) = false := by simpa using hd
          simp only [hdf, Bool.false_eq_true, if_false] at ih' ⊢
          rw [unescape_cons2]
          simp only [hdf, Bool.and_false, Bool.false_eq_true, if_false]
          rw [ih']

theorem cutQuotedAux_cons (b : UInt8) (t : Bytes) (esc : Nat) (acc : Bytes) :
    cutQuotedAux (b :: t) esc acc =
      if b != 0x22 then cutQuotedAux t (if b == 0x5c then esc + 1 else 0) (b :: acc)
      else if esc % 2 == 1 then cutQuotedAux t 0 (b :: acc)
      else some ((b :: acc).reverse, t) := by
  rw [cutQuotedAux]

theorem cutQuotedAux_esc (op rest : Bytes) (esc : Nat) (acc : Bytes) (h : opWF op = true)
    (hesc : (op = [] ∨ op.head? = some 0x22) → esc = 0) :
    cutQuotedAux (escQ op ++ 0x22 :: rest) esc acc = some (acc.reverse ++ escQ op ++ [0x22], rest) := by
  induction op generalizing esc acc with
  | nil =>
    have : esc = 0 := hesc (Or.inl rfl)
    subst this
    simp [escQ, cutQuotedAux_cons]
  | cons c t ih =>
    have hwt : opWF t = true := by
      cases t with
      | nil => rfl
      | cons d t' =>
        have hh : (!(c == 0x5c && d == 0x22) && opWF (d :: t')) = true := h
        simp only [Bool.and_eq_true] at hh; exact hh.2
    by_cases hc : c = 0x22
    · subst hc
      have : esc = 0 := hesc (Or.inr rfl)
      subst this
      rw [escQ_cons]
      simp only [beq_self_eq_true, if_true, List.cons_append]
      rw [cutQuotedAux_cons]
      have e1 : ((0x5c : UInt8) != 0x22) = true := by decide
      simp only [e1, if_true, beq_self_eq_true]
      rw [cutQuotedAux_cons]
      have e2 : ((0x22 : UInt8) != 0x22) = false := by decide
      simp only [e2, Bool.false_eq_true, if_false]
      have e3 : ((0 + 1) % 2 == 1) = true := by decide
      simp only [e3, if_true]
      rw [ih 0 _ hwt (fun _ => rfl)]
      simp
    · have hcf : (c == 0x22) = false := by simpa using hc
      rw [escQ_cons]
      simp only [hcf, Bool.false_eq_true, if_false, List.cons_append]
      rw [cutQuotedAux_cons]
      have hne : (c != 0x22) = true := by simp [bne, hcf]
      simp only [hne, if_true]
      have hnext : (t = [] ∨ t.head? = some 0x22) → (if (c == 0x5c) = true then esc + 1 else 0) = 0 := by
        intro ht
        have hc5 : (c == 0x5c) = false := by
          cases t with
          | nil =>
            have hh : (c != 0x5c) = true := h
            simpa [bne] using hh
          | cons d t' =>
            rcases ht with ht | ht
            · cases ht
            · simp only [List.head?_cons, Option.some.injEq] at ht
              subst ht
              have hh : (!(c == 0x5c && (0x22 : UInt8) == 0x22) && opWF (0x22 :: t')) = true := h
              simp only [Bool.and_eq_true, Bool.not_eq_true', beq_self_eq_true, Bool.and_true] at hh
              exact hh.1
        simp [hc5]
      rw [ih _ _ hwt hnext]
      simp

/-- C16_operator_roundtrip: an operator written between double quotes with every '"' spelled '\"'
    is cut out exactly (whatever follows it), and unescaping gives the operator back — for every
    operator that can be written at all (`opWF`) -/
theorem C16_operator_roundtrip (op rest : Bytes) (h : opWF op = true) :
    cutQuotedString (0x22 :: (escQ op ++ 0x22 :: rest)) = some (0x22 :: (escQ op ++ [0x22]), rest) ∧
    unescapeQuoted (maybeRemoveQuotes (0x22 :: (escQ op ++ [0x22]))) = op := by
  constructor
  · unfold cutQuotedString
    simp only
    rw [cutQuotedAux_esc op rest 0 [] h (fun _ => rfl)]
    simp
  · have hlen : ¬ ((0x22 :: (escQ op ++ [0x22]) : Bytes).length < 2) := by simp
    have h2 : ((0x22 :: (escQ op ++ [0x22]) : Bytes)).getLast? = some 0x22 := by
      rw [show (0x22 :: (escQ op ++ [0x22]) : Bytes) = (0x22 :: escQ op) ++ [0x22] from rfl, List.getLast?_append]; rfl
    unfold maybeRemoveQuotes
    simp only [hlen, if_false, List.head?_cons, h2]
    simp only [beq_self_eq_true, if_true, List.drop_succ_cons, List.drop_zero]
    rw [List.dropLast_concat]
    exact C16_unescape_esc op h

/-! non-vacuity and concrete anchors -/
example : Ignored (b!"   # SecRule ARGS \"@rx x\" \"id:1,deny\"") := by right; decide
example : opWF (b!"@rx a\"b\\c") = true := by decide
example : parseActionOperator (b!"ARGS \"@streq a\\\"b\" \"id:1,msg:'x,y:z'\"") =
    some (b!"ARGS", b!"@streq a\"b", b!"id:1,msg:'x,y:z'") := by decide
example : (parseActions (b!"id:1,msg:'x,y:z',DENY")).map (·.map (fun a => (a.key, a.val))) =
    some [(b!"id", b!"1"), (b!"msg", b!"x,y:z"), (b!"deny", [])] := by decide
/-- the scanner and the reference grammar agree on a target list using every construct -/
example : parseVariables (b!"ARGS|!ARGS:/^a\\/b/|&TX:'/x|y/'|XML:/*|REQUEST_HEADERS:user-agent") =
    Spec.strictTargets (b!"ARGS|!ARGS:/^a\\/b/|&TX:'/x|y/'|XML:/*|REQUEST_HEADERS:user-agent") := by decide
example : (parseVariables (b!"ARGS|!ARGS:/^a\\/b/|&TX:'/x|y/'")).isSome = true := by decide
/-- malformed lists are rejected, by both -/
example : parseVariables (b!"AR!GS:x") = none ∧ Spec.strictTargets (b!"AR!GS:x") = none := by decide
example : parseVariables (b!"ARGS:/^a/xREQUEST_URI") = none ∧ Spec.strictTargets (b!"ARGS:/^a/xREQUEST_URI") = none := by decide
