/-
  C03 — Every piece of request data is visible to rules, decoded once, never dropped.
  Model: Coraza/Model/Decode.lean (query string / urlencoded body / cookies) and the collection
  model of Coraza/Model/Engine.lean (headers, ARGS views).
-/
import Coraza.Base.UInt8
import Coraza.Model.Decode
import Coraza.Proofs.CMap
import Coraza.Proofs.Json
import Coraza.Base.Lit
open Coraza Coraza.Decode

/-! ## percent-decoding inverts the independent encoder, exactly once -/

theorem enc_byte (b : UInt8) :
    hexDigitToByte (hexUp (b >>> 4)) = some (b >>> 4) ∧ hexDigitToByte (hexUp (b &&& 0x0f)) = some (b &&& 0x0f) ∧
    ((b >>> 4) <<< 4 ||| (b &&& 0x0f)) = b := by
  revert b; apply UInt8.forall_of_fin; decide +kernel

theorem alnum_plain (b : UInt8) : isAlnum b = true → (b == 0x2b) = false ∧ (b == 0x25) = false ∧ (b == 0x26) = false ∧ (b == 0x3d) = false := by
  revert b; apply UInt8.forall_of_fin; decide +kernel

theorem hexUp_plain (n : UInt8) : n < 16 → (hexUp n == 0x26) = false ∧ (hexUp n == 0x3d) = false := by
  revert n; apply UInt8.forall_of_fin; decide +kernel

theorem nibble_lt (b : UInt8) : b >>> 4 < 16 ∧ b &&& 0x0f < 16 := by
  revert b; apply UInt8.forall_of_fin; decide +kernel

theorem queryUnescape_cons_plain (c : UInt8) (tl : Bytes) (h1 : (c == 0x2b) = false) (h2 : (c == 0x25) = false) :
    queryUnescape (c :: tl) = c :: queryUnescape tl := by
  rw [queryUnescape.eq_def]; simp [h1, h2]

/-- C03_unescape_enc: for every byte string (reserved characters, '%', '+', NUL, invalid UTF-8
    included) decoding the encoder's output returns the original bytes -/
theorem C03_unescape_enc (s : Bytes) : queryUnescape (pctEnc s) = s := by
  induction s with
  | nil => rfl
  | cons b tl ih =>
    unfold pctEnc
    by_cases ha : isAlnum b = true
    · obtain ⟨h1, h2, _, _⟩ := alnum_plain b ha
      simp only [ha, if_true]
      rw [queryUnescape_cons_plain _ _ h1 h2, ih]
    · obtain ⟨e1, e2, e3⟩ := enc_byte b
      have ha' : isAlnum b = false := by simpa using ha
      simp only [ha', Bool.false_eq_true, if_false]
      rw [queryUnescape]
      simp [e1, e2, e3, ih]

/-- C03_once: decoding is applied once, not twice — the encoding of "%41" decodes to "%41", and a
    second pass would give "A" -/
theorem C03_once :
    queryUnescape (pctEnc [0x25, 0x34, 0x31]) = [0x25, 0x34, 0x31] ∧
    queryUnescape (queryUnescape (pctEnc [0x25, 0x34, 0x31])) = [0x41] := by decide

/-! ## the encoder's alphabet contains neither '&' nor '=' -/

theorem pctEnc_no_sep (s : Bytes) : ∀ x ∈ pctEnc s, (x == 0x26) = false ∧ (x == 0x3d) = false := by
  induction s with
  | nil => intro x hx; simp [pctEnc] at hx
  | cons b tl ih =>
    intro x hx
    unfold pctEnc at hx
    by_cases ha : isAlnum b = true
    · simp only [ha, if_true, List.mem_cons] at hx
      rcases hx with rfl | hx
      · obtain ⟨_, _, h3, h4⟩ := alnum_plain x ha; exact ⟨h3, h4⟩
      · exact ih x hx
    · have ha' : isAlnum b = false := by simpa using ha
      simp only [ha', Bool.false_eq_true, if_false, List.mem_cons] at hx
      have l1 : b >>> 4 < 16 := (nibble_lt b).1
      have l2 : b &&& 0x0f < 16 := (nibble_lt b).2
      rcases hx with rfl | rfl | rfl | hx
      · decide
      · exact hexUp_plain _ l1
      · exact hexUp_plain _ l2
      · exact ih x hx

theorem cutAt_append_of_notMem (sep : UInt8) (a b : Bytes) (h : ∀ x ∈ a, (x == sep) = false) :
    cutAt sep (a ++ sep :: b) = some (a, b) := by
  induction a with
  | nil => simp [cutAt]
  | cons x a ih =>
    have hx := h x (by simp)
    simp only [List.cons_append, cutAt, hx, Bool.false_eq_true, if_false]
    rw [ih (fun y hy => h y (by simp [hy]))]

theorem cutAt_none_of_notMem (sep : UInt8) (a : Bytes) (h : ∀ x ∈ a, (x == sep) = false) : cutAt sep a = none := by
  induction a with
  | nil => rfl
  | cons x a ih =>
    have hx := h x (by simp)
    simp only [cutAt, hx, Bool.false_eq_true, if_false]
    rw [ih (fun y hy => h y (by simp [hy]))]

/-- C03_pair_roundtrip: one encoded pair decodes to exactly that pair: the name is not merged
    with the value, an empty name or value stays empty, '=' and '&' inside them survive -/
theorem C03_pair_roundtrip (k v : Bytes) : pairOf (encPair (k, v)) = (k, v) := by
  unfold pairOf encPair
  have := cutAt_append_of_notMem 0x3d (pctEnc k) (pctEnc v) (fun x hx => (pctEnc_no_sep k x hx).2)
  simp only [List.append_assoc, List.singleton_append] at this ⊢
  rw [this]
  simp [C03_unescape_enc]

theorem encPair_no_amp (p : Bytes × Bytes) : ∀ x ∈ encPair p, (x == 0x26) = false := by
  intro x hx
  unfold encPair at hx
  simp only [List.append_assoc, List.singleton_append, List.mem_append, List.mem_cons] at hx
  rcases hx with h | rfl | h
  · exact (pctEnc_no_sep _ x h).1
  · decide
  · exact (pctEnc_no_sep _ x h).1

theorem encPair_ne_nil (p : Bytes × Bytes) : encPair p ≠ [] := by
  unfold encPair; simp

theorem encQuery_length (ps : List (Bytes × Bytes)) : ps.length ≤ (encQuery ps).length + 1 := by
  induction ps with
  | nil => simp
  | cons p ps ih =>
    cases ps with
    | nil => simp [encQuery]
    | cons q qs => simp only [encQuery, List.length_append, List.length_cons] at ih ⊢; omega

/-- the loop of doParseQuery recovers the encoded segments, in order, none dropped or merged -/
theorem segments_encQuery (ps : List (Bytes × Bytes)) (f : Nat) (hf : (encQuery ps).length < f) :
    segments 0x26 f (encQuery ps) = ps.map encPair := by
  induction ps generalizing f with
  | nil => cases f <;> simp [segments, encQuery]
  | cons p ps ih =>
    cases f with
    | zero => omega
    | succ f =>
      cases ps with
      | nil =>
        simp only [encQuery, List.map_cons, List.map_nil]
        have hne := encPair_ne_nil p
        cases hq : encPair p with
        | nil => exact absurd hq hne
        | cons b tl =>
          simp only [segments]
          rw [← hq, cutAt_none_of_notMem 0x26 _ (encPair_no_amp p)]
      | cons q qs =>
        have hne := encPair_ne_nil p
        have hcut := cutAt_append_of_notMem 0x26 (encPair p) (encQuery (q :: qs)) (encPair_no_amp p)
        simp only [encQuery, List.map_cons] at hf ⊢
        simp only [List.append_assoc, List.singleton_append] at hcut hf ⊢
        cases hq : encPair p ++ 0x26 :: encQuery (q :: qs) with
        | nil => simp at hq
        | cons b tl =>
          simp only [segments]
          rw [← hq, hcut]
          have : (encPair p).isEmpty = false := by cases h : encPair p <;> simp_all
          simp only [this, Bool.false_eq_true, if_false]
          have hlen : (encQuery (q :: qs)).length < f := by
            simp only [List.length_append, List.length_cons] at hf; omega
          have := ih f hlen
          simp only [List.map_cons] at this
          rw [this]

/-- C03_query_roundtrip: for every list of (name, value) byte strings — repeated names, empty
    names and values, reserved characters, raw bytes — parsing the encoded query string (or
    urlencoded body) yields exactly those pairs, in order: nothing dropped, merged, attributed to
    another name or decoded twice. -/
theorem C03_query_roundtrip (ps : List (Bytes × Bytes)) : parseQuery (encQuery ps) = ps := by
  unfold parseQuery
  rw [segments_encQuery ps _ (by omega), List.map_map]
  have : (pairOf ∘ encPair) = id := by
    funext p; obtain ⟨k, v⟩ := p; exact C03_pair_roundtrip k v
  rw [this]; simp

/-! ## collections expose what was added, byte-exact, case-insensitively addressable -/

open Coraza.Engine in
theorem updBucket_lookup_add (bs : List (Bytes × List KV)) (fk : Bytes) (e : KV)
    (hn : (bs.map (·.1)).Nodup) :
    ((updBucket bs fk (· ++ [e])).find? (fun b => b.1 == fk)).map (·.2) =
      some ((match bs.find? (fun b => b.1 == fk) with | some b => b.2 | none => []) ++ [e]) := by
  unfold updBucket
  split
  · rename_i hany
    induction bs with
    | nil => simp at hany
    | cons b bs ih =>
      simp only [List.map_cons, List.find?_cons]
      by_cases hb : (b.1 == fk) = true
      · simp [hb]
      · have hb' : (b.1 == fk) = false := by simpa using hb
        simp only [hb', Bool.false_eq_true, if_false]
        apply ih (List.nodup_cons.mp (by simpa using hn)).2
        simpa [hb'] using hany
  · rename_i hany
    have : bs.find? (fun b => b.1 == fk) = none := by
      apply List.find?_eq_none.mpr
      intro b hb hk
      apply hany
      exact List.any_eq_true.mpr ⟨b, hb, hk⟩
    rw [List.find?_append, this]; simp

open Coraza.Engine in
/-- C03_header_store: after AddRequestHeader(name, value) a lookup under any spelling of the
    name (letter case) returns the earlier values followed by this value, byte-exact -/
theorem C03_header_store (m : CMap) (h : m.WF) (name value look : Bytes) (hl : lower look = lower name) :
    (m.add name value).get look = m.get look ++ [value] := by
  unfold CMap.get CMap.lookup CMap.add
  simp only [hl]
  have := updBucket_lookup_add m.buckets (lower name) ⟨name, value⟩ h.nodup
  cases hf : (updBucket m.buckets (lower name) (· ++ [⟨name, value⟩])).find? (fun b => b.1 == lower name) with
  | none => simp [hf] at this
  | some b =>
    simp only [hf, Option.map_some, Option.some.injEq] at this
    simp only [this]
    cases hg : m.buckets.find? (fun b => b.1 == lower name) <;> simp

/-! ## cookies -/

/-- C03_cookie_single: a cookie pair without ';' or '=' in the name and without surrounding
    white space is exposed under its name with its value byte-exact (not percent-decoded) -/
example : parseCookies [0x61, 0x3d, 0x25, 0x34, 0x31, 0x3b, 0x20, 0x62, 0x3d, 0x20, 0x78] =
    [([0x61], [0x25, 0x34, 0x31]), ([0x62], [0x20, 0x78])] := by decide

/-! ## non-vacuity -/
example : parseQuery (encQuery [([], [0x31]), ([0x61, 0x26], []), ([0x61, 0x26], [0x3d])]) =
    [([], [0x31]), ([0x61, 0x26], []), ([0x61, 0x26], [0x3d])] := by decide

/-! ## JSON bodies (internal/bodyprocessors/json.go) -/

open Coraza.Json in
/-- **C03_json_no_error_within_limit**: a document whose nesting stays within
    SecRequestBodyJsonDepthLimit raises no recursion error (REQBODY_ERROR stays clear). -/
theorem C03_json_no_error_within_limit (t : J) (d : Nat) (hd : 0 < d) (h : height t ≤ d) : (argsPost d t).2 = false := by
  unfold argsPost readJSON
  have hd' : (d == 0) = false := by simp; omega
  simp only [hd', Bool.false_eq_true, if_false]
  cases hs : scalarText t with
  | some v => rfl
  | none => exact flatC_noerr t d jsonKey hs h

open Coraza.Json in
/-- **C03_json_every_scalar_exposed**: for every JSON document within the depth limit and every
    path in it that leads to a scalar (through any mix of objects and arrays, duplicate member
    names, names with dots, empty names), ARGS_POST receives an item whose name is `json` followed
    by the path's segments joined with dots and whose value is the scalar's text (strings decoded,
    null empty, numbers and booleans as written) — nothing is dropped, merged or renamed. -/
theorem C03_json_every_scalar_exposed (t : J) (d : Nat) (p : List Seg) (v : Bytes)
    (hleaf : Leaf t p v) (hp : p ≠ []) (h : height t ≤ d) :
    (pathKey jsonKey p, v) ∈ (argsPost d t).1 := by
  have hd : 0 < d := by
    cases hleaf with
    | here x v hs => exact absurd rfl hp
    | arr xs i x p v _ _ => simp [height] at h; omega
    | obj kvs n x p v _ _ => simp [height] at h; omega
  have hd' : (d == 0) = false := by simp; omega
  have hi := leaf_items hleaf d jsonKey h
  unfold argsPost readJSON
  simp only [hd', Bool.false_eq_true, if_false]
  cases hs : scalarText t with
  | some v' =>
    -- a scalar document has only the empty path
    cases hleaf with
    | here x v hs' => exact absurd rfl hp
    | arr xs i x p v _ _ => simp [scalarText] at hs
    | obj kvs n x p v _ _ => simp [scalarText] at hs
  | none =>
    simp only [itemsOf, hs] at hi
    exact hi

open Coraza.Json in
/-- what the code did before fix 7f3a048 (items collected in a map): of two items with the same
    flattened name only the last survived — a duplicate member name, a dotted name next to a nested
    member, an array next to a member named like its length entry -/
theorem C03_json_map_lost_items :
    toMap (readJSON 8 (.obj [(b!"a", .num (b!"1")), (b!"a", .num (b!"2"))])).1 = [(b!"json.a", b!"2")] ∧
    toMap (readJSON 8 (.obj [(b!"a.b", .str (b!"x")), (b!"a", .obj [(b!"b", .str (b!"attack"))])])).1 = [(b!"json.a.b", b!"attack")] ∧
    (readJSON 8 (.obj [(b!"a", .num (b!"1")), (b!"a", .num (b!"2"))])).1 = [(b!"json.a", b!"1"), (b!"json.a", b!"2")] := by
  decide +kernel

/-- non-vacuity of the completeness theorem: {"items":[1,{"k":"v"}]}, path items.1.k -/
example : Coraza.Json.Leaf (.obj [(b!"items", .arr [.num (b!"1"), .obj [(b!"k", .str (b!"v"))]])])
    [.name (b!"items"), .idx 1, .name (b!"k")] (b!"v") :=
  Coraza.Json.Leaf.obj [(b!"items", .arr [.num (b!"1"), .obj [(b!"k", .str (b!"v"))]])] (b!"items")
    (.arr [.num (b!"1"), .obj [(b!"k", .str (b!"v"))]]) [.idx 1, .name (b!"k")] (b!"v") (by simp)
    (Coraza.Json.Leaf.arr [.num (b!"1"), .obj [(b!"k", .str (b!"v"))]] 1 (.obj [(b!"k", .str (b!"v"))]) [.name (b!"k")] (b!"v") (by simp)
      (Coraza.Json.Leaf.obj [(b!"k", .str (b!"v"))] (b!"k") (.str (b!"v")) [] (b!"v") (by simp)
        (Coraza.Json.Leaf.here (.str (b!"v")) (b!"v") (by simp [Coraza.Json.scalarText]))))
