/-
  C10 — Body buffering is byte-faithful and limits are enforced exactly.
  Model: Coraza/Model/Body.lean (tied to /repo by the `body` correspondence engine).
  All theorems quantify over every byte string, every chunking, every mix of the three
  entry points, and every (limit, memLimit, action).
-/
import Coraza.Proofs.Body
open Coraza Coraza.Body

/-- state invariant: buffer representation invariant + the buffer's limit is the tx limit -/
structure C10_Inv (s : St) : Prop where
  bb : s.bb.Inv
  lim : s.bb.limit = s.limit

/-- the bytes of one write that the specification says are stored:
    nothing once full; under Reject the whole chunk or nothing; under ProcessPartial
    (and for readers of unknown length) the part that still fits -/
def accepted (s : St) (w : Wr) : Bytes :=
  if s.limit == s.bb.length then [] else
  match w with
  | .slice d => if s.bb.length + d.length ≥ s.limit then (if s.reject then [] else d.take (s.limit - s.bb.length)) else d
  | .known d => if s.bb.length + d.length ≥ s.limit then (if s.reject then [] else d.take (s.limit - s.bb.length)) else d
  | .unknown d => d.take (s.limit - s.bb.length)

@[simp] theorem processBody_bb (s : St) : (processBody s).bb = s.bb := by
  unfold processBody; repeat' split
  all_goals rfl
@[simp] theorem processBody_limit (s : St) : (processBody s).limit = s.limit := by
  unfold processBody; repeat' split
  all_goals rfl
@[simp] theorem processBody_reject (s : St) : (processBody s).reject = s.reject := by
  unfold processBody; repeat' split
  all_goals rfl
@[simp] theorem processBody_side (s : St) : (processBody s).side = s.side := by
  unfold processBody; repeat' split
  all_goals rfl
@[simp] theorem processBody_dataErr (s : St) : (processBody s).dataErr = s.dataErr := by
  unfold processBody; repeat' split
  all_goals rfl

/-- evaluations of the body phase so far, plus one if it may still run -/
def budget (s : St) : Nat := s.bodyRuns + (if s.phaseReady then 1 else 0)

theorem processBody_budget (s : St) : budget (processBody s) ≤ budget s := by
  unfold processBody budget
  repeat' split
  all_goals simp_all

/-- what a step must establish -/
def Good (s s' : St) (acc : Bytes) : Prop :=
  C10_Inv s' ∧ s'.bb.content = s.bb.content ++ acc ∧ s'.limit = s.limit ∧ s'.reject = s.reject ∧ s'.side = s.side ∧
  budget s' ≤ budget s

theorem good_of (s s' : St) (acc : Bytes) (hlim : s.bb.limit = s.limit)
    (h1 : s'.bb.Inv) (h2 : s'.bb.content = s.bb.content ++ acc) (h3 : s'.bb.limit = s.bb.limit)
    (h4 : s'.limit = s.limit) (h5 : s'.reject = s.reject) (h6 : s'.side = s.side)
    (h7 : budget s' ≤ budget s := by first | exact Nat.le_refl _ | exact processBody_budget _) : Good s s' acc :=
  ⟨⟨h1, by rw [h3, h4]; exact hlim⟩, h2, h4, h5, h6, h7⟩

theorem write_take (s : St) (hi : C10_Inv s) (d : Bytes) (wb : Nat) (h : s.bb.length + wb ≤ s.limit) :
    ∃ b', s.bb.write (d.take wb) = some b' ∧ b'.content = s.bb.content ++ d.take wb ∧
      b'.limit = s.bb.limit ∧ b'.Inv := by
  have hlim := hi.lim
  have : s.bb.length + (d.take wb).length ≤ s.bb.limit := by
    simp only [List.length_take]; omega
  obtain ⟨b', h1, h2, _, h4, _, h6⟩ := BB.write_ok s.bb (d.take wb) hi.bb this
  exact ⟨b', h1, h2, h4, h6⟩

theorem copyTail_good (s : St) (hi : C10_Inv s) (d : Bytes) (wb : Nat) (run : Bool)
    (h : s.bb.length + wb ≤ s.limit) : Good s (copyTail s d wb run).1 (d.take wb) := by
  have hlim := hi.lim
  obtain ⟨b', h1, h2, h4, h6⟩ := write_take s hi d wb h
  unfold copyTail
  simp only [h1]
  split
  · split
    · exact good_of s _ _ hlim h6 h2 h4 rfl rfl rfl
    · exact good_of s _ _ hlim (by simpa using h6) (by simpa using h2) (by simpa using h4) (by simp) (by simp) (by simp)
  · cases run
    · exact good_of s _ _ hlim h6 h2 h4 rfl rfl rfl
    · exact good_of s _ _ hlim (by simpa using h6) (by simpa using h2) (by simpa using h4) (by simp) (by simp) (by simp)

/-- one write: the invariant is kept and the stored content grows by exactly `accepted` -/
theorem C10_step (s : St) (w : Wr) (hi : C10_Inv s) : Good s (step s w).1 (accepted s w) := by
  have hlen := hi.bb.le
  have hlim := hi.lim
  have wr := write_take s hi
  have wrAll : ∀ (d : Bytes), s.bb.length + d.length ≤ s.limit →
      ∃ b', s.bb.write d = some b' ∧ b'.content = s.bb.content ++ d ∧ b'.limit = s.bb.limit ∧ b'.Inv := by
    intro d h
    obtain ⟨b', h1, h2, _, h4, _, h6⟩ := BB.write_ok s.bb d hi.bb (by omega)
    exact ⟨b', h1, h2, h4, h6⟩
  by_cases hfull : (s.limit == s.bb.length) = true
  · have hacc : accepted s w = [] := by simp [accepted, hfull]
    rw [hacc]
    cases w <;> simp only [step, writeSlice, readFrom, hfull, if_true] <;>
      exact good_of s s [] hlim hi.bb (by simp) rfl rfl rfl rfl
  · have hfull' : (s.limit == s.bb.length) = false := by simpa using hfull
    have hne : s.limit ≠ s.bb.length := by simpa using hfull
    have tail := copyTail_good s hi
    cases w with
    | slice d =>
      simp only [step, writeSlice, hfull', Bool.false_eq_true, if_false, accepted]
      by_cases hge : s.bb.length + d.length ≥ s.limit
      · simp only [hge, if_true]
        by_cases hr : s.reject = true
        · simp only [hr, if_true]
          exact good_of s _ _ hlim hi.bb (by simp) rfl rfl hr.symm rfl
        · have hr' : s.reject = false := by simpa using hr
          simp only [hr', Bool.false_eq_true, if_false]
          obtain ⟨b', h1, h2, h4, h6⟩ := wr d (s.limit - s.bb.length) (by omega)
          simp only [h1]
          exact good_of s _ _ hlim (by simpa using h6) (by simpa using h2) (by simpa using h4) (by simp) (by simp [hr']) (by simp)
      · simp only [hge, if_false]
        obtain ⟨b', h1, h2, h4, h6⟩ := wrAll d (by omega)
        simp only [h1]
        exact good_of s _ _ hlim h6 h2 h4 rfl rfl rfl
    | known d =>
      simp only [step, readFrom, hfull', Bool.false_eq_true, if_false, if_true, accepted]
      by_cases hge : s.bb.length + d.length ≥ s.limit
      · simp only [hge, if_true]
        by_cases hr : s.reject = true
        · simp only [hr, if_true]
          exact good_of s _ _ hlim hi.bb (by simp) rfl rfl hr.symm rfl
        · have hr' : s.reject = false := by simpa using hr
          simp only [hr', Bool.false_eq_true, if_false]
          -- copyTail runs on the state with dataErr set; it has the same buffer and limits
          have hi' : C10_Inv { s with dataErr := true, reject := false } := ⟨hi.bb, hi.lim⟩
          obtain ⟨g1, g2, g3, g4, g5, g6⟩ :=
            copyTail_good { s with dataErr := true, reject := false } hi' d (s.limit - s.bb.length) true (by simp; omega)
          exact ⟨g1, g2, g3, by rw [g4, hr'], g5, g6⟩
      · simp only [hge, if_false]
        have := tail d d.length false (by omega)
        simpa using this
    | unknown d =>
      simp only [step, readFrom, hfull', Bool.false_eq_true, if_false, accepted]
      exact tail d (s.limit - s.bb.length) false (by omega)

/-! ## every reachable state -/

theorem C10_init_inv (side : Side) (limit memLimit : Nat) (reject : Bool) :
    C10_Inv (init side limit memLimit reject) := by
  refine ⟨⟨?_, ?_, ?_⟩, rfl⟩ <;> simp [init, BB.content]

def acceptedAll (s : St) : List Wr → Bytes
  | [] => []
  | w :: ws => accepted s w ++ acceptedAll (step s w).1 ws

/-- C10_content: after any sequence of writes through any entry points, the stored bytes are
    the old content followed by exactly the accepted part of each write, the invariant
    (length = |content| ≤ limit) holds, and the body phase ran at most as often as allowed. -/
theorem C10_run (s : St) (ws : List Wr) (hi : C10_Inv s) :
    Good s (run s ws).1 (acceptedAll s ws) := by
  induction ws generalizing s with
  | nil => exact good_of s s [] hi.lim hi.bb (by simp) rfl rfl rfl rfl
  | cons w ws ih =>
    obtain ⟨i1, c1, l1, r1, s1, b1⟩ := C10_step s w hi
    obtain ⟨i2, c2, l2, r2, s2, b2⟩ := ih (step s w).1 i1
    simp only [run, acceptedAll]
    exact ⟨i2, by rw [c2, c1, List.append_assoc], l2.trans l1, r2.trans r1, s2.trans s1, Nat.le_trans b2 b1⟩

/-- nothing beyond the limit is ever stored, and `length` is the true size -/
theorem C10_never_beyond_limit (side : Side) (limit memLimit : Nat) (reject : Bool) (ws : List Wr) :
    let s := (run (init side limit memLimit reject) ws).1
    s.bb.content.length ≤ limit ∧ s.bb.length = s.bb.content.length := by
  obtain ⟨i, _, l, _, _, _⟩ := C10_run _ ws (C10_init_inv side limit memLimit reject)
  have h1 := i.bb.le
  have h2 := i.bb.len
  have h3 := i.lim
  have l' : (init side limit memLimit reject).limit = limit := rfl
  rw [l'] at l
  constructor
  · omega
  · exact h2

/-- the body phase of the side is evaluated at most once, whatever the writes -/
theorem C10_body_phase_at_most_once (side : Side) (limit memLimit : Nat) (reject : Bool) (ws : List Wr) :
    (processBody (run (init side limit memLimit reject) ws).1).bodyRuns ≤ 1 := by
  obtain ⟨_, _, _, _, _, b⟩ := C10_run _ ws (C10_init_inv side limit memLimit reject)
  have hb := processBody_budget (run (init side limit memLimit reject) ws).1
  have h0 : budget (init side limit memLimit reject) = 1 := by simp [budget, init]
  have : (processBody (run (init side limit memLimit reject) ws).1).bodyRuns ≤
      budget (processBody (run (init side limit memLimit reject) ws).1) := by
    unfold budget; omega
  omega

/-! ## memory vs. disk is invisible -/

/-- `accepted` looks only at limit, current size, action and the write — not at memLimit -/
theorem accepted_congr (s t : St) (w : Wr) (h1 : s.limit = t.limit) (h2 : s.bb.length = t.bb.length)
    (h3 : s.reject = t.reject) : accepted s w = accepted t w := by
  unfold accepted; rw [h1, h2, h3]

/-- C10_spill_invisible: the bytes every reader, REQUEST_BODY and the body processors
    see do not depend on the in-memory limit (i.e. on whether and when the body spilled) -/
theorem C10_spill_invisible (side : Side) (limit m1 m2 : Nat) (reject : Bool) (ws : List Wr) :
    (run (init side limit m1 reject) ws).1.bb.content = (run (init side limit m2 reject) ws).1.bb.content := by
  suffices h : ∀ (s t : St), C10_Inv s → C10_Inv t → s.limit = t.limit → s.reject = t.reject →
      s.bb.content = t.bb.content → (run s ws).1.bb.content = (run t ws).1.bb.content by
    exact h _ _ (C10_init_inv ..) (C10_init_inv ..) rfl rfl (by simp [init, BB.content])
  induction ws with
  | nil => intro s t _ _ _ _ hc; simpa [run] using hc
  | cons w ws ih =>
    intro s t hs ht hl hr hc
    obtain ⟨i1, c1, l1, r1, _, _⟩ := C10_step s w hs
    obtain ⟨i2, c2, l2, r2, _, _⟩ := C10_step t w ht
    have hlen : s.bb.length = t.bb.length := by rw [hs.bb.len, ht.bb.len, hc]
    have := accepted_congr s t w hl hlen hr
    simp only [run]
    exact ih _ _ i1 i2 (by rw [l1, l2, hl]) (by rw [r1, r2, hr]) (by rw [c1, c2, hc, this])

/-! ## ProcessPartial: exactly the first `limit` bytes -/

theorem take_append_take (c d e : Bytes) (L : Nat) :
    ((c ++ d).take L ++ e).take L = (c ++ d ++ e).take L := by
  generalize c ++ d = x
  rw [List.take_append, List.take_append, List.take_take, Nat.min_self]
  congr 2
  simp only [List.length_take]
  omega

theorem accepted_partial (s : St) (w : Wr) (hi : C10_Inv s) (hr : s.reject = false) :
    s.bb.content ++ accepted s w = (s.bb.content ++ w.data).take s.limit := by
  have hlen := hi.bb.len
  have hle := hi.bb.le
  have hlim := hi.lim
  have hcl : s.bb.content.length ≤ s.limit := by omega
  unfold accepted
  by_cases hfull : (s.limit == s.bb.length) = true
  · have : s.limit = s.bb.content.length := by rw [← hlen]; simpa using hfull
    simp only [hfull, if_true, List.append_nil]
    rw [List.take_append_of_le_length (by omega), List.take_of_length_le (by omega)]
  · have hfull' : (s.limit == s.bb.length) = false := by simpa using hfull
    simp only [hfull', Bool.false_eq_true, if_false]
    have key : ∀ d : Bytes, s.bb.content ++ d.take (s.limit - s.bb.length) = (s.bb.content ++ d).take s.limit := by
      intro d
      rw [List.take_append, List.take_of_length_le hcl, hlen]
    cases w with
    | slice d =>
      simp only [hr, Wr.data]
      split
      · simpa using key d
      · rename_i h; rw [List.take_of_length_le (by simp; omega)]
    | known d =>
      simp only [hr, Wr.data]
      split
      · simpa using key d
      · rename_i h; rw [List.take_of_length_le (by simp; omega)]
    | unknown d => simpa [Wr.data] using key d

/-- C10_partial: under ProcessPartial, whatever the chunking and entry points, the
    inspected body is exactly the first `limit` bytes of what was supplied -/
theorem C10_partial (side : Side) (limit memLimit : Nat) (ws : List Wr) :
    (run (init side limit memLimit false) ws).1.bb.content = ((ws.map Wr.data).flatten).take limit := by
  suffices h : ∀ (s : St), C10_Inv s → s.reject = false →
      (run s ws).1.bb.content = (s.bb.content ++ (ws.map Wr.data).flatten).take s.limit by
    have := h _ (C10_init_inv side limit memLimit false) rfl
    simpa [init, BB.content] using this
  induction ws with
  | nil =>
    intro s hi _
    have : s.bb.content.length ≤ s.limit := by have := hi.bb.len; have := hi.bb.le; have := hi.lim; omega
    simp [run, List.take_of_length_le this]
  | cons w ws ih =>
    intro s hi hr
    obtain ⟨i1, c1, l1, r1, _, _⟩ := C10_step s w hi
    have := ih (step s w).1 i1 (r1.trans hr)
    simp only [run, List.map_cons, List.flatten_cons]
    rw [this, c1, accepted_partial s w hi hr, l1, take_append_take]
    simp [List.append_assoc]

/-! ## Reject: all or nothing, exactly at the limit -/

/-- under Reject a slice or known-length write is stored completely or not at all, and it is
    refused (status 413/500, n = 0) exactly when the cumulative size reaches the limit -/
theorem C10_reject_iff (s : St) (d : Bytes) (hi : C10_Inv s) (hr : s.reject = true)
    (hnf : s.limit ≠ s.bb.length) :
    (s.bb.length + d.length ≥ s.limit →
        (writeSlice s d).2 = ⟨limitIntr s.intr s.side, 0, false⟩ ∧ accepted s (.slice d) = [] ∧
        (writeSlice s d).1.dataErr = true ∧ (writeSlice s d).1.intr = limitIntr s.intr s.side) ∧
    (s.bb.length + d.length < s.limit →
        (writeSlice s d).2 = ⟨s.intr, d.length, false⟩ ∧ accepted s (.slice d) = d) := by
  have hf : (s.limit == s.bb.length) = false := by simpa using hnf
  constructor
  · intro hge
    simp [writeSlice, accepted, hf, hge, hr]
  · intro hlt
    have hnge : ¬ (s.bb.length + d.length ≥ s.limit) := by omega
    obtain ⟨b', h1, _, h3, _, _, _⟩ := BB.write_ok s.bb d hi.bb (by have := hi.lim; omega)
    simp only [writeSlice, accepted, hf, hnge, h1, Bool.false_eq_true, if_false]
    refine ⟨?_, trivial⟩
    simp [h3]

/-! ## readers deliver exactly the stored bytes -/

/-- reading until EOF with any positive buffer sizes (enough of them) returns the content -/
theorem C10_readAll (c : Bytes) (ps : List Nat) (hp : ∀ p ∈ ps, 0 < p) (hs : c.length ≤ ps.sum) :
    readLoop c 0 ps = c := by
  rw [readLoop_eq c 0 ps hp]; simp [List.take_of_length_le hs]

/-- the body variable, when the body phase ran with a body, is exactly the stored bytes -/
theorem C10_var_is_content (s : St) (h0 : s.intr = none) (h1 : s.phaseReady = true)
    (h2 : s.side = .resp ∨ s.bb.length ≠ 0) : (processBody s).bodyVar = some s.bb.content := by
  unfold processBody
  simp only [h0, h1, Option.isSome_none, Bool.false_eq_true, if_false, Bool.not_true]
  rcases h2 with h | h
  · simp [h]
  · cases hs : s.side <;> simp [h]

/-! ## non-vacuity: a spilling run and a non-spilling run of the same writes -/
example :
    let ws := [Wr.slice [1, 2, 3], Wr.unknown [4, 5, 6, 7], Wr.known [8, 9]]
    (run (init .req 8 2 false) ws).1.bb.file = some [1, 2, 3, 4, 5, 6, 7, 8] ∧
    (run (init .req 8 8 false) ws).1.bb.file = none ∧
    (run (init .req 8 8 false) ws).1.bb.content = [1, 2, 3, 4, 5, 6, 7, 8] := by decide
example : (writeSlice (init .req 4 4 true) [1, 2, 3, 4]).2 = ⟨some 413, 0, false⟩ := by decide
