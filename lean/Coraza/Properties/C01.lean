/-
  C01 — Rule matching is exact: no missed match, no phantom match.
  About getField / evalLink / evalLinks / evalRule / rulesLoop of Coraza/Model/Engine.lean,
  for every collection content, every rule, every operator and transformation interpretation.
-/
import Coraza.Proofs.Engine
import Coraza.Proofs.CMap
open Coraza Coraza.Engine

/-! ## selection: exactly the entries whose folded key equals the folded selector -/

/-- C01_selection (maps): for a well-formed case-insensitive collection, selecting by key
    returns exactly the entries whose key equals the selector up to ASCII case — duplicates and
    mixed-case keys included, each with its original-case key — and selecting without key
    returns everything. -/
theorem C01_selection_map (m : CMap) (v : Var) (key : Bytes) (h : m.WF) :
    findMap m v key =
      (m.all.filter (fun e => key.isEmpty || lower e.key == lower key)).map (fun e => ⟨v, e.key, e.value⟩) := by
  unfold findMap
  by_cases hk : key.isEmpty = true
  · have : m.all.filter (fun _ => true) = m.all := List.filter_eq_self.mpr (by simp)
    simp [hk, this]
  · have hk' : key.isEmpty = false := by simpa using hk
    simp only [hk', Bool.false_eq_true, if_false, Bool.false_or]
    rw [CMap.lookup_eq_filter m (lower key) h]

/-- the same for the *_NAMES views (value = key) -/
theorem C01_selection_names (m : CMap) (v : Var) (key : Bytes) (h : m.WF) :
    findNames m v key =
      (m.all.filter (fun e => key.isEmpty || lower e.key == lower key)).map (fun e => ⟨v, e.key, e.key⟩) := by
  unfold findNames
  by_cases hk : key.isEmpty = true
  · have : m.all.filter (fun _ => true) = m.all := List.filter_eq_self.mpr (by simp)
    simp [hk, this]
  · have hk' : key.isEmpty = false := by simpa using hk
    simp only [hk', Bool.false_eq_true, if_false, Bool.false_or]
    rw [CMap.lookup_eq_filter m (lower key) h]

/-- collections built by the API (`Add`), by setvar (`Set`) and by removal stay well-formed -/
theorem C01_wf_reachable (m : CMap) (h : m.WF) (k v : Bytes) :
    (m.add k v).WF ∧ (m.set1 k v).WF ∧ (m.remove k).WF :=
  ⟨CMap.wf_add m k v h, CMap.wf_set1 m k v h, CMap.wf_remove m k h⟩

/-- C01_selection_rx: selecting by a regex key `VAR:/re/` returns exactly the entries whose
    folded key the expression matches (every value of such a key, with the original-case key),
    for every interpretation `p` of the expression -/
theorem C01_selection_rx_map (m : CMap) (v : Var) (p : Bytes → Bool) (h : m.WF) :
    findMapRx m v p = (m.all.filter (fun e => p (lower e.key))).map (fun e => ⟨v, e.key, e.value⟩) := by
  unfold findMapRx
  rw [CMap.bucketFilter_eq m p h]

theorem C01_selection_rx_names (m : CMap) (v : Var) (p : Bytes → Bool) (h : m.WF) :
    findNamesRx m v p = (m.all.filter (fun e => p (lower e.key))).map (fun e => ⟨v, e.key, e.key⟩) := by
  unfold findNamesRx
  rw [CMap.bucketFilter_eq m p h]

/-- exclusions remove exactly the entries whose key equals an excluded key up to case, or whose
    lower-cased key an excluded expression matches (or everything, for a bare `!VAR`); `&` counts
    what is left; a regex-key target selects by its expression -/
theorem C01_getField (env : Env) (tx : Tx) (ecol : List (Var × Exc)) (t : Target) :
    let excs := t.exc ++ (ecol.filter fun r => r.1 == t.var).map (·.2)
    let kept := (selected env tx t).filter (fun md => !(excs.any fun ex => excMatches env ex md))
    getField env tx ecol t =
      if t.count then [⟨t.var, compiledKey t.var t.key, natToBytes kept.length⟩] else kept := by
  simp only [getField, excluded]

/-- what is selected before exclusions: by expression, or by key / everything -/
theorem C01_selected_rx (env : Env) (tx : Tx) (t : Target) (p : Bytes) (h : t.rx = some p) :
    selected env tx t = selectRx tx t.var (env.rx p) := by
  unfold selected; rw [h]

theorem C01_selected_key (env : Env) (tx : Tx) (t : Target) (h : t.rx = none) :
    selected env tx t = select tx t.var (compiledKey t.var t.key) := by
  unfold selected; rw [h]

/-- a plain exception excludes by key up to case, the empty key meaning the whole variable -/
theorem C01_key_exception (env : Env) (k : Bytes) (md : MD) :
    excMatches env ⟨k, none⟩ md = (k.isEmpty || lower k == lower md.key) := rfl

/-- a regex exception never acts through its (empty) key text: with an expression present the
    expression alone decides (the run-time `ctl:ruleRemoveTargetById=…;VAR:/re/` records an empty
    key, which must not mean "the whole variable") -/
theorem C01_rx_exception_only_rx (env : Env) (k p : Bytes) (md : MD) :
    excMatches env ⟨k, some p⟩ md = env.rx p (lower md.key) := rfl

/-! ## one link: the match data are exactly the selected, transformed values the operator accepts -/

/-- the operator's verdict does not depend on the transaction state: no macro in the argument -/
def StaticArg (o : Operator) : Prop := ∀ tk ∈ o.arg, ∃ t, tk = MTok.text t

theorem expand_static (o : Operator) (h : StaticArg o) (tx tx' : Tx) : expand tx o.arg = expand tx' o.arg := by
  unfold expand
  have : ∀ (l : Macro), (∀ tk ∈ l, ∃ t, tk = MTok.text t) → l.flatMap (expandTok tx) = l.flatMap (expandTok tx') := by
    intro l hl
    induction l with
    | nil => rfl
    | cons a l ih =>
      obtain ⟨t, rfl⟩ := hl a (by simp)
      simp only [List.flatMap_cons, expandTok]
      rw [ih (fun tk htk => hl tk (by simp [htk]))]
  exact this o.arg h

theorem execOp_static (env : Env) (o : Operator) (h : StaticArg o) (tx tx' : Tx) (v : Bytes) :
    execOp env tx o v = execOp env tx' o v := by
  unfold execOp; rw [expand_static o h tx tx']

/-- the values of one selected datum that satisfy the operator, as match data -/
def satCands (env : Env) (tx0 : Tx) (l : Link) (o : Operator) (md : MD) : List MD :=
  ((candidates env l md.value).filter (fun c => execOp env tx0 o c)).map (fun c => ⟨md.var, md.key, c⟩)

theorem evalCands_sat (env : Env) (rules : List Rule) (l : Link) (o : Operator) (h : StaticArg o) (md : MD)
    (cs : List Bytes) (tx tx0 : Tx) :
    (evalCands env rules l o md cs tx).2 =
      (cs.filter (fun c => execOp env tx0 o c)).map (fun c => ⟨md.var, md.key, c⟩) := by
  induction cs generalizing tx with
  | nil => rfl
  | cons c cs ih =>
    unfold evalCands
    rw [execOp_static env o h tx tx0]
    by_cases hc : execOp env tx0 o c = true
    · simp only [hc, if_true, List.filter_cons, List.map_cons]
      rw [ih]
    · simp only [hc, Bool.false_eq_true, if_false, List.filter_cons]
      exact ih tx

/-- C01_link: for an operator without macros, the match data of a link over a list of selected
    values are exactly, value by value and in order, the candidates (the transformed value, or
    with multiMatch the original and every changed intermediate value) accepted by the operator
    (negation included in `execOp`) — none missed, none invented. -/
theorem C01_link_values (env : Env) (rules : List Rule) (l : Link) (o : Operator) (h : StaticArg o)
    (mds : List MD) (tx tx0 : Tx) :
    (evalValues env rules l o mds tx).2 = mds.flatMap (satCands env tx0 l o) := by
  induction mds generalizing tx with
  | nil => rfl
  | cons md mds ih =>
    unfold evalValues
    simp only [List.flatMap_cons]
    rw [ih, evalCands_sat env rules l o h md _ tx tx0]
    rfl

/-- C01_negation: a leading `!` yields the exact complement, value by value -/
theorem C01_negation (env : Env) (tx : Tx) (o : Operator) (v : Bytes) :
    execOp env tx { o with neg := true } v = !execOp env tx { o with neg := false } v := by
  simp [execOp]

/-! ## chains and rules -/

/-- C01_chain: a rule is recorded as matched exactly when every link, evaluated in order in the
    state the previous links left, produced at least one match; the recorded data are the
    concatenation of the links' match data. -/
theorem C01_rule_fires_iff (env : Env) (rules : List Rule) (r : Rule) (tx : Tx) (hid : r.id ≠ 0) :
    (∀ ms, (evalLinks env rules r.id r.links tx).2 = some ms →
        (evalRule env rules r tx).matched = tx.matched ++ [⟨r.id, ms⟩]) ∧
    ((evalLinks env rules r.id r.links tx).2 = none → (evalRule env rules r tx).matched = tx.matched) := by
  have q := quiet_evalLinks env rules r.id r.links tx
  unfold evalRule
  rcases hh : evalLinks env rules r.id r.links tx with ⟨tx1, res⟩
  rw [hh] at q
  constructor
  · intro ms hms
    simp only at hms
    subst hms
    have hid' : (r.id != 0) = true := by simpa using hid
    simp only [hid', if_true, matchRule]
    -- flow and disruptive actions do not touch `matched`
    have e : ∀ t : Tx, (runDisr r t).matched = t.matched := by
      intro t; unfold runDisr interrupt; repeat' split
      all_goals rfl
    rw [e]
    have : ((if !r.skipAfter.isEmpty then
        { (if r.skip > 0 then { tx1 with skip := r.skip } else tx1) with skipAfter := r.skipAfter }
        else (if r.skip > 0 then { tx1 with skip := r.skip } else tx1))).matched = tx1.matched := by
      split <;> split <;> rfl
    rw [this, q.matched]
  · intro hn
    simp only at hn
    subst hn
    exact q.matched

theorem evalLinks_some_iff (env : Env) (rules : List Rule) (rid : Nat) (l : Link) (ls : List Link) (tx : Tx) :
    (evalLinks env rules rid (l :: ls) tx).2.isSome =
      (!(evalLink env rules rid l tx).2.isEmpty && (evalLinks env rules rid ls (evalLink env rules rid l tx).1).2.isSome) := by
  rcases h : evalLink env rules rid l tx with ⟨tx1, ms⟩
  simp only [evalLinks, h]
  split
  · rename_i he; simp [he]
  · rename_i he
    rcases h' : evalLinks env rules rid ls tx1 with ⟨tx2, r⟩
    cases r <;> simp [he]

/-! ## order: rules fire in configuration order, only rules of the phase -/

theorem evalOne_matched_ids (env : Env) (all : List Rule) (phase : Nat) (r : Rule) (tx : Tx) :
    (evalOne env all phase r tx).matched.map (·.id) = tx.matched.map (·.id) ∨
    (evalOne env all phase r tx).matched.map (·.id) = tx.matched.map (·.id) ++ [r.id] := by
  unfold evalOne
  have q := quiet_evalLinks env all r.id r.links { tx with matchedVars := {}, evalLog := tx.evalLog ++ [(phase, r.id)] }
  unfold evalRule
  rcases hh : evalLinks env all r.id r.links { tx with matchedVars := {}, evalLog := tx.evalLog ++ [(phase, r.id)] } with ⟨tx1, res⟩
  rw [hh] at q
  have qm : tx1.matched = tx.matched := q.matched
  cases res with
  | none => left; simp only; rw [qm]
  | some ms =>
    simp only
    have e : ∀ t : Tx, (runDisr r t).matched = t.matched := by
      intro t; unfold runDisr interrupt; repeat' split
      all_goals rfl
    have e2 : ((if !r.skipAfter.isEmpty then
        { (if r.skip > 0 then { tx1 with skip := r.skip } else tx1) with skipAfter := r.skipAfter }
        else (if r.skip > 0 then { tx1 with skip := r.skip } else tx1))).matched = tx1.matched := by
      split <;> split <;> rfl
    split
    · right; simp only [matchRule, List.map_append, List.map_cons, List.map_nil]; rw [e, e2, qm]
    · left; rw [e, e2, qm]

/-- C01_order: the ids a phase appends to the matched-rule list form a sublist of the rule
    list restricted to that phase (and phase-0 markers), i.e. configuration order, phase-exact -/
theorem C01_order (env : Env) (all : List Rule) (phase : Nat) (rs : List Rule) (tx : Tx) :
    ∃ l, (rulesLoop env all phase rs tx).matched.map (·.id) = tx.matched.map (·.id) ++ l ∧
      l.Sublist ((rs.filter (fun r => r.phase == 0 || r.phase == phase)).map (·.id)) := by
  induction rs generalizing tx with
  | nil => exact ⟨[], by simp [rulesLoop], by simp⟩
  | cons r rs ih =>
    have skipCase : ∀ t : Tx, t.matched = tx.matched →
        ∃ l, (rulesLoop env all phase rs t).matched.map (·.id) = tx.matched.map (·.id) ++ l ∧
          l.Sublist (((r :: rs).filter (fun r => r.phase == 0 || r.phase == phase)).map (·.id)) := by
      intro t ht
      obtain ⟨l, h1, h2⟩ := ih t
      refine ⟨l, by rw [h1, ht], ?_⟩
      simp only [List.filter_cons]
      split
      · exact h2.trans (by simp)
      · exact h2
    have base : ∃ l, tx.matched.map (·.id) = tx.matched.map (·.id) ++ l ∧
        l.Sublist (((r :: rs).filter (fun r => r.phase == 0 || r.phase == phase)).map (·.id)) := ⟨[], by simp, by simp⟩
    rw [rulesLoop]
    split
    · exact base
    · split
      · exact skipCase tx rfl
      · rename_i hph
        have hph' : (r.phase == 0 || r.phase == phase) = true := by
          simp only [Bool.and_eq_true, bne_iff_ne, ne_eq, not_and, Decidable.not_not] at hph
          by_cases h0 : r.phase = 0
          · simp [h0]
          · simp [hph h0]
        have evalCase : ∃ l, (rulesLoop env all phase rs (evalOne env all phase r tx)).matched.map (·.id) =
            tx.matched.map (·.id) ++ l ∧
            l.Sublist (((r :: rs).filter (fun r => r.phase == 0 || r.phase == phase)).map (·.id)) := by
          obtain ⟨l, h1, h2⟩ := ih (evalOne env all phase r tx)
          simp only [List.filter_cons, hph', if_true, List.map_cons]
          rcases evalOne_matched_ids env all phase r tx with e | e
          · exact ⟨l, by rw [h1, e], h2.trans (by simp)⟩
          · exact ⟨r.id :: l, by rw [h1, e]; simp, by simpa using h2⟩
        split
        · exact skipCase tx rfl
        · split
          · split
            · exact skipCase _ rfl
            · exact skipCase tx rfl
          · split
            · exact skipCase _ rfl
            · split
              · exact base
              · split
                · exact evalCase
                · exact base
              · split
                · exact base
                · split
                  · exact ⟨[], by simp, by simp⟩
                  · exact evalCase
              · exact evalCase

/-! ## non-vacuity -/
example : StaticArg ⟨"streq", [.text [0x78]], false⟩ := by
  intro tk h; simp at h; exact ⟨_, h⟩
example : ((({} : CMap).add [0x41] [1]).add [0x61] [2]).lookup [0x61] = [⟨[0x41], [1]⟩, ⟨[0x61], [2]⟩] := by decide
