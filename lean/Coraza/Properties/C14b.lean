/-
  C14 (continued) — escapeSeqDecode, cssDecode, removeComments, replaceComments, base64
  (Model/Transformations3.lean): change-report soundness, the base64 round trip, and the
  idempotence identities of the property statement.
-/
import Coraza.Properties.C14
import Coraza.Proofs.Tf3
import Coraza.Model.Generated.Tables
open Coraza Coraza.Tf

/-! ## change reports -/

theorem escSeqF_flag (f : Nat) (x : Bytes) (hl : x.length < f) (h : (escSeqF f x).2 = false) :
    (escSeqF f x).1 = x := by
  induction f generalizing x with
  | zero => omega
  | succ f ih =>
    cases x with
    | nil => simp [escSeqF]
    | cons b tl =>
      have hl' : tl.length < f := by simp at hl; omega
      unfold escSeqF at h ⊢
      split at h
      · have := ih tl hl' (by simpa using h)
        simp_all
      · split at h
        · simp_all
        · split at h <;> simp at h

theorem C14_flag_sound_escapeSeqDecode (x : Bytes) (h : (escapeSeqDecode x).changed = false) :
    (escapeSeqDecode x).out = x := by
  unfold escapeSeqDecode at h ⊢
  split
  · rename_i hc
    simp only [hc, if_true] at h
    exact escSeqF_flag (x.length + 1) x (by omega) h
  · rfl

theorem C14_flag_sound_cssDecode (x : Bytes) (h : (cssDecode x).changed = false) :
    (cssDecode x).out = x := by
  unfold cssDecode at h ⊢
  split
  · rename_i hc
    simp only [hc, if_true] at h
    simp at h
  · rfl

theorem rmCommentsF_flag (f : Nat) (x : Bytes) (hl : x.length < f) (h : (rmCommentsF f x false).2 = false) :
    (rmCommentsF f x false).1 = x := by
  induction f generalizing x with
  | zero => omega
  | succ f ih =>
    cases x with
    | nil => simp [rmCommentsF]
    | cons b tl =>
      have hl' : tl.length < f := by simp at hl; omega
      unfold rmCommentsF at h ⊢
      split at h
      all_goals first
        | (simp at h; done)
        | (have := ih tl hl' (by simpa using h); simp_all)

theorem C14_flag_sound_removeComments (x : Bytes) (h : (removeComments x).changed = false) :
    (removeComments x).out = x :=
  rmCommentsF_flag (x.length + 1) x (by omega) h

theorem rpCommentsF_flag (f : Nat) (x : Bytes) (hl : x.length < f) (h : (rpCommentsF f x false).2 = false) :
    (rpCommentsF f x false).1 = x := by
  induction f generalizing x with
  | zero => omega
  | succ f ih =>
    cases x with
    | nil => simp [rpCommentsF]
    | cons b tl =>
      have hl' : tl.length < f := by simp at hl; omega
      unfold rpCommentsF at h ⊢
      split at h
      all_goals first
        | (simp at h; done)
        | (have := ih tl hl' (by simpa using h); simp_all)

theorem C14_flag_sound_replaceComments (x : Bytes) (h : (replaceComments x).changed = false) :
    (replaceComments x).out = x :=
  rpCommentsF_flag (x.length + 1) x (by omega) h

theorem C14_flag_sound_base64 (x : Bytes) :
    (base64Encode x).changed = true ∧ (base64Decode x).changed = true ∧ (base64DecodeExt x).changed = true :=
  ⟨rfl, rfl, rfl⟩

example : removeComments (b!"a/*x*/") = ⟨[0x61, 0], true, false⟩ := by decide +kernel
example : removeComments (b!"a/*x*/b--c") = ⟨b!"ab", true, false⟩ := by decide +kernel
example : replaceComments (b!"a/*x*/b/*") = ⟨b!"a b ", true, false⟩ := by decide +kernel
example : cssDecode (b!"\\41 b\\0\\ff01") = ⟨[0x41, 0x62, 0xef, 0xbf, 0xbd, 0x21], true, false⟩ := by decide +kernel
example : escapeSeqDecode (b!"\\x41\\101\\777\\q\\") = ⟨[0x41, 0x41, 0xff, 0x71, 0x5c], true, false⟩ := by decide +kernel

/-! ## the base64 identity of the property statement: decoding what the standard encoder wrote
    returns the original, for every byte string — with the strict and with the forgiving decoder -/

theorem C14_base64Decode_base64Encode (x : Bytes) : (base64Decode (base64Encode x).out).out = x :=
  b64Dec_encode false x

theorem C14_base64DecodeExt_base64Encode (x : Bytes) : (base64DecodeExt (base64Encode x).out).out = x :=
  b64Dec_encode true x

example : (base64Encode (b!"foob")).out = b!"Zm9vYg==" := by decide +kernel
example : (base64Decode (b!"Zm9v\nYg")).out = b!"foob" := by decide +kernel
example : (base64Decode (b!"Zm9v*Yg==")).out = b!"foo" := by decide +kernel      -- strict: stops at '*'
example : (base64DecodeExt (b!"Zm9v*Yg==")).out = b!"foob" := by decide +kernel  -- forgiving: skips it

/-! ## idempotence of trimming and whitespace removal (the remaining identities of the statement) -/

theorem C14_trim_idem (x : Bytes) : (trim (trim x).out).out = (trim x).out := by
  simp only [trim]
  generalize hy : trimLeftBytes x = y
  have hy' : y = [] ∨ ∃ h t, y = h :: t ∧ isTrimSpace h = false := by
    subst hy
    unfold trimLeftBytes
    cases hd : x.dropWhile isTrimSpace with
    | nil => exact Or.inl rfl
    | cons h t =>
      refine Or.inr ⟨h, t, rfl, ?_⟩
      have := List.head_dropWhile_not isTrimSpace (l := x) (by simp [hd])
      simpa [hd] using this
  rcases hy' with rfl | ⟨h, t, rfl, hp⟩
  · simp [trimRightBytes, trimLeftBytes]
  · rw [trimRightBytes_cons h t hp]
    have e1 : trimLeftBytes (h :: trimRightBytes t) = h :: trimRightBytes t := by
      simp [trimLeftBytes, List.dropWhile, hp]
    rw [e1, trimRightBytes_cons h _ hp]
    congr 1
    simp [trimRightBytes, dropWhile_idem]

theorem C14_removeWhitespace_idem (x : Bytes) :
    (removeWhitespace (removeWhitespace x).out).out = (removeWhitespace x).out := by
  simp [removeWhitespace, List.filter_filter]

theorem C14_compressWhitespace_idem (x : Bytes) :
    (compressWhitespace (compressWhitespace x).out).out = (compressWhitespace x).out := by
  simpa [compressWhitespace] using (compressWsAux_fix x).2

/-! ## the decoding table of the model is the table of the source (translated on every run) -/

theorem C14_base64DecMap_is_source :
    Generated.base64DecMap.length = 128 ∧
    (List.range 128).all (fun c => b64DecMap (UInt8.ofNat c) == Generated.base64DecMap.getD c 0) = true := by
  decide +kernel
