/-
  C14 — Transformations are total, pure functions with sound change reports.

  Only property theorems live here (helpers: Coraza/Proofs/Tf.lean). Totality and purity
  are structural in the model: every transformation is a total Lean function
  `Bytes → Res` with no state; the correspondence engine `tf` ties them to the Go code
  (including non-mutation of the input and run-to-run equality).
-/
import Coraza.Proofs.Tf
import Coraza.Model.TfChain
import Coraza.Model.UrlDecodeUni
import Coraza.Model.Transformations2
import Coraza.Base.Lit
open Coraza Coraza.Tf

/-! ## 1. change reports are sound: never "unchanged" when the output differs -/

theorem C14_flag_sound_urlDecode : FlagSound urlDecode := by
  intro x _ h; unfold urlDecode at *; split <;> simp_all

theorem C14_flag_sound_urlEncode : FlagSound urlEncode := by
  intro x _ h; exact urlEncodeBytes_id_of_safe x h

theorem C14_flag_sound_hexEncode : FlagSound hexEncode := by
  intro x _ h; simp [hexEncode] at h

theorem C14_flag_sound_hexDecode : FlagSound hexDecode := by
  intro x he h; unfold hexDecode at *; split <;> simp_all

theorem C14_flag_sound_removeNulls : FlagSound removeNulls := by
  intro x _ h
  simp only [removeNulls] at h ⊢
  exact filter_eq_self_of_length _ x (by simp at h; omega)

theorem C14_flag_sound_replaceNulls : FlagSound replaceNulls := by
  intro x _ h; simp [replaceNulls] at h ⊢; exact h.symm

theorem C14_flag_sound_trimLeft : FlagSound trimLeft := by
  intro x _ h
  simp only [trimLeft, trimLeftBytes] at h ⊢
  exact dropWhile_eq_self_of_length _ x (by simp at h; omega)

theorem C14_flag_sound_trimRight : FlagSound trimRight := by
  intro x _ h
  simp only [trimRight, trimRightBytes] at h ⊢
  have h' : (x.reverse.dropWhile isTrimSpace).length = x.reverse.length := by simp at h; simp; omega
  rw [dropWhile_eq_self_of_length _ _ h']; simp

theorem C14_flag_sound_trim : FlagSound trim := by
  intro x _ h
  simp only [trim, trimRightBytes, trimLeftBytes] at h ⊢
  have h0 : ((x.dropWhile isTrimSpace).reverse.dropWhile isTrimSpace).length = x.length := by simp at h; omega
  have h1 := dropWhile_length_le isTrimSpace (x.dropWhile isTrimSpace).reverse
  have h2 := dropWhile_length_le isTrimSpace x
  simp only [List.length_reverse] at h1
  have e1 : x.dropWhile isTrimSpace = x := dropWhile_eq_self_of_length _ _ (by omega)
  rw [e1] at h0 ⊢
  rw [dropWhile_eq_self_of_length _ _ (by simpa using h0)]; simp

theorem C14_flag_sound_length : FlagSound Tf.length := by
  intro x _ h; simp [Tf.length] at h

theorem C14_flag_sound_none : FlagSound Tf.none := by
  intro x _ _; rfl

theorem C14_flag_sound_lowercaseAscii : FlagSound lowercaseAscii := by
  intro x _ h; simp [lowercaseAscii] at h ⊢; exact h.symm

theorem C14_flag_sound_uppercaseAscii : FlagSound uppercaseAscii := by
  intro x _ h; simp [uppercaseAscii] at h ⊢; exact h.symm

/-! ## 2. defining identities -/

/-- hexDecode after hexEncode returns the original, without error -/
theorem C14_hexDecode_hexEncode (x : Bytes) : hexDecode (hexEncode x).out = ⟨x, true, false⟩ := by
  simp [hexDecode, hexEncode, hexDecode_hexEncode_bytes]

/-- urlDecode after urlEncode returns the original -/
theorem C14_urlDecode_urlEncode (x : Bytes) : (urlDecode (urlEncode x).out).out = x := by
  simp only [urlDecode, urlEncode]
  by_cases h : ((urlEncodeBytes x).any fun b => b == 37 || b == 43) = true
  · simp only [h, if_true]; exact doURLDecode_urlEncodeBytes x
  · simp only [h]
    -- no '%' or '+' in the encoding: decoding it is still the identity on it, and it equals x
    have := doURLDecode_urlEncodeBytes x
    have hid : doURLDecode (urlEncodeBytes x) = urlEncodeBytes x := by
      generalize urlEncodeBytes x = y at h
      induction y with
      | nil => rfl
      | cons b tl ih =>
        simp only [List.any_cons, Bool.or_eq_true, not_or] at h
        have hb : (b == 0x25) = false ∧ (b == 0x2b) = false := by
          constructor <;> simp_all
        rw [doURLDecode_cons_plain _ _ hb.1]; simp [hb.2]
        exact ih (by simp_all)
    rw [← hid]; exact this

/-! ## 3. idempotence of trimming and NUL removal -/

theorem C14_removeNulls_idem (x : Bytes) : (removeNulls (removeNulls x).out).out = (removeNulls x).out := by
  simp [removeNulls, List.filter_filter]

theorem C14_trimLeft_idem (x : Bytes) : (trimLeft (trimLeft x).out).out = (trimLeft x).out := by
  simp [trimLeft, trimLeftBytes, dropWhile_idem]

theorem C14_trimRight_idem (x : Bytes) : (trimRight (trimRight x).out).out = (trimRight x).out := by
  simp [trimRight, trimRightBytes, dropWhile_idem]

/-! ## 4. multiMatch sees the original and every distinct intermediate value -/

/-- With sound change reports, every intermediate value (the result of every prefix of
    the transformation list) is among the values handed to the operator by multiMatch. -/
theorem C14_multimatch_complete (ts : List T) (hs : ∀ t ∈ ts, FlagSound t) (v : Bytes) (k : Nat) :
    execTfs (ts.take k) v ∈ execMulti ts v := by
  induction ts generalizing v k with
  | nil => simp [execTfs, execMulti]
  | cons t ts ih =>
    cases k with
    | zero => simp [execTfs, execMulti]
    | succ k =>
      simp only [List.take_succ_cons, execTfs, execMulti, execMultiAux]
      have hst : FlagSound t := hs t (by simp)
      have ih' := fun v => ih (fun t ht => hs t (by simp [ht])) v k
      by_cases he : (t v).err = true
      · simp only [he, if_true]
        have := ih' v
        simp only [execMulti, List.mem_cons] at this ⊢
        exact this
      · have he' : (t v).err = false := by simpa using he
        simp only [he', Bool.false_eq_true, if_false]
        by_cases hc : (t v).changed = true
        · simp only [hc, if_true]
          have := ih' (t v).out
          simp only [execMulti, List.mem_cons] at this ⊢
          rcases this with h | h
          · right; left; exact h
          · right; right; exact h
        · have hc' : (t v).changed = false := by simpa using hc
          rw [hst v he' hc']
          simp only [hc', Bool.false_eq_true, if_false]
          have := ih' v
          simp only [execMulti, List.mem_cons] at this ⊢
          exact this

/-- and nothing else: every evaluated value is the result of some prefix -/
theorem C14_multimatch_sound (ts : List T) (hs : ∀ t ∈ ts, FlagSound t) (v w : Bytes)
    (hw : w ∈ execMulti ts v) : ∃ k, w = execTfs (ts.take k) v := by
  induction ts generalizing v with
  | nil => simp [execMulti, execMultiAux] at hw; exact ⟨0, by simp [execTfs, hw]⟩
  | cons t ts ih =>
    have hst : FlagSound t := hs t (by simp)
    have ih' := fun v hw => ih (fun t ht => hs t (by simp [ht])) v hw
    simp only [execMulti, execMultiAux, List.mem_cons] at hw
    rcases hw with h | h
    · exact ⟨0, by simp [execTfs, h]⟩
    · by_cases he : (t v).err = true
      · simp only [he, if_true] at h
        obtain ⟨k, hk⟩ := ih' v (by simp [execMulti, h])
        exact ⟨k + 1, by simp [execTfs, he, hk]⟩
      · have he' : (t v).err = false := by simpa using he
        simp only [he', Bool.false_eq_true, if_false] at h
        by_cases hc : (t v).changed = true
        · simp only [hc, if_true, List.mem_cons] at h
          obtain ⟨k, hk⟩ := ih' (t v).out (by simp only [execMulti, List.mem_cons]; exact h)
          exact ⟨k + 1, by simp [execTfs, he', hk]⟩
        · have hc' : (t v).changed = false := by simpa using hc
          simp only [hc', Bool.false_eq_true, if_false] at h
          obtain ⟨k, hk⟩ := ih' v (by simp [execMulti, h])
          exact ⟨k + 1, by simp [execTfs, he', hst v he' hc', hk]⟩

/-- the counter-example shape that makes soundness necessary: one unsound "unchanged"
    report hides a differing value from the operator (this is what F-C14-1 was). -/
theorem C14_multimatch_needs_flag_sound :
    ∃ (t : T) (v : Bytes), ¬ FlagSound t ∧ execTfs [t] v ∉ execMulti [t] v :=
  ⟨fun _ => ⟨[1], false, false⟩, [0], by
    constructor
    · intro h; have := h [0] rfl rfl; simp at this
    · simp [execTfs, execMulti, execMultiAux]⟩

/-! ## non-vacuity -/
example : urlDecode [0x25, 0x34, 0x31, 0x2b, 0x62] = ⟨[0x41, 0x20, 0x62], true, false⟩ := by decide
example : (hexDecode [0x34, 0x67]).err = true := by decide
example : ∀ t ∈ [urlDecode, trim, removeNulls, hexEncode], FlagSound t := by
  intro t ht
  simp only [List.mem_cons, List.not_mem_nil, or_false] at ht
  rcases ht with rfl | rfl | rfl | rfl
  · exact C14_flag_sound_urlDecode
  · exact C14_flag_sound_trim
  · exact C14_flag_sound_removeNulls
  · exact C14_flag_sound_hexEncode

/-! ## urlDecodeUni (url_decode_uni.go; the best-fit table is regenerated from the Go source on every run) -/


theorem uniDecodeF_flag (f : Nat) (x : Bytes) (hl : x.length < f) (h : (uniDecodeF f x).2 = false) :
    (uniDecodeF f x).1 = x := by
  induction f generalizing x with
  | zero => omega
  | succ f ih =>
    cases x with
    | nil => simp [uniDecodeF]
    | cons b tl =>
      have hl' : tl.length < f := by simp at hl; omega
      unfold uniDecodeF at h ⊢
      split at h
      · simp at h
      · split at h
        · have := ih tl hl' (by simpa using h)
          simp_all
        · rename_i hb1 hb2
          have hb : b = 0x25 := by simpa using hb2
          split at h
          · rename_i u rest
            have hr : rest.length < f := by simp at hl'; omega
            split at h
            · split at h
              · rename_i a b2 c2 d rest4
                split at h
                · simp at h
                · have := ih _ hr (by simpa using h)
                  simp_all
              · have := ih _ hr (by simpa using h)
                simp_all
            · split at h
              · split at h
                · simp at h
                · have := ih _ hl' (by simpa using h)
                  simp_all
              · have := ih _ hl' (by simpa using h)
                simp_all
          · simp_all

/-- **C14_flag_sound_urlDecodeUni**: urlDecodeUni never reports "unchanged" with a different output:
    skipped (invalid or truncated) escapes are copied verbatim, and only a decoded escape or a `+`
    raises the flag — for every byte string. -/
theorem C14_flag_sound_urlDecodeUni (x : Bytes) (h : (urlDecodeUni x).changed = false) : (urlDecodeUni x).out = x := by
  unfold urlDecodeUni at h ⊢
  split
  · rename_i hany
    simp only [hany, if_true] at h
    have := uniDecodeF_flag (x.length + 1) x (by omega) (by simpa [uniDecode] using h)
    simpa [uniDecode] using this
  · rfl

/-- scanning goes on after a truncated `%u`: the escape or `+` that follows is still decoded
    (the behaviour seed C14-3 breaks), and best-fit / full-width folding -/
example : urlDecodeUni (b!"%u%41") = ⟨b!"%uA", true, false⟩ := by decide +kernel
example : urlDecodeUni (b!"id=1%u+or") = ⟨b!"id=1%u or", true, false⟩ := by decide +kernel
example : urlDecodeUni (b!"%uff1cscript%u2019") = ⟨b!"<script'", true, false⟩ := by decide +kernel
example : urlDecodeUni (b!"%u00") = ⟨b!"%u00", false, false⟩ := by decide +kernel

/-! ## jsDecode, cmdLine, removeCommentsChar, compressWhitespace (Model/Transformations2.lean) -/

theorem removeCommentsCharF_flag (f : Nat) (x : Bytes) (hl : x.length < f) (h : (removeCommentsCharF f x).2 = false) :
    (removeCommentsCharF f x).1 = x := by
  induction f generalizing x with
  | zero => omega
  | succ f ih =>
    cases x with
    | nil => simp [removeCommentsCharF]
    | cons b tl =>
      have hl' : tl.length < f := by simp at hl; omega
      unfold removeCommentsCharF at h ⊢
      split at h
      all_goals first
        | (simp at h; done)
        | (have := ih tl hl' (by simpa using h); simp_all)

theorem compressWsAux_flag (x : Bytes) (inWs : Bool) (h : (compressWsAux x inWs).2 = false) :
    (compressWsAux x inWs).1 = x := by
  induction x generalizing inWs with
  | nil => simp [compressWsAux]
  | cons b tl ih =>
    unfold compressWsAux at h ⊢
    split at h
    · split at h
      · simp at h
      · rename_i hsp hin
        simp only [Bool.or_eq_false_iff] at h
        have := ih true h.1
        have hb : b = 0x20 := by simpa using h.2
        simp_all
    · have := ih false (by simpa using h)
      simp_all

theorem jsDecodeF_flag (f : Nat) (x : Bytes) (hl : x.length < f) (h : (jsDecodeF f x).2 = false) :
    (jsDecodeF f x).1 = x := by
  induction f generalizing x with
  | zero => omega
  | succ f ih =>
    cases x with
    | nil => simp [jsDecodeF]
    | cons b tl =>
      have hl' : tl.length < f := by simp at hl; omega
      unfold jsDecodeF at h ⊢
      split at h
      · have := ih tl hl' (by simpa using h)
        simp_all
      · split at h
        · simp_all
        · simp at h

theorem cmdLineAux_flag (x : Bytes) (space : Bool) (acc : Bytes) (ch : Bool)
    (h : (cmdLineAux x space acc ch).2 = false) :
    ch = false ∧ (cmdLineAux x space acc ch).1 = acc.reverse ++ x := by
  induction x generalizing space acc ch with
  | nil => simp_all [cmdLineAux]
  | cons a tl ih =>
    unfold cmdLineAux at h ⊢
    by_cases c1 : (a == 0x22 || a == 0x27 || a == 0x5c || a == 0x5e) = true
    · simp only [c1, if_true] at h
      have := (ih space acc true h).1; simp at this
    · simp only [c1, Bool.false_eq_true, if_false] at h ⊢
      by_cases c2 : (a == 0x20 || a == 0x2c || a == 0x3b || a == 0x09 || a == 0x0d || a == 0x0a) = true
      · simp only [c2, if_true] at h ⊢
        by_cases c3 : space = true
        · simp only [c3, Bool.not_true, Bool.false_eq_true, if_false] at h
          have := (ih true acc true h).1; simp at this
        · have c3' : space = false := by simpa using c3
          simp only [c3', Bool.not_false, if_true] at h ⊢
          obtain ⟨h1, h2⟩ := ih true (0x20 :: acc) _ h
          simp only [Bool.or_eq_false_iff] at h1
          have ha : a = 0x20 := by simpa using h1.2
          refine ⟨h1.1, ?_⟩
          rw [h2, ha]; simp
      · simp only [c2, Bool.false_eq_true, if_false] at h ⊢
        by_cases c4 : (a == 0x2f || a == 0x28) = true
        · simp only [c4, if_true] at h ⊢
          by_cases c3 : space = true
          · simp only [c3, if_true] at h
            have := (ih false _ true h).1; simp at this
          · have c3' : space = false := by simpa using c3
            simp only [c3', Bool.false_eq_true, if_false] at h ⊢
            obtain ⟨h1, h2⟩ := ih false (a :: acc) ch h
            exact ⟨h1, by rw [h2]; simp⟩
        · simp only [c4, Bool.false_eq_true, if_false] at h ⊢
          by_cases c5 : (65 ≤ a && a ≤ 90) = true
          · simp only [c5, if_true] at h
            have := (ih false _ true h).1; simp at this
          · simp only [c5, Bool.false_eq_true, if_false] at h ⊢
            obtain ⟨h1, h2⟩ := ih false (a :: acc) ch h
            exact ⟨h1, by rw [h2]; simp⟩

/-- **C14_flag_sound_jsDecode**: "unchanged" only with the input returned as it was, for every byte string -/
theorem C14_flag_sound_jsDecode (x : Bytes) (h : (jsDecode x).changed = false) : (jsDecode x).out = x := by
  unfold jsDecode at h ⊢
  split
  · rename_i hc
    simp only [hc, if_true] at h
    exact jsDecodeF_flag (x.length + 1) x (by omega) h
  · rfl

theorem C14_flag_sound_cmdLine (x : Bytes) (h : (cmdLine x).changed = false) : (cmdLine x).out = x := by
  have := (cmdLineAux_flag x false [] false h).2
  simpa [cmdLine] using this

theorem C14_flag_sound_removeCommentsChar (x : Bytes) (h : (removeCommentsChar x).changed = false) :
    (removeCommentsChar x).out = x :=
  removeCommentsCharF_flag (x.length + 1) x (by omega) h

theorem C14_flag_sound_compressWhitespace (x : Bytes) (h : (compressWhitespace x).changed = false) :
    (compressWhitespace x).out = x :=
  compressWsAux_flag x false h

theorem C14_flag_sound_removeWhitespace (x : Bytes) (h : (removeWhitespace x).changed = false) :
    (removeWhitespace x).out = x := by
  simpa [removeWhitespace] using h

example : removeWhitespace (b!" a\tb \n") = ⟨b!"ab", true, false⟩ := by decide +kernel

/-- octal, hex and \u escapes decode to the byte they denote (the defect repaired by beb09da made
    `\101` a NUL byte followed by "1") -/
example : jsDecode (b!"\\101\\x41\\u0041\\n") = ⟨[0x41, 0x41, 0x41, 0x0a], true, false⟩ := by decide +kernel
example : jsDecode (b!"\\477") = ⟨[0x27, 0x37], true, false⟩ := by decide +kernel
example : cmdLine (b!"C^md  /c ,;\"dir\"") = ⟨b!"cmd/c dir", true, false⟩ := by decide +kernel
