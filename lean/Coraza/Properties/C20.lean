/-
  C20 — Failures are reported, never swallowed, and no temporary files are left behind.
  Model: Coraza/Model/Faults.lean. Every theorem quantifies over every fault oracle
  (`oracle : Kind → Nat → Bool`: which call of which kind fails — any number of failures,
  in any pattern), every buffer state and every data chunk.
-/
import Coraza.Model.Faults
open Coraza Coraza.Faults

/-! ## facts about the primitives -/

@[simp] theorem call_files (w : W) (k : Kind) : (w.call k).1.files = w.files := by simp [W.call]
@[simp] theorem call_next (w : W) (k : Kind) : (w.call k).1.next = w.next := by simp [W.call]
@[simp] theorem call_failed (w : W) (k : Kind) : (w.call k).1.failed = (w.failed || (w.call k).2) := by simp [W.call]
@[simp] theorem create_failed (w : W) : w.create.1.failed = w.failed := rfl
@[simp] theorem create_files (w : W) : w.create.1.files = w.files ++ [w.next] := rfl
@[simp] theorem create_id (w : W) : w.create.2 = w.next := rfl
@[simp] theorem remove_failed (w : W) (i : Nat) : (w.remove i).failed = w.failed := rfl
@[simp] theorem remove_files (w : W) (i : Nat) : (w.remove i).files = w.files.filter (· != i) := rfl

/-! ## a failed primitive makes the call return an error -/

/-- C20_write_surfaces: if BodyBuffer.Write reports success, no file-system primitive failed
    during it. Contrapositive: any failed create/write makes Write return an error (which
    WriteRequestBody / ReadRequestBodyFrom / WriteResponseBody hand to the connector). -/
theorem C20_write_surfaces (w : W) (b : FBB) (d : Bytes) (h : (b.write w d).2.2 = false) :
    (b.write w d).1.failed = w.failed := by
  revert h
  unfold FBB.write
  by_cases hd : d.isEmpty = true
  · simp [hd]
  by_cases hl : b.length + d.length > b.limit
  · simp [hd, hl]
  by_cases ht : b.length + d.length > b.memLimit
  · simp only [hd, hl, ht, if_true, if_false, Bool.false_eq_true]
    cases b.file with
    | none =>
      simp only
      by_cases f1 : (w.call .openat).2 = true
      · simp [f1]
      by_cases f2 : ((w.call .openat).1.create.1.call .write).2 = true
      · simp [f1, f2]
      by_cases f3 : (((w.call .openat).1.create.1.call .write).1.call .write).2 = true
      · simp [f1, f2, f3]
      simp_all
    | some id =>
      simp only
      by_cases f1 : (w.call .write).2 = true
      · simp [f1]
      simp_all
  · simp [hd, hl, ht]

/-- what a reader of the buffer sees -/
def Coraza.Faults.FBB.content (b : FBB) : Bytes := match b.file with | none => b.mem | some _ => b.fcontent

/-- state invariant of a buffer none of whose writes has failed: a spill file exists exactly when
    the length is above the memory limit -/
def Coraza.Faults.FBB.Good (b : FBB) : Prop := (b.file = none → b.fcontent = []) ∧ (b.file ≠ none → b.length > b.memLimit)

/-- C20_write_ok_stores: a Write that reports success has stored exactly `d` (what a later reader
    sees grows by `d`), and keeps the buffer Good; so "success" is never a silent partial write -/
theorem C20_write_ok_stores (w : W) (b : FBB) (d : Bytes) (h : (b.write w d).2.2 = false) (hg : b.Good) :
    (b.write w d).2.1.content = b.content ++ d ∧ (b.write w d).2.1.Good := by
  revert h
  unfold FBB.write FBB.content FBB.Good at *
  by_cases hd : d.isEmpty = true
  · have : d = [] := by simpa using hd
    subst this; simp; exact hg
  by_cases hl : b.length + d.length > b.limit
  · simp [hd, hl]
  by_cases ht : b.length + d.length > b.memLimit
  · simp only [hd, hl, ht, if_true, if_false, Bool.false_eq_true]
    cases hfile : b.file with
    | none =>
      simp only
      by_cases f1 : (w.call .openat).2 = true
      · simp [f1]
      by_cases f2 : ((w.call .openat).1.create.1.call .write).2 = true
      · simp [f1, f2]
      by_cases f3 : (((w.call .openat).1.create.1.call .write).1.call .write).2 = true
      · simp [f1, f2, f3]
      simp_all
    | some id =>
      simp only
      by_cases f1 : (w.call .write).2 = true
      · simp [f1]
      simp_all
  · simp only [hd, hl, ht, if_false, Bool.false_eq_true]
    cases hfile : b.file with
    | none => simp_all
    | some id => have := hg.2 (by simp [hfile]); omega

/-- C20_upload_failure_surfaces: if the upload loop reports success, nothing failed in it.
    Contrapositive: a failed create/copy/close of an upload file makes the processor return an
    error. -/
theorem C20_upload_failure_surfaces (w : W) (tx : FTx) (n : Nat) (h : (storeParts w tx n).2.2 = false) :
    (storeParts w tx n).1.failed = w.failed := by
  induction n generalizing w tx with
  | zero => simp [storeParts]
  | succ n ih =>
    revert h
    simp only [storeParts]
    by_cases f1 : (w.call .openat).2 = true
    · simp [f1]
    by_cases f2 : ((w.call .openat).1.create.1.call .write).2 = true
    · simp [f1, f2]
    by_cases f3 : (((w.call .openat).1.create.1.call .write).1.call .close).2 = true
    · simp [f1, f2, f3]
    simp only [f1, f2, f3, Bool.or_self, Bool.false_eq_true, if_false]
    intro h
    rw [ih _ _ h]
    simp_all

/-- …and the error is visible to rules: MULTIPART_STRICT_ERROR is raised whenever it returns one -/
theorem C20_upload_error_flag (w : W) (tx : FTx) (n : Nat) (h : (storeParts w tx n).2.2 = true) :
    (storeParts w tx n).2.1.msErr = true := by
  induction n generalizing w tx with
  | zero => simp [storeParts] at h
  | succ n ih =>
    revert h
    simp only [storeParts]
    by_cases f1 : (w.call .openat).2 = true
    · simp [f1]
    by_cases f23 : (((w.call .openat).1.create.1.call .write).2 || (((w.call .openat).1.create.1.call .write).1.call .close).2) = true
    · simp [f1, f23]
    simp only [f1, f23, Bool.false_eq_true, if_false]
    exact ih _ _

/-- C20_body_not_inspected_on_error: ProcessRequestBody never reports a body as inspected when
    reading it failed: REQBODY_ERROR is set (so a rule can deny) and REQUEST_BODY is not populated -/
theorem C20_read_failure_flag (w : W) (tx : FTx) (h0 : tx.bb.length ≠ 0)
    (hr : (tx.bb.readAll w).2 = none) :
    (processBody w tx false 0).2.reqbodyErr = true ∧ (processBody w tx false 0).2.bodyVar = tx.bodyVar := by
  unfold processBody
  have : (tx.bb.length == 0) = false := by simpa using h0
  simp only [this, Bool.false_eq_true, if_false]
  generalize hg : tx.bb.readAll w = r at hr
  obtain ⟨w', o⟩ := r
  simp only at hr
  subst hr
  simp

/-! ## Reset and Close leave nothing behind, or say so -/

/-- C20_reset_no_leak: after Reset the spill file is gone, unless Reset returned an error -/
theorem C20_reset_no_leak (w : W) (b : FBB) (id : Nat) (hf : b.file = some id)
    (herr : (b.reset w).2.2 = false) : id ∉ (b.reset w).1.files ∧ (b.reset w).2.1.file = none := by
  revert herr
  unfold FBB.reset
  simp only [hf]
  intro herr
  simp only [Bool.or_eq_false_iff] at herr
  simp [herr.2]

theorem reset_files_subset (w : W) (b : FBB) : ∀ x, x ∈ (b.reset w).1.files → x ∈ w.files := by
  intro x
  unfold FBB.reset
  cases b.file with
  | none => simp
  | some id =>
    simp only
    split
    · simp
    · simp only [remove_files, call_files, List.mem_filter]; exact fun h => h.1

theorem removeUploads_spec (w : W) (ids : List Nat) :
    ((removeUploads w ids).2 = false → ∀ id ∈ ids, id ∉ (removeUploads w ids).1.files) ∧
    (∀ x, x ∈ (removeUploads w ids).1.files → x ∈ w.files) := by
  induction ids generalizing w with
  | nil => simp [removeUploads]
  | cons id ids ih =>
    simp only [removeUploads]
    generalize hw1 : (if (w.call .unlink).2 = true then (w.call .unlink).1 else (w.call .unlink).1.remove id) = w1
    have hsub : ∀ x, x ∈ w1.files → x ∈ w.files := by
      intro x hx
      rw [← hw1] at hx
      split at hx
      · simpa using hx
      · simp only [remove_files, call_files, List.mem_filter] at hx; exact hx.1
    obtain ⟨i1, i2⟩ := ih w1
    constructor
    · intro herr
      simp only [Bool.or_eq_false_iff] at herr
      intro x hx
      rcases List.mem_cons.mp hx with rfl | hx
      · intro hmem
        have := i2 x hmem
        rw [← hw1] at this
        simp [herr.1] at this
      · exact i1 herr.2 x hx
    · intro x hx; exact hsub x (i2 x hx)

@[simp] theorem call_oracle (w : W) (k : Kind) : (w.call k).1.oracle = w.oracle := by simp [W.call]
@[simp] theorem call_cnt_self (w : W) (k : Kind) : (w.call k).1.cnt k = w.cnt k + 1 := by simp [W.call]
@[simp] theorem call_result (w : W) (k : Kind) : (w.call k).2 = w.oracle k (w.cnt k + 1) := by simp [W.call]

/-- C20_leftover_only_if_own_unlink_failed: Close keeps going after a failed removal — an upload
    that is still there after the removal loop is one whose *own* os.Remove failed (the i-th
    registered upload is removed by the i-th unlink of the loop) -/
theorem C20_leftover_only_if_own_unlink_failed (w : W) (ids : List Nat) (i : Nat) (h : i < ids.length)
    (hleft : ids[i] ∈ (removeUploads w ids).1.files) : w.oracle .unlink (w.cnt .unlink + i + 1) = true := by
  induction ids generalizing w i with
  | nil => simp at h
  | cons id ids ih =>
    simp only [removeUploads] at hleft
    generalize hw1 : (if (w.call .unlink).2 = true then (w.call .unlink).1 else (w.call .unlink).1.remove id) = w1 at hleft
    have ho : w1.oracle = w.oracle := by rw [← hw1]; split <;> simp [W.remove]
    have hc : w1.cnt .unlink = w.cnt .unlink + 1 := by rw [← hw1]; split <;> simp [W.remove]
    cases i with
    | zero =>
      simp only [List.getElem_cons_zero] at hleft
      have hin := (removeUploads_spec w1 ids).2 id hleft
      rw [← hw1] at hin
      by_cases hf : (w.call .unlink).2 = true
      · simpa using hf
      · simp only [call_result] at hf
        simp [hf] at hin
    | succ j =>
      simp only [List.getElem_cons_succ] at hleft
      have := ih w1 j (by simpa using h) hleft
      rw [ho, hc] at this
      rw [← this]; congr 1; omega

/-- every temp file that exists is on the transaction's books: a registered upload
    (FILES_TMPNAMES) or the buffer's spill file -/
def Booked (w : W) (tx : FTx) : Prop := ∀ id ∈ w.files, id ∈ tx.uploads ∨ tx.bb.file = some id

/-- C20_close_no_leak: if every existing temp file is booked, then after Close (uploads not kept)
    no temp file is left — or Close returned an error -/
theorem C20_close_no_leak (w : W) (tx : FTx) (hb : Booked w tx) (_hpre : "close" ∉ tx.errs)
    (hok : "close" ∉ (closeTx w tx false).2.errs) :
    (closeTx w tx false).1.files = [] := by
  unfold closeTx at *
  simp only [Bool.false_eq_true, if_false] at hok ⊢
  obtain ⟨r1, r2⟩ := removeUploads_spec w tx.uploads
  generalize hru : removeUploads w tx.uploads = ru at *
  have hnoerr : (ru.2 || (tx.bb.reset ru.1).2.2) = false := by
    by_cases h : (ru.2 || (tx.bb.reset ru.1).2.2) = true
    · simp [h] at hok
    · simpa using h
  simp only [Bool.or_eq_false_iff] at hnoerr
  apply List.eq_nil_iff_forall_not_mem.mpr
  intro x hx
  have hxw1 : x ∈ ru.1.files := reset_files_subset _ _ x hx
  rcases hb x (r2 x hxw1) with hu | hs
  · exact r1 hnoerr.1 x hu hxw1
  · exact (C20_reset_no_leak ru.1 tx.bb x hs hnoerr.2).1 hx

/-! ## the books are kept by every step -/

theorem write_booked (w : W) (tx : FTx) (d : Bytes) (hb : Booked w tx) :
    Booked (tx.bb.write w d).1 { tx with bb := (tx.bb.write w d).2.1 } := by
  unfold Booked at *
  unfold FBB.write
  by_cases hd : d.isEmpty = true
  · simpa [hd] using hb
  by_cases hl : tx.bb.length + d.length > tx.bb.limit
  · simpa [hd, hl] using hb
  by_cases ht : tx.bb.length + d.length > tx.bb.memLimit
  · simp only [hd, hl, ht, if_true, if_false, Bool.false_eq_true]
    cases hfile : tx.bb.file with
    | none =>
      simp only
      have hb' : ∀ id ∈ w.files, id ∈ tx.uploads := by
        intro id hid; rcases hb id hid with h | h
        · exact h
        · rw [hfile] at h; cases h
      by_cases f1 : (w.call .openat).2 = true
      · simp only [f1, if_true, call_files]; intro id hid; exact Or.inl (hb' id hid)
      by_cases f2 : ((w.call .openat).1.create.1.call .write).2 = true
      · simp only [f1, f2, if_true, if_false, Bool.false_eq_true, call_files, create_files, create_id, call_next]
        intro id hid
        rcases List.mem_append.mp hid with h | h
        · exact Or.inl (hb' id h)
        · simp at h; simp [h]
      by_cases f3 : (((w.call .openat).1.create.1.call .write).1.call .write).2 = true
      · simp only [f1, f2, f3, if_true, if_false, Bool.false_eq_true, call_files, create_files, create_id, call_next]
        intro id hid
        rcases List.mem_append.mp hid with h | h
        · exact Or.inl (hb' id h)
        · simp at h; simp [h]
      · simp only [f1, f2, f3, if_false, Bool.false_eq_true, call_files, create_files, create_id, call_next]
        intro id hid
        rcases List.mem_append.mp hid with h | h
        · exact Or.inl (hb' id h)
        · simp at h; simp [h]
    | some fid =>
      simp only
      by_cases f1 : (w.call .write).2 = true
      · simp only [f1, if_true, call_files]; intro id hid; rcases hb id hid with h | h
        · exact Or.inl h
        · right; rw [← hfile]; exact h
      · simp only [f1, if_false, Bool.false_eq_true, call_files]; intro id hid; rcases hb id hid with h | h
        · exact Or.inl h
        · right; rw [← hfile]; exact h
  · simp only [hd, hl, ht, if_false, Bool.false_eq_true]; exact hb

theorem storeParts_booked (w : W) (tx : FTx) (n : Nat) (hb : Booked w tx) :
    Booked (storeParts w tx n).1 (storeParts w tx n).2.1 := by
  induction n generalizing w tx with
  | zero => exact hb
  | succ n ih =>
    simp only [storeParts]
    have key : ∀ (w2 : W) (tx2 : FTx), w2.files = w.files ++ [w.next] → tx2.uploads = tx.uploads ++ [w.next] →
        tx2.bb = tx.bb → Booked w2 tx2 := by
      intro w2 tx2 hw htx hbb id hid
      rw [hw] at hid
      rcases List.mem_append.mp hid with h | h
      · rcases hb id h with h1 | h1
        · left; rw [htx]; exact List.mem_append_left _ h1
        · right; rw [hbb]; exact h1
      · left; rw [htx]; simp at h; simp [h]
    by_cases f : (w.call .openat).2 = true
    · simp only [f, if_true]
      intro id hid; simp only [call_files] at hid; exact hb id hid
    · simp only [f, Bool.false_eq_true, if_false]
      split
      · exact key _ _ (by simp) (by simp) rfl
      · exact ih _ _ (key _ _ (by simp) (by simp) rfl)

theorem readAll_files (w : W) (b : FBB) : (b.readAll w).1.files = w.files := by
  unfold FBB.readAll; cases b.file <;> simp <;> (repeat' split) <;> simp

theorem readAllMultipart_files (w : W) (b : FBB) : (b.readAllMultipart w).1.files = w.files := by
  unfold FBB.readAllMultipart; cases b.file <;> simp <;> (repeat' split) <;> simp

theorem processBody_booked (w : W) (tx : FTx) (mp : Bool) (n : Nat) (hb : Booked w tx) :
    Booked (processBody w tx mp n).1 (processBody w tx mp n).2 := by
  unfold processBody
  split
  · exact hb
  · have hfiles : (if mp = true then tx.bb.readAllMultipart w else tx.bb.readAll w).1.files = w.files := by
      split
      · exact readAllMultipart_files _ _
      · exact readAll_files _ _
    split
    · rename_i w' heq
      have : w'.files = w.files := by rw [← hfiles, heq]
      intro id hid; rw [this] at hid; exact hb id hid
    · rename_i w' content heq
      have hw' : w'.files = w.files := by rw [← hfiles, heq]
      have hb' : Booked w' tx := by intro id hid; rw [hw'] at hid; exact hb id hid
      split
      · have := storeParts_booked w' tx n hb'
        split
        · rename_i w2 tx2 h2; rw [h2] at this; exact this
        · rename_i w2 tx2 h2; rw [h2] at this; exact this
      · exact hb'

theorem runStep_booked (mp : Bool) (n : Nat) (w : W) (tx : FTx) (s : Step) (hb : Booked w tx) :
    Booked (runStep mp n w tx s).1 (runStep mp n w tx s).2 := by
  cases s with
  | h1 => exact hb
  | w d name => simp only [runStep]; exact write_booked w tx d hb
  | b2 => exact processBody_booked w tx mp n hb
  | rd =>
    simp only [runStep]
    have := readAll_files w tx.bb
    split <;> (rename_i w' _ heq; rw [heq] at this; intro id hid; rw [this] at hid; exact hb id hid)
  | lg =>
    simp only [runStep]
    have := readAll_files w tx.bb
    split <;> (rename_i w' _ heq; rw [heq] at this; intro id hid; rw [this] at hid; exact hb id hid)

theorem storeParts_errs (w : W) (tx : FTx) (k : Nat) : (storeParts w tx k).2.1.errs = tx.errs := by
  induction k generalizing w tx with
  | zero => rfl
  | succ k ih =>
    simp only [storeParts]
    split
    · rfl
    · split
      · rfl
      · rw [ih]

theorem processBody_errs (w : W) (tx : FTx) (mp : Bool) (n : Nat) : (processBody w tx mp n).2.errs = tx.errs := by
  unfold processBody
  split
  · rfl
  split
  · rfl
  · rename_i w' content heq
    split
    · have := storeParts_errs w' tx n
      split <;> (rename_i h2; rw [h2] at this; exact this)
    · rfl

theorem runStep_errs (mp : Bool) (n : Nat) (w : W) (tx : FTx) (s : Step) (h : "close" ∉ tx.errs)
    (hs : ∀ d name, s = .w d name → name ≠ "close") : "close" ∉ (runStep mp n w tx s).2.errs := by
  cases s with
  | h1 => exact h
  | w d name =>
    simp only [runStep]; split
    · simp only [List.mem_append, List.mem_singleton, not_or]; exact ⟨h, fun e => hs d name rfl e.symm⟩
    · exact h
  | b2 => simp only [runStep]; rw [processBody_errs]; exact h
  | rd => simp only [runStep]; split <;> simp [h]
  | lg => simp only [runStep]; split <;> simp [h]

def stepsOK (ss : List Step) : Prop := ∀ s ∈ ss, ∀ d name, s = .w d name → name ≠ "close"

theorem runSteps_booked (mp : Bool) (n : Nat) (w : W) (tx : FTx) (ss : List Step) (hb : Booked w tx)
    (he : "close" ∉ tx.errs) (hs : stepsOK ss) :
    Booked (runSteps mp n w tx ss).1 (runSteps mp n w tx ss).2 ∧ "close" ∉ (runSteps mp n w tx ss).2.errs := by
  induction ss generalizing w tx with
  | nil => exact ⟨hb, he⟩
  | cons s ss ih =>
    simp only [runSteps]
    exact ih _ _ (runStep_booked mp n w tx s hb)
      (runStep_errs mp n w tx s he (hs s (List.mem_cons_self ..)))
      (fun s' h' => hs s' (List.mem_cons_of_mem _ h'))

/-- C20_no_temp_files_left: for every fault pattern, every processor, every number of uploads,
    every script of steps and every point at which the connector stops: after Close (uploads not
    kept) either no temporary file of this transaction exists any more, or Close returned an error. -/
theorem C20_no_temp_files_left (oracle : Kind → Nat → Bool) (memLimit : Nat) (mp : Bool) (n : Nat)
    (steps : List Step) (stop : Nat) (hs : stepsOK steps) :
    (runTx oracle memLimit mp n false steps stop).1.files = [] ∨
    "close" ∈ (runTx oracle memLimit mp n false steps stop).2.errs := by
  unfold runTx
  simp only
  have hb0 : Booked ({ oracle := oracle } : W) ({ bb := { memLimit := memLimit, limit := 1000 } } : FTx) := by
    intro id hid; simp at hid
  have hs' : stepsOK (steps.take stop) := fun s h => hs s (List.mem_of_mem_take h)
  obtain ⟨hb, he⟩ := runSteps_booked mp n _ _ (steps.take stop) hb0 (by simp) hs'
  by_cases hc : "close" ∈ (closeTx (runSteps mp n { oracle := oracle } { bb := { memLimit := memLimit, limit := 1000 } } (steps.take stop)).1
      (runSteps mp n { oracle := oracle } { bb := { memLimit := memLimit, limit := 1000 } } (steps.take stop)).2 false).2.errs
  · exact Or.inr hc
  · exact Or.inl (C20_close_no_leak _ _ hb he hc)

/-! non-vacuity: the scripted spill transaction with the 2nd file write failing and with unlink failing -/
def C20_oracle (k : Kind) (i : Nat) : Kind → Nat → Bool := fun k' n => k' == k && n == i
def C20_steps : List Step := [.h1, .w [1, 2, 3, 4] "w1", .w [5, 6, 7, 8, 9, 10] "w2", .w [11, 12] "w3", .b2, .rd, .lg]
example : (runTx (C20_oracle .write 2) 8 false 0 false C20_steps 99).2.errs = ["w2"] ∧
          (runTx (C20_oracle .write 2) 8 false 0 false C20_steps 99).1.files = [] := by decide
example : (runTx (C20_oracle .unlink 1) 8 false 0 false C20_steps 99).2.errs = ["close"] ∧
          (runTx (C20_oracle .unlink 1) 8 false 0 false C20_steps 99).1.files = [0] := by decide
example : stepsOK C20_steps := by intro s hs d name h; simp [C20_steps] at hs; rcases hs with rfl|rfl|rfl|rfl|rfl|rfl|rfl <;> first | (cases h; done) | (cases h; decide)
