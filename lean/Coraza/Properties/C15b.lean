/-
  C15 (continued) — @validateUtf8Encoding decides exactly "the value is not well-formed UTF-8",
  with well-formedness stated independently of the acceptance table: the value is a concatenation
  of standard encodings of Unicode scalar values (Proofs/Utf8.lean).
-/
import Coraza.Properties.C15
import Coraza.Proofs.Utf8
import Coraza.Proofs.RegexBudget
open Coraza Coraza.Op Coraza.Tf

/-- **C15_validateUtf8Encoding**: the operator matches exactly the values that are not the UTF-8 encoding of any
    sequence of scalar values — for every byte string: no well-formed text is flagged (U+FFFD, U+FFFF and the
    edges of every length class included), and every overlong form, surrogate, value past U+10FFFF, cut sequence
    or stray continuation byte is. -/
theorem C15_validateUtf8Encoding (v : Bytes) :
    validateUtf8Encoding v = false ↔ ∃ cs : List Nat, (∀ c ∈ cs, isScalar c = true) ∧ v = cs.flatMap utf8Encode := by
  simp only [validateUtf8Encoding, Bool.not_eq_false']
  constructor
  · exact utf8Valid_decode v
  · rintro ⟨cs, hs, rfl⟩
    exact utf8Valid_encode cs hs

example : validateUtf8Encoding [0xef, 0xbf, 0xbd] = false := by decide   -- U+FFFD itself is well formed
example : utf8Encode 0xfffd = [0xef, 0xbf, 0xbd] ∧ isScalar 0xfffd = true := by decide
example : validateUtf8Encoding [0xc0, 0x80] = true ∧ validateUtf8Encoding [0xed, 0xa0, 0x80] = true ∧
    validateUtf8Encoding [0xf4, 0x90, 0x80, 0x80] = true ∧ validateUtf8Encoding [0xe4, 0xbd] = true := by decide

/-- the matcher the correspondence drivers run (`searchB`: the derivative matcher with a size budget) never
    answers differently from `search`, the matcher C15_rx_exact is about; when the budget is exceeded the
    input is not compared -/
theorem C15_rx_budget_sound (cap : Nat) (r : Coraza.Regex.Re) (s : Bytes) (b : Bool)
    (h : Coraza.Regex.searchB cap r s = some b) : Coraza.Regex.search r s = b :=
  Coraza.Regex.searchB_sound cap r s b h

example : (Coraza.Regex.parse {} (b!"a+b")).bind (Coraza.Regex.searchB 4000 · (b!"xaab")) = some true := by decide +kernel
