/-
  C06 — A WAF is safe to share: concurrent transactions are race-free and independent.
  Model: Coraza/Model/Conc.lean. A Lean theorem cannot exhibit a Go data race; what is proved
  is (1) that steps which only read the shared WAF and write their own transaction yield, under
  every interleaving, each transaction's sequential outcome, and (2) that the shared pattern
  cache protocol hands out only correctly built, live entries under every interleaving of its
  atomic operations. That the code's steps satisfy the frame condition is checked on the real
  code by the `conc` engine (race detector + outcome comparison).
-/
import Coraza.Model.Conc
open Coraza Coraza.Conc

/-! ## 1. non-interference for every interleaving -/

/-- C06_noninterference: for any number of transactions, any programs and any schedule, the
    local state of every transaction after the schedule is exactly what it reaches alone after
    the same number of its own steps — other transactions cannot influence it. -/
theorem C06_noninterference {S L : Type} (shared : S) (progs : Nat → List (Step S L)) (sched : List Nat)
    (locals : Nat → L) (pcs : Nat → Nat) (init : Nat → L)
    (hinv : ∀ t, locals t = runAlone shared (progs t) (pcs t) (init t) ∧ pcs t ≤ (progs t).length) (t : Nat) :
    (runSched shared progs sched (locals, pcs)).1 t =
      runAlone shared (progs t) ((runSched shared progs sched (locals, pcs)).2 t) (init t) ∧
    (runSched shared progs sched (locals, pcs)).2 t ≤ (progs t).length := by
  induction sched generalizing locals pcs with
  | nil => exact hinv t
  | cons u sched ih =>
    unfold runSched
    cases hs : (progs u)[pcs u]? with
    | none => simp only; exact ih locals pcs hinv
    | some step =>
      simp only
      apply ih
      intro v
      by_cases hv : v = u
      · subst hv
        simp only [if_true]
        obtain ⟨h1, h2⟩ := hinv v
        have hlt : pcs v < (progs v).length := by
          rcases List.getElem?_eq_some_iff.mp hs with ⟨h, _⟩; exact h
        refine ⟨?_, by omega⟩
        unfold runAlone at *
        rw [List.take_succ, hs, List.foldl_append, ← h1]
        simp
      · simp only [hv, if_false]; exact hinv v

/-- from the initial state (nobody has run) the hypothesis holds, so the statement is about
    every reachable interleaving -/
theorem C06_noninterference_init {S L : Type} (shared : S) (progs : Nat → List (Step S L)) (sched : List Nat)
    (init : Nat → L) (t : Nat) :
    (runSched shared progs sched (init, fun _ => 0)).1 t =
      runAlone shared (progs t) ((runSched shared progs sched (init, fun _ => 0)).2 t) (init t) :=
  (C06_noninterference shared progs sched init (fun _ => 0) init (fun t => ⟨by simp [runAlone], by simp⟩) t).1

/-! ## 2. the memoize protocol under every interleaving -/

/-- invariant: every entry holds the builder's value for its own key, the cache maps a key only
    to entries of that key, and whatever a thread has loaded or is returning belongs to its key -/
structure MInv {V : Type} (f : Key → V) (s : MState V) : Prop where
  entries : ∀ (e : EntryId) (en : Entry V), s.entries[e]? = some en → en.value = f en.key
  cache : ∀ (k : Key) (e : EntryId), s.cache k = some e → ∃ en : Entry V, s.entries[e]? = some en ∧ en.key = k
  loaded : ∀ (t : Nat) (k : Key) (e : EntryId), (s.pcs t = .loaded k (some e) ∨ s.pcs t = .reloaded k (some e)) → ∃ en : Entry V, s.entries[e]? = some en ∧ en.key = k
  done : ∀ (t : Nat) (k : Key) (v : V), s.pcs t = .done k v → v = f k

theorem set_getElem?_key {V : Type} (l : List (Entry V)) (e : EntryId) (en en' : Entry V) (e2 : EntryId) (x : Entry V)
    (he : l[e]? = some en) (hk : en'.key = en.key) (hv : en'.value = en.value)
    (h : (l.set e en')[e2]? = some x) : ∃ y, l[e2]? = some y ∧ y.key = x.key ∧ y.value = x.value := by
  by_cases h2 : e = e2
  · subst h2
    have hlt : e < l.length := by
      rcases List.getElem?_eq_some_iff.mp he with ⟨h, _⟩; exact h
    rw [List.getElem?_set_self hlt] at h
    simp only [Option.some.injEq] at h
    subst h
    exact ⟨en, he, hk.symm, hv.symm⟩
  · rw [List.getElem?_set_ne h2] at h
    exact ⟨x, h, rfl, rfl⟩

theorem minv_update_owner {V : Type} (f : Key → V) (s : MState V) (hi : MInv f s) (e : EntryId) (en en' : Entry V)
    (he : s.entries[e]? = some en) (hk : en'.key = en.key) (hv : en'.value = en.value)
    (pcs' : Nat → PC V) (cache' : Key → Option EntryId)
    (hc : ∀ k e2, cache' k = some e2 → s.cache k = some e2)
    (hl : ∀ t k e2, (pcs' t = .loaded k (some e2) ∨ pcs' t = .reloaded k (some e2)) →
        (s.pcs t = .loaded k (some e2) ∨ s.pcs t = .reloaded k (some e2)))
    (hd : ∀ t k v, pcs' t = .done k v → v = f k) :
    MInv f { cache := cache', entries := s.entries.set e en', pcs := pcs' } := by
  have lift : ∀ (e2 : EntryId) (y : Entry V), s.entries[e2]? = some y → ∃ x : Entry V, (s.entries.set e en')[e2]? = some x ∧ x.key = y.key := by
    intro e2 y hy
    by_cases h2 : e = e2
    · subst h2
      have hlt : e < s.entries.length := by
        rcases List.getElem?_eq_some_iff.mp he with ⟨h, _⟩; exact h
      refine ⟨en', List.getElem?_set_self hlt, ?_⟩
      rw [he] at hy; cases hy; exact hk
    · exact ⟨y, by rw [List.getElem?_set_ne h2]; exact hy, rfl⟩
  constructor
  · intro e2 x hx
    obtain ⟨y, hy, hk2, hv2⟩ := set_getElem?_key s.entries e en en' e2 x he hk hv hx
    rw [← hv2, ← hk2]; exact hi.entries e2 y hy
  · intro k e2 h
    obtain ⟨y, hy, hyk⟩ := hi.cache k e2 (hc k e2 h)
    obtain ⟨x, hx, hxk⟩ := lift e2 y hy
    exact ⟨x, hx, hxk.trans hyk⟩
  · intro t k e2 h
    obtain ⟨y, hy, hyk⟩ := hi.loaded t k e2 (hl t k e2 h)
    obtain ⟨x, hx, hxk⟩ := lift e2 y hy
    exact ⟨x, hx, hxk.trans hyk⟩
  · exact hd

/-- the invariant is preserved by every atomic step -/
theorem C06_memoize_step {V : Type} (f : Key → V) (s s' : MState V) (hi : MInv f s) (hs : MStep f s s') : MInv f s' := by
  cases hs with
  | load t k h =>
    constructor
    · exact hi.entries
    · exact hi.cache
    · intro u k' e hu
      by_cases hut : u = t
      · subst hut
        simp only [if_true] at hu
        rcases hu with hu | hu
        · simp only [PC.loaded.injEq] at hu
          obtain ⟨rfl, hc⟩ := hu
          exact hi.cache _ e hc
        · cases hu
      · simp only [hut, if_false] at hu; exact hi.loaded u k' e hu
    · intro u k' v hu
      by_cases hut : u = t
      · subst hut; simp at hu
      · simp only [hut, if_false] at hu; exact hi.done u k' v hu
  | addOwnerHit t k e en h he hd =>
    obtain ⟨en0, hen0, hk0⟩ := hi.loaded t k e (Or.inl h)
    have : en0 = en := by rw [he] at hen0; cases hen0; rfl
    subst this
    apply minv_update_owner f s hi e en0 { en0 with owners := t :: en0.owners } he rfl rfl _ _ (fun _ _ h => h)
    · intro u k' e2 hu
      by_cases hut : u = t
      · subst hut; simp at hu
      · simpa [hut] using hu
    · intro u k' v hu
      by_cases hut : u = t
      · subst hut
        simp only [if_true] at hu
        cases hu
        rw [hi.entries e en0 he, hk0]
      · simp only [hut, if_false] at hu; exact hi.done u k' v hu
  | addOwnerMiss t k eo h hm hsf =>
    constructor
    · exact hi.entries
    · exact hi.cache
    · intro u k' e hu
      by_cases hut : u = t
      · subst hut; simp at hu
      · simp only [hut, if_false] at hu; exact hi.loaded u k' e hu
    · intro u k' v hu
      by_cases hut : u = t
      · subst hut; simp at hu
      · simp only [hut, if_false] at hu; exact hi.done u k' v hu
  | reload t k h =>
    constructor
    · exact hi.entries
    · exact hi.cache
    · intro u k' e hu
      by_cases hut : u = t
      · subst hut
        simp only [if_true] at hu
        rcases hu with hu | hu
        · cases hu
        · simp only [PC.reloaded.injEq] at hu
          obtain ⟨rfl, hc⟩ := hu
          exact hi.cache _ e hc
      · simp only [hut, if_false] at hu; exact hi.loaded u k' e hu
    · intro u k' v hu
      by_cases hut : u = t
      · subst hut; simp at hu
      · simp only [hut, if_false] at hu; exact hi.done u k' v hu
  | recheckHit t k e en h he hd =>
    obtain ⟨en0, hen0, hk0⟩ := hi.loaded t k e (Or.inr h)
    have : en0 = en := by rw [he] at hen0; cases hen0; rfl
    subst this
    apply minv_update_owner f s hi e en0 { en0 with owners := t :: en0.owners } he rfl rfl _ _ (fun _ _ h => h)
    · intro u k' e2 hu
      by_cases hut : u = t
      · subst hut; simp at hu
      · simpa [hut] using hu
    · intro u k' v hu
      by_cases hut : u = t
      · subst hut
        simp only [if_true] at hu
        cases hu
        rw [hi.entries e en0 he, hk0]
      · simp only [hut, if_false] at hu; exact hi.done u k' v hu
  | build t k eo h hm =>
    have old : ∀ (e2 : EntryId) (y : Entry V), s.entries[e2]? = some y → (s.entries ++ [(⟨k, f k, [t], false⟩ : Entry V)])[e2]? = some y := by
      intro e2 y hy
      have hlt : e2 < s.entries.length := by
        rcases List.getElem?_eq_some_iff.mp hy with ⟨h, _⟩; exact h
      rw [List.getElem?_append_left hlt]; exact hy
    constructor
    · intro e2 x hx
      by_cases hlt : e2 < s.entries.length
      · rw [List.getElem?_append_left hlt] at hx; exact hi.entries e2 x hx
      · have hge : s.entries.length ≤ e2 := Nat.le_of_not_lt hlt
        rcases Nat.eq_or_lt_of_le hge with h2 | h2
        · subst h2; simp at hx; subst hx; rfl
        · rw [List.getElem?_eq_none (by simp only [List.length_append, List.length_singleton]; omega)] at hx; cases hx
    · intro k' e2 hc
      by_cases hk : k' = k
      · subst hk
        simp only [if_true, Option.some.injEq] at hc
        subst hc
        exact ⟨⟨k', f k', [t], false⟩, by simp, rfl⟩
      · simp only [hk, if_false] at hc
        obtain ⟨y, hy, hyk⟩ := hi.cache k' e2 hc
        exact ⟨y, old e2 y hy, hyk⟩
    · intro u k' e2 hu
      by_cases hut : u = t
      · subst hut; simp at hu
      · simp only [hut, if_false] at hu
        obtain ⟨y, hy, hyk⟩ := hi.loaded u k' e2 hu
        exact ⟨y, old e2 y hy, hyk⟩
    · intro u k' v hu
      by_cases hut : u = t
      · subst hut; simp only [if_true] at hu; cases hu; rfl
      · simp only [hut, if_false] at hu; exact hi.done u k' v hu
  | release o k e en hc he =>
    apply minv_update_owner f s hi e en (releaseEntry en o) he (by simp [releaseEntry]) (by simp [releaseEntry]) _ _ _ (fun _ _ _ h => h) hi.done
    · intro k' e2 h
      by_cases hk : k' = k ∧ (releaseEntry en o).owners.isEmpty = true
      · simp [hk] at h
      · have := h; simp only [hk, if_false] at this; exact this
  | finish t k v h =>
    constructor
    · exact hi.entries
    · exact hi.cache
    · intro u k' e hu
      by_cases hut : u = t
      · subst hut; simp at hu
      · simp only [hut, if_false] at hu; exact hi.loaded u k' e hu
    · intro u k' v' hu
      by_cases hut : u = t
      · subst hut; simp at hu
      · simp only [hut, if_false] at hu; exact hi.done u k' v' hu

/-- C06_memoize: in every state reachable by any interleaving of any number of Do and Release
    calls by any number of WAFs, whatever Do(k, f) returns is f's value for k -/
theorem C06_memoize {V : Type} (f : Key → V) (s : MState V) (hr : MReach f s) :
    ∀ t k v, s.pcs t = .done k v → v = f k := by
  have : MInv f s := by
    induction hr with
    | init =>
      exact ⟨by intro e en h; simp at h, by intro k e h; simp at h, by intro t k e h; simp at h, by intro t k v h; simp at h⟩
    | step s s' _ hs ih => exact C06_memoize_step f s s' ih hs
  exact this.done

/-- C06_memoize_live: an entry already marked deleted (its last owner released it) is never the
    source of a returned value: a thread that held a loaded entry and returns in one step did so
    through a hit transition, whose guard is `deleted = false`, checked in the same atomic
    section in which the owner is added (sync.go:28 addOwner) -/
theorem C06_memoize_live {V : Type} (f : Key → V) (s s' : MState V) (hs : MStep f s s') (t : Nat) (k : Key) (e : EntryId)
    (v : V) (h : s.pcs t = .loaded k (some e)) (h' : s'.pcs t = .done k v) :
    ∃ en, s.entries[e]? = some en ∧ en.deleted = false := by
  cases hs with
  | load u k2 hu => by_cases hut : t = u <;> simp_all
  | addOwnerHit u k2 e2 en hu he hd =>
    by_cases hut : t = u
    · subst hut
      rw [h] at hu; cases hu
      exact ⟨en, he, hd⟩
    · simp [hut, h] at h'
  | addOwnerMiss u k2 eo hu hm hsf => by_cases hut : t = u <;> simp_all
  | reload u k2 hu => by_cases hut : t = u <;> simp_all
  | recheckHit u k2 e2 en hu he hd =>
    by_cases hut : t = u
    · subst hut; rw [h] at hu; cases hu
    · simp [hut, h] at h'
  | build u k2 eo hu hm =>
    by_cases hut : t = u
    · subst hut; rw [h] at hu; cases hu
    · simp [hut, h] at h'
  | release o k2 e2 en hc he => simp [h] at h'
  | finish u k2 v2 hu => by_cases hut : t = u <;> simp_all

/-! non-vacuity: two threads, one schedule -/
example : (runSched (10 : Nat) (fun _ => [fun s l => l + s, fun s l => l * s]) [0, 1, 1, 0] (fun _ => 1, fun _ => 0)).1 0 = 110 := by decide
