/-
  C19 — Audit and error logging record exactly what happened, once, intact.
  Model: auditDecision / applyParts / parseParts / matchRule / writeRecords in Coraza/Model/Engine.lean
  (transaction.go:1385-1440 ProcessLogging, types/waf.go:179-260, auditlog/serial_writer.go).
-/
import Coraza.Proofs.Engine
open Coraza Coraza.Engine

/-! ## the decision: at most one record per ProcessLogging, exactly when … -/

/-- C19_decision: Off never writes, On always writes, RelevantOnly with a configured pattern
    writes exactly when the pattern matches the real interruption status, else the would-be
    (DetectionOnly) status, else the response status. (`auditDecision` is a Bool: at most one
    record per call.) -/
theorem C19_decision (tx : Tx) (m : Bytes → Bool) :
    (tx.auditEngine = .off → auditDecision tx (some m) = false) ∧
    (tx.auditEngine = .on → auditDecision tx (some m) = true) ∧
    (tx.auditEngine = .relevantOnly →
      auditDecision tx (some m) =
        m (match tx.intr with
           | some i => natToBytes i.status
           | none => match tx.detIntr with
             | some i => natToBytes i.status
             | none => tx.respStatus)) := by
  refine ⟨?_, ?_, ?_⟩ <;> intro h <;> simp only [auditDecision, h]
  split <;> rfl

/-- without a configured pattern (outside the property's wording) the code writes iff an
    audit-enabled rule fired — recorded so that the model mirrors transaction.go:1411-1424 -/
theorem C19_decision_no_pattern (tx : Tx) (h : tx.auditEngine = .relevantOnly) :
    auditDecision tx none = tx.audit := by
  simp only [auditDecision, h]; split <;> simp_all

/-! ## audit log parts stay well-formed -/

/-- starts with A, ends with Z, everything between is a modifiable part -/
def WFParts (p : Bytes) : Prop :=
  ∃ mid, p = [0x41] ++ mid ++ [0x5a] ∧ ∀ x ∈ mid, x ∈ orderedParts

theorem C19_parse_parts (opts p : Bytes) (h : parseParts opts = some p) : p = opts ∧ WFParts p := by
  unfold parseParts at h
  cases opts with
  | nil => simp at h
  | cons a rest =>
    simp only at h
    split at h
    · simp at h
    · rename_i ha
      have ha' : a = 0x41 := by simpa using ha
      cases hr : rest.reverse with
      | nil => simp [hr] at h
      | cons z midRev =>
        simp only [hr] at h
        split at h
        · simp at h
        · rename_i hz
          have hz' : z = 0x5a := by simpa using hz
          split at h
          · rename_i hall
            simp only [Option.some.injEq] at h
            subst h
            refine ⟨rfl, midRev.reverse, ?_, ?_⟩
            · have : rest = midRev.reverse ++ [z] := by
                have := congrArg List.reverse hr; simpa using this
              rw [this, ha', hz']; simp
            · intro x hx
              have hx' : x ∈ midRev := by simpa using hx
              have := List.all_eq_true.mp hall x hx'
              simpa using this
          · simp at h

/-- C19_parts: whatever ctl:auditLogParts modification is applied (absolute, +X, -X, any number
    of times), well-formed parts stay well-formed: A first, Z last — so native records keep
    their header and end marker. -/
theorem C19_parts (base md p : Bytes) (hb : WFParts base) (h : applyParts base md = some p) : WFParts p := by
  unfold applyParts at h
  cases md with
  | nil => simp at h
  | cons c ps =>
    simp only at h
    split at h
    · exact (C19_parse_parts _ _ h).2
    · split at h
      · simp at h
      · simp only [Option.some.injEq] at h
        obtain ⟨mid, rfl, _⟩ := hb
        have hA : ([0x41] ++ mid ++ [0x5a] : Bytes).contains 0x41 = true := by simp
        have hZ : ([0x41] ++ mid ++ [0x5a] : Bytes).contains 0x5a = true := by simp
        rw [hA, hZ] at h
        simp only [if_true] at h
        subst h
        exact ⟨_, rfl, fun x hx => (List.mem_filter.mp hx).1⟩

/-! ## error callback and audit record contents -/

/-- C19_callback: MatchRule invokes the error callback exactly once for a fired rule with
    logging enabled, and not at all for `nolog` -/
theorem C19_callback (r : Rule) (ms : List MD) (tx : Tx) :
    (matchRule r ms tx).errCb = if r.log then tx.errCb ++ [r.id] else tx.errCb := by
  unfold matchRule; rfl

/-- links never call the callback (only MatchRule does, once per fired rule) -/
theorem C19_callback_only_on_fire (env : Env) (rules : List Rule) (r : Rule) (tx : Tx) :
    (evalLinks env rules r.id r.links tx).1.errCb = tx.errCb :=
  (quiet_evalLinks env rules r.id r.links tx).errCb

/-- C19_contents: the record's rule messages are exactly the audit-enabled fired rules, in
    firing order (nothing for a fired rule with `noauditlog`) -/
theorem C19_contents_noaudit (rules : List Rule) (tx : Tx) (m : Matched) (r : Rule)
    (hf : rules.find? (fun r => r.id == m.id) = some r) (ha : r.audit = false) :
    auditMessageIds rules { tx with matched := [m] } = [] := by
  simp [auditMessageIds, hf, ha]

theorem C19_contents_audit (rules : List Rule) (tx : Tx) (m : Matched) (r : Rule)
    (hf : rules.find? (fun r => r.id == m.id) = some r) (ha : r.audit = true)
    (hk : (0x4b : UInt8) ∈ tx.auditParts) :
    auditMessageIds rules { tx with matched := [m] } = List.replicate m.datas.length m.id := by
  simp [auditMessageIds, hf, ha, hk]

/-! ## records are never interleaved or lost -/

theorem splitLines_append (r : Bytes) (rest : Bytes) (h : (0x0a : UInt8) ∉ r) :
    splitLines (r ++ [0x0a] ++ rest) = r :: splitLines rest := by
  induction r with
  | nil => simp [splitLines]
  | cons b r ih =>
    have hb : b ≠ 0x0a := fun e => h (by simp [e])
    have hr : (0x0a : UInt8) ∉ r := fun e => h (by simp [e])
    simp only [List.cons_append, splitLines, beq_iff_eq, hb, if_false]
    have := ih hr
    simp only [List.append_assoc, List.singleton_append] at this
    simp [this]

/-- C19_no_interleave: whatever order the writer's lock serialises concurrent transactions in,
    the file splits back into exactly the records written, whole and all of them (records are
    single-line JSON documents: no newline inside) -/
theorem C19_no_interleave (rs : List Bytes) (h : ∀ r ∈ rs, (0x0a : UInt8) ∉ r) :
    splitLines (writeRecords rs) = rs := by
  induction rs with
  | nil => rfl
  | cons r rs ih =>
    have := splitLines_append r (writeRecords rs) (h r (by simp))
    simp only [writeRecords, List.flatMap_cons] at this ⊢
    rw [this, ← writeRecords, ih (fun r' hr' => h r' (by simp [hr']))]

/-! non-vacuity -/
example : applyParts [0x41, 0x42, 0x43, 0x46, 0x48, 0x5a] [0x2b, 0x45] = some [0x41, 0x42, 0x43, 0x45, 0x46, 0x48, 0x5a] := by decide
example : WFParts [0x41, 0x42, 0x5a] := ⟨[0x42], rfl, by decide⟩
