/-
  C02 — First disruptive match interrupts; interruption is final; engine modes hold.

  About `apiStep` / `runCalls` / `evalPhase` of Coraza/Model/Engine.lean
  (transaction.go:886-1440 guards, rulegroup.go:155 Eval, transaction.go:328 Interrupt),
  for every rule list, operator/transformation interpretation, request and **every finite
  sequence of API calls** (induction on the sequence).
-/
import Coraza.Proofs.Engine
open Coraza Coraza.Engine

/-! ## the rules loop and the evaluation log -/

theorem frame_evalOne_log (env : Env) (all : List Rule) (phase : Nat) (r : Rule) (tx : Tx) :
    (evalOne env all phase r tx).evalLog = tx.evalLog ++ [(phase, r.id)] ∧
    (evalOne env all phase r tx).lastPhase = tx.lastPhase := by
  unfold evalOne
  have f := frame_evalRule env all r { tx with matchedVars := {}, evalLog := tx.evalLog ++ [(phase, r.id)] }
  exact ⟨f.evalLog, f.lastPhase⟩

/-- every evaluation logged by a phase belongs to that phase; `lastPhase` is not touched -/
theorem rulesLoop_log (env : Env) (all : List Rule) (phase : Nat) (rs : List Rule) (tx : Tx) :
    (∃ l, (rulesLoop env all phase rs tx).evalLog = tx.evalLog ++ l ∧ ∀ e ∈ l, e.1 = phase) ∧
    (rulesLoop env all phase rs tx).lastPhase = tx.lastPhase := by
  induction rs generalizing tx with
  | nil => exact ⟨⟨[], by simp [rulesLoop]⟩, rfl⟩
  | cons r rs ih =>
    have base : (∃ l, tx.evalLog = tx.evalLog ++ l ∧ ∀ e ∈ l, e.1 = phase) ∧ tx.lastPhase = tx.lastPhase :=
      ⟨⟨[], by simp⟩, rfl⟩
    have evalCase : (∃ l, (rulesLoop env all phase rs (evalOne env all phase r tx)).evalLog = tx.evalLog ++ l ∧
        ∀ e ∈ l, e.1 = phase) ∧ (rulesLoop env all phase rs (evalOne env all phase r tx)).lastPhase = tx.lastPhase := by
      obtain ⟨⟨l, hl, hp⟩, hlp⟩ := ih (evalOne env all phase r tx)
      obtain ⟨e1, e2⟩ := frame_evalOne_log env all phase r tx
      refine ⟨⟨(phase, r.id) :: l, by rw [hl, e1]; simp, ?_⟩, hlp.trans e2⟩
      intro e he
      rcases List.mem_cons.mp he with rfl | h
      · rfl
      · exact hp e h
    rw [rulesLoop]
    split
    · exact base
    · split
      · exact ih tx
      · split
        · exact ih tx
        · split
          · split
            · exact ih { tx with skipAfter := [] }
            · exact ih tx
          · split
            · exact ih { tx with skip := tx.skip - 1 }
            · split
              · exact base
              · split
                · exact evalCase
                · exact base
              · split
                · exact base
                · split
                  · exact ⟨⟨[], by simp⟩, rfl⟩
                  · exact evalCase
              · exact evalCase

theorem evalPhase_log (env : Env) (rules : List Rule) (phase : Nat) (tx : Tx) :
    (∃ l, (evalPhase env rules phase tx).evalLog = tx.evalLog ++ l ∧ ∀ e ∈ l, e.1 = phase) ∧
    (evalPhase env rules phase tx).lastPhase = phase := by
  obtain ⟨h, hl⟩ := rulesLoop_log env rules phase rules { tx with lastPhase := phase }
  unfold evalPhase
  exact ⟨h, hl⟩

/-! ## interruption stops phases 1–4 -/

/-- C02_stop: once interrupted, the rest of a request/response phase evaluates nothing and
    changes nothing (rulegroup.go:172) -/
theorem C02_interrupted_phase_stops (env : Env) (all : List Rule) (phase : Nat) (rs : List Rule) (tx : Tx)
    (hi : tx.intr.isSome = true) (hp : phase ≠ 5) : rulesLoop env all phase rs tx = tx := by
  cases rs with
  | nil => rfl
  | cons r rs => rw [rulesLoop]; simp [hi, hp]

/-- C02_final: with the engine On and an interruption `i` in place, every call other than
    ProcessLogging returns exactly `i` and leaves the whole transaction state unchanged
    (so no rule of phases 1–4 is evaluated and `i` stays in place). -/
theorem C02_final_step (env : Env) (rules : List Rule) (tx : Tx) (i : Intr) (c : Call)
    (hi : tx.intr = some i) (he : tx.engine ≠ .off) (hc : c ≠ .logging) :
    apiStep env rules tx c = (tx, some i) := by
  have he' : (tx.engine == .off) = false := by cases h : tx.engine <;> simp_all
  cases c with
  | logging => exact absurd rfl hc
  | reqHeaders => simp only [apiStep, he', hi]; split <;> simp_all
  | reqBody => simp [apiStep, he', hi]
  | respHeaders => simp only [apiStep, he', hi]; split <;> simp_all
  | respBody => simp [apiStep, he', hi]

/-- … for every sequence of such calls, of any length -/
theorem C02_final (env : Env) (rules : List Rule) (tx : Tx) (i : Intr) (cs : List Call)
    (hi : tx.intr = some i) (he : tx.engine ≠ .off) (hc : ∀ c ∈ cs, c ≠ .logging) :
    runCalls env rules tx cs = (tx, cs.map (fun _ => some i)) := by
  induction cs with
  | nil => rfl
  | cons c cs ih =>
    simp only [runCalls, C02_final_step env rules tx i c hi he (hc c (by simp)), List.map_cons]
    rw [ih (fun c' h => hc c' (by simp [h]))]

/-- ProcessLogging after an interruption evaluates logging-phase rules only -/
theorem C02_logging_only_phase5 (env : Env) (rules : List Rule) (tx : Tx) :
    ∃ l, (apiStep env rules tx .logging).1.evalLog = tx.evalLog ++ l ∧ ∀ e ∈ l, e.1 = 5 := by
  simp only [apiStep]
  split
  · exact ⟨[], by simp⟩
  · exact (evalPhase_log env rules 5 tx).1

/-! ## engine modes -/

/-- C02_detection_only: in DetectionOnly no disruptive action sets the interruption; the
    would-be one is remembered, and only the first (transaction.go:328) -/
theorem C02_detection_only (tx : Tx) (i : Intr) (h : tx.engine = .detectionOnly) :
    (interrupt tx i).intr = tx.intr ∧
    (interrupt tx i).detIntr = (if tx.detIntr.isNone then some i else tx.detIntr) := by
  unfold interrupt; rw [h]; simp only; split <;> simp_all

theorem interrupt_intr_of_not_on (t : Tx) (i : Intr) (h : t.engine ≠ .on) : (interrupt t i).intr = t.intr := by
  unfold interrupt
  cases he : t.engine with
  | on => exact absurd he h
  | detectionOnly => simp only; split <;> rfl
  | off => rfl

/-- … hence evaluating any rule in DetectionOnly leaves the interruption alone, provided the
    rule's own links do not switch the engine back On (ctl:ruleEngine) -/
theorem C02_detection_only_rule (env : Env) (rules : List Rule) (r : Rule) (tx : Tx)
    (h : (evalLinks env rules r.id r.links tx).1.engine ≠ .on) :
    (evalRule env rules r tx).intr = tx.intr := by
  have q := quiet_evalLinks env rules r.id r.links tx
  unfold evalRule
  rcases hh : evalLinks env rules r.id r.links tx with ⟨tx1, res⟩
  rw [hh] at h q
  simp only at h
  cases res with
  | none => exact q.intr
  | some ms =>
    simp only
    have key : ∀ t : Tx, t.engine ≠ .on → (runDisr r t).intr = t.intr := by
      intro t ht
      have hne : (t.engine == .on) = false := by cases he : t.engine <;> simp_all
      unfold runDisr
      split
      all_goals first
        | rfl
        | exact interrupt_intr_of_not_on t _ ht
        | simp [hne]
    have e1 : ((if !r.skipAfter.isEmpty then
        { (if r.skip > 0 then { tx1 with skip := r.skip } else tx1) with skipAfter := r.skipAfter }
        else (if r.skip > 0 then { tx1 with skip := r.skip } else tx1))).engine = tx1.engine := by
      split <;> split <;> rfl
    have e2 : ((if !r.skipAfter.isEmpty then
        { (if r.skip > 0 then { tx1 with skip := r.skip } else tx1) with skipAfter := r.skipAfter }
        else (if r.skip > 0 then { tx1 with skip := r.skip } else tx1))).intr = tx1.intr := by
      split <;> split <;> rfl
    split
    · simp only [matchRule]; rw [key _ (by rw [e1]; exact h), e2, q.intr]
    · rw [key _ (by rw [e1]; exact h), e2, q.intr]

/-- C02_off: with the engine Off no call evaluates anything or returns an interruption -/
theorem C02_off (env : Env) (rules : List Rule) (tx : Tx) (c : Call) (h : tx.engine = .off) :
    apiStep env rules tx c = (tx, none) := by
  cases c <;> simp [apiStep, h]

/-! ## each request/response phase is evaluated at most once, whatever the call order -/

def Coraza.Engine.Call.phase : Call → Nat
  | .reqHeaders => 1 | .reqBody => 2 | .respHeaders => 3 | .respBody => 4 | .logging => 5

/-- a call either leaves the evaluation log alone, or it evaluates exactly its own phase,
    could only do so because that phase had not been reached, and moves `lastPhase` to it -/
theorem C02_once_step (env : Env) (rules : List Rule) (tx : Tx) (c : Call) :
    let tx' := (apiStep env rules tx c).1
    (tx' = tx) ∨
    ((∃ l, tx'.evalLog = tx.evalLog ++ l ∧ ∀ e ∈ l, e.1 = c.phase) ∧ tx'.lastPhase = c.phase ∧
      (c ≠ .logging → tx.lastPhase < c.phase)) := by
  cases c with
  | reqHeaders =>
    simp only [apiStep, Call.phase]
    split; · left; rfl
    split; · left; rfl
    split; · left; rfl
    rename_i h _
    right; obtain ⟨a, b⟩ := evalPhase_log env rules 1 tx
    exact ⟨a, b, fun _ => by omega⟩
  | reqBody =>
    simp only [apiStep, Call.phase]
    split; · left; rfl
    split; · left; rfl
    by_cases h : tx.lastPhase = 1
    · right; obtain ⟨a, b⟩ := evalPhase_log env rules 2 tx
      simp only [h, bne_self_eq_false, Bool.false_eq_true, if_false]
      exact ⟨a, b, fun _ => by omega⟩
    · left; simp [h]
  | respHeaders =>
    simp only [apiStep, Call.phase]
    split; · left; rfl
    split; · left; rfl
    split; · left; rfl
    rename_i h _
    right; obtain ⟨a, b⟩ := evalPhase_log env rules 3 { tx with respStatus := tx.respCode }
    exact ⟨a, b, fun _ => by omega⟩
  | respBody =>
    simp only [apiStep, Call.phase]
    split; · left; rfl
    split; · left; rfl
    by_cases h : tx.lastPhase = 3
    · right; obtain ⟨a, b⟩ := evalPhase_log env rules 4 tx
      simp only [h, bne_self_eq_false, Bool.false_eq_true, if_false]
      exact ⟨a, b, fun _ => by omega⟩
    · left; simp [h]
  | logging =>
    simp only [apiStep, Call.phase]
    split; · left; rfl
    right; obtain ⟨a, b⟩ := evalPhase_log env rules 5 tx
    exact ⟨a, b, fun h => absurd rfl h⟩

/-- `lastPhase` never decreases along any call sequence -/
theorem C02_lastPhase_mono (env : Env) (rules : List Rule) (tx : Tx) (c : Call) :
    tx.lastPhase ≤ (apiStep env rules tx c).1.lastPhase ∨ c = .logging := by
  rcases C02_once_step env rules tx c with h | ⟨_, h2, h3⟩
  · left; rw [h]; exact Nat.le_refl _
  · by_cases hc : c = .logging
    · right; exact hc
    · left; rw [h2]; exact Nat.le_of_lt (h3 hc)

/-! ## the first disruptive match is the one that interrupts -/

/-- evaluating one rule either leaves the interruption as it was or sets one carrying that rule's id -/
theorem evalOne_intr (env : Env) (all : List Rule) (phase : Nat) (r : Rule) (tx : Tx) :
    (evalOne env all phase r tx).intr = tx.intr ∨ ∃ i, (evalOne env all phase r tx).intr = some i ∧ i.ruleId = r.id := by
  unfold evalOne evalRule
  have q := quiet_evalLinks env all r.id r.links { tx with matchedVars := {}, evalLog := tx.evalLog ++ [(phase, r.id)] }
  rcases hh : evalLinks env all r.id r.links { tx with matchedVars := {}, evalLog := tx.evalLog ++ [(phase, r.id)] } with ⟨tx1, res⟩
  rw [hh] at q
  cases res with
  | none => left; exact q.intr
  | some ms =>
    simp only
    have hi1 : tx1.intr = tx.intr := q.intr
    -- skip / skipAfter do not touch intr; runDisr sets it (if at all) with r.id; matchRule keeps it
    have key : ∀ t : Tx, t.intr = tx.intr →
        (runDisr r t).intr = tx.intr ∨ ∃ i, (runDisr r t).intr = some i ∧ i.ruleId = r.id := by
      intro t ht
      unfold runDisr interrupt
      repeat' split
      all_goals first
        | (left; exact ht)
        | (right; exact ⟨_, rfl, rfl⟩)
    have hsk : ((if !r.skipAfter.isEmpty then
        { (if r.skip > 0 then { tx1 with skip := r.skip } else tx1) with skipAfter := r.skipAfter }
        else (if r.skip > 0 then { tx1 with skip := r.skip } else tx1))).intr = tx.intr := by
      split <;> split <;> exact hi1
    have := key _ hsk
    split
    · simpa [matchRule] using this
    · exact this

/-- **C02_first**: in a request or response phase that starts without an interruption, if the
    phase ends interrupted then the interruption carries the id of the *last* rule the phase
    evaluated: the first rule whose disruptive action takes effect interrupts, with its own id, and
    (C02_interrupted_phase_stops) nothing is evaluated after it. -/
theorem C02_first (env : Env) (all : List Rule) (phase : Nat) (hp : phase ≠ 5) (rs : List Rule) (tx : Tx)
    (h0 : ∀ i, tx.intr = some i → tx.evalLog.getLast? = some (phase, i.ruleId)) :
    ∀ i, (rulesLoop env all phase rs tx).intr = some i →
      (rulesLoop env all phase rs tx).evalLog.getLast? = some (phase, i.ruleId) := by
  induction rs generalizing tx with
  | nil => simpa [rulesLoop] using h0
  | cons r rs ih =>
    by_cases hi : tx.intr.isSome = true
    · rw [C02_interrupted_phase_stops env all phase (r :: rs) tx hi hp]; exact h0
    · have hnone : tx.intr = none := by
        cases h : tx.intr with
        | none => rfl
        | some i => simp [h] at hi
      have evalCase : ∀ i, (rulesLoop env all phase rs (evalOne env all phase r tx)).intr = some i →
          (rulesLoop env all phase rs (evalOne env all phase r tx)).evalLog.getLast? = some (phase, i.ruleId) := by
        apply ih
        intro i hi'
        obtain ⟨e1, _⟩ := frame_evalOne_log env all phase r tx
        rcases evalOne_intr env all phase r tx with h | ⟨j, hj, hid⟩
        · rw [h, hnone] at hi'; cases hi'
        · rw [hj] at hi'; cases hi'
          rw [e1, hid]; simp
      have same : ∀ t : Tx, t.intr = none →
          ∀ i, (rulesLoop env all phase rs t).intr = some i →
            (rulesLoop env all phase rs t).evalLog.getLast? = some (phase, i.ruleId) := by
        intro t h1
        apply ih
        intro i hi'
        rw [h1] at hi'; cases hi'
      have base : ∀ t : Tx, t.intr = none → ∀ i, t.intr = some i → t.evalLog.getLast? = some (phase, i.ruleId) := by
        intro t h1 i hi'
        rw [h1] at hi'; cases hi'
      rw [rulesLoop]
      simp only [hnone, Option.isSome_none, Bool.false_and, Bool.false_eq_true, if_false]
      split
      · exact same tx hnone
      · split
        · exact same tx hnone
        · split
          · split
            · first | exact same _ rfl | exact same _ hnone
            · exact same tx hnone
          · split
            · first | exact same _ rfl | exact same _ hnone
            · split
              · exact base tx hnone
              · split
                · exact evalCase
                · exact base tx hnone
              · split
                · exact base tx hnone
                · split
                  · first | exact base _ rfl | exact base _ hnone
                  · exact evalCase
              · exact evalCase

/-! ## non-vacuity: a deny in phase 1, then every later call returns it -/
def C02_demoEnv : Env := { op := fun _ _ _ => true, tf := fun _ v => (v, false, false) }
def C02_deny : Rule := ⟨7, 1, [], [⟨[], none, [], false, [], 0⟩], .deny, 0, 0, [], none, [], false, false, []⟩
example : (runCalls C02_demoEnv [C02_deny] {} [.reqHeaders, .reqBody, .respHeaders, .reqHeaders]).2 =
    [some ⟨7, "deny", 403, []⟩, some ⟨7, "deny", 403, []⟩, some ⟨7, "deny", 403, []⟩, some ⟨7, "deny", 403, []⟩] := by decide
