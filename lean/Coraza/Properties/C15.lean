/-
  C15 — Built-in operators decide exactly their documented predicates.

  Left-hand sides are the executable models of the Go operators (tied to /repo by the
  `op` correspondence engine); right-hand sides are the declarative predicates.
-/
import Coraza.Proofs.Op
import Coraza.Model.IpMatch
import Coraza.Proofs.Regex
import Coraza.Base.Lit
open Coraza Coraza.Op

/-! ## string operators (argument already macro-expanded) -/

theorem C15_streq (data v : Bytes) : streq data v = true ↔ data = v := by simp [streq]

/-- @contains: the argument occurs in the value as a contiguous substring -/
theorem C15_contains (data v : Bytes) : contains data v = true ↔ ∃ s t, v = s ++ data ++ t := by
  rw [contains, isInfixB_iff]
  constructor
  · rintro ⟨s, t, h⟩; exact ⟨s, t, h.symm⟩
  · rintro ⟨s, t, h⟩; exact ⟨s, t, h.symm⟩

/-- @within: the value occurs in the argument -/
theorem C15_within (data v : Bytes) : within data v = true ↔ ∃ s t, data = s ++ v ++ t := by
  rw [within, isInfixB_iff]
  constructor
  · rintro ⟨s, t, h⟩; exact ⟨s, t, h.symm⟩
  · rintro ⟨s, t, h⟩; exact ⟨s, t, h.symm⟩

theorem C15_beginsWith (data v : Bytes) : beginsWith data v = true ↔ ∃ t, v = data ++ t := by
  rw [beginsWith, isPrefixB_iff]
  constructor
  · rintro ⟨t, h⟩; exact ⟨t, h.symm⟩
  · rintro ⟨t, h⟩; exact ⟨t, h.symm⟩

theorem C15_endsWith (data v : Bytes) : endsWith data v = true ↔ ∃ s, v = s ++ data := by
  rw [endsWith, isSuffixB_iff]
  constructor
  · rintro ⟨t, h⟩; exact ⟨t, h.symm⟩
  · rintro ⟨t, h⟩; exact ⟨t, h.symm⟩

/-! ## numeric comparisons are the integer order on `atoi` of both sides -/

theorem C15_numeric (data v : Bytes) :
    (eq data v = true ↔ atoi v = atoi data) ∧ (ge data v = true ↔ atoi v ≥ atoi data) ∧
    (gt data v = true ↔ atoi v > atoi data) ∧ (le data v = true ↔ atoi v ≤ atoi data) ∧
    (lt data v = true ↔ atoi v < atoi data) := by
  refine ⟨?_, ?_, ?_, ?_, ?_⟩ <;> simp only [eq, ge, gt, le, lt, beq_iff_eq, decide_eq_true_eq]
  · exact eq_comm

/-- the five comparisons are mutually consistent (trichotomy) for every pair of inputs -/
theorem C15_numeric_consistent (data v : Bytes) :
    ge data v = !lt data v ∧ gt data v = !le data v ∧ eq data v = (ge data v && le data v) := by
  simp only [eq, ge, gt, le, lt]
  generalize atoi data = a
  generalize atoi v = b
  refine ⟨?_, ?_, ?_⟩ <;> rw [Bool.eq_iff_iff] <;> simp <;> omega

/-- atoi never leaves the int64 range (Go's clamping on ErrRange) -/
theorem C15_atoi_range (s : Bytes) : minInt64 ≤ atoi s ∧ atoi s ≤ maxInt64 := by
  unfold atoi minInt64 maxInt64
  split
  · omega
  · simp only
    repeat' split
    all_goals omega

/-! ## validateUrlEncoding: every '%' is followed by two hex digits -/

/-- declarative: at every position holding '%', the next two positions exist and hold hex digits -/
def UrlEncOK (v : Bytes) : Prop :=
  ∀ i : Nat, v[i]? = some (0x25 : UInt8) → ∃ c1 c2, v[i+1]? = some c1 ∧ v[i+2]? = some c2 ∧ isHexDigit c1 = true ∧ isHexDigit c2 = true

theorem hex_ne_pct (c : UInt8) : isHexDigit c = true → c ≠ 0x25 := by
  revert c; apply UInt8.forall_of_fin; decide +kernel

theorem C15_urlEncValid_iff (v : Bytes) : urlEncValid v = true ↔ UrlEncOK v := by
  -- strong induction on the length (the loop advances by 1 or 3)
  induction h : v.length using Nat.strongRecOn generalizing v with
  | ind n ih =>
    cases v with
    | nil => simp [urlEncValid, UrlEncOK]
    | cons b tl =>
      subst h
      by_cases hb : b = 0x25
      · subst hb
        match tl with
        | [] =>
          simp only [urlEncValid]
          constructor
          · intro h; simp at h
          · intro h; have := h 0 (by simp); simp at this
        | [c] =>
          simp only [urlEncValid]
          constructor
          · intro h; simp at h
          · intro h; have := h 0 (by simp); simp at this
        | c1 :: c2 :: rest =>
          have ihr := ih rest.length (by simp; omega) rest rfl
          simp only [urlEncValid, bne_self_eq_false, Bool.false_eq_true, if_false]
          by_cases hh : (isHexDigit c1 && isHexDigit c2) = true
          · simp only [hh, if_true, ihr]
            simp only [Bool.and_eq_true] at hh
            constructor
            · intro hr i hi
              match i with
              | 0 => exact ⟨c1, c2, by simp, by simp, hh.1, hh.2⟩
              | 1 => simp at hi; exact absurd hi (hex_ne_pct c1 hh.1)
              | 2 => simp at hi; exact absurd hi (hex_ne_pct c2 hh.2)
              | j + 3 =>
                simp only [List.getElem?_cons_succ] at hi ⊢
                exact hr j hi
            · intro hv i hi
              have := hv (i + 3) (by simpa using hi)
              simpa using this
          · have hh' : (isHexDigit c1 && isHexDigit c2) = false := by simpa using hh
            simp only [hh', Bool.false_eq_true, if_false]
            constructor
            · intro h; simp at h
            · intro hv
              obtain ⟨d1, d2, e1, e2, k1, k2⟩ := hv 0 (by simp)
              simp at e1 e2; subst e1 e2
              simp [k1, k2] at hh'
      · have ihr := ih tl.length (by simp) tl rfl
        have hb' : (b != 0x25) = true := by simpa using hb
        rw [urlEncValid_cons_plain b tl hb', ihr]
        constructor
        · intro hr i hi
          match i with
          | 0 => simp at hi; exact absurd hi hb
          | j + 1 =>
            simp only [List.getElem?_cons_succ] at hi ⊢
            exact hr j hi
        · intro hv i hi
          have := hv (i + 1) (by simpa using hi)
          simpa using this

/-- @validateUrlEncoding fires exactly on non-empty values with a malformed escape -/
theorem C15_validateUrlEncoding (v : Bytes) :
    validateUrlEncoding v = true ↔ v ≠ [] ∧ ¬ UrlEncOK v := by
  simp only [validateUrlEncoding, Bool.and_eq_true, Bool.not_eq_true', ← C15_urlEncValid_iff]
  constructor
  · rintro ⟨h1, h2⟩; exact ⟨by intro h; simp [h] at h1, by simp [h2]⟩
  · rintro ⟨h1, h2⟩; exact ⟨by cases v <;> simp_all, by simpa using h2⟩

/-! ## validateByteRange: some byte lies outside every listed range -/

theorem C15_validateByteRange (arg v : Bytes) (rs : List (Nat × Nat)) (harg : arg ≠ [])
    (hp : parseRanges (splitOn 0x2c arg) = some rs) :
    validateByteRange arg v = some (decide (v ≠ [] ∧ ∃ b ∈ v, ∀ r ∈ rs, ¬ (r.1 ≤ b.toNat ∧ b.toNat ≤ r.2))) := by
  have h0 : arg.isEmpty = false := by cases arg <;> simp_all
  simp only [validateByteRange, h0, hp, Bool.false_eq_true, if_false, Option.some.injEq]
  by_cases hv : v = []
  · subst hv; simp
  · have : v.isEmpty = false := by cases v <;> simp_all
    simp only [this, Bool.not_false, Bool.true_and]
    rw [Bool.eq_iff_iff]
    simp [inRanges, hv]

/-- and the factory rejects the argument otherwise (never a silent default) -/
theorem C15_validateByteRange_reject (arg v : Bytes) (harg : arg ≠ [])
    (hp : parseRanges (splitOn 0x2c arg) = none) : validateByteRange arg v = none := by
  have h0 : arg.isEmpty = false := by cases arg <;> simp_all
  simp [validateByteRange, h0, hp]

/-! ## @pm: ASCII-case-insensitive membership of a listed phrase, given the AC contract -/

theorem C15_pm (arg v : Bytes) : pm arg v = true ↔ ∃ p ∈ pmDict arg, FoldInfix p v := by
  simp only [pm]
  split
  · rename_i hlt
    constructor
    · intro h; simp at h
    · rintro ⟨p, hp, hf⟩
      have := minPatternLen_le _ p hp
      have := hf.length_le
      omega
  · simp only [acMatches, List.any_eq_true, isInfixFold_iff]

/-- the length short-circuit alone is sound: too-short values contain no phrase -/
theorem C15_pm_minlen (dict : List Bytes) (v : Bytes) (h : v.length < minPatternLen dict) :
    ¬ ∃ p ∈ dict, FoldInfix p v := by
  rintro ⟨p, hp, hf⟩
  have := minPatternLen_le _ p hp
  have := hf.length_le
  omega

/-- phrases are the non-empty space-separated words of the argument -/
theorem C15_pm_phrases_nonempty (arg : Bytes) : ∀ p ∈ pmDict arg, p ≠ [] := by
  intro p hp
  simp only [pmDict, List.mem_filter] at hp
  intro h; simp [h] at hp

/-! ## @pmFromFile / @pmFromDataset: the same membership over the phrases of a data file / a dataset -/

theorem C15_pmFromFile (data v : Bytes) : pmFromFile data v = true ↔ ∃ p ∈ pmFileDict data, FoldInfix p v := by
  simp only [pmFromFile]
  split
  · rename_i hlt
    constructor
    · intro h; simp at h
    · rintro ⟨p, hp, hf⟩
      have := minPatternLen_le _ p hp
      have := hf.length_le
      omega
  · simp only [acMatches, List.any_eq_true, isInfixFold_iff]

theorem C15_pmFromDataset (dict : List Bytes) (v : Bytes) :
    pmFromDataset dict v = true ↔ ∃ p ∈ dict, FoldInfix p v := by
  simp only [pmFromDataset]
  split
  · rename_i hlt
    constructor
    · intro h; simp at h
    · rintro ⟨p, hp, hf⟩
      have := minPatternLen_le _ p hp
      have := hf.length_le
      omega
  · simp only [acMatches, List.any_eq_true, isInfixFold_iff]

/-- the phrases of a data file are its trimmed, non-empty, non-comment lines: none is empty and none keeps
    white space around it, whatever the padding in the file (so the shortest phrase — the length
    short-circuit — is measured on the trimmed text) -/
theorem C15_pmFromFile_phrases (data : Bytes) : ∀ p ∈ pmFileDict data, p ≠ [] := by
  intro p hp
  simp only [pmFileDict, List.mem_map, List.mem_filter] at hp
  obtain ⟨l, ⟨_, hl⟩, rfl⟩ := hp
  intro h
  have : l = [] := by simpa using h
  simp [this] at hl

example : pmFileDict (b!"  Nmap\t\r\n# tool\n\nsqlmap") = [b!"nmap", b!"sqlmap"] := by decide
example : pmFromFile (b!"   nmap\t\nsqlmap-long\n") (b!"NMAP") = true := by decide

/-! ## negation (rule.go:713 executeOperator): `!` is the exact complement -/

def executeOperator (op : Bytes → Bool) (neg : Bool) (v : Bytes) : Bool :=
  let r := op v; if neg then !r else r

theorem C15_negation (op : Bytes → Bool) (v : Bytes) :
    executeOperator op true v = !executeOperator op false v := by simp [executeOperator]

/-! ## non-vacuity -/
example : contains [0x62] [0x61, 0x62, 0x63] = true := by decide
example : validateUrlEncoding [0x25, 0x34] = true ∧ validateUrlEncoding [0x25, 0x34, 0x31] = false := by decide
example : parseRanges (splitOn 0x2c [0x31, 0x30, 0x2d, 0x31, 0x33, 0x2c, 0x33, 0x32]) = some [(10, 13), (32, 32)] := by decide
example : pm [0x66, 0x6f, 0x6f, 0x20, 0x20, 0x62] [0x7a, 0x7a] = false ∧ pm [0x46, 0x6f] [0x78, 0x66, 0x4f] = true := by decide


/-! ## @ipMatch: CIDR membership -/

/-- C15_ipMatch_any: @ipMatch holds iff the value lies in one of the listed networks that parse
    (entries that do not parse are skipped, as documented) -/
theorem C15_ipMatch_any (arg v : Bytes) : ipMatch arg v = true ↔ ∃ n ∈ ipMatchNets arg, netContains n v = true := by
  simp [ipMatch, List.any_eq_true]

/-- C15_ipMatch_mapped: membership depends on the address only, not on its spelling — two texts
    that denote the same 16-byte address (an IPv4 dotted quad and its IPv4-mapped IPv6 forms
    ::ffff:a.b.c.d, ::ffff:hhhh:hhhh, 0:0:0:0:0:ffff:…) get the same answer from every network -/
theorem C15_ipMatch_mapped (n : IPNet) (v1 v2 : Bytes) (f1 f2 : Bool) (ip : List UInt8)
    (h1 : parseAddr v1 = some (f1, ip)) (h2 : parseAddr v2 = some (f2, ip)) :
    netContains n v1 = netContains n v2 := by
  simp [netContains, h1, h2]

/-- a value that is not an IP address is in no network -/
theorem C15_ipMatch_garbage (arg v : Bytes) (h : parseAddr v = none) : ipMatch arg v = false := by
  simp [ipMatch, netContains, h]

/-- the dotted quad and its mapped spellings denote the same address; /24 and /120 membership -/
example : (parseAddr [0x31, 0x2e, 0x32, 0x2e, 0x33, 0x2e, 0x34]).map (·.2) =
          (parseAddr [0x3a, 0x3a, 0x66, 0x66, 0x66, 0x66, 0x3a, 0x31, 0x2e, 0x32, 0x2e, 0x33, 0x2e, 0x34]).map (·.2) := by decide
-- "1.2.3.0/24" contains "::ffff:1.2.3.4" and "1.2.3.200", not "1.2.4.4"
example : ipMatch [0x31, 0x2e, 0x32, 0x2e, 0x33, 0x2e, 0x30, 0x2f, 0x32, 0x34]
            [0x3a, 0x3a, 0x66, 0x66, 0x66, 0x66, 0x3a, 0x31, 0x2e, 0x32, 0x2e, 0x33, 0x2e, 0x34] = true := by decide
example : ipMatch [0x31, 0x2e, 0x32, 0x2e, 0x33, 0x2e, 0x30, 0x2f, 0x32, 0x34] [0x31, 0x2e, 0x32, 0x2e, 0x34, 0x2e, 0x34] = false := by decide
-- a bare address is its own /32: "1.2.3.4" contains "::ffff:102:304"
example : ipMatch [0x31, 0x2e, 0x32, 0x2e, 0x33, 0x2e, 0x34]
            [0x3a, 0x3a, 0x66, 0x66, 0x66, 0x66, 0x3a, 0x31, 0x30, 0x32, 0x3a, 0x33, 0x30, 0x34] = true := by decide

/-! ## @rx (and regex keys): the matcher of the regex model is exact -/

open Coraza.Regex in
/-- **C15_rx_exact**: for every expression of the modelled RE2 fragment and every input, the answer
    (`regexp.MatchString` as @rx and the regex keys use it) is true iff some substring of the input is
    matched by the expression in its context — the declarative semantics `Regex.Matches`
    (concatenation splits, alternation picks a branch, star iterates, a class consumes one byte, an
    empty-width assertion looks at the two neighbouring bytes). No bound on expression or input. -/
theorem C15_rx_exact (r : Re) (s : Bytes) :
    search r s = true ↔ ∃ pre m post, s = pre ++ m ++ post ∧ Matches r (lst none pre) m (hd post none) :=
  search_iff r s

open Coraza.Regex in
/-- a leading `!` on @rx is the exact complement (no input is both matched and not matched) -/
theorem C15_rx_negation (r : Re) (s : Bytes) :
    (!search r s) = true ↔ ¬ ∃ pre m post, s = pre ++ m ++ post ∧ Matches r (lst none pre) m (hd post none) := by
  rw [← C15_rx_exact]; simp

open Coraza.Regex in
/-- the empty expression matches everything; the `(?sm)` prefix of @rx makes `.` match a newline and
    `^`/`$` match at line boundaries (checked on the parser's output) -/
example : parse {} (b!"(?sm)^b.c$") =
    some (.cat .eps (.cat (.asrt .bol) (.cat (.cls false [(98, 98)]) (.cat (.cls true []) (.cat (.cls false [(99, 99)]) (.cat (.asrt .eol) .eps)))))) := by
  decide
open Coraza.Regex in
example : matchString (b!"(?sm)^b.c$") [97, 10, 98, 10, 99, 10, 100] = some true := by decide
open Coraza.Regex in
example : matchString (b!"^b.c$") [97, 10, 98, 10, 99, 10, 100] = some false := by decide
open Coraza.Regex in
example : matchString (b!"(?i)^Ab+c?$") (b!"aBBB") = some true := by decide
