/-
  C07 — The library never panics, whatever configuration text or traffic it is given.

  Two kinds of statement:
   * the Lean models of the library's units (transformations C14, operators C15, decoding C03,
     macro compilation, the engine C01…, body buffering C10, the interceptor C18) are total
     functions by construction (structural recursion, no partial operations): their totality is
     checked by Lean's termination checker when the models are compiled;
   * for the sites whose safety is an arithmetic or nil-ness argument, the Go operation is modelled
     as a partial function and shown never to fail (below).
  The `nopanic` correspondence engine runs the real library under recover() and a watchdog.
-/
import Coraza.Model.Panic
import Coraza.Model.Macro
open Coraza Coraza.Panic

/-- C07_write_slice_safe: for every limit (also zero or negative, as ctl:requestBodyLimit can
    make it), every buffered length ≥ 0, every chunk and either limit action, the slice
    expression of the body write functions is within bounds -/
theorem C07_write_slice_safe (limit length : Int) (b : Bytes) (reject : Bool) (hl : 0 ≤ length) :
    writeSlice limit length b reject ≠ some none := by
  unfold writeSlice
  simp only
  split
  · split
    · simp
    · rename_i hge _
      unfold sliceTo remaining
      split
      · simp
      · simp only [ne_eq, Option.some.injEq]
        have : (0 : Int) ≤ limit - length ∧ limit - length ≤ b.length := by omega
        simp [this]; omega
  · unfold sliceTo
    simp

/-- … and the clamp is necessary: before the fix, ctl:requestBodyLimit=-1 made it panic (F-C07-4) -/
theorem C07_unclamped_panics : writeSliceUnclamped (-1) 0 [0x61] false = some none := by decide

/-- C07_expand_total: macro expansion returns for every variable, with or without a collection
    behind it, every key and every collection content (F-C07-3 was the `none` row) -/
theorem C07_expand_total (coll : Option Coll) (key text : Bytes) : (expandToken coll key text).isSome = true := by
  unfold expandToken
  cases coll with
  | none => rfl
  | some c => cases c <;> rfl

/-- C07_delete_by_msg_total: SecRuleRemoveByMsg handles rules without a msg (F-C07-2) -/
theorem C07_delete_by_msg_total (msg : Option Bytes) (wanted : Bytes) : (keepByMsg msg wanted).isSome = true := by
  cases msg <;> rfl

/-- C07_macro_compile_total: macro compilation returns (a macro or an error) for every byte
    string: the model is a total structural recursion, and the `input[i-1]` read of the Go loop
    is the `prev` argument, which is only consulted in macro mode, i.e. after "%{" was consumed -/
theorem C07_macro_compile_total (input : Bytes) :
    Coraza.Engine.compileMacro input = none ∨ ∃ m, Coraza.Engine.compileMacro input = some m := by
  cases h : Coraza.Engine.compileMacro input with
  | none => left; rfl
  | some m => right; exact ⟨m, rfl⟩

/-! non-vacuity -/
example : writeSlice (-1) 0 [0x61, 0x62] false = some (some []) := by decide
example : writeSlice 3 2 [0x61, 0x62] false = some (some [0x61]) := by decide
