/-
  C02 (continued) — the status an interruption carries when the phase has a SecDefaultAction with a
  `status:` of its own (Model/Engine.lean inheritStatus = rule_parser.go mergeActions, status part).
-/
import Coraza.Properties.C02
open Coraza Coraza.Engine

/-- a rule that states a status keeps it, whatever the default actions of its phase say -/
theorem C02_own_status_wins (dst : List (Nat × Nat)) (r : Rule) (h : r.status ≠ 0) : inheritStatus dst r = r := by
  simp [inheritStatus, h]

/-- inheriting touches nothing but the status: identity, phase, links, disruptive action and flow stay -/
theorem C02_inherit_only_status (dst : List (Nat × Nat)) (r : Rule) :
    inheritStatus dst r = { r with status := (inheritStatus dst r).status } := by
  unfold inheritStatus
  split
  · rfl
  · split <;> rfl

/-- a rule without a status gets the one of its phase's default actions, and only of its own phase -/
theorem C02_inherited_status (dst : List (Nat × Nat)) (r : Rule) (h0 : r.status = 0) :
    (inheritStatus dst r).status = ((dst.find? (fun d => d.1 == r.phase)).map (·.2)).getD 0 := by
  unfold inheritStatus
  simp only [h0, bne_self_eq_false, Bool.false_eq_true, if_false]
  cases dst.find? (fun d => d.1 == r.phase) <;> simp [h0]

/-- **C02_deny_reports_own_status**: with the engine on, the interruption raised by a `deny` rule that states a
    status carries that rule's id and that status — for every set of default actions -/
theorem C02_deny_reports_own_status (dst : List (Nat × Nat)) (r : Rule) (tx : Tx) (hs : r.status ≠ 0)
    (hd : r.disr = .deny) (he : tx.engine = .on) :
    (runDisr (inheritStatus dst r) tx).intr = some ⟨r.id, "deny", r.status, []⟩ := by
  rw [C02_own_status_wins dst r hs]
  simp [runDisr, hd, interrupt, he, hs]

/-- a `deny` rule of phase `ph` stating `status:st` (0 = none) -/
def denyRule (ph st : Nat) : Rule :=
  { id := 7, phase := ph, marker := [], links := [], disr := .deny, status := st, skip := 0, skipAfter := [],
    severity := none, tags := [], log := true, audit := true }

example : (inheritStatus [(1, 503)] (denyRule 1 401)).status = 401 := by decide
example : (inheritStatus [(1, 503)] (denyRule 1 0)).status = 503 := by decide
example : (inheritStatus [(1, 503)] (denyRule 2 0)).status = 0 := by decide
