/-
  C16 (continued) — the tables the parser model is written against are the tables of the source.

  `Coraza.Generated.*` is translated from /repo's Go files on every run (tools/gen_lean_tables.py);
  the hand-written tables of Model/Parse.lean are the expectation. A change of a name, of a
  variable's selectability or case rule, of an action's type or of a transformation alias in the Go
  source breaks one of these obligations (and the `parse` correspondence names a failing input).
-/
import Coraza.Properties.C16
import Coraza.Model.Generated.Tables
open Coraza Coraza.Parse

/-- every name `variables.Parse` accepts is its own canonical name, and name + selectability are the model's table -/
theorem C16_variables_are_source :
    Generated.variables.map (fun e => (e.1, e.2.2)) = varTable ∧
    Generated.variables.all (fun e => e.1 == e.2.1) = true := by
  decide +kernel

/-- the variables whose keys keep their case are exactly those of `caseSensitiveVariable` -/
theorem C16_case_rule_is_source :
    varTable.all (fun e => caseSensitive e.1 == Generated.caseSensitiveVars.contains e.1) = true := by
  decide +kernel

theorem C16_actions_are_source : Generated.actions = actTable := by
  decide +kernel

/-- the registered transformation names are the model's, and two names share a Go function exactly
    when the model gives them one canonical name -/
theorem C16_transformations_are_source :
    Generated.transformations.map (·.1) = tfTable ∧
    Generated.transformations.all (fun a => Generated.transformations.all (fun b =>
      (a.2 == b.2) == (tfCanon a.1 == tfCanon b.1))) = true := by
  decide +kernel
