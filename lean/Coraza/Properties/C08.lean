/-
  C08 — skip, skipAfter, allow and chain steer evaluation exactly as documented.

  Statements are about `rulesLoop` / `evalPhase` / `evalRule` of Coraza/Model/Engine.lean
  (rulegroup.go:155-280, rule.go:353-413), for every rule list, every operator and
  transformation interpretation (`env` is universally quantified, so "the request makes an
  arbitrary subset of the rules match" is literally ∀) and every transaction state.
-/
import Coraza.Proofs.Engine
open Coraza Coraza.Engine

/-- a rule takes part in the phase: phase filter passed and not removed for this transaction -/
def eligible (phase : Nat) (tx : Tx) (r : Rule) : Bool :=
  (r.phase == 0 || r.phase == phase) && !removed tx r.id

/-- `pre` contains exactly `n` eligible rules (they are the ones a pending skip passes over) -/
def countEligible (phase : Nat) (tx : Tx) (pre : List Rule) : Nat := (pre.filter (eligible phase tx)).length

theorem rulesLoop_skip_ineligible (env : Env) (all : List Rule) (phase : Nat) (r : Rule) (rs : List Rule) (tx : Tx)
    (hi : tx.intr = none ∨ phase = 5) (he : eligible phase tx r = false) :
    rulesLoop env all phase (r :: rs) tx = rulesLoop env all phase rs tx := by
  unfold eligible at he
  rw [rulesLoop]
  have h1 : (tx.intr.isSome && phase != 5) = false := by
    rcases hi with h | h
    · simp [h]
    · simp [h]
  by_cases hp : r.phase != 0 && r.phase != phase
  · simp [h1, hp]
  · have hp' : (r.phase == 0 || r.phase == phase) = true := by
      simp only [Bool.and_eq_true, bne_iff_ne, ne_eq, not_and, Decidable.not_not] at hp
      by_cases h0 : r.phase = 0
      · simp [h0]
      · simp [hp h0]
    simp only [hp', Bool.true_and, Bool.not_eq_eq_eq_not, Bool.not_false] at he
    simp [h1, hp, he]

/-- C08_skip: with `skip = n` pending (no interruption, no pending skipAfter), evaluation
    passes over exactly the next `n` eligible rules of the phase — whatever lies between
    them — and resumes with `skip = 0` right after the n-th; nothing is evaluated meanwhile. -/
theorem C08_skip (env : Env) (all : List Rule) (phase : Nat) (pre rest : List Rule) (tx : Tx)
    (hi : tx.intr = none ∨ phase = 5) (hsa : tx.skipAfter = [])
    (hn : countEligible phase tx pre = tx.skip) :
    rulesLoop env all phase (pre ++ rest) tx = rulesLoop env all phase rest { tx with skip := 0 } := by
  induction pre generalizing tx with
  | nil =>
    simp only [countEligible, List.filter_nil, List.length_nil] at hn
    have : tx = { tx with skip := 0 } := by cases tx; simp_all
    rw [List.nil_append]; exact congrArg _ this
  | cons r pre ih =>
    by_cases he : eligible phase tx r = true
    · -- an eligible rule: it consumes one unit of skip
      have hpos : tx.skip > 0 := by
        simp only [countEligible, List.filter_cons, he, if_true, List.length_cons] at hn; omega
      have hrem : removed tx r.id = false := by
        unfold eligible at he; simp only [Bool.and_eq_true, Bool.not_eq_eq_eq_not, Bool.not_true] at he; exact he.2
      have hph : (r.phase != 0 && r.phase != phase) = false := by
        unfold eligible at he
        simp only [Bool.and_eq_true, Bool.or_eq_true, beq_iff_eq] at he
        rcases he.1 with h | h <;> simp [h]
      have h1 : (tx.intr.isSome && phase != 5) = false := by
        rcases hi with h | h <;> simp [h]
      have hsaE : (!tx.skipAfter.isEmpty) = false := by simp [hsa]
      rw [List.cons_append, rulesLoop]
      simp only [h1, hph, hrem, hsaE, hpos, Bool.false_eq_true, if_false, if_true]
      have := ih { tx with skip := tx.skip - 1 } hi hsa (by
        simp only [countEligible, List.filter_cons, he, if_true, List.length_cons] at hn
        show countEligible phase { tx with skip := tx.skip - 1 } pre = tx.skip - 1
        have : countEligible phase { tx with skip := tx.skip - 1 } pre = countEligible phase tx pre := rfl
        rw [this]; unfold countEligible; omega)
      simpa using this
    · have he' : eligible phase tx r = false := by simpa using he
      rw [List.cons_append, rulesLoop_skip_ineligible env all phase r _ tx hi he']
      apply ih tx hi hsa
      simpa [countEligible, List.filter_cons, he'] using hn

/-- C08_skipAfter: with `skipAfter = M` pending, evaluation resumes at the first rule after
    the first eligible marker `M`; the rules before it are not evaluated. -/
theorem C08_skipAfter (env : Env) (all : List Rule) (phase : Nat) (pre : List Rule) (mk : Rule) (rest : List Rule)
    (tx : Tx) (hi : tx.intr = none ∨ phase = 5) (hsa : tx.skipAfter ≠ [])
    (hpre : ∀ r ∈ pre, eligible phase tx r = true → r.marker ≠ tx.skipAfter)
    (hmk : eligible phase tx mk = true) (hm : mk.marker = tx.skipAfter) :
    rulesLoop env all phase (pre ++ mk :: rest) tx = rulesLoop env all phase rest { tx with skipAfter := [] } := by
  have h1 : (tx.intr.isSome && phase != 5) = false := by
    rcases hi with h | h <;> simp [h]
  have hne : tx.skipAfter.isEmpty = false := by cases h : tx.skipAfter <;> simp_all
  have step : ∀ r : Rule, eligible phase tx r = true → ∀ rs,
      rulesLoop env all phase (r :: rs) tx =
        if r.marker == tx.skipAfter then rulesLoop env all phase rs { tx with skipAfter := [] }
        else rulesLoop env all phase rs tx := by
    intro r he rs
    have hrem : removed tx r.id = false := by
      unfold eligible at he; simp only [Bool.and_eq_true, Bool.not_eq_eq_eq_not, Bool.not_true] at he; exact he.2
    have hph : (r.phase != 0 && r.phase != phase) = false := by
      unfold eligible at he
      simp only [Bool.and_eq_true, Bool.or_eq_true, beq_iff_eq] at he
      rcases he.1 with h | h <;> simp [h]
    rw [rulesLoop]
    simp only [h1, hph, hrem, hne, Bool.not_false, Bool.false_eq_true, if_false, if_true]
  induction pre with
  | nil =>
    rw [List.nil_append, step mk hmk]; simp [hm]
  | cons r pre ih =>
    rw [List.cons_append]
    by_cases he : eligible phase tx r = true
    · rw [step r he]
      have := hpre r (by simp) he
      simp only [beq_iff_eq, this, if_false]
      exact ih (fun r' hr' => hpre r' (by simp [hr']))
    · have he' : eligible phase tx r = false := by simpa using he
      rw [rulesLoop_skip_ineligible env all phase r _ tx hi he']
      exact ih (fun r' hr' => hpre r' (by simp [hr']))

/-- C08_phase_isolation: whatever happened in a phase, no skip, no skipAfter and no
    `allow:phase` is left pending for the next one. -/
theorem C08_phase_isolation (env : Env) (rules : List Rule) (phase : Nat) (tx : Tx) :
    (evalPhase env rules phase tx).skip = 0 ∧ (evalPhase env rules phase tx).skipAfter = [] ∧
    (evalPhase env rules phase tx).allow ≠ .phase := by
  unfold evalPhase
  refine ⟨rfl, rfl, ?_⟩
  simp only
  split <;> simp_all

/-- no rule is evaluated while `allow` covers the phase: `evalLog` (the list of evaluations) is unchanged -/
theorem C08_allow_blocks (env : Env) (all : List Rule) (phase : Nat) (rs : List Rule) (tx : Tx)
    (h : tx.allow = .phase ∨ (tx.allow = .all ∧ phase ≠ 5) ∨ (tx.allow = .request ∧ (phase = 1 ∨ phase = 2))) :
    (rulesLoop env all phase rs tx).evalLog = tx.evalLog := by
  induction rs generalizing tx with
  | nil => rfl
  | cons r rs ih =>
    rw [rulesLoop]
    split
    · rfl
    · split
      · exact ih tx h
      · split
        · exact ih tx h
        · split
          · split
            · exact ih { tx with skipAfter := [] } h
            · exact ih tx h
          · split
            · exact ih { tx with skip := tx.skip - 1 } h
            · rcases h with h | ⟨h, hp⟩ | ⟨h, hp⟩
              · simp [h]
              · simp [h, hp]
              · rcases hp with hp | hp <;> simp [h, hp]

/-- the logging phase always runs: a bare `allow` does not stop an eligible phase-5 rule -/
theorem C08_logging_runs_after_allow (env : Env) (all : List Rule) (r : Rule) (rs : List Rule) (tx : Tx)
    (he : eligible 5 tx r = true) (hs : tx.skip = 0) (hsa : tx.skipAfter = []) (ha : tx.allow = .all) :
    rulesLoop env all 5 (r :: rs) tx =
      rulesLoop env all 5 rs (evalOne env all 5 r tx) := by
  have hrem : removed tx r.id = false := by
    unfold eligible at he; simp only [Bool.and_eq_true, Bool.not_eq_eq_eq_not, Bool.not_true] at he; exact he.2
  have hph : (r.phase != 0 && r.phase != 5) = false := by
    unfold eligible at he
    simp only [Bool.and_eq_true, Bool.or_eq_true, beq_iff_eq] at he
    rcases he.1 with h | h <;> simp [h]
  rw [rulesLoop]
  simp [hph, hrem, hsa, hs, ha]

/-- allow is only enforced with the engine On (transaction.go:349) -/
theorem C08_allow_detection_only (r : Rule) (tx : Tx) (a : Allow) (hd : r.disr = .allow a) (he : tx.engine ≠ .on) :
    (runDisr r tx).allow = tx.allow := by
  unfold runDisr; rw [hd]; simp [he]

/-- C08_chain_actions: the starter's disruptive and flow actions (and MatchRule) run only when
    every link matched; otherwise the state is the one the links left, with interruption, skip,
    skipAfter, allow and the matched-rule list untouched. -/
theorem C08_chain_incomplete (env : Env) (rules : List Rule) (r : Rule) (tx : Tx)
    (h : (evalLinks env rules r.id r.links tx).2 = none) :
    let tx' := evalRule env rules r tx
    tx'.intr = tx.intr ∧ tx'.skip = tx.skip ∧ tx'.skipAfter = tx.skipAfter ∧ tx'.allow = tx.allow ∧
    tx'.matched = tx.matched := by
  have q := quiet_evalLinks env rules r.id r.links tx
  unfold evalRule
  rcases hh : evalLinks env rules r.id r.links tx with ⟨tx1, res⟩
  rw [hh] at h q
  simp only at h
  subst h
  exact ⟨q.intr, q.skip, q.skipAfter, q.allow, q.matched⟩

/-- non-vacuity: a concrete phase with skip:1 — rule 2 is passed over, rule 3 evaluated -/
def C08_demoEnv : Env := { op := fun _ _ _ => true, tf := fun _ v => (v, false, false) }
def C08_demoRule (id : Nat) (skip : Nat) : Rule :=
  ⟨id, 1, [], [⟨[], none, [], false, [], 0⟩], .pass, 0, skip, [], none, [], false, false, []⟩
example : (evalPhase C08_demoEnv [C08_demoRule 1 1, C08_demoRule 2 0, C08_demoRule 3 0] 1 {}).evalLog = [(1, 1), (1, 3)] := by
  decide
