/-
  C18 — HTTP middleware blocks completely and otherwise passes traffic through intact.
  Model: Coraza/Model/Http.lean. All theorems are for every configuration, every decision the
  phase-3/phase-4 rules may take (`p3`, `p4` arbitrary functions) and every handler script
  (finite sequence of WriteHeader / Write / Flush, any chunking).
-/
import Coraza.Model.Http
open Coraza Coraza.Http

/-! ## small facts about the building blocks -/

@[simp] theorem flushWriteHeader_body (s : St) : (flushWriteHeader s).downBody = s.downBody := by
  unfold flushWriteHeader; split <;> rfl
@[simp] theorem flushWriteHeader_intr (s : St) : (flushWriteHeader s).intr = s.intr := by
  unfold flushWriteHeader; split <;> rfl
@[simp] theorem flushWriteHeader_wroteHeader (s : St) : (flushWriteHeader s).wroteHeader = s.wroteHeader := by
  unfold flushWriteHeader; split <;> rfl
@[simp] theorem flushWriteHeader_wroteBuffered (s : St) : (flushWriteHeader s).wroteBuffered = s.wroteBuffered := by
  unfold flushWriteHeader; split <;> rfl
@[simp] theorem flushWriteHeader_buf (s : St) : (flushWriteHeader s).buf = s.buf := by
  unfold flushWriteHeader; split <;> rfl
@[simp] theorem blockWith_body (s : St) (it : Intr) : (blockWith s it).downBody = s.downBody := by
  simp [blockWith]
@[simp] theorem blockWith_intr (s : St) (it : Intr) : (blockWith s it).intr = s.intr := by
  simp [blockWith]

theorem buffering_congr (c : Cfg) (s t : St) (h1 : t.phase3 = s.phase3) (h2 : t.wroteBuffered = s.wroteBuffered) :
    buffering c t = buffering c s := by
  simp [buffering, accNow, h1, h2]

@[simp] theorem flushWriteHeader_phase3 (s : St) : (flushWriteHeader s).phase3 = s.phase3 := by
  unfold flushWriteHeader; split <;> rfl

theorem prh_frame (c : Cfg) (s : St) (code : Nat) :
    (processResponseHeaders c s code).1.downBody = s.downBody ∧
    (processResponseHeaders c s code).1.wroteBuffered = s.wroteBuffered ∧
    (processResponseHeaders c s code).1.buf = s.buf ∧
    (processResponseHeaders c s code).1.wroteHeader = s.wroteHeader ∧
    ((processResponseHeaders c s code).2 = none → s.intr = none → (processResponseHeaders c s code).1.intr = none) := by
  unfold processResponseHeaders
  by_cases h1 : s.phase3 = true
  · simp [h1]
  · by_cases h2 : s.intr.isSome = true
    · simp [h1, h2]
    · simp [h1, h2]; intro h _; exact h

theorem prb_frame (c : Cfg) (s : St) :
    (processResponseBody c s).1.downBody = s.downBody ∧
    (processResponseBody c s).1.wroteBuffered = s.wroteBuffered ∧
    (processResponseBody c s).1.buf = s.buf ∧
    (processResponseBody c s).1.wroteHeader = s.wroteHeader ∧
    (s.intr = none → (processResponseBody c s).1.intr = (processResponseBody c s).2) := by
  unfold processResponseBody
  by_cases h1 : s.intr.isSome = true
  · simp [h1]
  · by_cases h2 : (!(s.phase3 && !s.phase4)) = true
    · simp [h1, h2]
    · simp [h1, h2]

/-- WriteHeader never touches the downstream body, and afterwards the header counts as written -/
theorem writeHeader_facts (c : Cfg) (s : St) (code : Nat) :
    (writeHeader c s code).downBody = s.downBody ∧ (writeHeader c s code).wroteBuffered = s.wroteBuffered ∧
    (writeHeader c s code).buf = s.buf ∧
    ((writeHeader c s code).wroteHeader = true) ∧ (s.wroteHeader = true → writeHeader c s code = s) := by
  unfold writeHeader
  by_cases hw : s.wroteHeader = true
  · simp [hw]
  · have hw' : s.wroteHeader = false := by simpa using hw
    simp only [hw', Bool.false_eq_true, if_false]
    obtain ⟨f1, f2, f3, f4, _⟩ := prh_frame c { s with wroteHeader := true, statusCode := code } code
    rcases hp : processResponseHeaders c { s with wroteHeader := true, statusCode := code } code with ⟨s1, it⟩
    rw [hp] at f1 f2 f3 f4
    simp only at f1 f2 f3 f4
    refine ⟨?_, ?_, ?_, ?_, by intro h; cases h⟩
    all_goals (cases it with
      | some it => simp [blockWith, f1, f2, f3, f4]
      | none => simp only; (repeat' split) <;> simp [f1, f2, f3, f4])

/-- the interruption WriteResponseBody returns is the transaction's interruption afterwards,
    and it never touches the downstream side -/
theorem writeResponseBody_facts (c : Cfg) (s : St) (b : Bytes) (h0 : s.intr = none) :
    ((writeResponseBody c s b).2.1 = none → (writeResponseBody c s b).1.intr = none) ∧
    (writeResponseBody c s b).1.downBody = s.downBody ∧
    (writeResponseBody c s b).1.wroteBuffered = s.wroteBuffered ∧
    (writeResponseBody c s b).1.wroteHeader = s.wroteHeader := by
  unfold writeResponseBody
  by_cases h1 : (c.limit == s.buf.length) = true
  · simp [h1, h0]
  · simp only [h1, Bool.false_eq_true, if_false]
    by_cases h2 : s.buf.length + b.length ≥ c.limit
    · simp only [h2, if_true]
      by_cases h3 : c.reject = true
      · simp [h3, h0]
      · simp only [h3, Bool.false_eq_true, if_false]
        obtain ⟨g1, g2, _, g4, _⟩ := prb_frame c { s with buf := s.buf ++ b.take (c.limit - s.buf.length) }
        rcases hp : processResponseBody c { s with buf := s.buf ++ b.take (c.limit - s.buf.length) } with ⟨s1, it⟩
        rw [hp] at g1 g2 g4
        simp only at g1 g2 g4 ⊢
        exact ⟨fun h => h, g1, g2, g4⟩
    · simp [h2, h0]

/-- the invariant behind "blocked ⇒ nothing delivered": bytes reach the downstream writer only
    in a state that is not interrupted, has its header phase behind it and no longer buffers -/
def Safe (c : Cfg) (s : St) : Prop :=
  s.downBody = [] ∨ (s.intr = none ∧ s.wroteHeader = true ∧ buffering c s = false)

theorem safe_write (c : Cfg) (s : St) (b : Bytes) (h : Safe c s) : Safe c (write c s b) := by
  unfold write
  by_cases hi : s.intr.isSome = true
  · simp only [hi, if_true]; exact h
  · have hi' : s.intr = none := by simpa using hi
    simp only [hi, Bool.false_eq_true, if_false]
    -- the state after the (possibly implicit) WriteHeader
    obtain ⟨hb, hwb, _, hwh, hid⟩ := writeHeader_facts c s 200
    by_cases hw : s.wroteHeader = true
    · -- header already written: s is unchanged by the first line
      have hw' : (!s.wroteHeader) = false := by simp [hw]
      simp only [hw', Bool.false_eq_true, if_false, hi]
      by_cases hbuf : buffering c s = true
      · simp only [hbuf, if_true]
        obtain ⟨f1, f2, f3, f4⟩ := writeResponseBody_facts c s b hi'
        rcases hr : writeResponseBody c s b with ⟨s1, it, n⟩
        rw [hr] at f1 f2 f3 f4
        simp only at f1 f2 f3 f4
        have hdb : s.downBody = [] := by
          rcases h with h | ⟨_, _, h3⟩
          · exact h
          · rw [hbuf] at h3; cases h3
        cases it with
        | some it => simp only; left; simp [f2, hdb]
        | none =>
          simp only
          have hn := f1 rfl
          split
          · left; rw [f2, hdb]
          · right
            refine ⟨?_, ?_, ?_⟩
            · simp [writeBufferedDown]; split <;> simp [hn]
            · simp [writeBufferedDown]; split <;> simp [f4, hw]
            · simp [writeBufferedDown, buffering]; split <;> simp_all
      · have hbuf' : buffering c s = false := by simpa using hbuf
        simp only [hbuf', Bool.false_eq_true, if_false]
        right
        exact ⟨by simp [hi'], by simp [hw], by rw [buffering_congr c s _ (by simp) (by simp)]; exact hbuf'⟩
    · have hw' : (!s.wroteHeader) = true := by simp at hw; simp [hw]
      simp only [hw', if_true]
      have hdb : s.downBody = [] := by
        rcases h with h | ⟨_, h2, _⟩
        · exact h
        · exact absurd h2 hw
      by_cases hi2 : (writeHeader c s 200).intr.isSome = true
      · simp only [hi2, if_true]; left; rw [hb, hdb]
      · have hi2' : (writeHeader c s 200).intr = none := by simpa using hi2
        simp only [hi2, Bool.false_eq_true, if_false]
        by_cases hbuf : buffering c (writeHeader c s 200) = true
        · simp only [hbuf, if_true]
          obtain ⟨f1, f2, f3, f4⟩ := writeResponseBody_facts c (writeHeader c s 200) b hi2'
          rcases hr : writeResponseBody c (writeHeader c s 200) b with ⟨s1, it, n⟩
          rw [hr] at f1 f2 f3 f4
          simp only at f1 f2 f3 f4
          cases it with
          | some it => simp only; left; simp [f2, hb, hdb]
          | none =>
            simp only
            have hn := f1 rfl
            split
            · left; rw [f2, hb, hdb]
            · right
              refine ⟨?_, ?_, ?_⟩
              · simp [writeBufferedDown]; split <;> simp [hn]
              · simp [writeBufferedDown]; split <;> simp [f4, hwh]
              · simp [writeBufferedDown, buffering]; split <;> simp_all
        · have hbuf' : buffering c (writeHeader c s 200) = false := by simpa using hbuf
          simp only [hbuf', Bool.false_eq_true, if_false]
          right
          exact ⟨by simp [hi2'], by simp [hwh], by rw [buffering_congr c (writeHeader c s 200) _ (by simp) (by simp)]; exact hbuf'⟩

theorem safe_step (c : Cfg) (s : St) (op : HOp) (h : Safe c s) : Safe c (step c s op) := by
  cases op with
  | write b => exact safe_write c s b h
  | writeHeader n =>
    obtain ⟨hb, hwb, _, hwh, hid⟩ := writeHeader_facts c s n
    simp only [step]
    rcases h with h | ⟨h1, h2, h3⟩
    · left; rw [hb, h]
    · rw [hid h2]; right; exact ⟨h1, h2, h3⟩
  | flush =>
    simp only [step, flush]
    obtain ⟨hb, hwb, _, hwh, hid⟩ := writeHeader_facts c s 200
    by_cases hw : s.wroteHeader = true
    · have hw' : (!s.wroteHeader) = false := by simp [hw]
      simp only [hw', Bool.false_eq_true, if_false]
      split
      · rcases h with h | ⟨h1, h2, h3⟩
        · left; exact h
        · right; exact ⟨h1, h2, (buffering_congr c s _ rfl rfl).trans h3⟩
      · exact h
    · have hw' : (!s.wroteHeader) = true := by simp at hw; simp [hw]
      have hdb : s.downBody = [] := by
        rcases h with h | ⟨_, h2, _⟩
        · exact h
        · exact absurd h2 hw
      simp only [hw', if_true]
      left
      split <;> simp [hb, hdb]

theorem safe_run (c : Cfg) (script : List HOp) (s : St) (h : Safe c s) : Safe c (script.foldl (step c) s) := by
  induction script generalizing s with
  | nil => exact h
  | cons op ops ih => exact ih _ (safe_step c s op h)

/-- C18_response_block: whatever the handler does, if the transaction ends up interrupted in a
    response phase (phase-3 rule, phase-4 rule, or the response body limit under Reject), not a
    single byte of the handler's body was handed to the client's ResponseWriter. -/
theorem C18_response_block (c : Cfg) (script : List HOp) (h : (runHandler c script).intr.isSome = true) :
    (runHandler c script).downBody = [] := by
  unfold runHandler at *
  have hs := safe_run c script {} (Or.inl rfl)
  generalize script.foldl (step c) {} = s at hs h
  unfold finish at *
  by_cases hi : s.intr.isSome = true
  · simp only [hi, if_true] at h ⊢
    rcases hs with hs | ⟨h1, _, _⟩
    · exact hs
    · simp [h1] at hi
  · have hi' : s.intr = none := by simpa using hi
    simp only [hi, Bool.false_eq_true, if_false] at h ⊢
    by_cases hb : buffering c s = true
    · simp only [hb, if_true] at h ⊢
      have hdb : s.downBody = [] := by
        rcases hs with hs | ⟨_, _, h3⟩
        · exact hs
        · rw [hb] at h3; cases h3
      obtain ⟨g1, g2, _, _, g5⟩ := prb_frame c s
      rcases hp : processResponseBody c s with ⟨s1, it⟩
      rw [hp] at g1 g2 g5 h
      simp only at g1 g2 g5 h ⊢
      cases it with
      | some it => simp [g1, hdb]
      | none =>
        have : s1.intr = none := g5 hi'
        simp only at h
        have hwb : (writeBufferedDown s1).intr = s1.intr := by
          unfold writeBufferedDown; split <;> simp
        rw [hwb, this] at h
        cases h
    · have hb' : buffering c s = false := by simpa using hb
      simp [hb', hi'] at h

/-- the status the client gets for a blocked response is the interruption's (deny) status -/
theorem C18_block_status (s : St) (it : Intr) (h : s.headerFlushed = false) :
    (blockWith s it).downStatus = some (statusOf it s.statusCode) := by
  simp [blockWith, flushWriteHeader, h]

/-! ## request side -/

/-- C18_request_block: a request-phase interruption means the handler is never invoked; the client
    gets the interruption's status for `deny` (403 when none was given) -/
theorem C18_request_block (it : Intr) (h : it.action = "deny") :
    requestOutcome (some it) = some (if it.status = 0 then 403 else it.status) := by
  simp [requestOutcome, statusOf, h]

/-- … whereas for `redirect` and `drop` the middleware answers 200 with an empty body
    (F-C18-1, recorded as a design-level finding: the mapping is the connector's choice) -/
theorem C18_request_block_nondeny (it : Intr) (h : it.action ≠ "deny") : requestOutcome (some it) = some 200 := by
  simp [requestOutcome, statusOf, h]

/-- C18_handler_reads_all: when nothing interrupts, the handler reads exactly the client's body,
    for every body size relative to the request body limit (buffered prefix + unread rest) -/
theorem C18_handler_reads_all (body : Bytes) (access : Bool) (limit : Nat) : handlerBody body access limit = body := by
  unfold handlerBody; split <;> simp

/-! ## pass-through when nothing interrupts and the body is not buffered -/

def writesOf : List HOp → Bytes
  | [] => []
  | .write b :: ops => b ++ writesOf ops
  | _ :: ops => writesOf ops

theorem C18_passthrough_unbuffered (c : Cfg) (script : List HOp)
    (nb : ∀ s : St, buffering c s = false) (h3 : ∀ code, c.p3 code = none) :
    (runHandler c script).downBody = writesOf script ∧ (runHandler c script).intr = none := by
  -- invariant: not interrupted, body so far delivered
  have key : ∀ (ops : List HOp) (s : St), s.intr = none →
      (ops.foldl (step c) s).intr = none ∧ (ops.foldl (step c) s).downBody = s.downBody ++ writesOf ops := by
    intro ops
    induction ops with
    | nil => intro s h; simp [writesOf, h]
    | cons op ops ih =>
      intro s hi
      have whI : ∀ code, (writeHeader c s code).intr = none := by
        intro code
        unfold writeHeader
        by_cases hw : s.wroteHeader = true
        · simp [hw, hi]
        · have hw' : s.wroteHeader = false := by simpa using hw
          simp only [hw', Bool.false_eq_true, if_false]
          unfold processResponseHeaders
          by_cases hp3 : s.phase3 = true
          · simp [hp3, hi]; (repeat' split) <;> simp [hi]
          · simp [hp3, hi, h3]; (repeat' split) <;> simp
      cases op with
      | writeHeader n =>
        obtain ⟨hb, _, _, _, _⟩ := writeHeader_facts c s n
        obtain ⟨i1, i2⟩ := ih (writeHeader c s n) (whI n)
        simp only [List.foldl_cons, step, writesOf]
        exact ⟨i1, by rw [i2, hb]⟩
      | flush =>
        obtain ⟨hb, _, _, _, _⟩ := writeHeader_facts c s 200
        have e : (flush c s).intr = none ∧ (flush c s).downBody = s.downBody := by
          unfold flush
          by_cases hw : s.wroteHeader = true
          · simp [hw]; split <;> simp [hi]
          · have hw' : (!s.wroteHeader) = true := by simp at hw; simp [hw]
            simp only [hw', if_true]; split <;> simp [whI, hb]
        obtain ⟨i1, i2⟩ := ih (flush c s) e.1
        simp only [List.foldl_cons, step, writesOf]
        exact ⟨i1, by rw [i2, e.2]⟩
      | write b =>
        obtain ⟨hb, _, _, _, hid⟩ := writeHeader_facts c s 200
        have e : (write c s b).intr = none ∧ (write c s b).downBody = s.downBody ++ b := by
          unfold write
          simp only [hi, Option.isSome_none, Bool.false_eq_true, if_false]
          by_cases hw : s.wroteHeader = true
          · simp [hw, hi, nb]
          · have hw' : (!s.wroteHeader) = true := by simp at hw; simp [hw]
            simp [hw', whI, nb, hb]
        obtain ⟨i1, i2⟩ := ih (write c s b) e.1
        simp only [List.foldl_cons, step, writesOf]
        exact ⟨i1, by rw [i2, e.2, List.append_assoc]⟩
  obtain ⟨k1, k2⟩ := key script {} rfl
  unfold runHandler finish
  simp [k1, nb, k2]

/-! ## pass-through when the body is buffered and stays below the limit -/

/-- **C18_passthrough_buffered**: response body access on, a processable content type, no rule of phase 3
    or 4 interrupting and a body that stays below SecResponseBodyLimit: whatever the handler does — any
    sequence of WriteHeader, Write and Flush calls — the client receives exactly the bytes the handler
    wrote, after the response processor has released the buffer, and nothing before. -/
theorem C18_passthrough_buffered (c : Cfg) (script : List HOp)
    (ha : c.access = true) (ha3 : c.access3 = none) (hp : c.processable = true)
    (h3 : ∀ code, c.p3 code = none) (h4 : ∀ b, c.p4 b = none)
    (hlen : (writesOf script).length < c.limit) :
    (runHandler c script).downBody = writesOf script ∧ (runHandler c script).intr = none := by
  have hbuf : ∀ s : St, s.wroteBuffered = false → buffering c s = true := by
    intro s h; simp [buffering, accNow, ha, ha3, hp, h]
  have key : ∀ (ops : List HOp) (s : St), s.intr = none → s.downBody = [] → s.wroteBuffered = false →
      s.buf.length + (writesOf ops).length < c.limit →
      (ops.foldl (step c) s).intr = none ∧ (ops.foldl (step c) s).downBody = [] ∧
      (ops.foldl (step c) s).wroteBuffered = false ∧ (ops.foldl (step c) s).buf = s.buf ++ writesOf ops := by
    intro ops
    induction ops with
    | nil => intro s h1 h2 h3' _; simp [writesOf, h1, h2, h3']
    | cons op ops ih =>
      intro s hi hd hw hl
      have whI : ∀ code, (writeHeader c s code).intr = none := by
        intro code
        unfold writeHeader
        by_cases hwh : s.wroteHeader = true
        · simp [hwh, hi]
        · have hwh' : s.wroteHeader = false := by simpa using hwh
          simp only [hwh', Bool.false_eq_true, if_false]
          unfold processResponseHeaders
          by_cases hp3 : s.phase3 = true
          · simp [hp3, hi]; (repeat' split) <;> simp [hi]
          · simp [hp3, hi, h3]; (repeat' split) <;> simp
      cases op with
      | writeHeader n =>
        obtain ⟨hb, hwb, hbf, _, _⟩ := writeHeader_facts c s n
        simp only [List.foldl_cons, step, writesOf] at hl ⊢
        have := ih (writeHeader c s n) (whI n) (by rw [hb, hd]) (by rw [hwb, hw]) (by rw [hbf]; exact hl)
        rw [hbf] at this; exact this
      | flush =>
        obtain ⟨hb, hwb, hbf, _, _⟩ := writeHeader_facts c s 200
        have e : (flush c s).intr = none ∧ (flush c s).downBody = [] ∧ (flush c s).wroteBuffered = false ∧ (flush c s).buf = s.buf := by
          unfold flush
          by_cases hwh : s.wroteHeader = true
          · simp [hwh]; split <;> simp [hi, hd, hw]
          · have hwh' : (!s.wroteHeader) = true := by simp at hwh; simp [hwh]
            simp only [hwh', if_true]; split <;> simp [whI, hb, hd, hwb, hw, hbf]
        simp only [List.foldl_cons, step, writesOf] at hl ⊢
        have := ih (flush c s) e.1 e.2.1 e.2.2.1 (by rw [e.2.2.2]; exact hl)
        rw [e.2.2.2] at this; exact this
      | write b =>
        simp only [List.foldl_cons, step, writesOf, List.length_append] at hl ⊢
        obtain ⟨hb, hwb, hbf, _, hid⟩ := writeHeader_facts c s 200
        have e : (write c s b).intr = none ∧ (write c s b).downBody = [] ∧ (write c s b).wroteBuffered = false ∧
            (write c s b).buf = s.buf ++ b := by
          have wrb : ∀ t : St, t.intr = none → t.buf = s.buf →
              writeResponseBody c t b = ({ t with buf := t.buf ++ b }, none, b.length) := by
            intro t ti tb
            unfold writeResponseBody
            have g1 : (c.limit == t.buf.length) = false := by
              simp only [beq_eq_false_iff_ne, ne_eq]; rw [tb]; omega
            have g2 : ¬ (t.buf.length + b.length ≥ c.limit) := by rw [tb]; omega
            simp [g1, g2, ti]
          unfold write
          simp only [hi, Option.isSome_none, Bool.false_eq_true, if_false]
          by_cases hwh : s.wroteHeader = true
          · have hwh' : (!s.wroteHeader) = false := by simp [hwh]
            simp only [hwh', Bool.false_eq_true, if_false, hi, Option.isSome_none, hbuf s hw, if_true, wrb s hi rfl,
              beq_self_eq_true]
            simp [hi, hd, hw]
          · have hwh' : (!s.wroteHeader) = true := by simp at hwh; simp [hwh]
            simp only [hwh', if_true, whI 200, Option.isSome_none, Bool.false_eq_true, if_false,
              hbuf (writeHeader c s 200) (by rw [hwb, hw]), wrb (writeHeader c s 200) (whI 200) hbf, beq_self_eq_true]
            simp [whI 200, hb, hd, hwb, hw, hbf]
        have := ih (write c s b) e.1 e.2.1 e.2.2.1 (by rw [e.2.2.2]; simp; omega)
        rw [e.2.2.2, List.append_assoc] at this; exact this
  obtain ⟨k1, k2, k3, k4⟩ := key script {} rfl rfl rfl (by simpa using hlen)
  unfold runHandler
  generalize script.foldl (step c) {} = F at k1 k2 k3 k4 ⊢
  have hq2 : (processResponseBody c F).2 = none ∧ (processResponseBody c F).1.intr = none := by
    unfold processResponseBody
    simp only [k1, Option.isSome_none, Bool.false_eq_true, if_false]
    split <;> simp [h4, k1]
  obtain ⟨g1, g2, g3, _, _⟩ := prb_frame c F
  unfold finish
  simp only [k1, Option.isSome_none, Bool.false_eq_true, if_false, hbuf _ k3, if_true]
  rcases hq : processResponseBody c F with ⟨s1, it⟩
  rw [hq] at hq2 g1 g2 g3
  simp only at hq2 g1 g2 g3
  obtain ⟨q1, q2⟩ := hq2
  subst q1
  simp only [writeBufferedDown, g2, k3, Bool.false_eq_true, if_false]
  constructor
  · simp [flushWriteHeader]
    split <;> simp [g1, k2, g3, k4]
  · simp [flushWriteHeader]
    split <;> simp [q2]

/-- the premises are met by a configuration that buffers: two writes of 3 and 2 bytes under a limit of 100 reach the
    client only when the response processor releases them -/
example :
    let c : Cfg := ⟨true, none, true, 100, true, fun _ => none, fun _ => none⟩
    (runHandler c [.write [1, 2, 3], .flush, .write [4, 5]]).downBody = [1, 2, 3, 4, 5] ∧
    ([HOp.write [1, 2, 3], .flush, .write [4, 5]].foldl (step c) {}).downBody = [] := by decide

/-! non-vacuity: a phase-4 block after two buffered writes delivers nothing; unbuffered passes through -/
def C18_cfg (acc : Bool) : Cfg := ⟨acc, none, true, 100, true, fun _ => none, fun b => if b.length > 3 then some ⟨"deny", 502⟩ else none⟩
example : (runHandler (C18_cfg true) [.write [1, 2], .flush, .write [3, 4]]).downBody = [] ∧
          clientStatus (runHandler (C18_cfg true) [.write [1, 2], .flush, .write [3, 4]]) = 502 := by decide
example : (runHandler (C18_cfg false) [.writeHeader 201, .write [1, 2], .flush, .write [3, 4]]).downBody = [1, 2, 3, 4] ∧
          clientStatus (runHandler (C18_cfg false) [.writeHeader 201, .write [1, 2], .flush, .write [3, 4]]) = 201 := by decide
