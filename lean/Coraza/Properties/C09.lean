/-
  C09 — Non-disruptive actions run once per match; counters add up exactly.
  About evalCands / evalValues / evalRule / matchRule / setvarEval of Coraza/Model/Engine.lean.
-/
import Coraza.Properties.C01
import Coraza.Proofs.Digits
open Coraza Coraza.Engine

/-- what one match does to the transaction: MATCHED_VAR/MATCHED_VAR_NAME/MATCHED_VARS are
    updated first, then every non-disruptive action of the link runs once, in order, with
    macros expanded against that state (rule.go:485 matchVariable) -/
def onMatch (rules : List Rule) (l : Link) (tx : Tx) (m : MD) : Tx :=
  runNActs rules (matchVariable tx m) l.nacts

/-- C09_once_per_match (one selected value): the state after evaluating its candidates is the
    left fold of `onMatch` over exactly the accepted candidates, in order — one run of the
    action list per match, none for a non-match. -/
theorem C09_once_per_match_cands (env : Env) (rules : List Rule) (l : Link) (o : Operator) (h : StaticArg o)
    (md : MD) (cs : List Bytes) (tx tx0 : Tx) :
    (evalCands env rules l o md cs tx).1 =
      ((cs.filter (fun c => execOp env tx0 o c)).map (fun c => (⟨md.var, md.key, c⟩ : MD))).foldl (onMatch rules l) tx := by
  induction cs generalizing tx with
  | nil => rfl
  | cons c cs ih =>
    unfold evalCands
    rw [execOp_static env o h tx tx0]
    by_cases hc : execOp env tx0 o c = true
    · simp only [hc, if_true, List.filter_cons, List.map_cons, List.foldl_cons]
      rw [ih]; rfl
    · simp only [hc, Bool.false_eq_true, if_false, List.filter_cons]
      exact ih tx

/-- … lifted to all selected values of a target: the state is the fold of `onMatch` over the
    link's match data, which by C01_link_values are exactly the satisfying values. -/
theorem C09_once_per_match (env : Env) (rules : List Rule) (l : Link) (o : Operator) (h : StaticArg o)
    (mds : List MD) (tx tx0 : Tx) :
    (evalValues env rules l o mds tx).1 = (mds.flatMap (satCands env tx0 l o)).foldl (onMatch rules l) tx := by
  induction mds generalizing tx with
  | nil => rfl
  | cons md mds ih =>
    unfold evalValues
    simp only [List.flatMap_cons, List.foldl_append]
    rw [ih, C09_once_per_match_cands env rules l o h md _ tx tx0]
    rfl

/-- the number of action runs equals the number of matches (ghost counter form):
    counting `onMatch` applications along the fold gives the length of the match data -/
theorem C09_count (env : Env) (rules : List Rule) (l : Link) (o : Operator) (h : StaticArg o)
    (mds : List MD) (tx tx0 : Tx) :
    (evalValues env rules l o mds tx).2.length = (mds.flatMap (satCands env tx0 l o)).length := by
  rw [C01_link_values env rules l o h mds tx tx0]

/-! ## setvar arithmetic -/

theorem updBucket_find (bs : List (Bytes × List KV)) (fk : Bytes) (e : KV) :
    (updBucket bs fk (fun _ => [e])).find? (fun b => b.1 == fk) = some (fk, [e]) := by
  unfold updBucket
  split
  · rename_i hany
    induction bs with
    | nil => simp at hany
    | cons b bs ih =>
      simp only [List.map_cons, List.find?_cons]
      by_cases hb : (b.1 == fk) = true
      · have : b.1 = fk := by simpa using hb
        simp [hb, this]
      · have hb' : (b.1 == fk) = false := by simpa using hb
        simp only [hb', Bool.false_eq_true, if_false]
        apply ih
        simpa [hb'] using hany
  · rename_i hany
    rw [List.find?_append]
    have : bs.find? (fun b => b.1 == fk) = none := by
      apply List.find?_eq_none.mpr
      intro b hb hk
      apply hany
      exact List.any_eq_true.mpr ⟨b, hb, hk⟩
    simp [this]

theorem CMap.get_set1 (m : CMap) (k v : Bytes) : (m.set1 k v).get k = [v] := by
  unfold CMap.get CMap.lookup CMap.set1
  simp only [updBucket_find]
  rfl

/-- C09_setvar_assign: `setvar:tx.k=v` (v not starting with + or -) stores exactly v under
    the folded key -/
theorem C09_setvar_assign (tx : Tx) (k : Bytes) (c : UInt8) (rest : Bytes) (hc : c ≠ 0x2b ∧ c ≠ 0x2d) :
    (setvarEval tx k (.assign [.text (c :: rest)])).txc.get (lower k) = [c :: rest] := by
  unfold setvarEval
  simp only [expand, List.flatMap_cons, expandTok, List.flatMap_nil, List.append_nil]
  have : (c == 0x2b || c == 0x2d) = false := by simp [hc.1, hc.2]
  simp only [this, Bool.false_eq_true, if_false]
  exact CMap.get_set1 _ _ _

/-- C09_setvar_delete: `setvar:!tx.k` leaves no value under k -/
theorem C09_setvar_delete (tx : Tx) (k : Bytes) (h : tx.txc.WF) :
    (setvarEval tx k .remove).txc.get (lower k) = [] := by
  unfold setvarEval CMap.get CMap.remove
  simp only [lower_idem]
  rw [CMap.lookup_eq_filter _ _ (CMap.wf_remove tx.txc (lower k) h |> fun w => by simpa [CMap.remove, lower_idem] using w)]
  simp only [List.map_eq_nil_iff, List.filter_eq_nil_iff]
  intro e he
  unfold CMap.all at he
  obtain ⟨b, hb, heb⟩ := List.mem_flatMap.mp he
  have hb' := List.mem_filter.mp hb
  have hf := h.folded b hb'.1 e heb
  simp only [hf]
  simpa using hb'.2

/-! ## HIGHEST_SEVERITY and once-per-chain actions -/

/-- C09_highest_severity: MatchRule lowers HIGHEST_SEVERITY to the rule's severity when that is
    smaller, and never raises it (transaction.go:558) -/
theorem C09_highest_severity (r : Rule) (ms : List MD) (tx : Tx) :
    (matchRule r ms tx).highestSeverity =
      match r.severity with
      | some s => min s tx.highestSeverity
      | none => tx.highestSeverity := by
  unfold matchRule
  cases r.severity with
  | none => rfl
  | some s => simp only; split <;> omega

/-- links never touch HIGHEST_SEVERITY, so after a rule it is the minimum of the old value and
    the rule's severity if (and only if) the rule fired -/
theorem C09_highest_severity_rule (env : Env) (rules : List Rule) (r : Rule) (tx : Tx) (hid : r.id ≠ 0) :
    (evalRule env rules r tx).highestSeverity =
      if (evalLinks env rules r.id r.links tx).2.isSome then
        (match r.severity with | some s => min s tx.highestSeverity | none => tx.highestSeverity)
      else tx.highestSeverity := by
  have q := quiet_evalLinks env rules r.id r.links tx
  unfold evalRule
  rcases hh : evalLinks env rules r.id r.links tx with ⟨tx1, res⟩
  rw [hh] at q
  cases res with
  | none => simp only at q ⊢; simp [q.hs]
  | some ms =>
    have hid' : (r.id != 0) = true := by simpa using hid
    simp only [hid', if_true, Option.isSome_some]
    rw [C09_highest_severity]
    have e : ∀ t : Tx, (runDisr r t).highestSeverity = t.highestSeverity := by
      intro t; unfold runDisr interrupt; repeat' split
      all_goals rfl
    have e2 : ((if !r.skipAfter.isEmpty then
        { (if r.skip > 0 then { tx1 with skip := r.skip } else tx1) with skipAfter := r.skipAfter }
        else (if r.skip > 0 then { tx1 with skip := r.skip } else tx1))).highestSeverity = tx1.highestSeverity := by
      split <;> split <;> rfl
    rw [e, e2, q.hs]

/-- C09_disruptive_once: the starter's disruptive action takes effect once per completed chain —
    `runDisr` is applied exactly once when all links matched (and not at all otherwise, C08_chain_incomplete) -/
theorem C09_disruptive_once (env : Env) (rules : List Rule) (r : Rule) (tx : Tx) (ms : List MD) (tx1 : Tx)
    (h : evalLinks env rules r.id r.links tx = (tx1, some ms)) :
    (evalRule env rules r tx).intr =
      (runDisr r (if !r.skipAfter.isEmpty then
        { (if r.skip > 0 then { tx1 with skip := r.skip } else tx1) with skipAfter := r.skipAfter }
        else (if r.skip > 0 then { tx1 with skip := r.skip } else tx1))).intr := by
  unfold evalRule
  rw [h]
  simp only
  split
  · simp [matchRule]
  · rfl

/-! ## setvar arithmetic adds up exactly -/

/-- the action `setvar:tx.k=+n` with a literal n -/
def addLit (n : Nat) : SetOp := .assign [.text (0x2b :: natToBytes n)]

/-- **C09_add_step**: if TX:k holds the decimal text of `cur`, one execution of `setvar:tx.k=+n`
    leaves the decimal text of `cur + n` (no digit is lost in rendering and re-parsing), for all
    numbers up to the int64 range the code computes in. -/
theorem C09_add_step (tx : Tx) (k : Bytes) (cur n : Nat) (hb : cur + n ≤ 9223372036854775807)
    (hcur : (tx.txc.get (lower k)).head? = some (natToBytes cur)) :
    (setvarEval tx k (addLit n)).txc.get (lower k) = [natToBytes (cur + n)] := by
  have hn1 := (natToBytes_spec n).2.1
  have hc1 := (natToBytes_spec cur).2.1
  unfold setvarEval addLit
  simp only [expand, List.flatMap_cons, expandTok, List.flatMap_nil, List.append_nil, lower_idem]
  have e1 : ((0x2b : UInt8) == 0x2b || (0x2b : UInt8) == 0x2d) = true := by decide
  have e2 : (natToBytes n).isEmpty = false := by cases h : natToBytes n <;> simp_all
  have e3 : (natToBytes cur).isEmpty = false := by cases h : natToBytes cur <;> simp_all
  simp only [e1, if_true, e2, Bool.false_eq_true, if_false, atoiOpt_natToBytes n (by omega), hcur, Option.getD_some, e3,
    atoiOpt_natToBytes cur (by omega)]
  have e4 : ((0x2b : UInt8) == 0x2b) = true := by decide
  simp only [e4, if_true]
  have e5 : intToBytes (wrap64 ((cur : Int) + (n : Int))) = natToBytes (cur + n) := by
    rw [wrap64_id _ (by omega) (by omega)]
    unfold intToBytes
    have : ¬ ((cur : Int) + (n : Int) < 0) := by omega
    simp only [this, if_false]
    congr 1
  rw [e5]
  exact CMap.get_set1 _ _ _

/-- **C09_sum**: m executions of `setvar:tx.k=+n` (one per matched value, by C09_once_per_match)
    turn `cur` into `cur + m·n`: the score an anomaly-scoring rule set compares with its threshold
    is exactly the sum over all matches. -/
theorem C09_sum (k : Bytes) (n : Nat) (m : Nat) (tx : Tx) (cur : Nat) (hb : cur + m * n ≤ 9223372036854775807)
    (hcur : (tx.txc.get (lower k)).head? = some (natToBytes cur)) :
    (((List.replicate m (addLit n)).foldl (fun t a => setvarEval t k a) tx).txc.get (lower k)).head? =
      some (natToBytes (cur + m * n)) := by
  induction m generalizing tx cur with
  | zero => simpa using hcur
  | succ m ih =>
    simp only [List.replicate_succ, List.foldl_cons]
    have hstep := C09_add_step tx k cur n (by rw [Nat.succ_mul] at hb; omega) hcur
    have := ih (setvarEval tx k (addLit n)) (cur + n) (by rw [Nat.succ_mul] at hb; omega) (by rw [hstep]; rfl)
    rw [this]
    congr 2
    rw [Nat.succ_mul]; omega

/-- non-vacuity: score 3, five matches of +2 -/
example : (((List.replicate 5 (addLit 2)).foldl (fun t a => setvarEval t [0x73] a)
    (setvarEval {} [0x73] (.assign [.text [0x33]]))).txc.get [0x73]).head? = some [0x31, 0x33] := by decide

/-! ## non-vacuity -/
example : (setvarEval {} [0x73] (.assign [.text [0x2b, 0x35]])).txc.get [0x73] = [[0x35]] := by decide
example : (setvarEval (setvarEval {} [0x73] (.assign [.text [0x2b, 0x35]])) [0x53] (.assign [.text [0x2b, 0x32]])).txc.get [0x73] = [[0x37]] := by decide

/-! ## signed operands and negative totals -/


/-- the action `setvar:tx.k=+n` / `setvar:tx.k=-n` with a literal n -/
def addSigned (neg : Bool) (n : Nat) : SetOp := .assign [.text ((if neg then 0x2d else 0x2b) :: natToBytes n)]

/-- **C09_signed_step**: if TX:k holds the decimal text of the integer `cur`, one execution of
    `setvar:tx.k=+n` (or `-n`) leaves the decimal text of `cur + n` (`cur - n`), as long as the
    numbers stay inside the int64 range the code computes in — negative totals included. -/
theorem C09_signed_step (tx : Tx) (k : Bytes) (cur : Int) (neg : Bool) (n : Nat)
    (hc1 : -9223372036854775808 ≤ cur) (hc2 : cur ≤ 9223372036854775807) (hn : n ≤ 9223372036854775807)
    (hr1 : -9223372036854775808 ≤ (if neg then cur - n else cur + n))
    (hr2 : (if neg then cur - n else cur + n) ≤ 9223372036854775807)
    (hcur : (tx.txc.get (lower k)).head? = some (intToBytes cur)) :
    (setvarEval tx k (addSigned neg n)).txc.get (lower k) = [intToBytes (if neg then cur - n else cur + n)] := by
  have hn1 := (natToBytes_spec n).2.1
  unfold setvarEval addSigned
  simp only [expand, List.flatMap_cons, expandTok, List.flatMap_nil, List.append_nil, lower_idem]
  have e2 : (natToBytes n).isEmpty = false := by cases h : natToBytes n <;> simp_all
  have e3 : (intToBytes cur).isEmpty = false := by
    unfold intToBytes; split
    · simp
    · have := (natToBytes_spec cur.toNat).2.1
      cases h : natToBytes cur.toNat <;> simp_all
  cases neg
  · have e1 : ((0x2b : UInt8) == 0x2b || (0x2b : UInt8) == 0x2d) = true := by decide
    have e4 : ((0x2b : UInt8) == 0x2b) = true := by decide
    simp only [Bool.false_eq_true, if_false, e1, if_true, e2, atoiOpt_natToBytes n (by omega), hcur, Option.getD_some, e3,
      atoiOpt_intToBytes cur hc1 hc2, e4]
    simp only [Bool.false_eq_true, if_false] at hr1 hr2
    rw [wrap64_id _ hr1 hr2]
    exact CMap.get_set1 _ _ _
  · have e1 : ((0x2d : UInt8) == 0x2b || (0x2d : UInt8) == 0x2d) = true := by decide
    have e4 : ((0x2d : UInt8) == 0x2b) = false := by decide
    simp only [if_true, e1, e2, Bool.false_eq_true, if_false, atoiOpt_natToBytes n (by omega), hcur, Option.getD_some, e3,
      atoiOpt_intToBytes cur hc1 hc2, e4]
    simp only [if_true] at hr1 hr2
    rw [wrap64_id _ hr1 hr2]
    exact CMap.get_set1 _ _ _

example : (setvarEval (setvarEval {} [0x73] (.assign [.text [0x33]])) [0x73] (addSigned true 5)).txc.get [0x73] = [[0x2d, 0x32]] := by decide

def inInt64 (i : Int) : Prop := -9223372036854775808 ≤ i ∧ i ≤ 9223372036854775807

def signedVal (p : Bool × Nat) : Int := if p.1 then -(p.2 : Int) else (p.2 : Int)

/-- every operand fits and every running total stays inside the int64 range -/
def RunningOK : Int → List (Bool × Nat) → Prop
  | _, [] => True
  | cur, p :: ps => p.2 ≤ 9223372036854775807 ∧ inInt64 (cur + signedVal p) ∧ RunningOK (cur + signedVal p) ps

/-- **C09_signed_sum**: any sequence of `setvar:tx.k=+n` / `setvar:tx.k=-n` executions (one per matched
    value, in any mix, through negative totals) turns `cur` into `cur` plus the signed sum of the
    operands, as long as the running total stays inside the int64 range. -/
theorem C09_signed_sum (k : Bytes) (ops : List (Bool × Nat)) (tx : Tx) (cur : Int) (hc : inInt64 cur)
    (hok : RunningOK cur ops) (hcur : (tx.txc.get (lower k)).head? = some (intToBytes cur)) :
    ((ops.foldl (fun t p => setvarEval t k (addSigned p.1 p.2)) tx).txc.get (lower k)).head? =
      some (intToBytes (cur + (ops.map signedVal).sum)) := by
  induction ops generalizing tx cur with
  | nil => simpa using hcur
  | cons p ps ih =>
    obtain ⟨hn, hr, hrest⟩ := hok
    simp only [List.foldl_cons, List.map_cons, List.sum_cons]
    have hval : (if p.1 then cur - (p.2 : Int) else cur + (p.2 : Int)) = cur + signedVal p := by
      unfold signedVal; split <;> omega
    have hstep := C09_signed_step tx k cur p.1 p.2 hc.1 hc.2 hn (by rw [hval]; exact hr.1) (by rw [hval]; exact hr.2) hcur
    rw [hval] at hstep
    have := ih (setvarEval tx k (addSigned p.1 p.2)) (cur + signedVal p) hr hrest (by rw [hstep]; rfl)
    rw [this]
    congr 2
    omega

/-- the premises are satisfiable through a negative total: 3, then -5, +1, -2 -/
example : RunningOK 3 [(true, 5), (false, 1), (true, 2)] := by
  simp [RunningOK, inInt64, signedVal]
