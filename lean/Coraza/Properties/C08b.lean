/-
  C08 (continued) — several allow actions in one transaction: the latest one decides
  (transaction.go:349 Allow assigns; nothing keeps an earlier, wider scope).
-/
import Coraza.Properties.C08
open Coraza Coraza.Engine

/-- with the engine On an `allow` action sets the scope it states, whatever scope was in force before:
    an `allow:phase` after a bare `allow` narrows it, a bare `allow` after `allow:request` widens it -/
theorem C08_later_allow_replaces (r : Rule) (tx : Tx) (a : Allow) (hd : r.disr = .allow a) (he : tx.engine = .on) :
    (runDisr r tx).allow = a := by
  unfold runDisr; rw [hd]; simp [he]

/-- and it changes nothing else of the transaction -/
theorem C08_allow_only_scope (r : Rule) (tx : Tx) (a : Allow) (hd : r.disr = .allow a) :
    runDisr r tx = { tx with allow := (runDisr r tx).allow } := by
  unfold runDisr; rw [hd]
  by_cases he : tx.engine = .on <;> simp [he]

/-- under `allow:phase` the logging phase stops like every other phase: with the scope narrowed to the phase,
    no further rule of phase 5 is evaluated — the counterpart of C08_logging_runs_after_allow -/
theorem C08_allow_phase_stops_logging (env : Env) (all : List Rule) (rs : List Rule) (tx : Tx) (ha : tx.allow = .phase) :
    (rulesLoop env all 5 rs tx).evalLog = tx.evalLog :=
  C08_allow_blocks env all 5 rs tx (Or.inl ha)
