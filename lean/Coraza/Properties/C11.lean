/-
  C11 — SecRxPreFilter never changes what @rx matches or captures.
  Model: Coraza/Model/Rx.lean (the analysis of rxprefilter.go over the regexp/syntax tree).
  Match relation: Coraza/Spec/Rx.lean (`M`, `Found`) — an over-approximation of Go's regexp.
  Proofs: Coraza/Proofs/Rx.lean.
-/
import Coraza.Proofs.Rx
import Coraza.Proofs.Regex
import Coraza.Proofs.RegexCI
import Coraza.Base.Lit
open Coraza Coraza.Rx

/-- C11_minLen_sound: whatever the pattern matches is at least `minLen` bytes long — for every
    syntax tree and every input. (rx.go:133 rejects shorter inputs.) -/
theorem C11_minLen_sound (re : Re) (s : Bytes) (h : Found re s) : minLen re ≤ s.length :=
  Coraza.Rx.minLen_sound re s h

/-- C11_literals_sound: the literals extractLiterals returns are necessary conditions of a match:
    all of `all`, one of `any`, both for `combined` occur inside the matched bytes — exactly, or up
    to ASCII case when some node carries FoldCase and the input is ASCII. Includes trie
    reconstruction (`rawSuffixes`: every match begins with one of the returned strings). -/
theorem C11_literals_sound (re : Re) (s : Bytes) (i j : Nat) (lits : Lits)
    (hasc : hasFold re = true → isAsciiBytes s = true) (hm : M re s i j)
    (he : extract (hasFold re) re = .some lits) : Holds (hasFold re) lits s i j :=
  extract_sound re (fun h => h) hasc hm he

/-- C11_matcher_finds: the Wu-Manber shift-table matcher answers true whenever one of its needles
    occurs in the input; the skipping never jumps over an occurrence (also with the uint8 table
    wrapping for needles longer than 255 bytes). -/
theorem C11_matcher_finds (m : IM) (s n : Bytes) (p : Nat) (hn : n ∈ m.needles) (hat : At m.ci n s p)
    (hml : 1 ≤ m.minLen) (hlen : m.minLen ≤ n.length) (hlow : m.ci = true → ∀ y ∈ n, asciiLower y = y) :
    m.matches s = true :=
  Coraza.Rx.matcher_finds m s n p hn hat hml hlen hlow

/-- the plain substring test is exact -/
theorem C11_contains_exact (s n : Bytes) : containsB s n = true ↔ ∃ a b, s = a ++ n ++ b :=
  containsB_iff s n

/-- C11_prefilter_sound: for every syntax tree for which prefilterFunc builds a prefilter and every
    input: if the pattern matches somewhere in the input, the prefilter says "maybe". It can only
    ever skip the regex on inputs the regex does not match. -/
theorem C11_prefilter_sound (re : Re) (p : Prefilter) (s : Bytes) (hp : prefilterOf re = .some p)
    (h : Found re s) : p.eval s = true :=
  prefilter_sound re p s hp h

/-- (*rx).Evaluate with SecRxPreFilter On, over an arbitrary engine: `engine s = some c` is a match
    with captures c, `none` is no match. (The exact-match fast path of non-capturing evaluation is
    not part of this function; it is covered by the correspondence.) -/
def rxOn {γ : Type} (re : Re) (engine : Bytes → Option γ) (s : Bytes) : Option γ :=
  if s.length < minLen re then none
  else match prefilterOf re with
    | .some p => if p.eval s then engine s else none
    | _ => engine s

/-- C11_equiv: with the prefilter on, @rx returns exactly what the regex engine returns — the same
    match result and the same captured groups — for every pattern tree and every input, provided
    the engine matches only what the match relation of Spec/Rx.lean allows. -/
theorem C11_equiv {γ : Type} (re : Re) (engine : Bytes → Option γ)
    (hengine : ∀ s c, engine s = some c → Found re s) (s : Bytes) : rxOn re engine s = engine s := by
  unfold rxOn
  cases he : engine s with
  | none => split <;> (try split) <;> (try split) <;> rfl
  | some c =>
    have hf := hengine s c he
    have hmin := Coraza.Rx.minLen_sound re s hf
    have h1 : ¬ s.length < minLen re := by omega
    simp only [h1, if_false]
    cases hp : prefilterOf re with
    | unm => rfl
    | nil => rfl
    | some p => simp [prefilter_sound re p s hp hf]

/-! ## non-vacuity: concrete trees, concrete matches, the prefilter's verdicts -/

def bytesOf (l : List Nat) : Bytes := l.map Nat.toUInt8

/-- `\\Asel(?:ect|f).*x` -/
def exRe : Re := .cat false [.bot false, .lit false [115, 101, 108], .alt false [.lit false [101, 99, 116], .lit false [102]],
  .star false (.any false), .lit false [120]]

/-- the pattern matches "selfAx" (a derivation in the match relation) -/
example : Found exRe (bytesOf [115, 101, 108, 102, 65, 120]) := by
  refine ⟨0, 6, ?_⟩
  have lit3 : M (.lit false [115, 101, 108]) (bytesOf [115, 101, 108, 102, 65, 120]) 0 3 := by
    apply M.lit
    refine LitM.cons 115 _ _ 0 1 3 ⟨by decide, by decide, by simp [runeError]; decide⟩ ?_
    refine LitM.cons 101 _ _ 1 2 3 ⟨by decide, by decide, by simp [runeError]; decide⟩ ?_
    refine LitM.cons 108 _ _ 2 3 3 ⟨by decide, by decide, by simp [runeError]; decide⟩ ?_
    exact LitM.nil _ 3 (by decide)
  have litf : M (.lit false [102]) (bytesOf [115, 101, 108, 102, 65, 120]) 3 4 := by
    apply M.lit
    refine LitM.cons 102 _ _ 3 4 4 ⟨by decide, by decide, by simp [runeError]; decide⟩ ?_
    exact LitM.nil _ 4 (by decide)
  have litx : M (.lit false [120]) (bytesOf [115, 101, 108, 102, 65, 120]) 5 6 := by
    apply M.lit
    refine LitM.cons 120 _ _ 5 6 6 ⟨by decide, by decide, by simp [runeError]; decide⟩ ?_
    exact LitM.nil _ 6 (by decide)
  apply M.cat
  refine MCat.cons _ _ _ 0 0 6 (M.bot false _) ?_
  refine MCat.cons _ _ _ 0 3 6 lit3 ?_
  refine MCat.cons _ _ _ 3 4 6 (M.alt _ _ _ _ _ (MAlt.there _ _ _ _ _ (MAlt.here _ _ _ _ _ litf))) ?_
  refine MCat.cons _ _ _ 4 5 6 (M.starS _ _ _ 4 5 5 (M.any _ _ 4 5 (by decide) (by decide)) (M.star0 _ _ _ 5 (by decide))) ?_
  exact MCat.cons _ _ _ 5 6 6 litx (MCat.nil _ 6 (by decide))

/-- a prefilter is built for it (so `C11_prefilter_sound` speaks about something), it accepts the
    matching input and rejects one that lacks the prefix -/
example : (match prefilterOf exRe with
    | .some p => p.eval (bytesOf [115, 101, 108, 102, 65, 120]) && !p.eval (bytesOf [120, 115, 101, 108, 102])
    | _ => false) = true := by decide

/-- the two fixed defects as facts about the model: a literal behind `\\A.*` is searched anywhere,
    and a trie prefix is not glued to a literal from inside a branch -/
example : (match prefilterOf (.cat false [.bot false, .star false (.any false), .lit false [102, 111, 111, 98, 97, 114]]) with
    | .some p => p.eval (bytesOf [120, 102, 111, 111, 98, 97, 114])
    | _ => true) = true := by decide
example : rawSuffixes false (.cat false [.any false, .lit false [50, 50]]) = .nil := by decide

/-! ## the exact-match fast path (rx.go:140-147), with the exact regex semantics of Proofs/Regex.lean -/

open Coraza.Regex in
/-- **C11_exact_fastpath**: for every literal and every value without a newline, the regex
    `(?sm)^literal$` — what @rx compiles for a `^literal$` pattern — finds a match iff the value
    *is* the literal. This is exactly the condition under which rx.Evaluate answers by string
    comparison instead of running the regex (the `\n` guard is the hypothesis; with a newline in
    the value `(?m)` lets `^`/`$` match inside, and the fast path is not taken). -/
theorem C11_exact_fastpath (lit v : Bytes) (hnl : (10 : UInt8) ∉ v) :
    search (exactRe lit) v = decide (v = lit) := by
  rw [Bool.eq_iff_iff, search_iff]
  simp only [decide_eq_true_eq]
  constructor
  · rintro ⟨pre, m, post, hv, hm⟩
    obtain ⟨hml, hb, he⟩ := (exactRe_iff lit _ _ _).mp hm
    subst hml
    have hpre : pre = [] := by
      rcases lst_cases none pre with ⟨h1, _⟩ | ⟨c, hc, hl⟩
      · exact h1
      · rw [hl] at hb
        simp only [Asrt.holds, beq_iff_eq] at hb
        subst hb
        exact absurd (by rw [hv]; simp [hc]) hnl
    have hpost : post = [] := by
      cases post with
      | nil => rfl
      | cons c cs =>
        simp only [hd, Asrt.holds, beq_iff_eq] at he
        subst he
        exact absurd (by rw [hv]; simp) hnl
    subst hpre; subst hpost
    simpa using hv
  · intro hv
    subst hv
    refine ⟨[], v, [], by simp, (exactRe_iff v _ _ _).mpr ⟨rfl, ?_, ?_⟩⟩
    · simp [Asrt.holds, lst]
    · simp [Asrt.holds, hd]

open Coraza.Regex in
/-- **C11_exact_fastpath_ci**: the case-insensitive variant (`exactMatchCI`, rx.go:144): for every
    literal and every value without a newline, `(?sm)^(?i:literal)$` finds a match iff value and
    literal are equal after ASCII case folding — `strings.EqualFold` on the ASCII text the model's
    fragment covers. -/
theorem C11_exact_fastpath_ci (lit v : Bytes) (hnl : (10 : UInt8) ∉ v) :
    search (exactReCI lit) v = decide (v.map asciiLower = lit.map asciiLower) := by
  rw [Bool.eq_iff_iff, search_iff]
  simp only [decide_eq_true_eq]
  constructor
  · rintro ⟨pre, m, post, hv, hm⟩
    obtain ⟨hml, hb, he⟩ := (exactReCI_iff lit _ _ _).mp hm
    have hpre : pre = [] := by
      rcases lst_cases none pre with ⟨h1, _⟩ | ⟨c, hc, hl⟩
      · exact h1
      · rw [hl] at hb
        simp only [Asrt.holds, beq_iff_eq] at hb
        subst hb
        exact absurd (by rw [hv]; simp [hc]) hnl
    have hpost : post = [] := by
      cases post with
      | nil => rfl
      | cons c cs =>
        simp only [hd, Asrt.holds, beq_iff_eq] at he
        subst he
        exact absurd (by rw [hv]; simp) hnl
    subst hpre; subst hpost
    simp only [List.nil_append, List.append_nil] at hv
    rw [hv]; exact hml
  · intro hv
    refine ⟨[], v, [], by simp, (exactReCI_iff lit _ _ _).mpr ⟨hv, ?_, ?_⟩⟩
    · simp [Asrt.holds, lst]
    · simp [Asrt.holds, hd]

open Coraza.Regex in
example : search (exactReCI (b!"ok")) (b!"Ok") = true ∧ search (exactReCI (b!"ok")) (b!"Okay") = false := by decide

open Coraza.Regex in
/-- the shape is what the parser builds for `(?sm)(?i)^ok$` (modulo the empty pieces of the two flag groups) -/
example : parse {} (b!"(?sm)(?i)^ok$") = some (.cat .eps (.cat .eps (exactReCI (b!"ok")))) := by decide

open Coraza.Regex in
/-- the guard is needed: with a newline in the value `(?m)^OPTIONS$` matches inside it although the
    value differs from the literal -/
example : search (exactRe [0x4f, 0x4b]) [0x4f, 0x4b, 10, 0x78] = true ∧ ([0x4f, 0x4b, 10, 0x78] : Bytes) ≠ [0x4f, 0x4b] := by decide

open Coraza.Regex in
/-- the shape is what the parser builds for the pattern text (modulo the empty piece of the flag group) -/
example : parse {} ([0x28, 0x3f, 0x73, 0x6d, 0x29, 0x5e, 0x4f, 0x4b, 0x24]) = some (.cat .eps (exactRe [0x4f, 0x4b])) := by decide
