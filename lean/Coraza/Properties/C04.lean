/-
  C04 — A transaction's outcome is a function of configuration and request only.

  Go iterates maps in arbitrary order; in the model that is the order in which the selected
  values `mds` reach a link. These theorems say the observable outcome of a link does not
  depend on that order.
-/
import Coraza.Properties.C09
open Coraza Coraza.Engine

/-- C04_matchdata_perm: whatever order the runtime yields the selected values in, the match
    data of the link are the same multiset (a permutation), for operators without macros -/
theorem C04_matchdata_perm (env : Env) (rules : List Rule) (l : Link) (o : Operator) (h : StaticArg o)
    (mds₁ mds₂ : List MD) (hp : mds₁.Perm mds₂) (tx₁ tx₂ : Tx) :
    (evalValues env rules l o mds₁ tx₁).2.Perm (evalValues env rules l o mds₂ tx₂).2 := by
  rw [C01_link_values env rules l o h mds₁ tx₁ tx₁, C01_link_values env rules l o h mds₂ tx₂ tx₁]
  exact hp.flatMap_right _

/-- hence whether the link (and so the rule) fires does not depend on the order -/
theorem C04_fires_independent (env : Env) (rules : List Rule) (l : Link) (o : Operator) (h : StaticArg o)
    (mds₁ mds₂ : List MD) (hp : mds₁.Perm mds₂) (tx₁ tx₂ : Tx) :
    (evalValues env rules l o mds₁ tx₁).2.isEmpty = (evalValues env rules l o mds₂ tx₂).2.isEmpty := by
  have := (C04_matchdata_perm env rules l o h mds₁ mds₂ hp tx₁ tx₂).length_eq
  cases h1 : (evalValues env rules l o mds₁ tx₁).2 <;> cases h2 : (evalValues env rules l o mds₂ tx₂).2 <;> simp_all

/-- and the number of times the link's actions run is the same -/
theorem C04_action_runs_independent (env : Env) (rules : List Rule) (l : Link) (o : Operator) (h : StaticArg o)
    (mds₁ mds₂ : List MD) (hp : mds₁.Perm mds₂) (tx₁ tx₂ : Tx) :
    (evalValues env rules l o mds₁ tx₁).2.length = (evalValues env rules l o mds₂ tx₂).2.length :=
  (C04_matchdata_perm env rules l o h mds₁ mds₂ hp tx₁ tx₂).length_eq

/-- C04_state_perm: if the per-match effect commutes on an observation `obs` (e.g. `setvar +N`
    counters, flags, ctl removals — anything whose result does not depend on which match came
    first), the observation after the link is independent of the order of the values. -/
theorem C04_state_perm {α : Type} (obs : Tx → α) (rules : List Rule) (l : Link)
    (ms₁ ms₂ : List MD) (hp : ms₁.Perm ms₂)
    (hcomm : ∀ t a b, obs (onMatch rules l (onMatch rules l t a) b) = obs (onMatch rules l (onMatch rules l t b) a))
    (hcong : ∀ t t' a, obs t = obs t' → obs (onMatch rules l t a) = obs (onMatch rules l t' a)) (tx : Tx) :
    obs (ms₁.foldl (onMatch rules l) tx) = obs (ms₂.foldl (onMatch rules l) tx) := by
  induction hp generalizing tx with
  | nil => rfl
  | cons a _ ih => exact ih _
  | swap a b l' =>
    simp only [List.foldl_cons]
    -- congruence of the remaining fold
    have : ∀ (l'' : List MD) (t t' : Tx), obs t = obs t' → obs (l''.foldl (onMatch rules l) t) = obs (l''.foldl (onMatch rules l) t') := by
      intro l''
      induction l'' with
      | nil => intro t t' h; exact h
      | cons c l'' ih => intro t t' h; exact ih _ _ (hcong t t' c h)
    exact this l' _ _ (hcomm tx b a)
  | trans _ _ ih1 ih2 => exact (ih1 tx).trans (ih2 tx)

/-- non-vacuity: a flag-like observation (the engine mode) commutes trivially under `nop` actions -/
example (rules : List Rule) (t : Tx) (a b : MD) :
    (onMatch rules ⟨[], none, [], false, [.nop], 0⟩ (onMatch rules ⟨[], none, [], false, [.nop], 0⟩ t a) b).engine =
    (onMatch rules ⟨[], none, [], false, [.nop], 0⟩ (onMatch rules ⟨[], none, [], false, [.nop], 0⟩ t b) a).engine := rfl
