/-
  C03 (continued) — XML bodies (Model/Xml.lean): every attribute value and every piece of
  character data of the document, at any depth, is exposed; nothing is merged, dropped or invented.
-/
import Coraza.Properties.C03
import Coraza.Proofs.Xml
import Coraza.Base.Lit
open Coraza Coraza.Xml

/-- **C03_xml_every_attribute_exposed**: the value of every attribute of every element, however
    deep, is among the values of `XML://@*` -/
theorem C03_xml_every_attribute_exposed (root : X) (as : List Bytes) (kids : List X) (v : Bytes)
    (hd : Desc root (.elem as kids)) (hv : v ∈ as) : v ∈ (readXML root).1 := by
  simp only [readXML]
  generalize hy : X.elem as kids = y at hd
  induction hd with
  | self x => subst hy; simp [attrsOf, hv]
  | kid hk _ ih => simp only [attrsOf, List.mem_append]; exact Or.inr (attrsOfList_mem hk (ih hy))

/-- **C03_xml_every_text_exposed**: every piece of character data and every CDATA section that is
    not blank is among the values of `XML:/*`, trimmed of surrounding white space -/
theorem C03_xml_every_text_exposed (root : X) (s : Bytes) (hd : Desc root (.text s) ∨ Desc root (.cdata s))
    (hs : trimSpace s ≠ []) : trimSpace s ∈ (readXML root).2 := by
  simp only [readXML]
  rcases hd with hd | hd
  · generalize hy : X.text s = y at hd
    induction hd with
    | self x => subst hy; simp [contentsOf, hs]
    | kid hk _ ih => simp only [contentsOf]; exact contentsOfList_mem hk (ih hy)
  · generalize hy : X.cdata s = y at hd
    induction hd with
    | self x => subst hy; simp [contentsOf, hs]
    | kid hk _ ih => simp only [contentsOf]; exact contentsOfList_mem hk (ih hy)

/-- **C03_xml_attributes_counted**: `XML://@*` has exactly one value per attribute written — none
    merged with another, none dropped, none added -/
theorem C03_xml_attributes_counted (root : X) : (readXML root).1.length = numAttrs root :=
  attrsOf_length root

/-- **C03_xml_attributes_sound**: every value of `XML://@*` is the value of an attribute of some
    element of the document -/
theorem C03_xml_attributes_sound (root : X) (v : Bytes) (h : v ∈ (readXML root).1) :
    ∃ as kids, Desc root (.elem as kids) ∧ v ∈ as :=
  attrsOf_sound root v h

/-- a document on which the premises are met: <a k=" pad "><b id="1&lt;2"> x <![CDATA[y]]></b><!-- --></a> -/
example :
    readXML (.elem [b!" pad "] [.elem [b!"1<2"] [.text (b!" x "), .cdata (b!"y")], .other])
      = ([b!" pad ", b!"1<2"], [b!"x", b!"y"]) := by decide +kernel
