/-
  C03 (continued) — XML bodies (Model/Xml.lean): every attribute value and every piece of
  character data of the document, at any depth, is exposed; nothing is merged, dropped or invented.
-/
import Coraza.Properties.C03
import Coraza.Proofs.Xml
import Coraza.Proofs.Uri
import Coraza.Base.Lit
open Coraza Coraza.Xml

/-- **C03_xml_every_attribute_exposed**: the value of every attribute of every element, however
    deep, is among the values of `XML://@*` -/
theorem C03_xml_every_attribute_exposed (root : X) (as : List Bytes) (kids : List X) (v : Bytes)
    (hd : Desc root (.elem as kids)) (hv : v ∈ as) : v ∈ (readXML root).1 := by
  simp only [readXML]
  generalize hy : X.elem as kids = y at hd
  induction hd with
  | self x => subst hy; simp [attrsOf, hv]
  | kid hk _ ih => simp only [attrsOf, List.mem_append]; exact Or.inr (attrsOfList_mem hk (ih hy))

/-- **C03_xml_every_text_exposed**: every piece of character data and every CDATA section that is
    not blank is among the values of `XML:/*`, trimmed of surrounding white space -/
theorem C03_xml_every_text_exposed (root : X) (s : Bytes) (hd : Desc root (.text s) ∨ Desc root (.cdata s))
    (hs : trimSpace s ≠ []) : trimSpace s ∈ (readXML root).2 := by
  simp only [readXML]
  rcases hd with hd | hd
  · generalize hy : X.text s = y at hd
    induction hd with
    | self x => subst hy; simp [contentsOf, hs]
    | kid hk _ ih => simp only [contentsOf]; exact contentsOfList_mem hk (ih hy)
  · generalize hy : X.cdata s = y at hd
    induction hd with
    | self x => subst hy; simp [contentsOf, hs]
    | kid hk _ ih => simp only [contentsOf]; exact contentsOfList_mem hk (ih hy)

/-- **C03_xml_attributes_counted**: `XML://@*` has exactly one value per attribute written — none
    merged with another, none dropped, none added -/
theorem C03_xml_attributes_counted (root : X) : (readXML root).1.length = numAttrs root :=
  attrsOf_length root

/-- **C03_xml_attributes_sound**: every value of `XML://@*` is the value of an attribute of some
    element of the document -/
theorem C03_xml_attributes_sound (root : X) (v : Bytes) (h : v ∈ (readXML root).1) :
    ∃ as kids, Desc root (.elem as kids) ∧ v ∈ as :=
  attrsOf_sound root v h

/-- a document on which the premises are met: <a k=" pad "><b id="1&lt;2"> x <![CDATA[y]]></b><!-- --></a> -/
example :
    readXML (.elem [b!" pad "] [.elem [b!"1<2"] [.text (b!" x "), .cdata (b!"y")], .other])
      = ([b!" pad ", b!"1<2"], [b!"x", b!"y"]) := by decide +kernel

/-! ## the request line (Model/Uri.lean) -/

open Coraza.Engine in
/-- **C03_uri_decomposition**: REQUEST_URI_RAW is the URI as handed in; REQUEST_URI is it up to the
    first `#`; REQUEST_FILENAME and QUERY_STRING are REQUEST_URI cut at its first `?` — put together
    again they give the URI back, byte for byte -/
theorem C03_uri_decomposition (tx : Tx) (uri m : Bytes) :
    (processURI tx uri m).rl.uriRaw = uri ∧
    ((processURI tx uri m).rl.uri = uri ∨ ∃ frag, uri = (processURI tx uri m).rl.uri ++ 0x23 :: frag) ∧
    (0x23 : UInt8) ∉ (processURI tx uri m).rl.uri ∧
    (((processURI tx uri m).rl.uri = (processURI tx uri m).rl.filename ∧ (processURI tx uri m).rl.query = []) ∨
      (processURI tx uri m).rl.uri = (processURI tx uri m).rl.filename ++ 0x3f :: (processURI tx uri m).rl.query) ∧
    (0x3f : UInt8) ∉ (processURI tx uri m).rl.filename := by
  have h1 := cut1_spec 0x23 uri
  have h2 := cut1_spec 0x3f (cut1 0x23 uri).1
  simp only [processURI]
  refine ⟨trivial, ?_, h1.2, ?_, h2.2⟩
  · cases hq : (cut1 0x23 uri).2 with
    | none => left; have := h1.1; rw [hq] at this; simpa using this
    | some f => right; exact ⟨f, by have := h1.1; rw [hq] at this; exact this.symm⟩
  · cases hq : (cut1 0x3f (cut1 0x23 uri).1).2 with
    | none => left; have := h2.1; rw [hq] at this; exact ⟨by simpa using this.symm, by simp⟩
    | some q => right; have := h2.1; rw [hq] at this; simpa using this.symm

open Coraza.Engine in
example : (processURI {} (b!"/a/b.php?x=1&y=%41#top") (b!"GET")).rl =
    { uriRaw := b!"/a/b.php?x=1&y=%41#top", uri := b!"/a/b.php?x=1&y=%41", filename := b!"/a/b.php", basename := b!"b.php",
      query := b!"x=1&y=%41", method := b!"GET", line := b!"GET /a/b.php?x=1&y=%41#top HTTP/1.1", protocol := b!"HTTP/1.1" } := by
  decide +kernel
