/-
  C10 (continued) — refinement to the specification machine (Spec/Body.lean): a state that holds
  only the stored bytes, no memory/file distinction and no in-memory limit.
-/
import Coraza.Proofs.BodyRefine
open Coraza Coraza.Body

/-- **C10_refines**: the transaction-level body machine (buffer in memory or spilled to a file, with
    its in-memory limit) is a refinement of the specification machine of `Spec/Body.lean`, whose state
    holds only the stored bytes: after any sequence of writes through any entry points the abstract
    states coincide and every write returned the same (interruption, count, error). -/
theorem C10_refines (s : St) (ws : List Wr) (hi : C10_Inv s) :
    abs (run s ws).1 = (aRun (abs s) ws).1 ∧ (run s ws).2 = (aRun (abs s) ws).2 := by
  induction ws generalizing s with
  | nil => exact ⟨rfl, rfl⟩
  | cons w ws ih =>
    obtain ⟨h1, h2⟩ := step_refines s w hi
    have hi' : C10_Inv (step s w).1 := (C10_step s w hi).1
    obtain ⟨g1, g2⟩ := ih (step s w).1 hi'
    simp only [run, aRun]
    rw [← h1, ← h2]
    exact ⟨g1, by rw [g2]⟩

/-- **C10_memlimit_invisible**: hence nothing a connector or a rule can observe — returned
    interruptions and counts, the stored bytes, REQUEST_BODY/RESPONSE_BODY, the data-error flag, the
    number of body-phase evaluations — depends on the in-memory limit, for any writes. -/
theorem C10_memlimit_invisible (side : Side) (limit m1 m2 : Nat) (reject : Bool) (ws : List Wr) :
    abs (run (init side limit m1 reject) ws).1 = abs (run (init side limit m2 reject) ws).1 ∧
    (run (init side limit m1 reject) ws).2 = (run (init side limit m2 reject) ws).2 := by
  obtain ⟨a1, a2⟩ := C10_refines _ ws (C10_init_inv side limit m1 reject)
  obtain ⟨b1, b2⟩ := C10_refines _ ws (C10_init_inv side limit m2 reject)
  have e : abs (init side limit m1 reject) = abs (init side limit m2 reject) := by
    cases side <;> rfl
  rw [a1, a2, b1, b2, e]
  exact ⟨rfl, rfl⟩

/-- a run on which the premises are met and the two representations differ: limit 8, in-memory limits 2 and 100 -/
example :
    let ws := [Wr.slice [1, 2, 3], Wr.unknown [4, 5, 6, 7], Wr.known [8, 9]]
    (run (init .req 8 2 false) ws).1.bb.file.isSome = true ∧ (run (init .req 8 100 false) ws).1.bb.file.isSome = false ∧
    abs (run (init .req 8 2 false) ws).1 = abs (run (init .req 8 100 false) ws).1 := by decide
