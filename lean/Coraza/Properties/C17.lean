/-
  C17 — Rule exclusions and updates equal the rewritten rule set.
  About rulesLoop / getField of Coraza/Model/Engine.lean (rulegroup.go:180-195 removal checks,
  rule.go:232-251 target exclusions, actions/ctl.go).
-/
import Coraza.Properties.C01
open Coraza Coraza.Engine

/-- removals only grow while rules are evaluated -/
theorem removed_mono {tx tx' : Tx} (f : Frame tx tx') (id : Nat) (h : removed tx id = true) : removed tx' id = true := by
  unfold removed at *
  obtain ⟨l1, e1⟩ := f.rmIds
  obtain ⟨l2, e2⟩ := f.rmRanges
  rw [e1, e2]
  simp only [Bool.or_eq_true, List.contains_eq_mem, List.mem_append, decide_eq_true_eq, List.any_append] at h ⊢
  rcases h with h | h
  · left; left; simpa using h
  · right; left; exact h

theorem frame_evalOne (env : Env) (all : List Rule) (phase : Nat) (r : Rule) (tx : Tx) :
    ∃ l, (evalOne env all phase r tx).rmIds = tx.rmIds ++ l ∧
    ∃ l', (evalOne env all phase r tx).rmRanges = tx.rmRanges ++ l' := by
  unfold evalOne
  have f := frame_evalRule env all r { tx with matchedVars := {}, evalLog := tx.evalLog ++ [(phase, r.id)] }
  exact ⟨f.rmIds.choose, f.rmIds.choose_spec, f.rmRanges.choose, f.rmRanges.choose_spec⟩

theorem removed_mono_evalOne (env : Env) (all : List Rule) (phase : Nat) (r : Rule) (tx : Tx) (id : Nat)
    (h : removed tx id = true) : removed (evalOne env all phase r tx) id = true := by
  obtain ⟨l1, e1, l2, e2⟩ := frame_evalOne env all phase r tx
  unfold removed at *
  rw [e1, e2]
  simp only [Bool.or_eq_true, List.contains_eq_mem, List.mem_append, decide_eq_true_eq, List.any_append] at h ⊢
  rcases h with h | h
  · left; left; simpa using h
  · right; left; exact h

/-- C17_ctl_remove: for the rest of the transaction, rules removed by ctl:ruleRemoveById /
    ByTag / ByMsg (any set `S` of ids already recorded as removed) behave exactly as if they
    had never been in the configuration: the loop over the full list equals the loop over the
    list with those rules filtered out — including skip counting, markers and allow handling. -/
theorem C17_ctl_remove (env : Env) (all : List Rule) (phase : Nat) (S : Nat → Bool) (rs : List Rule) (tx : Tx)
    (hS : ∀ id, S id = true → removed tx id = true) :
    rulesLoop env all phase rs tx = rulesLoop env all phase (rs.filter (fun r => !S r.id)) tx := by
  induction rs generalizing tx with
  | nil => rfl
  | cons r rs ih =>
    by_cases hr : S r.id = true
    · have hrem := hS r.id hr
      simp only [List.filter_cons, hr, Bool.not_true, Bool.false_eq_true, if_false]
      rw [rulesLoop]
      by_cases hi : (tx.intr.isSome && phase != 5) = true
      · simp only [hi, if_true]
        -- interrupted: the filtered loop returns tx as well
        cases hfl : rs.filter (fun r => !S r.id) with
        | nil => rfl
        | cons r' rs' => rw [rulesLoop]; simp [hi]
      · simp only [hi, Bool.false_eq_true, if_false, hrem, if_true]
        split
        · exact ih tx hS
        · exact ih tx hS
    · have hr' : (!S r.id) = true := by simpa using hr
      simp only [List.filter_cons, hr', if_true]
      rw [rulesLoop, rulesLoop]
      have st : ∀ t : Tx, t.rmIds = tx.rmIds → t.rmRanges = tx.rmRanges → ∀ id, S id = true → removed t id = true := by
        intro t h1 h2 id hid
        have := hS id hid
        unfold removed at *; rw [h1, h2]; exact this
      have ev : ∀ id, S id = true → removed (evalOne env all phase r tx) id = true :=
        fun id hid => removed_mono_evalOne env all phase r tx id (hS id hid)
      split
      · rfl
      · split
        · exact ih tx hS
        · split
          · exact ih tx hS
          · split
            · split
              · exact ih _ (st _ rfl rfl)
              · exact ih tx hS
            · split
              · exact ih _ (st _ rfl rfl)
              · split
                · rfl
                · split
                  · exact ih _ ev
                  · rfl
                · split
                  · rfl
                  · split
                    · rfl
                    · exact ih _ ev
                · exact ih _ ev

/-- in particular: a transaction that starts with the ids of `S` removed (what
    SecRuleRemoveById … would have deleted from the configuration) evaluates every phase like
    the configuration without those rules -/
theorem C17_remove_static (env : Env) (all : List Rule) (phase : Nat) (ids : List Nat) (rs : List Rule) (tx : Tx)
    (h : ∀ id ∈ ids, id ∈ tx.rmIds) :
    rulesLoop env all phase rs tx = rulesLoop env all phase (rs.filter (fun r => !ids.contains r.id)) tx :=
  C17_ctl_remove env all phase (fun id => ids.contains id) rs tx (by
    intro id hid
    unfold removed
    have : id ∈ tx.rmIds := h id (by simpa using hid)
    simp [this])

/-- a range behaves like the enumeration of its members -/
theorem C17_range_is_enumeration (tx : Tx) (lo hi id : Nat) :
    removed { tx with rmRanges := tx.rmRanges ++ [(lo, hi)] } id =
    (removed tx id || (List.range' lo (hi + 1 - lo)).contains id) := by
  unfold removed
  simp only [List.any_append, List.any_cons, List.any_nil, Bool.or_false, Bool.or_assoc]
  congr 2
  rw [Bool.eq_iff_iff]
  simp only [Bool.and_eq_true, decide_eq_true_eq, List.contains_eq_mem, List.mem_range'_1]
  omega

/-- C17_ctl_target: a run-time `ctl:ruleRemoveTargetById=id;VAR:key` (string or regex key: any
    exception `e`) recorded for the rule has, on every later evaluation of a target of that
    variable, exactly the effect of the rule written with the extra `!VAR:key` -/
theorem C17_ctl_target (env : Env) (tx : Tx) (ecol : List (Var × Exc)) (t : Target) (e : Exc) :
    getField env tx (ecol ++ [(t.var, e)]) t = getField env tx ecol { t with exc := t.exc ++ [e] } := by
  simp only [getField, selected, List.filter_append, List.map_append, List.filter_cons, beq_self_eq_true, if_true,
    List.filter_nil, List.map_cons, List.map_nil]
  have key : ∀ md : MD, excluded env (t.exc ++ ((ecol.filter fun r => r.1 == t.var).map (·.2) ++ [e])) md =
      excluded env (t.exc ++ [e] ++ (ecol.filter fun r => r.1 == t.var).map (·.2)) md := by
    intro md
    unfold excluded
    simp only [List.any_append, List.any_cons, List.any_nil, Bool.or_false]
    cases List.any t.exc _ <;> cases List.any (List.map _ _) _ <;> simp
  simp only [key]

/-- and it touches no target of another variable -/
theorem C17_ctl_target_other (env : Env) (tx : Tx) (ecol : List (Var × Exc)) (t : Target) (v : Var) (e : Exc)
    (h : v ≠ t.var) : getField env tx (ecol ++ [(v, e)]) t = getField env tx ecol t := by
  have : ((v, e).1 == t.var) = false := by simpa using h
  simp [getField, List.filter_append, this]

/-- the exception a ctl records for a regex key is the one the rule parser records for
    `!VAR:/re/`, up to the (unused) key text: both carry the same compiled expression, so by
    `C01_rx_exception_only_rx` they exclude the same entries -/
theorem C17_ctl_rx_same_as_rule (env : Env) (mode : RxMode) (v : Var) (key p : Bytes)
    (h : compiledRx mode v key = some p) (md : MD) :
    excMatches env (mkCtlExc mode v key) md = excMatches env (mkExc mode v key) md := by
  simp [mkCtlExc, mkExc, h, excMatches]

/-- for a plain key the ctl form lower-cases the key, which changes nothing -/
theorem C17_ctl_key_same_as_rule (env : Env) (mode : RxMode) (v : Var) (key : Bytes)
    (h : compiledRx mode v key = none) (md : MD) :
    excMatches env (mkCtlExc mode v key) md = excMatches env (mkExc mode v key) md := by
  simp [mkCtlExc, mkExc, h, excMatches, lower_idem]
  cases key <;> simp [lower]

/-- non-vacuity -/
example : removed { ({} : Tx) with rmRanges := [(10, 20)] } 15 = true := by decide

/-! ## configuration-time exclusions and updates (buildRules) -/

/-- does an element of an id list name this id -/
def selHas : IdSel → Nat → Bool
  | .one i, id => id == i
  | .range lo hi, id => lo ≤ id && id ≤ hi

def SelsValid (sels : List IdSel) : Prop := ∀ s ∈ sels, ∀ lo hi, s = .range lo hi → lo ≤ hi

theorem deleteFirst_eq_filter (id : Nat) (rs : List Rule) (hn : (rs.map (·.id)).Nodup) :
    deleteFirst id rs = rs.filter (fun r => !(r.id == id)) := by
  induction rs with
  | nil => rfl
  | cons r rs ih =>
    have hn' : (rs.map (·.id)).Nodup := (List.nodup_cons.mp (by simpa using hn)).2
    have hnot : r.id ∉ rs.map (·.id) := (List.nodup_cons.mp (by simpa using hn)).1
    unfold deleteFirst
    by_cases h : (r.id == id) = true
    · simp only [h, if_true, List.filter_cons, Bool.not_true, Bool.false_eq_true, if_false]
      have hid : r.id = id := by simpa using h
      symm
      apply List.filter_eq_self.mpr
      intro r' hr'
      have : r'.id ≠ id := by
        intro heq; apply hnot; rw [hid, ← heq]; exact List.mem_map.mpr ⟨r', hr', rfl⟩
      simpa using this
    · simp only [h, Bool.false_eq_true, if_false, List.filter_cons, Bool.not_false, if_true]
      rw [ih hn']

theorem filter_ids_nodup (p : Rule → Bool) (rs : List Rule) (hn : (rs.map (·.id)).Nodup) :
    ((rs.filter p).map (·.id)).Nodup :=
  (List.filter_sublist.map _).nodup hn

/-- **C17_config_remove_list**: with distinct rule ids, `SecRuleRemoveById` with any list of ids
    and (well-formed) ranges leaves exactly the rules no element of the list names — a list or a
    range is the enumeration of its members, whatever the order and however they overlap. -/
theorem C17_config_remove_list (rs : List Rule) (sels : List IdSel)
    (hn : (rs.map (·.id)).Nodup) (hv : SelsValid sels) :
    removeSels rs sels = some (rs.filter fun r => !(sels.any (selHas · r.id))) := by
  induction sels generalizing rs with
  | nil =>
    simp only [removeSels, List.any_nil, Bool.not_false]
    congr 1
    exact (List.filter_eq_self.mpr (by simp)).symm
  | cons s ss ih =>
    have hv' : SelsValid ss := fun s' hs' => hv s' (List.mem_cons_of_mem _ hs')
    unfold removeSels
    cases s with
    | one i =>
      simp only [removeSel]
      rw [deleteFirst_eq_filter i rs hn, ih _ (filter_ids_nodup _ rs hn) hv', List.filter_filter]
      congr 2
      funext r
      simp only [List.any_cons, selHas, Bool.not_or, Bool.and_comm]
    | range lo hi =>
      have hle : lo ≤ hi := hv _ (List.mem_cons_self) lo hi rfl
      have : ¬ lo > hi := by omega
      simp only [removeSel, this, if_false]
      rw [ih _ (filter_ids_nodup _ rs hn) hv', List.filter_filter]
      congr 2
      funext r
      simp only [List.any_cons, selHas, Bool.not_or, Bool.and_comm]

theorem buildRules_foldl_rules (acc rs : List Rule) :
    (rs.map Item.rule).foldl buildStep (some acc) = some (acc ++ rs) := by
  induction rs generalizing acc with
  | nil => simp
  | cons r rs ih =>
    simp only [List.map_cons, List.foldl_cons, buildStep]
    rw [ih]; simp

/-- **C17_config_remove**: a configuration made of rules followed by `SecRuleRemoveById` is the
    configuration that never contained the named rules. -/
theorem C17_config_remove (rs : List Rule) (sels : List IdSel)
    (hn : (rs.map (·.id)).Nodup) (hv : SelsValid sels) :
    buildRules (rs.map Item.rule ++ [.dir (.removeById sels)]) =
      buildRules ((rs.filter fun r => !(sels.any (selHas · r.id))).map Item.rule) := by
  unfold buildRules
  rw [List.foldl_append, buildRules_foldl_rules, buildRules_foldl_rules]
  simp only [List.nil_append, List.foldl_cons, List.foldl_nil, buildStep, applyDir]
  exact C17_config_remove_list rs sels hn hv

/-- the same for removal by tag (no hypothesis needed) -/
theorem C17_config_remove_tag (rs : List Rule) (tag : Bytes) :
    buildRules (rs.map Item.rule ++ [.dir (.removeByTag tag)]) =
      buildRules ((rs.filter fun r => !r.tags.contains tag).map Item.rule) := by
  unfold buildRules
  rw [List.foldl_append, buildRules_foldl_rules, buildRules_foldl_rules]
  simp [buildStep, applyDir]

/-- **C17_update_target_is_rewritten**: updating the targets of a stored rule whose starter was
    compiled from the written list `items0` gives the starter compiled from `items0 ++ items`
    — the rule written with those targets (negations reach the earlier targets of their variable,
    exactly as when written in one list). -/
theorem C17_update_target_is_rewritten (items0 items : List TItem) (r : Rule) (l : Link) (ls : List Link)
    (h : r.links = l :: ls) (hl : l.targets = compileTargets items0) :
    (addTargets items r).links = { l with targets := compileTargets (items0 ++ items) } :: ls := by
  unfold addTargets
  rw [h]
  simp only [hl, compileTargets, List.foldl_append]

/-- an id list is processed element by element -/
theorem C17_update_list_append (f : Rule → Rule) (acc : UpdAcc) (s1 s2 : List IdSel) :
    updSels f acc (s1 ++ s2) = (updSels f acc s1).bind (fun a => updSels f a s2) := by
  induction s1 generalizing acc with
  | nil => rfl
  | cons s ss ih =>
    simp only [List.cons_append, updSels]
    cases updSel f acc s with
    | none => rfl
    | some a => exact ih a

theorem updFirst_eq_map (f : Rule → Rule) (id : Nat) (rs : List Rule) (hn : (rs.map (·.id)).Nodup) :
    updFirst f id rs = rs.map (fun r => if r.id == id then f r else r) := by
  induction rs with
  | nil => rfl
  | cons r rs ih =>
    have hn' : (rs.map (·.id)).Nodup := (List.nodup_cons.mp (by simpa using hn)).2
    have hnot : r.id ∉ rs.map (·.id) := (List.nodup_cons.mp (by simpa using hn)).1
    unfold updFirst
    by_cases h : (r.id == id) = true
    · simp only [h, if_true, List.map_cons]
      congr 1
      have hid : r.id = id := by simpa using h
      symm
      calc rs.map (fun r => if r.id == id then f r else r) = rs.map (fun x => x) := by
            apply List.map_congr_left
            intro r' hr'
            have : r'.id ≠ id := by
              intro heq; apply hnot; rw [hid, ← heq]; exact List.mem_map.mpr ⟨r', hr', rfl⟩
            simp [this]
        _ = rs := by simp
    · simp only [h, Bool.false_eq_true, if_false, List.map_cons]
      rw [ih hn']

/-- n-fold application -/
def iter (f : Rule → Rule) : Nat → Rule → Rule
  | 0, r => r
  | n + 1, r => iter f n (f r)

/-- **C17_update_rules**: with distinct ids and an update that keeps the id, every rule ends up
    updated once per element of the list that names it — every id of the list, every member of
    every range, none else (the defect repaired by 34ba4e7 applied the first single id only). -/
theorem C17_update_rules (f : Rule → Rule) (hf : ∀ r, (f r).id = r.id) (sels : List IdSel) (hv : SelsValid sels)
    (acc : UpdAcc) (hn : (acc.rules.map (·.id)).Nodup) :
    (updSels f acc sels).map (·.rules) =
      some (acc.rules.map fun r => iter f (sels.countP (selHas · r.id)) r) := by
  induction sels generalizing acc with
  | nil => simp [updSels, iter]
  | cons s ss ih =>
    have hv' : SelsValid ss := fun s' hs' => hv s' (List.mem_cons_of_mem _ hs')
    -- the state after this element, whatever its bookkeeping: rules mapped once where named
    have step : ∃ a, updSel f acc s = some a ∧
        a.rules = acc.rules.map (fun r => if selHas s r.id then f r else r) := by
      cases s with
      | one i =>
        simp only [updSel, selHas]
        by_cases hany : acc.rules.any (·.id == i) = true
        · simp only [hany, if_true]
          exact ⟨_, rfl, updFirst_eq_map f i acc.rules hn⟩
        · simp only [hany, Bool.false_eq_true, if_false]
          refine ⟨_, rfl, ?_⟩
          symm
          calc acc.rules.map (fun r => if r.id == i then f r else r) = acc.rules.map (fun x => x) := by
                apply List.map_congr_left
                intro r hr
                have : (r.id == i) = false := by
                  cases hri : (r.id == i) with
                  | false => rfl
                  | true => exact absurd (List.any_eq_true.mpr ⟨r, hr, hri⟩) hany
                simp [this]
            _ = acc.rules := by simp
      | range lo hi =>
        have hle : lo ≤ hi := hv _ (List.mem_cons_self) lo hi rfl
        simp only [updSel, selHas]
        by_cases heq : (lo == hi) = true
        · have hlh : lo = hi := by simpa using heq
          subst hlh
          have hsame : ∀ r : Rule, (decide (lo ≤ r.id) && decide (r.id ≤ lo)) = (r.id == lo) := by
            intro r
            rw [Bool.eq_iff_iff]
            simp only [Bool.and_eq_true, decide_eq_true_eq, beq_iff_eq]
            omega
          simp only [heq, if_true, hsame]
          by_cases hany : acc.rules.any (·.id == lo) = true
          · simp only [hany, if_true]
            exact ⟨_, rfl, updFirst_eq_map f lo acc.rules hn⟩
          · simp only [hany, Bool.false_eq_true, if_false]
            refine ⟨_, rfl, ?_⟩
            symm
            calc acc.rules.map (fun r => if r.id == lo then f r else r) = acc.rules.map (fun x => x) := by
                  apply List.map_congr_left
                  intro r hr
                  have : (r.id == lo) = false := by
                    cases hri : (r.id == lo) with
                    | false => rfl
                    | true => exact absurd (List.any_eq_true.mpr ⟨r, hr, hri⟩) hany
                  simp [this]
              _ = acc.rules := by simp
        · have : ¬ lo > hi := by omega
          simp only [heq, Bool.false_eq_true, if_false, this]
          exact ⟨_, rfl, rfl⟩
    obtain ⟨a, ha, har⟩ := step
    unfold updSels
    rw [ha]
    have hn2 : (a.rules.map (·.id)).Nodup := by
      rw [har, List.map_map]
      have : ((fun r : Rule => r.id) ∘ fun r => if selHas s r.id then f r else r) = (fun r => r.id) := by
        funext r; simp only [Function.comp]; split <;> simp [hf]
      rw [this]; exact hn
    rw [ih hv' a hn2, har, List.map_map]
    congr 1
    apply List.map_congr_left
    intro r _
    simp only [Function.comp, List.countP_cons]
    by_cases hs : selHas s r.id = true
    · simp only [hs, if_true, hf]
      rfl
    · simp only [hs, Bool.false_eq_true, if_false, Nat.add_zero]

/-- non-vacuity: `SecRuleUpdateTargetById 10 20 "!ARGS:x"` reaches both rules -/
def C17_r (id : Nat) : Rule :=
  ⟨id, 1, [], [⟨[mkTarget .code .args [] false], none, [], false, [], 0⟩], .pass, 0, 0, [], none, [], false, false, []⟩
example : (applyDir [C17_r 10, C17_r 20, C17_r 30] (.updateTargetById [.one 10, .one 20] [.neg .args (mkExc .code .args [0x78])])).map
    (fun rs => rs.map fun r => (r.links.map fun l => l.targets.map (·.exc.length))) = some [[[1]], [[1]], [[0]]] := by decide
example : applyDir [C17_r 10] (.updateTargetById [.one 99] []) = none := by decide
example : (applyDir [C17_r 10] (.updateTargetById [.range 13 15, .one 10, .one 18] [])).isSome = true := by decide
