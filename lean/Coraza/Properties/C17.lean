/-
  C17 — Rule exclusions and updates equal the rewritten rule set.
  About rulesLoop / getField of Coraza/Model/Engine.lean (rulegroup.go:180-195 removal checks,
  rule.go:232-251 target exclusions, actions/ctl.go).
-/
import Coraza.Properties.C01
open Coraza Coraza.Engine

/-- removals only grow while rules are evaluated -/
theorem removed_mono {tx tx' : Tx} (f : Frame tx tx') (id : Nat) (h : removed tx id = true) : removed tx' id = true := by
  unfold removed at *
  obtain ⟨l1, e1⟩ := f.rmIds
  obtain ⟨l2, e2⟩ := f.rmRanges
  rw [e1, e2]
  simp only [Bool.or_eq_true, List.contains_eq_mem, List.mem_append, decide_eq_true_eq, List.any_append] at h ⊢
  rcases h with h | h
  · left; left; simpa using h
  · right; left; exact h

theorem frame_evalOne (env : Env) (all : List Rule) (phase : Nat) (r : Rule) (tx : Tx) :
    ∃ l, (evalOne env all phase r tx).rmIds = tx.rmIds ++ l ∧
    ∃ l', (evalOne env all phase r tx).rmRanges = tx.rmRanges ++ l' := by
  unfold evalOne
  have f := frame_evalRule env all r { tx with matchedVars := {}, evalLog := tx.evalLog ++ [(phase, r.id)] }
  exact ⟨f.rmIds.choose, f.rmIds.choose_spec, f.rmRanges.choose, f.rmRanges.choose_spec⟩

theorem removed_mono_evalOne (env : Env) (all : List Rule) (phase : Nat) (r : Rule) (tx : Tx) (id : Nat)
    (h : removed tx id = true) : removed (evalOne env all phase r tx) id = true := by
  obtain ⟨l1, e1, l2, e2⟩ := frame_evalOne env all phase r tx
  unfold removed at *
  rw [e1, e2]
  simp only [Bool.or_eq_true, List.contains_eq_mem, List.mem_append, decide_eq_true_eq, List.any_append] at h ⊢
  rcases h with h | h
  · left; left; simpa using h
  · right; left; exact h

/-- C17_ctl_remove: for the rest of the transaction, rules removed by ctl:ruleRemoveById /
    ByTag / ByMsg (any set `S` of ids already recorded as removed) behave exactly as if they
    had never been in the configuration: the loop over the full list equals the loop over the
    list with those rules filtered out — including skip counting, markers and allow handling. -/
theorem C17_ctl_remove (env : Env) (all : List Rule) (phase : Nat) (S : Nat → Bool) (rs : List Rule) (tx : Tx)
    (hS : ∀ id, S id = true → removed tx id = true) :
    rulesLoop env all phase rs tx = rulesLoop env all phase (rs.filter (fun r => !S r.id)) tx := by
  induction rs generalizing tx with
  | nil => rfl
  | cons r rs ih =>
    by_cases hr : S r.id = true
    · have hrem := hS r.id hr
      simp only [List.filter_cons, hr, Bool.not_true, Bool.false_eq_true, if_false]
      rw [rulesLoop]
      by_cases hi : (tx.intr.isSome && phase != 5) = true
      · simp only [hi, if_true]
        -- interrupted: the filtered loop returns tx as well
        cases hfl : rs.filter (fun r => !S r.id) with
        | nil => rfl
        | cons r' rs' => rw [rulesLoop]; simp [hi]
      · simp only [hi, Bool.false_eq_true, if_false, hrem, if_true]
        split
        · exact ih tx hS
        · exact ih tx hS
    · have hr' : (!S r.id) = true := by simpa using hr
      simp only [List.filter_cons, hr', if_true]
      rw [rulesLoop, rulesLoop]
      have st : ∀ t : Tx, t.rmIds = tx.rmIds → t.rmRanges = tx.rmRanges → ∀ id, S id = true → removed t id = true := by
        intro t h1 h2 id hid
        have := hS id hid
        unfold removed at *; rw [h1, h2]; exact this
      have ev : ∀ id, S id = true → removed (evalOne env all phase r tx) id = true :=
        fun id hid => removed_mono_evalOne env all phase r tx id (hS id hid)
      split
      · rfl
      · split
        · exact ih tx hS
        · split
          · exact ih tx hS
          · split
            · split
              · exact ih _ (st _ rfl rfl)
              · exact ih tx hS
            · split
              · exact ih _ (st _ rfl rfl)
              · split
                · rfl
                · split
                  · exact ih _ ev
                  · rfl
                · split
                  · rfl
                  · split
                    · rfl
                    · exact ih _ ev
                · exact ih _ ev

/-- in particular: a transaction that starts with the ids of `S` removed (what
    SecRuleRemoveById … would have deleted from the configuration) evaluates every phase like
    the configuration without those rules -/
theorem C17_remove_static (env : Env) (all : List Rule) (phase : Nat) (ids : List Nat) (rs : List Rule) (tx : Tx)
    (h : ∀ id ∈ ids, id ∈ tx.rmIds) :
    rulesLoop env all phase rs tx = rulesLoop env all phase (rs.filter (fun r => !ids.contains r.id)) tx :=
  C17_ctl_remove env all phase (fun id => ids.contains id) rs tx (by
    intro id hid
    unfold removed
    have : id ∈ tx.rmIds := h id (by simpa using hid)
    simp [this])

/-- a range behaves like the enumeration of its members -/
theorem C17_range_is_enumeration (tx : Tx) (lo hi id : Nat) :
    removed { tx with rmRanges := tx.rmRanges ++ [(lo, hi)] } id =
    (removed tx id || (List.range' lo (hi + 1 - lo)).contains id) := by
  unfold removed
  simp only [List.any_append, List.any_cons, List.any_nil, Bool.or_false, Bool.or_assoc]
  congr 2
  rw [Bool.eq_iff_iff]
  simp only [Bool.and_eq_true, decide_eq_true_eq, List.contains_eq_mem, List.mem_range'_1]
  omega

/-- C17_ctl_target: a run-time `ctl:ruleRemoveTargetById=id;VAR:key` recorded for the rule has,
    on every later evaluation of a target of that variable, exactly the effect of the rule
    written with the extra `!VAR:key` -/
theorem C17_ctl_target (tx : Tx) (ecol : List (Var × Bytes)) (t : Target) (k : Bytes) :
    getField tx (ecol ++ [(t.var, k)]) t = getField tx ecol { t with exc := t.exc ++ [k] } := by
  simp only [getField, List.filter_append, List.map_append, List.filter_cons, beq_self_eq_true, if_true,
    List.filter_nil, List.map_cons, List.map_nil]
  have key : ∀ md : MD, excluded (t.exc ++ ((ecol.filter fun r => r.1 == t.var).map (·.2) ++ [k])) md =
      excluded (t.exc ++ [k] ++ (ecol.filter fun r => r.1 == t.var).map (·.2)) md := by
    intro md
    unfold excluded
    simp only [List.any_append, List.any_cons, List.any_nil, Bool.or_false]
    cases List.any t.exc _ <;> cases List.any (List.map _ _) _ <;> simp
  simp only [key]

/-- and it touches no target of another variable -/
theorem C17_ctl_target_other (tx : Tx) (ecol : List (Var × Bytes)) (t : Target) (v : Var) (k : Bytes)
    (h : v ≠ t.var) : getField tx (ecol ++ [(v, k)]) t = getField tx ecol t := by
  have : ((v, k).1 == t.var) = false := by simpa using h
  simp [getField, List.filter_append, this]

/-- non-vacuity -/
example : removed { ({} : Tx) with rmRanges := [(10, 20)] } 15 = true := by decide
