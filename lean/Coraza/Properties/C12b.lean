/-
  C12 (continued) — the hypothesis `Interned` discharged against a model of the interning table.
-/
import Coraza.Properties.C12
import Coraza.Proofs.TfIntern
open Coraza Coraza.Engine

/-- **C12_interned**: the hypothesis `Interned` of C12_cache_transparent holds of the interning table:
    whatever the table contained before (entry 0 being the empty chain) and whatever is registered
    afterwards by other rules and other WAFs, a rule's prefix ids denote the prefixes of its own list.
    Ids are positions in a list that only grows, so two chains never share one — for any number of
    registrations. -/
theorem C12_interned (tbl later : List (List String)) (tfs : List String) (h0 : 0 < tbl.length) (hz : tbl.getD 0 [] = []) :
    Interned (fun id => ((internAll tbl 0 tfs).1 ++ later).getD id []) tfs (internAll tbl 0 tfs).2 := by
  obtain ⟨_, hl, hc⟩ := internAll_spec tfs tbl 0 [] h0 hz
  exact ⟨hl, fun i h => by simpa using hc later i h⟩

example : internAll [[]] 0 ["lowercase", "trim"] = ([[], ["lowercase"], ["lowercase", "trim"]], [1, 2]) := by decide
example : (internAll [[], ["lowercase"], ["lowercase", "trim"]] 0 ["lowercase", "length"]).2 = [1, 3] := by decide
