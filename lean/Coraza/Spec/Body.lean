/-
  Specification machine for C10: the transaction-level body state with the buffer
  replaced by its content (no memory/file distinction, no memLimit).
-/
import Coraza.Model.Body
namespace Coraza.Body

structure ASt where
  side : Side
  content : Bytes
  limit : Nat
  reject : Bool
  intr : Option Nat
  dataErr : Bool
  phaseReady : Bool
  bodyRuns : Nat
  bodyVar : Option Bytes
deriving Repr, DecidableEq

def abs (s : St) : ASt :=
  { side := s.side, content := s.bb.content, limit := s.limit, reject := s.reject, intr := s.intr,
    dataErr := s.dataErr, phaseReady := s.phaseReady, bodyRuns := s.bodyRuns, bodyVar := s.bodyVar }

/-- the body phase runs at most when ready and not interrupted; it sees exactly the stored bytes -/
def aProcessBody (a : ASt) : ASt :=
  if a.intr.isSome then a
  else if !a.phaseReady then a
  else
    match a.side with
    | .req =>
      if a.content.length == 0 then { a with phaseReady := false, bodyRuns := a.bodyRuns + 1 }
      else { a with phaseReady := false, bodyRuns := a.bodyRuns + 1, bodyVar := some a.content }
    | .resp => { a with phaseReady := false, bodyRuns := a.bodyRuns + 1, bodyVar := some a.content }

/-- store `take wb d`, then the "reached the limit" check of the reader entry points -/
def aCopyTail (a : ASt) (d : Bytes) (wb : Nat) (run : Bool) : ASt × WObs :=
  let got := d.take wb
  let a := { a with content := a.content ++ got }
  if a.content.length == a.limit then
    let a := { a with dataErr := true }
    if a.reject then
      let a := { a with intr := limitIntr a.intr a.side }
      (a, ⟨a.intr, 0, false⟩)
    else
      let a := aProcessBody a
      (a, ⟨a.intr, got.length, false⟩)
  else
    let a := if run then aProcessBody a else a
    (a, ⟨a.intr, got.length, false⟩)

def aStep (a : ASt) (w : Wr) : ASt × WObs :=
  let len := a.content.length
  if a.limit == len then (a, ⟨if a.reject then a.intr else none, 0, false⟩)
  else
    match w with
    | .slice d =>
      if len + d.length ≥ a.limit then
        let a := { a with dataErr := true }
        if a.reject then
          let a := { a with intr := limitIntr a.intr a.side }
          (a, ⟨a.intr, 0, false⟩)
        else
          let got := d.take (a.limit - len)
          let a := aProcessBody { a with content := a.content ++ got }
          (a, ⟨a.intr, got.length, false⟩)
      else
        ({ a with content := a.content ++ d }, ⟨a.intr, d.length, false⟩)
    | .known d =>
      if len + d.length ≥ a.limit then
        let a := { a with dataErr := true }
        if a.reject then
          let a := { a with intr := limitIntr a.intr a.side }
          (a, ⟨a.intr, 0, false⟩)
        else aCopyTail a d (a.limit - len) true
      else aCopyTail a d d.length false
    | .unknown d => aCopyTail a d (a.limit - len) false

def aRun (a : ASt) : List Wr → ASt × List WObs
  | [] => (a, [])
  | w :: ws =>
    let (a1, o) := aStep a w
    let (a2, os) := aRun a1 ws
    (a2, o :: os)

end Coraza.Body
