/-
  What a SecRule target list *means* (C16): the reference reading of `VARIABLES`, written as
  directly as possible from the documented grammar

      targets := target ('|' target)*
      target  := ['!' | '&'] NAME [':' key]
      key     := '/' regex '/'  |  "'/" regex "/'"  |  xpath (after XML: / JSON:)  |  plain
      regex   := any bytes; a '/' inside it is written '\/' (a backslash escapes the next byte)
      plain   := one or more bytes other than '|' that do not start with '/' or "'"

  `strictTargets` returns the description or rejects. It shares nothing with the scanner model
  (`Coraza.Parse.pvAux`) except the variable table.
-/
import Coraza.Model.Parse
namespace Coraza.Parse.Spec
open Coraza Coraza.Parse

/-- split a regex body at its first unescaped '/': (body, rest after the slash) -/
def cutRegex : Bytes → Bool → Bytes → Option (Bytes × Bytes)
  | [], _, _ => none
  | c :: t, esc, acc =>
    if c == 0x2f && !esc then some (acc.reverse, t)
    else if c == 0x5c then cutRegex t (!esc) (c :: acc)
    else cutRegex t false (c :: acc)

/-- bytes up to the next '|' (exclusive) and what follows it (`none` = no '|') -/
def cutPipe : Bytes → Bytes × Option Bytes
  | [] => ([], none)
  | c :: t => if c == 0x7c then ([], some t) else let (a, r) := cutPipe t; (c :: a, r)

def cutColon : Bytes → Bytes × Option Bytes
  | [] => ([], none)
  | c :: t => if c == 0x3a then ([], some t) else let (a, r) := cutColon t; (c :: a, r)

def isNameByte (c : UInt8) : Bool :=
  (65 ≤ c && c ≤ 90) || (97 ≤ c && c ≤ 122) || (48 ≤ c && c ≤ 57) || c == 0x5f

/-- one target starting at the head of the list: (description, remaining targets or none at the end) -/
def strictOne (s : Bytes) : Option (TOp × Option Bytes) :=
  let (neg, cnt, s) := match s with
    | 0x21 :: t => (true, false, t)
    | 0x26 :: t => (false, true, t)
    | _ => (false, false, s)
  -- the name runs to the first ':' or '|'
  let nameLen := (s.takeWhile isNameByte).length
  let name := s.take nameLen
  let after := s.drop nameLen
  if name.isEmpty then none
  else match lookupVar name with
  | none => none
  | some (_, sel) =>
    let mk (key : Bytes) : TOp := if neg then .neg name key else .add name key cnt
    match after with
    | [] => some (mk [], none)
    | 0x7c :: t => some (mk [], some t)
    | 0x3a :: k =>
      if name == b!"XML" || name == b!"JSON" then
        -- xpath: everything up to the next '|'
        let (key, rest) := cutPipe k
        if key.isEmpty then none else some (mk key, rest)
      else
        (match k with
        | 0x2f :: r =>
          (match cutRegex r false [] with
           | none => none
           | some (body, rest) =>
             (match rest with
              | [] => some (mk ([0x2f] ++ body ++ [0x2f]), none)
              | 0x7c :: t => some (mk ([0x2f] ++ body ++ [0x2f]), some t)
              | _ => none))
        | 0x27 :: 0x2f :: r =>
          (match cutRegex r false [] with
           | none => none
           | some (body, rest) =>
             (match rest with
              | [0x27] => some (mk ([0x2f] ++ body ++ [0x2f]), none)
              | 0x27 :: 0x7c :: t => some (mk ([0x2f] ++ body ++ [0x2f]), some t)
              | _ => none))
        | 0x27 :: _ => none
        | _ =>
          let (key, rest) := cutPipe k
          if key.isEmpty then none
          else if !sel then none
          else some (mk key, rest))
    | _ => none

def strictAux : Nat → Bytes → Option (List TOp)
  | 0, _ => none
  | fuel + 1, s =>
    match strictOne s with
    | none => none
    | some (t, none) => some [t]
    | some (t, some rest) => if rest.isEmpty then none else (strictAux fuel rest).map (t :: ·)

/-- the reference reading of a target list -/
def strictTargets (s : Bytes) : Option (List TOp) := strictAux (s.length + 1) s

end Coraza.Parse.Spec
