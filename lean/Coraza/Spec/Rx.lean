/-
  What a match is (C11): an *over-approximation* of Go's regexp match relation on the simplified
  syntax tree. `M re s i j` reads "re may match the bytes s[i, j) of input s". Every clause is a
  necessary condition of the engine's behaviour, and only the parts the prefilter relies on are
  precise:

  * a literal without FoldCase matches exactly its UTF-8 bytes; U+FFFD in a literal matches at
    least one byte;
  * a literal with FoldCase matches, rune by rune, the encoding of some rune `r'` such that
    `FoldOK r r'`: if `r'` is ASCII then so is the literal's rune and they agree up to ASCII case,
    and `r'` is not shorter in UTF-8 than the literal's rune (the literal holds the smallest rune of
    its fold orbit — regexp/syntax minFoldRune);
  * a class / any-char consumes at least one byte;
  * \A matches only at 0, \z only at the end; the other empty-width operators match anywhere
    (liberal);
  * concatenation splits, alternation picks a branch, * ? + {n,m} iterate, a capture is transparent;
  * every matched interval lies inside the input.

  The theorems about the prefilter hold for every `M`-match, hence for every real match, provided
  the engine matches only what `M` allows — that inclusion is the stated assumption of
  `C11_equiv`, not something Lean knows about Go's regexp package.
-/
import Coraza.Model.Rx
namespace Coraza.Rx
open Coraza

/-- s[i, j) -/
def slice (s : Bytes) (i j : Nat) : Bytes := (s.drop i).take (j - i)

/-- the relation between the rune in a FoldCase literal and the rune it matches -/
def FoldOK (r r' : Nat) : Prop := (r' < 128 → r < 128 ∧ asciiLower r.toUInt8 = asciiLower r'.toUInt8) ∧ runeLen r ≤ runeLen r'

/-- one rune of a literal against s[i, k) -/
def RuneM (f : Bool) (r : Nat) (s : Bytes) (i k : Nat) : Prop :=
  i < k ∧ k ≤ s.length ∧
  (if r = runeError then True
   else if f then ∃ r', FoldOK r r' ∧ slice s i k = encodeRune r'
   else slice s i k = encodeRune r)

inductive LitM (f : Bool) : List Nat → Bytes → Nat → Nat → Prop
  | nil (s : Bytes) (i : Nat) : i ≤ s.length → LitM f [] s i i
  | cons (r : Nat) (rs : List Nat) (s : Bytes) (i k j : Nat) :
      RuneM f r s i k → LitM f rs s k j → LitM f (r :: rs) s i j

mutual
inductive M : Re → Bytes → Nat → Nat → Prop
  | lit (f : Bool) (rs : List Nat) (s : Bytes) (i j : Nat) : LitM f rs s i j → M (.lit f rs) s i j
  | cc (f : Bool) (rg : List Nat) (s : Bytes) (i j : Nat) : i < j → j ≤ s.length → M (.cc f rg) s i j
  | anynl (f : Bool) (s : Bytes) (i j : Nat) : i < j → j ≤ s.length → M (.anynl f) s i j
  | any (f : Bool) (s : Bytes) (i j : Nat) : i < j → j ≤ s.length → M (.any f) s i j
  | empty (f : Bool) (s : Bytes) (i : Nat) : i ≤ s.length → M (.empty f) s i i
  | bol (f : Bool) (s : Bytes) (i : Nat) : i ≤ s.length → M (.bol f) s i i
  | eol (f : Bool) (s : Bytes) (i : Nat) : i ≤ s.length → M (.eol f) s i i
  | wb (f : Bool) (s : Bytes) (i : Nat) : i ≤ s.length → M (.wb f) s i i
  | nwb (f : Bool) (s : Bytes) (i : Nat) : i ≤ s.length → M (.nwb f) s i i
  | bot (f : Bool) (s : Bytes) : M (.bot f) s 0 0
  | eot (f : Bool) (s : Bytes) : M (.eot f) s s.length s.length
  | cap (f : Bool) (r : Re) (s : Bytes) (i j : Nat) : M r s i j → M (.cap f r) s i j
  | star0 (f : Bool) (r : Re) (s : Bytes) (i : Nat) : i ≤ s.length → M (.star f r) s i i
  | starS (f : Bool) (r : Re) (s : Bytes) (i k j : Nat) : M r s i k → M (.star f r) s k j → M (.star f r) s i j
  | plus (f : Bool) (r : Re) (s : Bytes) (i k j : Nat) : M r s i k → M (.star f r) s k j → M (.plus f r) s i j
  | quest0 (f : Bool) (r : Re) (s : Bytes) (i : Nat) : i ≤ s.length → M (.quest f r) s i i
  | quest1 (f : Bool) (r : Re) (s : Bytes) (i j : Nat) : M r s i j → M (.quest f r) s i j
  | rep0 (f : Bool) (mx : Int) (r : Re) (s : Bytes) (i j : Nat) : M (.star f r) s i j → M (.rep f 0 mx r) s i j
  | repS (f : Bool) (mn : Nat) (mx : Int) (r : Re) (s : Bytes) (i k j : Nat) :
      M r s i k → M (.rep f mn mx r) s k j → M (.rep f (mn + 1) mx r) s i j
  | cat (f : Bool) (rs : List Re) (s : Bytes) (i j : Nat) : MCat rs s i j → M (.cat f rs) s i j
  | alt (f : Bool) (rs : List Re) (s : Bytes) (i j : Nat) : MAlt rs s i j → M (.alt f rs) s i j
inductive MCat : List Re → Bytes → Nat → Nat → Prop
  | nil (s : Bytes) (i : Nat) : i ≤ s.length → MCat [] s i i
  | cons (r : Re) (rs : List Re) (s : Bytes) (i k j : Nat) : M r s i k → MCat rs s k j → MCat (r :: rs) s i j
inductive MAlt : List Re → Bytes → Nat → Nat → Prop
  | here (r : Re) (rs : List Re) (s : Bytes) (i j : Nat) : M r s i j → MAlt (r :: rs) s i j
  | there (r : Re) (rs : List Re) (s : Bytes) (i j : Nat) : MAlt rs s i j → MAlt (r :: rs) s i j
end

/-- the pattern matches somewhere in s (the unanchored search @rx performs) -/
def Found (re : Re) (s : Bytes) : Prop := ∃ i j, M re s i j

end Coraza.Rx
