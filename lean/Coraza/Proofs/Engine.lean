/-
  Frame and monotonicity lemmas for the engine model: what evaluating links, rules and
  phases can and cannot change.  Used by the C01/C02/C08/C09/C17 theorems.
-/
import Coraza.Model.Engine
namespace Coraza.Engine
open Coraza

/-- `tx'` is reachable from `tx` by evaluating (parts of) rules: request data, phase
    bookkeeping and the evaluation log are untouched; removals and matches only grow. -/
structure Frame (tx tx' : Tx) : Prop where
  argsGet : tx'.argsGet = tx.argsGet
  argsPost : tx'.argsPost = tx.argsPost
  argsPath : tx'.argsPath = tx.argsPath
  reqHeaders : tx'.reqHeaders = tx.reqHeaders
  lastPhase : tx'.lastPhase = tx.lastPhase
  evalLog : tx'.evalLog = tx.evalLog
  rmIds : ∃ l, tx'.rmIds = tx.rmIds ++ l
  rmRanges : ∃ l, tx'.rmRanges = tx.rmRanges ++ l
  rmTargets : ∃ l, tx'.rmTargets = tx.rmTargets ++ l
  matched : ∃ l, tx'.matched = tx.matched ++ l

theorem Frame.refl (tx : Tx) : Frame tx tx :=
  ⟨rfl, rfl, rfl, rfl, rfl, rfl, ⟨[], by simp⟩, ⟨[], by simp⟩, ⟨[], by simp⟩, ⟨[], by simp⟩⟩

theorem Frame.trans {a b c : Tx} (h1 : Frame a b) (h2 : Frame b c) : Frame a c := by
  obtain ⟨l1, e1⟩ := h1.rmIds; obtain ⟨l2, e2⟩ := h2.rmIds
  obtain ⟨m1, f1⟩ := h1.rmRanges; obtain ⟨m2, f2⟩ := h2.rmRanges
  obtain ⟨n1, g1⟩ := h1.rmTargets; obtain ⟨n2, g2⟩ := h2.rmTargets
  obtain ⟨k1, j1⟩ := h1.matched; obtain ⟨k2, j2⟩ := h2.matched
  exact ⟨h2.argsGet.trans h1.argsGet, h2.argsPost.trans h1.argsPost, h2.argsPath.trans h1.argsPath,
    h2.reqHeaders.trans h1.reqHeaders, h2.lastPhase.trans h1.lastPhase, h2.evalLog.trans h1.evalLog,
    ⟨l1 ++ l2, by rw [e2, e1, List.append_assoc]⟩, ⟨m1 ++ m2, by rw [f2, f1, List.append_assoc]⟩,
    ⟨n1 ++ n2, by rw [g2, g1, List.append_assoc]⟩, ⟨k1 ++ k2, by rw [j2, j1, List.append_assoc]⟩⟩

/-- a state that differs from `tx` only in fields the frame does not constrain -/
theorem Frame.of_eq {tx tx' : Tx} (h1 : tx'.argsGet = tx.argsGet) (h2 : tx'.argsPost = tx.argsPost)
    (h3 : tx'.argsPath = tx.argsPath) (h4 : tx'.reqHeaders = tx.reqHeaders) (h5 : tx'.lastPhase = tx.lastPhase)
    (h6 : tx'.evalLog = tx.evalLog) (h7 : tx'.rmIds = tx.rmIds) (h8 : tx'.rmRanges = tx.rmRanges)
    (h9 : tx'.rmTargets = tx.rmTargets) (h10 : tx'.matched = tx.matched) : Frame tx tx' :=
  ⟨h1, h2, h3, h4, h5, h6, ⟨[], by simp [h7]⟩, ⟨[], by simp [h8]⟩, ⟨[], by simp [h9]⟩, ⟨[], by simp [h10]⟩⟩

theorem frame_matchVariable (tx : Tx) (md : MD) : Frame tx (matchVariable tx md) := by
  unfold matchVariable; exact Frame.of_eq rfl rfl rfl rfl rfl rfl rfl rfl rfl rfl

theorem frame_setvarEval (tx : Tx) (k : Bytes) (op : SetOp) : Frame tx (setvarEval tx k op) := by
  unfold setvarEval
  dsimp only
  repeat' split
  all_goals exact Frame.of_eq rfl rfl rfl rfl rfl rfl rfl rfl rfl rfl

theorem frame_runNAct (rules : List Rule) (tx : Tx) (a : NAct) : Frame tx (runNAct rules tx a) := by
  cases a with
  | setvar k op => exact frame_setvarEval tx _ op
  | ctlRuleEngine m => exact Frame.of_eq rfl rfl rfl rfl rfl rfl rfl rfl rfl rfl
  | ctlRemoveById id => exact ⟨rfl, rfl, rfl, rfl, rfl, rfl, ⟨[id], rfl⟩, ⟨[], by simp [runNAct]⟩, ⟨[], by simp [runNAct]⟩, ⟨[], by simp [runNAct]⟩⟩
  | ctlRemoveByRange lo hi => exact ⟨rfl, rfl, rfl, rfl, rfl, rfl, ⟨[], by simp [runNAct]⟩, ⟨[(lo, hi)], rfl⟩, ⟨[], by simp [runNAct]⟩, ⟨[], by simp [runNAct]⟩⟩
  | ctlRemoveByTag tag => exact ⟨rfl, rfl, rfl, rfl, rfl, rfl, ⟨_, rfl⟩, ⟨[], by simp [runNAct]⟩, ⟨[], by simp [runNAct]⟩, ⟨[], by simp [runNAct]⟩⟩
  | ctlRemoveTargetById lo hi v key => exact ⟨rfl, rfl, rfl, rfl, rfl, rfl, ⟨[], by simp [runNAct]⟩, ⟨[], by simp [runNAct]⟩, ⟨_, rfl⟩, ⟨[], by simp [runNAct]⟩⟩
  | ctlRemoveByMsg msg => exact ⟨rfl, rfl, rfl, rfl, rfl, rfl, ⟨_, rfl⟩, ⟨[], by simp [runNAct]⟩, ⟨[], by simp [runNAct]⟩, ⟨[], by simp [runNAct]⟩⟩
  | ctlRemoveTargetByTag tag v key => exact ⟨rfl, rfl, rfl, rfl, rfl, rfl, ⟨[], by simp [runNAct]⟩, ⟨[], by simp [runNAct]⟩, ⟨_, rfl⟩, ⟨[], by simp [runNAct]⟩⟩
  | ctlRemoveTargetByMsg msg v key => exact ⟨rfl, rfl, rfl, rfl, rfl, rfl, ⟨[], by simp [runNAct]⟩, ⟨[], by simp [runNAct]⟩, ⟨_, rfl⟩, ⟨[], by simp [runNAct]⟩⟩
  | ctlAuditEngine m => exact Frame.of_eq rfl rfl rfl rfl rfl rfl rfl rfl rfl rfl
  | setenv k v => exact Frame.of_eq rfl rfl rfl rfl rfl rfl rfl rfl rfl rfl
  | ctlAuditLogParts md =>
    simp only [runNAct]
    split <;> exact Frame.of_eq rfl rfl rfl rfl rfl rfl rfl rfl rfl rfl
  | nop => exact Frame.refl tx

theorem frame_runNActs (rules : List Rule) (tx : Tx) (as : List NAct) : Frame tx (runNActs rules tx as) := by
  unfold runNActs
  induction as generalizing tx with
  | nil => exact Frame.refl tx
  | cons a as ih => exact (frame_runNAct rules tx a).trans (ih _)

theorem frame_evalCands (env : Env) (rules : List Rule) (l : Link) (o : Operator) (md : MD)
    (cs : List Bytes) (tx : Tx) : Frame tx (evalCands env rules l o md cs tx).1 := by
  induction cs generalizing tx with
  | nil => exact Frame.refl tx
  | cons c cs ih =>
    unfold evalCands
    split
    · exact ((frame_matchVariable tx _).trans (frame_runNActs rules _ _)).trans (ih _)
    · exact ih tx

theorem frame_evalValues (env : Env) (rules : List Rule) (l : Link) (o : Operator)
    (mds : List MD) (tx : Tx) : Frame tx (evalValues env rules l o mds tx).1 := by
  induction mds generalizing tx with
  | nil => exact Frame.refl tx
  | cons md mds ih =>
    unfold evalValues
    exact (frame_evalCands env rules l o md _ tx).trans (ih _)

theorem frame_evalTargets (env : Env) (rules : List Rule) (ecol : List (Var × Exc)) (l : Link) (o : Operator)
    (ts : List Target) (tx : Tx) : Frame tx (evalTargets env rules ecol l o ts tx).1 := by
  induction ts generalizing tx with
  | nil => exact Frame.refl tx
  | cons t ts ih =>
    unfold evalTargets
    exact (frame_evalValues env rules l o _ tx).trans (ih _)

theorem frame_evalLink (env : Env) (rules : List Rule) (rid : Nat) (l : Link) (tx : Tx) :
    Frame tx (evalLink env rules rid l tx).1 := by
  unfold evalLink
  split
  · exact (frame_matchVariable tx _).trans (frame_runNActs rules _ _)
  · exact frame_evalTargets env rules _ l _ _ tx

theorem frame_evalLinks (env : Env) (rules : List Rule) (rid : Nat) (ls : List Link) (tx : Tx) :
    Frame tx (evalLinks env rules rid ls tx).1 := by
  induction ls generalizing tx with
  | nil => exact Frame.refl tx
  | cons l ls ih =>
    have h1 := frame_evalLink env rules rid l tx
    rcases h : evalLink env rules rid l tx with ⟨tx1, ms⟩
    rw [h] at h1
    simp only [evalLinks, h]
    split
    · exact h1
    · have h2 := ih tx1
      rcases h' : evalLinks env rules rid ls tx1 with ⟨tx2, r⟩
      rw [h'] at h2
      cases r <;> exact h1.trans h2

end Coraza.Engine

namespace Coraza.Engine
open Coraza

theorem frame_interrupt (tx : Tx) (i : Intr) : Frame tx (interrupt tx i) := by
  unfold interrupt
  repeat' split
  all_goals exact Frame.of_eq rfl rfl rfl rfl rfl rfl rfl rfl rfl rfl

theorem frame_runDisr (r : Rule) (tx : Tx) : Frame tx (runDisr r tx) := by
  unfold runDisr
  repeat' split
  all_goals first
    | exact frame_interrupt tx _
    | exact Frame.of_eq rfl rfl rfl rfl rfl rfl rfl rfl rfl rfl

theorem frame_matchRule (r : Rule) (ms : List MD) (tx : Tx) : Frame tx (matchRule r ms tx) := by
  unfold matchRule
  exact ⟨rfl, rfl, rfl, rfl, rfl, rfl, ⟨[], by simp⟩, ⟨[], by simp⟩, ⟨[], by simp⟩, ⟨[⟨r.id, ms⟩], rfl⟩⟩

theorem frame_evalRule (env : Env) (rules : List Rule) (r : Rule) (tx : Tx) :
    Frame tx (evalRule env rules r tx) := by
  have h1 := frame_evalLinks env rules r.id r.links tx
  unfold evalRule
  rcases h : evalLinks env rules r.id r.links tx with ⟨tx1, res⟩
  rw [h] at h1
  cases res with
  | none => exact h1
  | some ms =>
    simp only
    have a : Frame tx1 (if r.skip > 0 then { tx1 with skip := r.skip } else tx1) := by
      split <;> exact Frame.of_eq rfl rfl rfl rfl rfl rfl rfl rfl rfl rfl
    have b : ∀ t : Tx, Frame t (if !r.skipAfter.isEmpty then { t with skipAfter := r.skipAfter } else t) := by
      intro t; split <;> exact Frame.of_eq rfl rfl rfl rfl rfl rfl rfl rfl rfl rfl
    have c := fun t => frame_runDisr r t
    split
    · exact h1.trans (a.trans ((b _).trans ((c _).trans (frame_matchRule r ms _))))
    · exact h1.trans (a.trans ((b _).trans (c _)))

/-- evaluating links (targets, operators, non-disruptive actions) never touches what only
    parent-level actions and MatchRule write -/
structure Quiet (tx tx' : Tx) : Prop where
  matched : tx'.matched = tx.matched
  intr : tx'.intr = tx.intr
  detIntr : tx'.detIntr = tx.detIntr
  skip : tx'.skip = tx.skip
  skipAfter : tx'.skipAfter = tx.skipAfter
  allow : tx'.allow = tx.allow
  hs : tx'.highestSeverity = tx.highestSeverity
  errCb : tx'.errCb = tx.errCb
  audit : tx'.audit = tx.audit

theorem Quiet.refl (tx : Tx) : Quiet tx tx := ⟨rfl, rfl, rfl, rfl, rfl, rfl, rfl, rfl, rfl⟩
theorem Quiet.trans {a b c : Tx} (h1 : Quiet a b) (h2 : Quiet b c) : Quiet a c :=
  ⟨h2.matched.trans h1.matched, h2.intr.trans h1.intr, h2.detIntr.trans h1.detIntr, h2.skip.trans h1.skip,
   h2.skipAfter.trans h1.skipAfter, h2.allow.trans h1.allow, h2.hs.trans h1.hs, h2.errCb.trans h1.errCb,
   h2.audit.trans h1.audit⟩

theorem quiet_matchVariable (tx : Tx) (md : MD) : Quiet tx (matchVariable tx md) := by
  unfold matchVariable; exact ⟨rfl, rfl, rfl, rfl, rfl, rfl, rfl, rfl, rfl⟩

theorem quiet_setvarEval (tx : Tx) (k : Bytes) (op : SetOp) : Quiet tx (setvarEval tx k op) := by
  unfold setvarEval
  dsimp only
  repeat' split
  all_goals exact ⟨rfl, rfl, rfl, rfl, rfl, rfl, rfl, rfl, rfl⟩

theorem quiet_runNAct (rules : List Rule) (tx : Tx) (a : NAct) : Quiet tx (runNAct rules tx a) := by
  cases a with
  | setvar k op => exact quiet_setvarEval tx _ op
  | nop => exact Quiet.refl tx
  | ctlAuditLogParts md =>
    simp only [runNAct]
    split <;> exact ⟨rfl, rfl, rfl, rfl, rfl, rfl, rfl, rfl, rfl⟩
  | _ => exact ⟨rfl, rfl, rfl, rfl, rfl, rfl, rfl, rfl, rfl⟩

theorem quiet_runNActs (rules : List Rule) (tx : Tx) (as : List NAct) : Quiet tx (runNActs rules tx as) := by
  unfold runNActs
  induction as generalizing tx with
  | nil => exact Quiet.refl tx
  | cons a as ih => exact (quiet_runNAct rules tx a).trans (ih _)

theorem quiet_evalCands (env : Env) (rules : List Rule) (l : Link) (o : Operator) (md : MD)
    (cs : List Bytes) (tx : Tx) : Quiet tx (evalCands env rules l o md cs tx).1 := by
  induction cs generalizing tx with
  | nil => exact Quiet.refl tx
  | cons c cs ih =>
    unfold evalCands
    split
    · exact ((quiet_matchVariable tx _).trans (quiet_runNActs rules _ _)).trans (ih _)
    · exact ih tx

theorem quiet_evalValues (env : Env) (rules : List Rule) (l : Link) (o : Operator)
    (mds : List MD) (tx : Tx) : Quiet tx (evalValues env rules l o mds tx).1 := by
  induction mds generalizing tx with
  | nil => exact Quiet.refl tx
  | cons md mds ih =>
    unfold evalValues
    exact (quiet_evalCands env rules l o md _ tx).trans (ih _)

theorem quiet_evalTargets (env : Env) (rules : List Rule) (ecol : List (Var × Exc)) (l : Link) (o : Operator)
    (ts : List Target) (tx : Tx) : Quiet tx (evalTargets env rules ecol l o ts tx).1 := by
  induction ts generalizing tx with
  | nil => exact Quiet.refl tx
  | cons t ts ih =>
    unfold evalTargets
    exact (quiet_evalValues env rules l o _ tx).trans (ih _)

theorem quiet_evalLink (env : Env) (rules : List Rule) (rid : Nat) (l : Link) (tx : Tx) :
    Quiet tx (evalLink env rules rid l tx).1 := by
  unfold evalLink
  split
  · exact (quiet_matchVariable tx _).trans (quiet_runNActs rules _ _)
  · exact quiet_evalTargets env rules _ l _ _ tx

theorem quiet_evalLinks (env : Env) (rules : List Rule) (rid : Nat) (ls : List Link) (tx : Tx) :
    Quiet tx (evalLinks env rules rid ls tx).1 := by
  induction ls generalizing tx with
  | nil => exact Quiet.refl tx
  | cons l ls ih =>
    have h1 := quiet_evalLink env rules rid l tx
    rcases h : evalLink env rules rid l tx with ⟨tx1, ms⟩
    rw [h] at h1
    simp only [evalLinks, h]
    split
    · exact h1
    · have h2 := ih tx1
      rcases h' : evalLinks env rules rid ls tx1 with ⟨tx2, r⟩
      rw [h'] at h2
      cases r <;> exact h1.trans h2

end Coraza.Engine
