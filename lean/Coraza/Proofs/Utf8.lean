/-
  utf8.ValidString's acceptance table (Model/Operators.lean utf8Valid) against the definition of
  UTF-8: it accepts exactly the concatenations of standard encodings (Model/Transformations3.lean
  utf8Encode, the encoder Go's utf8.AppendRune implements) of Unicode scalar values.
-/
import Coraza.Model.Operators
import Coraza.Model.Transformations3
namespace Coraza.Op
open Coraza Coraza.Op Coraza.Tf


/-- a Unicode scalar value: a code point up to U+10FFFF outside the surrogate range -/
def isScalar (c : Nat) : Bool := c ≤ 0x10ffff && !(0xd800 ≤ c && c ≤ 0xdfff)

theorem utf8Valid_1 (b : UInt8) (tl : Bytes) (h : b.toNat < 0x80) : utf8Valid (b :: tl) = utf8Valid tl := by
  have : b < 0x80 := by rw [UInt8.lt_iff_toNat_lt]; simpa using h
  rw [utf8Valid.eq_def]; simp [this]

theorem utf8Valid_2 (b0 b1 : UInt8) (tl : Bytes) (h : 0xC2 ≤ b0.toNat ∧ b0.toNat ≤ 0xDF) :
    utf8Valid (b0 :: b1 :: tl) = (cont b1 && utf8Valid tl) := by
  have h1 : ¬ b0 < 0x80 := by rw [UInt8.lt_iff_toNat_lt]; simp; omega
  have h2 : (0xC2 : UInt8) ≤ b0 := by rw [UInt8.le_iff_toNat_le]; simp; omega
  have h3 : b0 ≤ (0xDF : UInt8) := by rw [UInt8.le_iff_toNat_le]; simp; omega
  rw [utf8Valid.eq_def]; simp [h1, h2, h3]

theorem utf8Valid_3 (b0 b1 b2 : UInt8) (tl : Bytes) (h : 0xE0 ≤ b0.toNat ∧ b0.toNat ≤ 0xEF)
    (h1 : 0x80 ≤ b1.toNat ∧ b1.toNat ≤ 0xBF) (hE0 : b0.toNat = 0xE0 → 0xA0 ≤ b1.toNat) (hED : b0.toNat = 0xED → b1.toNat ≤ 0x9F)
    (h2 : 0x80 ≤ b2.toNat ∧ b2.toNat ≤ 0xBF) : utf8Valid (b0 :: b1 :: b2 :: tl) = utf8Valid tl := by
  rw [utf8Valid.eq_def]
  simp only [cont, UInt8.le_iff_toNat_le, UInt8.lt_iff_toNat_lt, beq_iff_eq, ← UInt8.toNat_inj]
  simp
  rw [if_neg (by omega), if_neg (by omega), if_pos h]
  have a1 : decide (128 ≤ b1.toNat) = true := by simp; omega
  have a2 : decide (b1.toNat ≤ 191) = true := by simp; omega
  have a3 : decide (128 ≤ b2.toNat) = true := by simp; omega
  have a4 : decide (b2.toNat ≤ 191) = true := by simp; omega
  by_cases e0 : b0.toNat = 224
  · have := hE0 e0
    have a5 : decide (160 ≤ b1.toNat) = true := by simp; omega
    simp [e0, a1, a2, a3, a4, a5]
  · by_cases ed : b0.toNat = 237
    · have := hED ed
      have a5 : decide (b1.toNat ≤ 159) = true := by simp; omega
      simp [ed, a1, a2, a3, a4, a5]
    · simp [e0, ed, a1, a2, a3, a4]

theorem utf8Valid_4 (b0 b1 b2 b3 : UInt8) (tl : Bytes) (h : 0xF0 ≤ b0.toNat ∧ b0.toNat ≤ 0xF4)
    (h1 : 0x80 ≤ b1.toNat ∧ b1.toNat ≤ 0xBF) (hF0 : b0.toNat = 0xF0 → 0x90 ≤ b1.toNat) (hF4 : b0.toNat = 0xF4 → b1.toNat ≤ 0x8F)
    (h2 : 0x80 ≤ b2.toNat ∧ b2.toNat ≤ 0xBF) (h3 : 0x80 ≤ b3.toNat ∧ b3.toNat ≤ 0xBF) :
    utf8Valid (b0 :: b1 :: b2 :: b3 :: tl) = utf8Valid tl := by
  rw [utf8Valid.eq_def]
  simp only [cont, UInt8.le_iff_toNat_le, UInt8.lt_iff_toNat_lt, beq_iff_eq, ← UInt8.toNat_inj]
  simp
  rw [if_neg (by omega), if_neg (by omega), if_neg (by omega)]
  have a0 : decide (240 ≤ b0.toNat) = true := by simp; omega
  have a0' : decide (b0.toNat ≤ 244) = true := by simp; omega
  have a1 : decide (128 ≤ b1.toNat) = true := by simp; omega
  have a2 : decide (b1.toNat ≤ 191) = true := by simp; omega
  have a3 : decide (128 ≤ b2.toNat) = true := by simp; omega
  have a4 : decide (b2.toNat ≤ 191) = true := by simp; omega
  have a6 : decide (128 ≤ b3.toNat) = true := by simp; omega
  have a7 : decide (b3.toNat ≤ 191) = true := by simp; omega
  by_cases e0 : b0.toNat = 240
  · have := hF0 e0
    have a5 : decide (144 ≤ b1.toNat) = true := by simp; omega
    simp [e0, a1, a2, a3, a4, a5, a6, a7]
  · by_cases ed : b0.toNat = 244
    · have := hF4 ed
      have a5 : decide (b1.toNat ≤ 143) = true := by simp; omega
      simp [ed, a1, a2, a3, a4, a5, a6, a7]
    · simp [e0, ed, a0, a0', a1, a2, a3, a4, a6, a7]

theorem toNat_ofNat_lt (k : Nat) (h : k < 256) : (UInt8.ofNat k).toNat = k := by
  rw [UInt8.toNat_ofNat']; exact Nat.mod_eq_of_lt h

/-- every Unicode scalar value, written the way the standard says, is accepted -/
theorem utf8Valid_encode_append (c : Nat) (h : isScalar c = true) (rest : Bytes) :
    utf8Valid (utf8Encode c ++ rest) = utf8Valid rest := by
  simp only [isScalar, Bool.and_eq_true, decide_eq_true_eq, Bool.not_eq_true', Bool.and_eq_false_iff, decide_eq_false_iff_not] at h
  unfold utf8Encode
  split
  · exact utf8Valid_1 _ _ (by rw [toNat_ofNat_lt _ (by omega)]; omega)
  · split
    · exact utf8Valid_2 _ _ _ (by rw [toNat_ofNat_lt _ (by omega)]; omega) |>.trans (by
        have : cont (UInt8.ofNat (0x80 + c % 64)) = true := by
          simp only [cont, UInt8.le_iff_toNat_le, Bool.and_eq_true, decide_eq_true_eq]
          rw [toNat_ofNat_lt _ (by omega)]; simp; omega
        rw [this, Bool.true_and]; rfl)
    · split
      · rename_i hs; simp at hs; omega
      · split
        · apply utf8Valid_3 <;> (repeat rw [toNat_ofNat_lt _ (by omega)]) <;> omega
        · apply utf8Valid_4 <;> (repeat rw [toNat_ofNat_lt _ (by omega)]) <;> omega

theorem ofNat_eq' (k : Nat) (b : UInt8) (h : k % 256 = b.toNat) : UInt8.ofNat k = b := by
  apply UInt8.toNat_inj.mp
  simp [UInt8.toNat_ofNat', h]

theorem enc1 (b : UInt8) (h : b.toNat < 128) : isScalar b.toNat = true ∧ utf8Encode b.toNat = [b] := by
  constructor
  · simp [isScalar]; omega
  · unfold utf8Encode; rw [if_pos (by omega)]; congr 1; exact ofNat_eq' _ _ (by omega)

theorem enc2 (b0 b1 : UInt8) (h0 : 194 ≤ b0.toNat ∧ b0.toNat ≤ 223) (h1 : 128 ≤ b1.toNat ∧ b1.toNat ≤ 191) :
    isScalar ((b0.toNat - 192) * 64 + (b1.toNat - 128)) = true ∧
    utf8Encode ((b0.toNat - 192) * 64 + (b1.toNat - 128)) = [b0, b1] := by
  generalize hc : (b0.toNat - 192) * 64 + (b1.toNat - 128) = c
  constructor
  · simp [isScalar]; omega
  · unfold utf8Encode; rw [if_neg (by omega), if_pos (by omega)]
    have e0 : UInt8.ofNat (0xc0 + c / 64) = b0 := ofNat_eq' _ _ (by omega)
    have e1 : UInt8.ofNat (0x80 + c % 64) = b1 := ofNat_eq' _ _ (by omega)
    rw [e0, e1]

theorem enc3 (b0 b1 b2 : UInt8) (h0 : 224 ≤ b0.toNat ∧ b0.toNat ≤ 239) (h1 : 128 ≤ b1.toNat ∧ b1.toNat ≤ 191)
    (hE0 : b0.toNat = 224 → 160 ≤ b1.toNat) (hED : b0.toNat = 237 → b1.toNat ≤ 159) (h2 : 128 ≤ b2.toNat ∧ b2.toNat ≤ 191) :
    isScalar ((b0.toNat - 224) * 4096 + (b1.toNat - 128) * 64 + (b2.toNat - 128)) = true ∧
    utf8Encode ((b0.toNat - 224) * 4096 + (b1.toNat - 128) * 64 + (b2.toNat - 128)) = [b0, b1, b2] := by
  generalize hc : (b0.toNat - 224) * 4096 + (b1.toNat - 128) * 64 + (b2.toNat - 128) = c
  constructor
  · simp [isScalar]; omega
  · unfold utf8Encode; rw [if_neg (by omega), if_neg (by omega), if_neg (by simp; omega), if_pos (by omega)]
    have e0 : UInt8.ofNat (0xe0 + c / 4096) = b0 := ofNat_eq' _ _ (by omega)
    have e1 : UInt8.ofNat (0x80 + c / 64 % 64) = b1 := ofNat_eq' _ _ (by omega)
    have e2 : UInt8.ofNat (0x80 + c % 64) = b2 := ofNat_eq' _ _ (by omega)
    rw [e0, e1, e2]

theorem enc4 (b0 b1 b2 b3 : UInt8) (h0 : 240 ≤ b0.toNat ∧ b0.toNat ≤ 244) (h1 : 128 ≤ b1.toNat ∧ b1.toNat ≤ 191)
    (hF0 : b0.toNat = 240 → 144 ≤ b1.toNat) (hF4 : b0.toNat = 244 → b1.toNat ≤ 143) (h2 : 128 ≤ b2.toNat ∧ b2.toNat ≤ 191)
    (h3 : 128 ≤ b3.toNat ∧ b3.toNat ≤ 191) :
    isScalar ((b0.toNat - 240) * 262144 + (b1.toNat - 128) * 4096 + (b2.toNat - 128) * 64 + (b3.toNat - 128)) = true ∧
    utf8Encode ((b0.toNat - 240) * 262144 + (b1.toNat - 128) * 4096 + (b2.toNat - 128) * 64 + (b3.toNat - 128)) = [b0, b1, b2, b3] := by
  generalize hc : (b0.toNat - 240) * 262144 + (b1.toNat - 128) * 4096 + (b2.toNat - 128) * 64 + (b3.toNat - 128) = c
  constructor
  · simp [isScalar]; omega
  · unfold utf8Encode; rw [if_neg (by omega), if_neg (by omega), if_neg (by simp; omega), if_neg (by omega)]
    have e0 : UInt8.ofNat (0xf0 + c / 262144) = b0 := ofNat_eq' _ _ (by omega)
    have e1 : UInt8.ofNat (0x80 + c / 4096 % 64) = b1 := ofNat_eq' _ _ (by omega)
    have e2 : UInt8.ofNat (0x80 + c / 64 % 64) = b2 := ofNat_eq' _ _ (by omega)
    have e3 : UInt8.ofNat (0x80 + c % 64) = b3 := ofNat_eq' _ _ (by omega)
    rw [e0, e1, e2, e3]

theorem cont_nat (b : UInt8) (h : cont b = true) : 128 ≤ b.toNat ∧ b.toNat ≤ 191 := by
  simp only [cont, UInt8.le_iff_toNat_le, Bool.and_eq_true, decide_eq_true_eq] at h
  simpa using h

/-- everything `utf8.ValidString` accepts is the standard encoding of a sequence of scalar values -/
theorem utf8Valid_decode (v : Bytes) (h : utf8Valid v = true) :
    ∃ cs : List Nat, (∀ c ∈ cs, isScalar c = true) ∧ v = cs.flatMap utf8Encode := by
  fun_induction utf8Valid v
  case case1 => exact ⟨[], by simp, rfl⟩
  case case2 b bs hb ih =>
    obtain ⟨cs, hs, rfl⟩ := ih h
    have hb' : b.toNat < 128 := by rw [UInt8.lt_iff_toNat_lt] at hb; simpa using hb
    obtain ⟨s1, e1⟩ := enc1 b hb'
    exact ⟨b.toNat :: cs, by intro c hc; rcases List.mem_cons.mp hc with h0 | h'; (rw [h0]; exact s1); exact hs c h', by simp [e1]⟩
  case case3 b hb1 hb2 b1 r ih =>
    simp only [Bool.and_eq_true] at h
    obtain ⟨cs, hs, rfl⟩ := ih h.2
    simp only [Bool.and_eq_true, decide_eq_true_eq, UInt8.le_iff_toNat_le] at hb2
    obtain ⟨s1, e1⟩ := enc2 b b1 (by simpa using hb2) (cont_nat _ h.1)
    exact ⟨((b.toNat - 192) * 64 + (b1.toNat - 128)) :: cs, by intro c hc; rcases List.mem_cons.mp hc with h0 | h'; (rw [h0]; exact s1); exact hs c h', by simp [e1]⟩
  case case5 b hb1 hb2 hb3 c1 c2 rest ih =>
    simp only [Bool.and_eq_true] at h
    obtain ⟨⟨hc1, hc2⟩, hr⟩ := h
    obtain ⟨cs, hs, rfl⟩ := ih hr
    simp only [Bool.and_eq_true, decide_eq_true_eq, UInt8.le_iff_toNat_le] at hb3
    have hb3' : 224 ≤ b.toNat ∧ b.toNat ≤ 239 := by simpa using hb3
    have key : (128 ≤ c1.toNat ∧ c1.toNat ≤ 191) ∧ (b.toNat = 224 → 160 ≤ c1.toNat) ∧ (b.toNat = 237 → c1.toNat ≤ 159) := by
      by_cases e0 : b = 224
      · subst e0; simp [UInt8.le_iff_toNat_le] at hc1 ⊢; omega
      · by_cases ed : b = 237
        · subst ed; simp [UInt8.le_iff_toNat_le] at hc1 ⊢; omega
        · have n0 : b.toNat ≠ 224 := fun hh => e0 (UInt8.toNat_inj.mp (by simpa using hh))
          have nd : b.toNat ≠ 237 := fun hh => ed (UInt8.toNat_inj.mp (by simpa using hh))
          simp [e0, ed] at hc1
          exact ⟨cont_nat _ hc1, fun hh => absurd hh n0, fun hh => absurd hh nd⟩
    obtain ⟨s1, e1⟩ := enc3 b c1 c2 hb3' key.1 key.2.1 key.2.2 (cont_nat _ hc2)
    exact ⟨((b.toNat - 224) * 4096 + (c1.toNat - 128) * 64 + (c2.toNat - 128)) :: cs, by intro c hc; rcases List.mem_cons.mp hc with h0 | h'; (rw [h0]; exact s1); exact hs c h', by simp [e1]⟩
  case case8 b hb1 hb2 hb3 hb4 b1 b2 b3 r ih =>
    simp only [Bool.and_eq_true] at h
    obtain ⟨⟨⟨hc1, hc2⟩, hc3⟩, hr⟩ := h
    obtain ⟨cs, hs, rfl⟩ := ih hr
    simp only [Bool.and_eq_true, decide_eq_true_eq, UInt8.le_iff_toNat_le] at hb4
    have hb4' : 240 ≤ b.toNat ∧ b.toNat ≤ 244 := by simpa using hb4
    have key : (128 ≤ b1.toNat ∧ b1.toNat ≤ 191) ∧ (b.toNat = 240 → 144 ≤ b1.toNat) ∧ (b.toNat = 244 → b1.toNat ≤ 143) := by
      by_cases e0 : b = 240
      · subst e0; simp [UInt8.le_iff_toNat_le] at hc1 ⊢; omega
      · by_cases ed : b = 244
        · subst ed; simp [UInt8.le_iff_toNat_le] at hc1 ⊢; omega
        · have n0 : b.toNat ≠ 240 := fun hh => e0 (UInt8.toNat_inj.mp (by simpa using hh))
          have nd : b.toNat ≠ 244 := fun hh => ed (UInt8.toNat_inj.mp (by simpa using hh))
          simp [e0, ed] at hc1
          exact ⟨cont_nat _ hc1, fun hh => absurd hh n0, fun hh => absurd hh nd⟩
    obtain ⟨s1, e1⟩ := enc4 b b1 b2 b3 hb4' key.1 key.2.1 key.2.2 (cont_nat _ hc2) (cont_nat _ hc3)
    exact ⟨((b.toNat - 240) * 262144 + (b1.toNat - 128) * 4096 + (b2.toNat - 128) * 64 + (b3.toNat - 128)) :: cs, by intro c hc; rcases List.mem_cons.mp hc with h0 | h'; (rw [h0]; exact s1); exact hs c h', by simp [e1]⟩
  all_goals simp at h

/-- a text made of standard encodings of scalar values is accepted -/
theorem utf8Valid_encode (cs : List Nat) (h : ∀ c ∈ cs, isScalar c = true) : utf8Valid (cs.flatMap utf8Encode) = true := by
  induction cs with
  | nil => simp [utf8Valid]
  | cons c cs ih =>
    rw [List.flatMap_cons, utf8Valid_encode_append c (h c (by simp))]
    exact ih (fun x hx => h x (by simp [hx]))

end Coraza.Op
