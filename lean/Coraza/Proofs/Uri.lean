/-
  Helper lemma for the C03 theorem about ProcessURI (Model/Uri.lean).
-/
import Coraza.Model.Uri
namespace Coraza.Engine
open Coraza

theorem cut1_spec (sep : UInt8) (s : Bytes) :
    (cut1 sep s).1 ++ (match (cut1 sep s).2 with | none => [] | some b => sep :: b) = s ∧ sep ∉ (cut1 sep s).1 := by
  unfold cut1
  have hnot : sep ∉ s.takeWhile (· != sep) := by
    induction s with
    | nil => simp
    | cons c t ih =>
      by_cases hc : c = sep
      · subst hc; simp [List.takeWhile]
      · have hb : (c != sep) = true := by simpa using hc
        simp only [List.takeWhile, hb, List.mem_cons, not_or]
        exact ⟨fun h => hc h.symm, ih⟩
  have htd := List.takeWhile_append_dropWhile (p := (· != sep)) (l := s)
  cases hd : s.dropWhile (· != sep) with
  | nil =>
    simp only [hnot, not_false_eq_true, and_true, List.append_nil]
    rw [hd, List.append_nil] at htd
    exact htd
  | cons x b =>
    simp only [hnot, not_false_eq_true, and_true]
    have hx : x = sep := by
      have := List.head_dropWhile_not (· != sep) (l := s) (by simp [hd])
      simpa [hd] using this
    rw [hd, hx] at htd
    exact htd

end Coraza.Engine
