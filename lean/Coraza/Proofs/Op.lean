/- Helper lemmas for the C15 theorems (operators). -/
import Coraza.Base.UInt8
import Coraza.Model.Operators
namespace Coraza.Op
open Coraza

theorem isPrefixB_iff (p v : Bytes) : isPrefixB p v = true ↔ p <+: v := by
  induction p generalizing v with
  | nil => simp [isPrefixB]
  | cons a as ih =>
    cases v with
    | nil => simp [isPrefixB]
    | cons b bs => simp [isPrefixB, List.cons_prefix_cons, ih]

theorem isInfixB_iff (p v : Bytes) : isInfixB p v = true ↔ p <:+: v := by
  induction v with
  | nil => simp [isInfixB, List.infix_nil]
  | cons b bs ih =>
    simp only [isInfixB, Bool.or_eq_true, isPrefixB_iff, ih]
    exact List.infix_cons_iff.symm

theorem isSuffixB_iff (p v : Bytes) : isSuffixB p v = true ↔ p <:+ v := by
  simp [isSuffixB, isPrefixB_iff, List.reverse_prefix]

theorem urlEncValid_cons_plain (b : UInt8) (tl : Bytes) (hb : (b != 0x25) = true) :
    urlEncValid (b :: tl) = urlEncValid tl := by
  rw [urlEncValid.eq_def]; simp only [hb, if_true]

/-! fold-insensitive versions -/

/-- declarative ASCII-case-insensitive equality of byte strings -/
def FoldEqL (a b : Bytes) : Prop := a.map asciiLower = b.map asciiLower

/-- `p` occurs in `v` up to ASCII case -/
def FoldInfix (p v : Bytes) : Prop := ∃ w, w <:+: v ∧ FoldEqL p w

theorem isPrefixFold_iff (p v : Bytes) : isPrefixFold p v = true ↔ ∃ w, w <+: v ∧ FoldEqL p w := by
  induction p generalizing v with
  | nil => simp [isPrefixFold, FoldEqL]
  | cons a as ih =>
    cases v with
    | nil => simp [isPrefixFold, FoldEqL]
    | cons b bs =>
      simp only [isPrefixFold, Bool.and_eq_true, ih, foldEq, beq_iff_eq]
      constructor
      · rintro ⟨hab, w, hw, he⟩
        exact ⟨b :: w, by simp [List.cons_prefix_cons, hw], by simp [FoldEqL] at he ⊢; exact ⟨hab, he⟩⟩
      · rintro ⟨w, hw, he⟩
        cases w with
        | nil => simp [FoldEqL] at he
        | cons c cs =>
          simp only [List.cons_prefix_cons] at hw
          obtain ⟨rfl, hcs⟩ := hw
          simp only [FoldEqL, List.map_cons, List.cons.injEq] at he
          exact ⟨he.1, cs, hcs, he.2⟩

theorem isInfixFold_iff (p v : Bytes) : isInfixFold p v = true ↔ FoldInfix p v := by
  induction v with
  | nil =>
    simp only [isInfixFold, FoldInfix, List.infix_nil]
    constructor
    · intro h; exact ⟨[], rfl, by simp [FoldEqL, List.isEmpty_iff.mp h]⟩
    · rintro ⟨w, rfl, he⟩; simp [FoldEqL] at he; simp [he]
  | cons b bs ih =>
    simp only [isInfixFold, Bool.or_eq_true, isPrefixFold_iff, ih, FoldInfix]
    constructor
    · rintro (⟨w, hw, he⟩ | ⟨w, hw, he⟩)
      · exact ⟨w, List.infix_cons_iff.mpr (Or.inl hw), he⟩
      · exact ⟨w, List.infix_cons_iff.mpr (Or.inr hw), he⟩
    · rintro ⟨w, hw, he⟩
      rcases List.infix_cons_iff.mp hw with h | h
      · exact Or.inl ⟨w, h, he⟩
      · exact Or.inr ⟨w, h, he⟩

theorem FoldInfix.length_le {p v : Bytes} (h : FoldInfix p v) : p.length ≤ v.length := by
  obtain ⟨w, hw, he⟩ := h
  have : p.length = w.length := by
    have := congrArg List.length he; simpa using this
  have := hw.length_le
  omega

/-- minPatternLen is a lower bound on the length of every pattern -/
theorem minPatternLen_le (ps : List Bytes) (p : Bytes) (hp : p ∈ ps) : minPatternLen ps ≤ p.length := by
  unfold minPatternLen
  cases ps with
  | nil => simp at hp
  | cons q qs =>
    simp only
    split
    · omega
    · rename_i hne
      -- generalise the fold: result ≤ every element seen, and ≤ start when start ≠ 0
      have key : ∀ (l : List Bytes) (m : Nat), (∀ x ∈ l, x.length ≠ 0) →
          (∀ x ∈ l, (l.foldl (fun m p => if m == 0 || p.length < m then p.length else m) m) ≤ x.length) ∧
          (m ≠ 0 → (l.foldl (fun m p => if m == 0 || p.length < m then p.length else m) m) ≤ m) ∧
          (m ≠ 0 → l.foldl (fun m p => if m == 0 || p.length < m then p.length else m) m ≠ 0) := by
        intro l
        induction l with
        | nil => intro m _; simp
        | cons y ys ih =>
          intro m hnz
          have hy : y.length ≠ 0 := hnz y (by simp)
          have hys : ∀ x ∈ ys, x.length ≠ 0 := fun x hx => hnz x (by simp [hx])
          simp only [List.foldl_cons]
          by_cases hc : (m == 0 || y.length < m) = true
          · simp only [hc, if_true]
            obtain ⟨i1, i2, i3⟩ := ih y.length hys
            refine ⟨?_, ?_, ?_⟩
            · intro x hx
              rcases List.mem_cons.mp hx with rfl | hx
              · exact i2 hy
              · exact i1 x hx
            · intro hm
              have := i2 hy
              simp only [Bool.or_eq_true, beq_iff_eq, decide_eq_true_eq] at hc
              rcases hc with hc | hc
              · exact absurd hc hm
              · omega
            · intro _; exact i3 hy
          · have hc' : (m == 0 || y.length < m) = false := by simpa using hc
            simp only [hc', Bool.false_eq_true, if_false]
            simp only [Bool.or_eq_false_iff, beq_eq_false_iff_ne, decide_eq_false_iff_not] at hc'
            obtain ⟨i1, i2, i3⟩ := ih m hys
            refine ⟨?_, ?_, ?_⟩
            · intro x hx
              rcases List.mem_cons.mp hx with rfl | hx
              · have := i2 hc'.1; omega
              · exact i1 x hx
            · intro hm; exact i2 hm
            · intro hm; exact i3 hm
      have hnz : ∀ x ∈ q :: qs, x.length ≠ 0 := by
        intro x hx hz
        apply hne
        simp only [List.any_eq_true]
        exact ⟨x, hx, by simp [List.isEmpty_iff, List.length_eq_zero_iff.mp hz]⟩
      exact (key (q :: qs) 0 hnz).1 p hp

end Coraza.Op
