/-
  Definitions and helper lemmas for the C03 theorems about XML bodies (Properties/C03b.lean).
-/
import Coraza.Model.Xml
open Coraza Coraza.Xml

/-- `y` is `x` or occurs somewhere below it -/
inductive Desc : X → X → Prop
  | self (x : X) : Desc x x
  | kid {as : List Bytes} {kids : List X} {k y : X} : k ∈ kids → Desc k y → Desc (.elem as kids) y

theorem attrsOfList_mem {k : X} {kids : List X} (hk : k ∈ kids) {v : Bytes} (hv : v ∈ attrsOf k) :
    v ∈ attrsOfList kids := by
  induction kids with
  | nil => cases hk
  | cons x xs ih =>
    simp only [attrsOfList, List.mem_append]
    rcases List.mem_cons.mp hk with rfl | h
    · exact Or.inl hv
    · exact Or.inr (ih h)

theorem contentsOfList_mem {k : X} {kids : List X} (hk : k ∈ kids) {v : Bytes} (hv : v ∈ contentsOf k) :
    v ∈ contentsOfList kids := by
  induction kids with
  | nil => cases hk
  | cons x xs ih =>
    simp only [contentsOfList, List.mem_append]
    rcases List.mem_cons.mp hk with rfl | h
    · exact Or.inl hv
    · exact Or.inr (ih h)

mutual
/-- the number of attributes written in the document -/
def numAttrs : X → Nat
  | .elem as kids => as.length + numAttrsList kids
  | _ => 0
def numAttrsList : List X → Nat
  | [] => 0
  | x :: xs => numAttrs x + numAttrsList xs
end

mutual
theorem attrsOf_length : ∀ x : X, (attrsOf x).length = numAttrs x
  | .elem as kids => by simp [attrsOf, numAttrs, attrsOfList_length kids]
  | .text _ => by simp [attrsOf, numAttrs]
  | .cdata _ => by simp [attrsOf, numAttrs]
  | .other => by simp [attrsOf, numAttrs]
theorem attrsOfList_length : ∀ xs : List X, (attrsOfList xs).length = numAttrsList xs
  | [] => by simp [attrsOfList, numAttrsList]
  | x :: xs => by simp [attrsOfList, numAttrsList, attrsOf_length x, attrsOfList_length xs]
end

mutual
theorem attrsOf_sound : ∀ (x : X) (v : Bytes), v ∈ attrsOf x → ∃ as kids, Desc x (.elem as kids) ∧ v ∈ as
  | .elem as kids, v, h => by
    simp only [attrsOf, List.mem_append] at h
    rcases h with h | h
    · exact ⟨as, kids, Desc.self _, h⟩
    · obtain ⟨k, hk, as', kids', hd, hv⟩ := attrsOfList_sound kids v h
      exact ⟨as', kids', Desc.kid hk hd, hv⟩
  | .text _, v, h => by simp [attrsOf] at h
  | .cdata _, v, h => by simp [attrsOf] at h
  | .other, v, h => by simp [attrsOf] at h
theorem attrsOfList_sound : ∀ (xs : List X) (v : Bytes), v ∈ attrsOfList xs →
    ∃ k, k ∈ xs ∧ ∃ as kids, Desc k (.elem as kids) ∧ v ∈ as
  | [], v, h => by simp [attrsOfList] at h
  | x :: xs, v, h => by
    simp only [attrsOfList, List.mem_append] at h
    rcases h with h | h
    · obtain ⟨as, kids, hd, hv⟩ := attrsOf_sound x v h
      exact ⟨x, List.mem_cons_self, as, kids, hd, hv⟩
    · obtain ⟨k, hk, r⟩ := attrsOfList_sound xs v h
      exact ⟨k, List.mem_cons_of_mem _ hk, r⟩
end

