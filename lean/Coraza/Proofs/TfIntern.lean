/- Helper lemmas about the interning table (Model/TfIntern.lean). -/
import Coraza.Model.TfIntern
namespace Coraza.Engine

theorem getD_append_left (tbl ext : List (List String)) (i : Nat) (h : i < tbl.length) :
    (tbl ++ ext).getD i [] = tbl.getD i [] := by
  simp [List.getD_eq_getElem?_getD, List.getElem?_append_left h]

theorem internTf_spec (tbl : List (List String)) (cur : Nat) (name : String) :
    (∃ ext, (internTf tbl cur name).1 = tbl ++ ext) ∧ (internTf tbl cur name).2 < (internTf tbl cur name).1.length ∧
    (internTf tbl cur name).1.getD (internTf tbl cur name).2 [] = tbl.getD cur [] ++ [name] := by
  unfold internTf
  cases h : findChain tbl (tbl.getD cur [] ++ [name]) with
  | some id =>
    simp only
    have hm := List.mem_of_find?_eq_some h
    have hp := List.find?_some h
    have hlt : id < tbl.length := by simpa using hm
    exact ⟨⟨[], by simp⟩, hlt, by simpa using hp⟩
  | none =>
    simp only
    refine ⟨⟨_, rfl⟩, by simp, ?_⟩
    simp [List.getD_eq_getElem?_getD]

/-- **interning is stable and faithful**: the prefix ids a rule gets from AddTransformation denote
    exactly the prefixes of its transformation list, in the table as it is afterwards and in every
    later extension of it (other rules, other WAFs of the process: the table only grows) -/
theorem internAll_spec (tfs : List String) :
    ∀ (tbl : List (List String)) (cur : Nat) (pre : List String), cur < tbl.length → tbl.getD cur [] = pre →
    (∃ ext, (internAll tbl cur tfs).1 = tbl ++ ext) ∧ (internAll tbl cur tfs).2.length = tfs.length ∧
    ∀ (later : List (List String)) (i : Nat) (h : i < (internAll tbl cur tfs).2.length),
      ((internAll tbl cur tfs).1 ++ later).getD ((internAll tbl cur tfs).2[i]) [] = pre ++ tfs.take (i + 1) := by
  induction tfs with
  | nil => intro tbl cur pre _ _; exact ⟨⟨[], by simp [internAll]⟩, rfl, by intro _ i h; simp [internAll] at h⟩
  | cons t ts ih =>
    intro tbl cur pre hcur hpre
    obtain ⟨⟨e1, h1⟩, h2, h3⟩ := internTf_spec tbl cur t
    rw [hpre] at h3
    obtain ⟨⟨e2, g1⟩, g2, g3⟩ := ih (internTf tbl cur t).1 (internTf tbl cur t).2 (pre ++ [t]) h2 h3
    simp only [internAll]
    refine ⟨⟨e1 ++ e2, by rw [g1, h1, List.append_assoc]⟩, by simp [g2], ?_⟩
    intro later i hi
    cases i with
    | zero =>
      simp only [List.getElem_cons_zero, List.take_succ_cons, List.take_zero]
      rw [g1, List.append_assoc, getD_append_left _ _ _ h2, h3]
    | succ j =>
      simp only [List.getElem_cons_succ, List.take_succ_cons]
      have := g3 later j (by simpa using hi)
      rw [this]; simp

end Coraza.Engine
