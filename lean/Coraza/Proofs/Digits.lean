/-
  strconv.Itoa / strconv.Atoi as modelled in Model/Engine.lean (natToBytes, intToBytes, atoiOpt):
  the round trip, for every number setvar arithmetic can produce below 2^63.
-/
import Coraza.Model.Engine
namespace Coraza.Engine
open Coraza

def digitVal (acc : Int) (d : UInt8) : Int := acc * 10 + ((d.toNat - 48 : Nat) : Int)

def isDigitB (b : UInt8) : Bool := 48 ≤ b && b ≤ 57

theorem ofNat_digit_toNat (k : Nat) (hk : k < 10) : (UInt8.ofNat (48 + k)).toNat = 48 + k := by
  simp only [UInt8.toNat_ofNat']
  omega

theorem ofNat_digit_isDigit (k : Nat) (hk : k < 10) : isDigitB (UInt8.ofNat (48 + k)) = true := by
  have h := ofNat_digit_toNat k hk
  simp only [isDigitB, Bool.and_eq_true, decide_eq_true_eq, UInt8.le_iff_toNat_le, h]
  constructor
  · show (48 : UInt8).toNat ≤ 48 + k; simp
  · show 48 + k ≤ (57 : UInt8).toNat; simp; omega

/-- the digits of n (enough fuel): all decimal digits, non-empty, and they spell n -/
theorem natDigitsAux_spec (f n : Nat) (hf : n < 10 ^ (f + 1)) :
    (natDigitsAux (f + 1) n).all isDigitB = true ∧ natDigitsAux (f + 1) n ≠ [] ∧
    (natDigitsAux (f + 1) n).foldl digitVal 0 = (n : Int) := by
  induction f generalizing n with
  | zero =>
    have hn : n < 10 := by simpa using hf
    unfold natDigitsAux
    simp only [hn, if_true, List.all_cons, List.all_nil, Bool.and_true, List.foldl_cons, List.foldl_nil]
    refine ⟨ofNat_digit_isDigit n hn, by simp, ?_⟩
    have := ofNat_digit_toNat n hn
    simp only [digitVal, this]
    omega
  | succ f ih =>
    unfold natDigitsAux
    by_cases hn : n < 10
    · simp only [hn, if_true, List.all_cons, List.all_nil, Bool.and_true, List.foldl_cons, List.foldl_nil]
      refine ⟨ofNat_digit_isDigit n hn, by simp, ?_⟩
      have := ofNat_digit_toNat n hn
      simp only [digitVal, this]
      omega
    · simp only [hn, if_false]
      have hq : n / 10 < 10 ^ (f + 1) := by
        have : n < 10 ^ (f + 1) * 10 := by rw [Nat.pow_succ] at hf; exact hf
        omega
      obtain ⟨h1, h2, h3⟩ := ih (n / 10) hq
      have hm : n % 10 < 10 := Nat.mod_lt _ (by omega)
      refine ⟨?_, by simp, ?_⟩
      · simp only [List.all_append, h1, List.all_cons, List.all_nil, Bool.and_true, Bool.true_and]
        exact ofNat_digit_isDigit _ hm
      · rw [List.foldl_append, h3]
        have := ofNat_digit_toNat _ hm
        simp only [List.foldl_cons, List.foldl_nil, digitVal, this]
        omega

theorem natToBytes_spec (n : Nat) :
    (natToBytes n).all isDigitB = true ∧ natToBytes n ≠ [] ∧ (natToBytes n).foldl digitVal 0 = (n : Int) := by
  unfold natToBytes
  apply natDigitsAux_spec
  calc n < 10 ^ n := Nat.lt_pow_self (by omega)
    _ ≤ 10 ^ (n + 1) := Nat.pow_le_pow_right (by omega) (by omega)

/-- **Atoi ∘ Itoa = id** on the non-negative numbers below 2^63 -/
theorem atoiOpt_natToBytes (n : Nat) (hn : n ≤ 9223372036854775807) : atoiOpt (natToBytes n) = some (n : Int) := by
  obtain ⟨h1, h2, h3⟩ := natToBytes_spec n
  unfold atoiOpt
  cases hd : natToBytes n with
  | nil => exact absurd hd h2
  | cons c rest =>
    rw [hd] at h1 h3
    have hc : isDigitB c = true := by simp only [List.all_cons, Bool.and_eq_true] at h1; exact h1.1
    have hc1 : (c == 0x2d || c == 0x2b) = false := by
      simp only [isDigitB, Bool.and_eq_true, decide_eq_true_eq] at hc
      have : (48 : UInt8) ≤ c := hc.1
      rw [Bool.or_eq_false_iff]
      constructor
      · simp only [beq_eq_false_iff_ne, ne_eq]; intro h; subst h; simp at this
      · simp only [beq_eq_false_iff_ne, ne_eq]; intro h; subst h; simp at this
    have hall : (c :: rest).all (fun b => 48 ≤ b && b ≤ 57) = true := h1
    simp only [hc1, Bool.false_eq_true, if_false, List.isEmpty_cons, Bool.false_or, hall, Bool.not_true]
    have hv : (c :: rest).foldl (fun acc d => acc * 10 + ((d.toNat - 48 : Nat) : Int)) 0 = (n : Int) := h3
    rw [hv]
    have : ¬ ((n : Int) > 9223372036854775807) := by omega
    have hc2 : (c == 0x2d) = false := by
      rw [Bool.or_eq_false_iff] at hc1; exact hc1.1
    simp [hc2, this]

theorem wrap64_id (i : Int) (h1 : -9223372036854775808 ≤ i) (h2 : i ≤ 9223372036854775807) : wrap64 i = i := by
  unfold wrap64; omega

theorem atoiOpt_neg (n : Nat) (h0 : 0 < n) (hn : n ≤ 9223372036854775808) :
    atoiOpt (0x2d :: natToBytes n) = some (-(n : Int)) := by
  obtain ⟨h1, h2, h3⟩ := natToBytes_spec n
  unfold atoiOpt
  have e1 : ((0x2d : UInt8) == 0x2d || (0x2d : UInt8) == 0x2b) = true := by decide
  have e2 : (natToBytes n).isEmpty = false := by cases h : natToBytes n <;> simp_all
  have hall : (natToBytes n).all (fun b => 48 ≤ b && b ≤ 57) = true := h1
  simp only [e1, if_true, e2, hall, Bool.not_true, Bool.or_self, Bool.false_eq_true, if_false]
  have hv : (natToBytes n).foldl (fun acc d => acc * 10 + ((d.toNat - 48 : Nat) : Int)) 0 = (n : Int) := h3
  rw [hv]
  have e3 : ((0x2d : UInt8) == 0x2d) = true := by decide
  have : ¬ ((n : Int) > 9223372036854775808) := by omega
  simp [e3, this]

/-- **Atoi ∘ Itoa = id** on the whole int64 range -/
theorem atoiOpt_intToBytes (i : Int) (h1 : -9223372036854775808 ≤ i) (h2 : i ≤ 9223372036854775807) :
    atoiOpt (intToBytes i) = some i := by
  unfold intToBytes
  by_cases hneg : i < 0
  · simp only [hneg, if_true]
    have := atoiOpt_neg i.natAbs (by omega) (by omega)
    rw [this]
    congr 1
    omega
  · simp only [hneg, if_false]
    have := atoiOpt_natToBytes i.toNat (by omega)
    rw [this]
    congr 1
    omega


end Coraza.Engine
