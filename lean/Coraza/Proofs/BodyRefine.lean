/-
  Refinement lemmas: the body model of Model/Body.lean against the specification machine of
  Spec/Body.lean, step by step (used by Properties/C10b.lean).
-/
import Coraza.Properties.C10
import Coraza.Spec.Body
open Coraza Coraza.Body

theorem abs_processBody (s : St) (hi : s.bb.Inv) : abs (processBody s) = aProcessBody (abs s) := by
  have hl := hi.len
  unfold processBody aProcessBody abs
  simp only
  split
  · rfl
  · split
    · rfl
    · cases hs : s.side <;> simp only []
      have e : (s.bb.length == 0) = (s.bb.content.length == 0) := by rw [hl]
      rw [e]
      split <;> rfl

theorem copyTail_refines (s : St) (hi : C10_Inv s) (d : Bytes) (wb : Nat) (run : Bool)
    (h : s.bb.length + wb ≤ s.limit) :
    abs (copyTail s d wb run).1 = (aCopyTail (abs s) d wb run).1 ∧ (copyTail s d wb run).2 = (aCopyTail (abs s) d wb run).2 := by
  have hlim := hi.lim
  have hle : s.bb.length + (d.take wb).length ≤ s.bb.limit := by simp only [List.length_take]; omega
  obtain ⟨b', h1, h2, h3, h4, _, h6⟩ := BB.write_ok s.bb (d.take wb) hi.bb hle
  have hl' : b'.length = b'.content.length := h6.len
  have ew : b'.length - s.bb.length = (d.take wb).length := by omega
  have hc : s.bb.content ++ d.take wb = b'.content := h2.symm
  have econd : ((s.bb.content ++ d.take wb).length == s.limit) = (b'.length == s.limit) := by rw [hc, hl']
  have k1 := abs_processBody { s with bb := b', dataErr := true } h6
  have k2 := abs_processBody { s with bb := b' } h6
  unfold copyTail aCopyTail
  simp only [h1, ew]
  by_cases hfull : (b'.length == s.limit) = true
  · have hcl : b'.content.length = s.limit := by rw [← hl']; simpa using hfull
    by_cases hr : s.reject = true
    · simp [abs, hfull, hr, hc, hcl]
    · have hr' : s.reject = false := by simpa using hr
      simp only [abs, hr'] at k1 ⊢
      simp only [hfull, hc, hcl, beq_self_eq_true, if_true, Bool.false_eq_true, if_false]
      rw [← k1]
      simp
  · have hfull' : (b'.length == s.limit) = false := by simpa using hfull
    have hcl : (b'.content.length == s.limit) = false := by rw [← hl']; exact hfull'
    cases run
    · simp [abs, hfull', hc, hcl]
    · simp only [abs] at k2 ⊢
      simp only [hfull', hc, hcl, if_true, Bool.false_eq_true, if_false]
      rw [← k2]
      simp

theorem step_refines (s : St) (w : Wr) (hi : C10_Inv s) :
    abs (step s w).1 = (aStep (abs s) w).1 ∧ (step s w).2 = (aStep (abs s) w).2 := by
  have hlen : s.bb.length = s.bb.content.length := hi.bb.len
  have hle := hi.bb.le
  have hlim := hi.lim
  have el : (abs s).content.length = s.bb.length := by simp [abs, hlen]
  unfold aStep
  simp only [el]
  have e0 : (abs s).limit = s.limit := rfl
  have er : (abs s).reject = s.reject := rfl
  have ei : (abs s).intr = s.intr := rfl
  simp only [e0, er, ei]
  by_cases hfull : (s.limit == s.bb.length) = true
  · cases w <;> simp [step, writeSlice, readFrom, hfull]
  · have hfull' : (s.limit == s.bb.length) = false := by simpa using hfull
    have hne : s.limit ≠ s.bb.length := by simpa using hfull
    cases w with
    | slice d =>
      simp only [step, writeSlice, hfull', Bool.false_eq_true, if_false]
      by_cases hge : s.bb.length + d.length ≥ s.limit
      · simp only [hge, if_true]
        by_cases hr : s.reject = true
        · simp [abs, hr]
        · have hr' : s.reject = false := by simpa using hr
          have hle2 : s.bb.length + (d.take (s.limit - s.bb.length)).length ≤ s.bb.limit := by
            simp only [List.length_take]; omega
          obtain ⟨b', h1, h2, h3, h4, _, h6⟩ := BB.write_ok s.bb (d.take (s.limit - s.bb.length)) hi.bb hle2
          have k := abs_processBody { s with bb := b', dataErr := true } h6
          have ew : b'.length - s.bb.length = (d.take (s.limit - s.bb.length)).length := by omega
          simp only [abs, hr'] at k ⊢
          simp only [h1, ew, Bool.false_eq_true, if_false, ← h2]
          rw [← k]
          simp
      · simp only [hge, if_false]
        obtain ⟨b', h1, h2, h3, h4, _, h6⟩ := BB.write_ok s.bb d hi.bb (by omega)
        have ew : b'.length - s.bb.length = d.length := by omega
        simp [abs, h1, ew, h2]
    | known d =>
      simp only [step, readFrom, hfull', Bool.false_eq_true, if_false, if_true]
      by_cases hge : s.bb.length + d.length ≥ s.limit
      · simp only [hge, if_true]
        by_cases hr : s.reject = true
        · simp [abs, hr]
        · have hr' : s.reject = false := by simpa using hr
          simp only [hr', Bool.false_eq_true, if_false]
          have hi' : C10_Inv { s with dataErr := true } := ⟨hi.bb, hi.lim⟩
          have := copyTail_refines { s with dataErr := true } hi' d (s.limit - s.bb.length) true (by simp; omega)
          simpa [abs, hr'] using this
      · simp only [hge, if_false]
        have := copyTail_refines s hi d d.length false (by omega)
        simpa [abs] using this
    | unknown d =>
      simp only [step, readFrom, hfull', Bool.false_eq_true, if_false]
      have := copyTail_refines s hi d (s.limit - s.bb.length) false (by omega)
      simpa [abs] using this

