/-
  The declarative meaning of the regex fragment of Model/Regex.lean and the correctness of the
  derivative matcher against it, for every expression and every input (no bound on either).

  `Matches r p m n`: r matches exactly the bytes m, whose left neighbour in the text is p and
  whose right neighbour is n (none = edge of the text). The neighbours are all an empty-width
  assertion can see.
-/
import Coraza.Model.Regex
namespace Coraza.Regex
open Coraza

/-- first byte of m, else the right context -/
def hd (m : Bytes) (n : Option UInt8) : Option UInt8 :=
  match m with
  | [] => n
  | c :: _ => some c

/-- last byte of m, else the left context -/
def lst (p : Option UInt8) : Bytes → Option UInt8
  | [] => p
  | c :: m => lst (some c) m

inductive Matches : Re → Option UInt8 → Bytes → Option UInt8 → Prop
  | eps (p n) : Matches .eps p [] n
  | cls (neg rs c p n) : clsHolds neg rs c = true → Matches (.cls neg rs) p [c] n
  | asrt (a p n) : a.holds p n = true → Matches (.asrt a) p [] n
  | cat (a b p m1 m2 n) : Matches a p m1 (hd m2 n) → Matches b (lst p m1) m2 n → Matches (.cat a b) p (m1 ++ m2) n
  | altL (a b p m n) : Matches a p m n → Matches (.alt a b) p m n
  | altR (a b p m n) : Matches b p m n → Matches (.alt a b) p m n
  | star0 (a p n) : Matches (.star a) p [] n
  | starS (a p m1 m2 n) : Matches a p m1 (hd m2 n) → Matches (.star a) (lst p m1) m2 n → Matches (.star a) p (m1 ++ m2) n

theorem lst_append (p : Option UInt8) (m1 m2 : Bytes) : lst p (m1 ++ m2) = lst (lst p m1) m2 := by
  induction m1 generalizing p with
  | nil => rfl
  | cons c m1 ih => exact ih (some c)

/-! ### inversion lemmas -/

theorem fail_iff (p n : Option UInt8) (m : Bytes) : Matches .fail p m n ↔ False :=
  ⟨fun h => (by cases h), False.elim⟩

theorem eps_iff (p n : Option UInt8) (m : Bytes) : Matches .eps p m n ↔ m = [] :=
  ⟨fun h => by cases h; rfl, fun h => h ▸ Matches.eps p n⟩

theorem asrt_iff (a : Asrt) (p n : Option UInt8) (m : Bytes) :
    Matches (.asrt a) p m n ↔ m = [] ∧ a.holds p n = true :=
  ⟨fun h => by cases h with | asrt _ _ _ h => exact ⟨rfl, h⟩, fun ⟨h1, h2⟩ => h1 ▸ Matches.asrt a p n h2⟩

theorem cls_iff (neg : Bool) (rs : List (UInt8 × UInt8)) (p n : Option UInt8) (m : Bytes) :
    Matches (.cls neg rs) p m n ↔ ∃ c, m = [c] ∧ clsHolds neg rs c = true :=
  ⟨fun h => by cases h with | cls _ _ c _ _ h => exact ⟨c, rfl, h⟩,
   fun ⟨c, h1, h2⟩ => h1 ▸ Matches.cls neg rs c p n h2⟩

theorem cat_iff (a b : Re) (p n : Option UInt8) (m : Bytes) :
    Matches (.cat a b) p m n ↔
      ∃ m1 m2, m = m1 ++ m2 ∧ Matches a p m1 (hd m2 n) ∧ Matches b (lst p m1) m2 n :=
  ⟨fun h => by cases h with | cat _ _ _ m1 m2 _ h1 h2 => exact ⟨m1, m2, rfl, h1, h2⟩,
   fun ⟨m1, m2, h0, h1, h2⟩ => h0 ▸ Matches.cat a b p m1 m2 n h1 h2⟩

theorem alt_iff (a b : Re) (p n : Option UInt8) (m : Bytes) :
    Matches (.alt a b) p m n ↔ Matches a p m n ∨ Matches b p m n :=
  ⟨fun h => by
    cases h with
    | altL _ _ _ _ _ h => exact Or.inl h
    | altR _ _ _ _ _ h => exact Or.inr h,
   fun h => h.elim (Matches.altL a b p m n) (Matches.altR a b p m n)⟩

theorem star_iff (a : Re) (p n : Option UInt8) (m : Bytes) :
    Matches (.star a) p m n ↔
      m = [] ∨ ∃ m1 m2, m = m1 ++ m2 ∧ Matches a p m1 (hd m2 n) ∧ Matches (.star a) (lst p m1) m2 n :=
  ⟨fun h => by
    cases h with
    | star0 => exact Or.inl rfl
    | starS _ _ m1 m2 _ h1 h2 => exact Or.inr ⟨m1, m2, rfl, h1, h2⟩,
   fun h => by
    rcases h with h | ⟨m1, m2, h0, h1, h2⟩
    · exact h ▸ Matches.star0 a p n
    · exact h0 ▸ Matches.starS a p m1 m2 n h1 h2⟩

/-! ### nullable -/

theorem nullable_of_matches {r : Re} {p n : Option UInt8} {m : Bytes} (h : Matches r p m n) :
    m = [] → nullable p n r = true := by
  induction h with
  | eps => intro _; rfl
  | cls _ _ _ _ _ _ => intro h; cases h
  | asrt a p n h => intro _; simpa [nullable] using h
  | cat a b p m1 m2 n _ _ ih1 ih2 =>
    intro h
    have h1 : m1 = [] := List.append_eq_nil_iff.mp h |>.1
    have h2 : m2 = [] := List.append_eq_nil_iff.mp h |>.2
    subst h1; subst h2
    simp only [nullable, Bool.and_eq_true]
    exact ⟨ih1 rfl, ih2 rfl⟩
  | altL a b p m n _ ih => intro h; simp only [nullable, Bool.or_eq_true]; exact Or.inl (ih h)
  | altR a b p m n _ ih => intro h; simp only [nullable, Bool.or_eq_true]; exact Or.inr (ih h)
  | star0 => intro _; rfl
  | starS => intro _; rfl

theorem matches_of_nullable (r : Re) (p n : Option UInt8) (h : nullable p n r = true) : Matches r p [] n := by
  induction r with
  | fail => simp [nullable] at h
  | eps => exact Matches.eps p n
  | cls _ _ => simp [nullable] at h
  | asrt a => exact Matches.asrt a p n (by simpa [nullable] using h)
  | cat a b iha ihb =>
    simp only [nullable, Bool.and_eq_true] at h
    exact Matches.cat a b p [] [] n (iha h.1) (ihb h.2)
  | alt a b iha ihb =>
    simp only [nullable, Bool.or_eq_true] at h
    exact h.elim (fun h => Matches.altL a b p [] n (iha h)) (fun h => Matches.altR a b p [] n (ihb h))
  | star a _ => exact Matches.star0 a p n

theorem nullable_iff (r : Re) (p n : Option UInt8) : nullable p n r = true ↔ Matches r p [] n :=
  ⟨matches_of_nullable r p n, fun h => nullable_of_matches h rfl⟩

/-! ### the smart constructors mean the plain ones -/

theorem mkCat_iff (a b : Re) (p n : Option UInt8) (m : Bytes) :
    Matches (mkCat a b) p m n ↔ Matches (.cat a b) p m n := by
  have hfailL : ∀ b, (Matches Re.fail p m n ↔ Matches (.cat .fail b) p m n) := by
    intro b; rw [cat_iff]
    exact ⟨fun h => (by cases h), fun ⟨_, _, _, h, _⟩ => (by cases h)⟩
  have hfailR : ∀ a, (Matches Re.fail p m n ↔ Matches (.cat a .fail) p m n) := by
    intro a; rw [cat_iff]
    exact ⟨fun h => (by cases h), fun ⟨_, _, _, _, h⟩ => (by cases h)⟩
  have hepsL : ∀ b, (Matches b p m n ↔ Matches (.cat .eps b) p m n) := by
    intro b; rw [cat_iff]
    constructor
    · intro h; exact ⟨[], m, rfl, Matches.eps _ _, h⟩
    · rintro ⟨m1, m2, h0, h1, h2⟩
      have : m1 = [] := (eps_iff _ _ _).mp h1
      subst this; simpa [h0, lst] using h2
  cases a with
  | fail => exact hfailL b
  | eps => exact hepsL b
  | cls neg rs => cases b <;> first | exact hfailR _ | exact Iff.rfl
  | asrt x => cases b <;> first | exact hfailR _ | exact Iff.rfl
  | cat x y => cases b <;> first | exact hfailR _ | exact Iff.rfl
  | alt x y => cases b <;> first | exact hfailR _ | exact Iff.rfl
  | star x => cases b <;> first | exact hfailR _ | exact Iff.rfl

theorem altMem_matches (a b : Re) (p n : Option UInt8) (m : Bytes) (h : altMem a b = true)
    (hm : Matches a p m n) : Matches b p m n := by
  induction b with
  | alt x y ihx ihy =>
    simp only [altMem, Bool.or_eq_true] at h
    rw [alt_iff]
    rcases h with h | h
    · exact Or.inl (ihx h)
    · exact Or.inr (ihy h)
  | fail => simp only [altMem, beq_iff_eq] at h; exact h ▸ hm
  | eps => simp only [altMem, beq_iff_eq] at h; exact h ▸ hm
  | cls neg rs => simp only [altMem, beq_iff_eq] at h; exact h ▸ hm
  | asrt x => simp only [altMem, beq_iff_eq] at h; exact h ▸ hm
  | cat x y _ _ => simp only [altMem, beq_iff_eq] at h; exact h ▸ hm
  | star x _ => simp only [altMem, beq_iff_eq] at h; exact h ▸ hm

theorem mkAlt_dedupe (a b : Re) (p n : Option UInt8) (m : Bytes) :
    Matches (if altMem a b then b else .alt a b) p m n ↔ Matches (.alt a b) p m n := by
  split
  · rename_i h
    rw [alt_iff]
    exact ⟨Or.inr, fun h' => h'.elim (altMem_matches a b p n m h) id⟩
  · exact Iff.rfl

theorem mkAlt_iff (a b : Re) (p n : Option UInt8) (m : Bytes) :
    Matches (mkAlt a b) p m n ↔ Matches (.alt a b) p m n := by
  have hD := mkAlt_dedupe a b p n m
  have hL : ∀ b, (Matches b p m n ↔ Matches (.alt .fail b) p m n) := by
    intro b; rw [alt_iff, fail_iff]; simp
  have hR : ∀ a, (Matches a p m n ↔ Matches (.alt a .fail) p m n) := by
    intro a; rw [alt_iff, fail_iff]; simp
  cases a with
  | fail => exact hL b
  | eps => cases b <;> first | exact hR _ | exact hD
  | cls neg rs => cases b <;> first | exact hR _ | exact hD
  | asrt x => cases b <;> first | exact hR _ | exact hD
  | cat x y => cases b <;> first | exact hR _ | exact hD
  | alt x y => cases b <;> first | exact hR _ | exact hD
  | star x => cases b <;> first | exact hR _ | exact hD

/-! ### derivatives -/

/-- a non-empty match of a star starts with a non-empty iteration -/
theorem star_cons_aux {r : Re} {p n : Option UInt8} {x : Bytes} (h : Matches r p x n) :
    ∀ a c m, r = .star a → x = c :: m →
      ∃ m1 m2, m = m1 ++ m2 ∧ Matches a p (c :: m1) (hd m2 n) ∧ Matches (.star a) (lst (some c) m1) m2 n := by
  induction h with
  | eps => intro a c m h; cases h
  | cls _ _ _ _ _ _ => intro a c m h; cases h
  | asrt _ _ _ _ => intro a c m h; cases h
  | cat _ _ _ _ _ _ _ _ _ _ => intro a c m h; cases h
  | altL _ _ _ _ _ _ _ => intro a c m h; cases h
  | altR _ _ _ _ _ _ _ => intro a c m h; cases h
  | star0 _ _ _ => intro a c m _ h; cases h
  | starS a' p m1 m2 n h1 h2 _ ih2 =>
    intro a c m hr hx
    cases hr
    cases m1 with
    | nil =>
      simp only [List.nil_append] at hx
      exact ih2 a' c m rfl hx
    | cons c' m1' =>
      simp only [List.cons_append, List.cons.injEq] at hx
      obtain ⟨rfl, rfl⟩ := hx
      exact ⟨m1', m2, rfl, h1, h2⟩

theorem deriv_iff (r : Re) (p : Option UInt8) (c : UInt8) (m : Bytes) (n : Option UInt8) :
    Matches (deriv p c r) (some c) m n ↔ Matches r p (c :: m) n := by
  induction r generalizing m n with
  | fail => simp [deriv, fail_iff]
  | eps => simp [deriv, fail_iff, eps_iff]
  | asrt a => simp [deriv, fail_iff, asrt_iff]
  | cls neg rs =>
    simp only [deriv]
    rw [cls_iff]
    by_cases hc : clsHolds neg rs c = true
    · simp only [hc, if_true, eps_iff]
      constructor
      · intro h; exact ⟨c, by rw [h], hc⟩
      · rintro ⟨c', h, _⟩; simp only [List.cons.injEq] at h; exact h.2
    · simp only [hc, Bool.false_eq_true, if_false, fail_iff, false_iff]
      rintro ⟨c', h, h'⟩
      simp only [List.cons.injEq] at h
      rw [← h.1] at h'; exact hc h'
  | alt a b iha ihb =>
    simp only [deriv]
    rw [mkAlt_iff, alt_iff, alt_iff, iha, ihb]
  | cat a b iha ihb =>
    simp only [deriv]
    rw [mkAlt_iff, alt_iff, mkCat_iff, cat_iff, cat_iff]
    constructor
    · rintro (⟨m1, m2, h0, h1, h2⟩ | h)
      · exact ⟨c :: m1, m2, by rw [h0]; rfl, (iha m1 _).mp h1, h2⟩
      · by_cases hn : nullable p (some c) a = true
        · simp only [hn, if_true] at h
          exact ⟨[], c :: m, rfl, (nullable_iff a p (some c)).mp hn, (ihb m n).mp h⟩
        · simp only [hn, Bool.false_eq_true, if_false] at h; cases h
    · rintro ⟨m1, m2, h0, h1, h2⟩
      cases m1 with
      | nil =>
        simp only [List.nil_append] at h0
        subst h0
        have hn : nullable p (some c) a = true := (nullable_iff a p (some c)).mpr h1
        right
        simp only [hn, if_true]
        exact (ihb m n).mpr h2
      | cons c' m1' =>
        simp only [List.cons_append, List.cons.injEq] at h0
        obtain ⟨rfl, rfl⟩ := h0
        left
        exact ⟨m1', m2, rfl, (iha m1' _).mpr h1, h2⟩
  | star a iha =>
    simp only [deriv]
    rw [mkCat_iff, cat_iff]
    constructor
    · rintro ⟨m1, m2, h0, h1, h2⟩
      rw [h0]
      exact Matches.starS a p (c :: m1) m2 n ((iha m1 _).mp h1) h2
    · intro h
      obtain ⟨m1, m2, h0, h1, h2⟩ := star_cons_aux h a c m rfl rfl
      exact ⟨m1, m2, h0, (iha m1 _).mpr h1, h2⟩

/-! ### prefix match and search -/

theorem prefixMatch_iff (r : Re) (p : Option UInt8) (s : Bytes) :
    prefixMatch r p s = true ↔ ∃ m post, s = m ++ post ∧ Matches r p m (hd post none) := by
  induction s generalizing r p with
  | nil =>
    simp only [prefixMatch]
    rw [nullable_iff]
    constructor
    · intro h; exact ⟨[], [], rfl, h⟩
    · rintro ⟨m, post, h0, h⟩
      have h0' := h0.symm
      rw [List.append_eq_nil_iff] at h0'
      obtain ⟨rfl, rfl⟩ := h0'
      exact h
  | cons c cs ih =>
    simp only [prefixMatch, Bool.or_eq_true]
    rw [nullable_iff, ih]
    constructor
    · rintro (h | ⟨m, post, h0, h⟩)
      · exact ⟨[], c :: cs, rfl, h⟩
      · exact ⟨c :: m, post, by rw [h0]; rfl, (deriv_iff r p c m _).mp h⟩
    · rintro ⟨m, post, h0, h⟩
      cases m with
      | nil =>
        simp only [List.nil_append] at h0
        subst h0
        exact Or.inl h
      | cons c' m' =>
        simp only [List.cons_append, List.cons.injEq] at h0
        obtain ⟨rfl, rfl⟩ := h0
        exact Or.inr ⟨m', post, rfl, (deriv_iff r p c m' _).mpr h⟩

theorem searchFrom_iff (r : Re) (p : Option UInt8) (s : Bytes) :
    searchFrom r p s = true ↔
      ∃ pre m post, s = pre ++ m ++ post ∧ Matches r (lst p pre) m (hd post none) := by
  induction s generalizing p with
  | nil =>
    simp only [searchFrom]
    rw [nullable_iff]
    constructor
    · intro h; exact ⟨[], [], [], rfl, h⟩
    · rintro ⟨pre, m, post, h0, h⟩
      have h0' := h0.symm
      simp only [List.append_eq_nil_iff] at h0'
      obtain ⟨⟨rfl, rfl⟩, rfl⟩ := h0'
      exact h
  | cons c cs ih =>
    simp only [searchFrom, Bool.or_eq_true]
    rw [prefixMatch_iff, ih]
    constructor
    · rintro (⟨m, post, h0, h⟩ | ⟨pre, m, post, h0, h⟩)
      · exact ⟨[], m, post, by simpa using h0, h⟩
      · exact ⟨c :: pre, m, post, by rw [h0]; rfl, h⟩
    · rintro ⟨pre, m, post, h0, h⟩
      cases pre with
      | nil => exact Or.inl ⟨m, post, by simpa using h0, h⟩
      | cons c' pre' =>
        simp only [List.cons_append, List.cons.injEq] at h0
        obtain ⟨rfl, h0⟩ := h0
        exact Or.inr ⟨pre', m, post, h0, h⟩

/-- **the matcher is exact**: `search` answers true iff some substring of the input is matched by
    the expression in its context (what `regexp.MatchString` means). -/
theorem search_iff (r : Re) (s : Bytes) :
    search r s = true ↔ ∃ pre m post, s = pre ++ m ++ post ∧ Matches r (lst none pre) m (hd post none) :=
  searchFrom_iff r none s

end Coraza.Regex

/-! ## literal chains and the `^literal$` shape (used by C11's exact-match fast path) -/
namespace Coraza.Regex
open Coraza

/-- a literal followed by `tail`, as the parser builds it: c₁·(c₂·(…·tail)) -/
def litThen (lit : Bytes) (tail : Re) : Re := lit.foldr (fun c r => Re.cat (.cls false [(c, c)]) r) tail

theorem clsHolds_single (c x : UInt8) : clsHolds false [(c, c)] x = true ↔ x = c := by
  simp only [clsHolds, inRanges, List.any_cons, List.any_nil, Bool.or_false, Bool.and_eq_true, decide_eq_true_eq]
  constructor
  · intro h
    have h' : (c ≤ x ∧ x ≤ c) := by simpa using h
    exact UInt8.le_antisymm h'.2 h'.1
  · intro h; subst h; simp

theorem litThen_iff (lit : Bytes) (tail : Re) (p n : Option UInt8) (m : Bytes) :
    Matches (litThen lit tail) p m n ↔ ∃ m2, m = lit ++ m2 ∧ Matches tail (lst p lit) m2 n := by
  induction lit generalizing p m with
  | nil => simp [litThen, lst]
  | cons c l ih =>
    simp only [litThen, List.foldr_cons]
    rw [cat_iff]
    constructor
    · rintro ⟨m1, m', h0, h1, h2⟩
      obtain ⟨x, hx, hc⟩ := (cls_iff _ _ _ _ _).mp h1
      have hxc : x = c := (clsHolds_single c x).mp hc
      subst hx; subst hxc
      obtain ⟨m2, h3, h4⟩ := (ih (lst p [x]) m').mp h2
      exact ⟨m2, by rw [h0, h3]; rfl, h4⟩
    · rintro ⟨m2, h0, h1⟩
      refine ⟨[c], l ++ m2, by rw [h0]; rfl, ?_, ?_⟩
      · exact Matches.cls false [(c, c)] c p _ ((clsHolds_single c c).mpr rfl)
      · exact (ih (lst p [c]) (l ++ m2)).mpr ⟨m2, rfl, h1⟩

/-- the last byte of the left context, else what was before it -/
theorem lst_cases (p : Option UInt8) (pre : Bytes) : (pre = [] ∧ lst p pre = p) ∨ ∃ c ∈ pre, lst p pre = some c := by
  induction pre generalizing p with
  | nil => left; exact ⟨rfl, rfl⟩
  | cons c cs ih =>
    right
    rcases ih (some c) with ⟨h1, h2⟩ | ⟨d, hd, h2⟩
    · exact ⟨c, by simp, by simp [lst, h1, h2]⟩
    · exact ⟨d, by simp [hd], by simpa [lst] using h2⟩

/-- `(?m)^literal$` -/
def exactRe (lit : Bytes) : Re := .cat (.asrt .bol) (litThen lit (.cat (.asrt .eol) .eps))

theorem exactRe_iff (lit : Bytes) (p n : Option UInt8) (m : Bytes) :
    Matches (exactRe lit) p m n ↔ m = lit ∧ Asrt.bol.holds p (hd m n) = true ∧ Asrt.eol.holds (lst p lit) n = true := by
  unfold exactRe
  rw [cat_iff]
  constructor
  · rintro ⟨m1, m2, h0, h1, h2⟩
    obtain ⟨hm1, hb⟩ := (asrt_iff _ _ _ _).mp h1
    subst hm1
    obtain ⟨m3, h3, h4⟩ := (litThen_iff lit _ _ _ _).mp h2
    obtain ⟨m4, m5, h5, h6, h7⟩ := (cat_iff _ _ _ _ _).mp h4
    obtain ⟨hm4, he⟩ := (asrt_iff _ _ _ _).mp h6
    have hm5 : m5 = [] := (eps_iff _ _ _).mp h7
    subst hm4; subst hm5
    simp only [List.append_nil] at h5
    subst h5
    simp only [List.append_nil, List.nil_append] at h3 h0
    subst h3; subst h0
    refine ⟨rfl, ?_, ?_⟩
    · simpa [lst] using hb
    · simpa [lst, hd] using he
  · rintro ⟨h0, hb, he⟩
    subst h0
    refine ⟨[], m, rfl, Matches.asrt _ _ _ (by simpa using hb), ?_⟩
    apply (litThen_iff m _ _ _ _).mpr
    refine ⟨[], by simp, ?_⟩
    exact Matches.cat _ _ _ [] [] _ (Matches.asrt _ _ _ (by simpa [hd, lst] using he)) (Matches.eps _ _)

end Coraza.Regex
