/-
  Well-formedness of the case-insensitive map model and the characterisation of lookups
  as filters over all entries (used by C01_selection).
-/
import Coraza.Base.UInt8
import Coraza.Model.Engine
namespace Coraza.Engine
open Coraza

/-- bucket keys are distinct and every entry sits in the bucket of its folded key -/
structure CMap.WF (m : CMap) : Prop where
  nodup : (m.buckets.map (·.1)).Nodup
  folded : ∀ b ∈ m.buckets, ∀ e ∈ b.2, lower e.key = b.1

theorem CMap.wf_empty : ({} : CMap).WF := ⟨by simp, by simp⟩

theorem updBucket_keys (bs : List (Bytes × List KV)) (fk : Bytes) (f : List KV → List KV) :
    (updBucket bs fk f).map (·.1) = if bs.any (·.1 == fk) then bs.map (·.1) else bs.map (·.1) ++ [fk] := by
  unfold updBucket
  split
  · simp only [List.map_map]
    congr 1
    funext b
    simp only [Function.comp]
    split <;> rfl
  · simp

theorem CMap.wf_upd (m : CMap) (fk : Bytes) (f : List KV → List KV) (h : m.WF)
    (hf : ∀ es, (∀ e ∈ es, lower e.key = fk) → ∀ e ∈ f es, lower e.key = fk) :
    (⟨updBucket m.buckets fk f⟩ : CMap).WF := by
  constructor
  · show ((updBucket m.buckets fk f).map (·.1)).Nodup
    rw [updBucket_keys]
    split
    · exact h.nodup
    · rename_i hany
      refine List.nodup_append.mpr ⟨h.nodup, by simp, ?_⟩
      intro a ha b hb
      simp only [List.mem_singleton] at hb
      subst hb
      intro heq
      subst heq
      apply hany
      simp only [List.any_eq_true]
      obtain ⟨x, hx, hx2⟩ := List.mem_map.mp ha
      exact ⟨x, hx, by simp [hx2]⟩
  · intro b hb e he
    show lower e.key = b.1
    have hb' : b ∈ updBucket m.buckets fk f := hb
    unfold updBucket at hb'
    split at hb'
    · obtain ⟨b0, hb0, rfl⟩ := List.mem_map.mp hb'
      by_cases hk : (b0.1 == fk) = true
      · simp only [hk, if_true] at he ⊢
        have : b0.1 = fk := by simpa using hk
        rw [this]
        exact hf b0.2 (fun e' he' => by rw [← this]; exact h.folded b0 hb0 e' he') e he
      · simp only [hk] at he ⊢
        exact h.folded b0 hb0 e he
    · rcases List.mem_append.mp hb' with hb0 | hb0
      · exact h.folded b hb0 e he
      · simp only [List.mem_singleton] at hb0
        subst hb0
        exact hf [] (by simp) e he

theorem CMap.wf_add (m : CMap) (k v : Bytes) (h : m.WF) : (m.add k v).WF := by
  unfold CMap.add
  apply CMap.wf_upd m _ _ h
  intro es hes e he
  rcases List.mem_append.mp he with h1 | h1
  · exact hes e h1
  · simp only [List.mem_singleton] at h1; subst h1; rfl

theorem asciiLower_idem (b : UInt8) : asciiLower (asciiLower b) = asciiLower b := by
  revert b; apply UInt8.forall_of_fin; decide +kernel

theorem lower_idem (k : Bytes) : lower (lower k) = lower k := by
  unfold lower
  simp only [List.map_map]
  congr 1
  funext b
  exact asciiLower_idem b

theorem CMap.wf_set1 (m : CMap) (k v : Bytes) (h : m.WF) : (m.set1 k v).WF := by
  unfold CMap.set1
  apply CMap.wf_upd m _ _ h
  intro es _ e he
  simp only [List.mem_singleton] at he; subst he; rfl

theorem CMap.wf_remove (m : CMap) (k : Bytes) (h : m.WF) : (m.remove k).WF := by
  unfold CMap.remove
  constructor
  · show ((m.buckets.filter _).map (·.1)).Nodup
    exact (List.filter_sublist.map _).nodup h.nodup
  · intro b hb e he
    exact h.folded b (List.mem_filter.mp hb).1 e he

/-- a lookup is the filter of all entries by folded key -/
theorem CMap.lookup_eq_filter (m : CMap) (fk : Bytes) (h : m.WF) :
    m.lookup fk = m.all.filter (fun e => lower e.key == fk) := by
  obtain ⟨bs⟩ := m
  unfold CMap.lookup CMap.all
  simp only
  obtain ⟨hn, hf⟩ := h
  simp only at hn hf
  induction bs with
  | nil => rfl
  | cons b bs ih =>
    have hn' : (bs.map (·.1)).Nodup := (List.nodup_cons.mp (by simpa using hn)).2
    have hnotin : b.1 ∉ bs.map (·.1) := (List.nodup_cons.mp (by simpa using hn)).1
    have hf' : ∀ b' ∈ bs, ∀ e ∈ b'.2, lower e.key = b'.1 := fun b' hb' => hf b' (by simp [hb'])
    have hb : ∀ e ∈ b.2, lower e.key = b.1 := hf b (by simp)
    simp only [List.find?_cons, List.flatMap_cons, List.filter_append]
    by_cases hk : (b.1 == fk) = true
    · have hke : b.1 = fk := by simpa using hk
      simp only [hk]
      have e1 : b.2.filter (fun e => lower e.key == fk) = b.2 := by
        apply List.filter_eq_self.mpr
        intro e he; simp [hb e he, hke]
      have e2 : (bs.flatMap (·.2)).filter (fun e => lower e.key == fk) = [] := by
        apply List.filter_eq_nil_iff.mpr
        intro e he
        obtain ⟨b', hb', he'⟩ := List.mem_flatMap.mp he
        have : lower e.key = b'.1 := hf' b' hb' e he'
        simp only [this, beq_iff_eq]
        intro heq
        apply hnotin
        rw [hke, ← heq]
        exact List.mem_map.mpr ⟨b', hb', rfl⟩
      rw [e1, e2]; simp
    · simp only [hk]
      have e1 : b.2.filter (fun e => lower e.key == fk) = [] := by
        apply List.filter_eq_nil_iff.mpr
        intro e he; simp only [hb e he]; exact hk
      rw [e1, List.nil_append]
      exact ih hn' hf'

theorem bucketFilter_aux (p : Bytes → Bool) (bs : List (Bytes × List KV))
    (hf : ∀ b ∈ bs, ∀ e ∈ b.2, lower e.key = b.1) :
    (bs.filter fun b => p b.1).flatMap (·.2) = (bs.flatMap (·.2)).filter (fun e => p (lower e.key)) := by
  induction bs with
  | nil => rfl
  | cons b bs ih =>
    have hb : ∀ e ∈ b.2, lower e.key = b.1 := hf b (by simp)
    have hf' : ∀ b' ∈ bs, ∀ e ∈ b'.2, lower e.key = b'.1 := fun b' hb' => hf b' (by simp [hb'])
    simp only [List.filter_cons, List.flatMap_cons, List.filter_append]
    by_cases hk : p b.1 = true
    · have e1 : b.2.filter (fun e => p (lower e.key)) = b.2 := by
        apply List.filter_eq_self.mpr
        intro e he; rw [hb e he]; exact hk
      simp only [hk, if_true, List.flatMap_cons]
      rw [e1, ih hf']
    · have e1 : b.2.filter (fun e => p (lower e.key)) = [] := by
        apply List.filter_eq_nil_iff.mpr
        intro e he; rw [hb e he]; exact hk
      simp only [hk, Bool.false_eq_true, if_false]
      rw [e1, ih hf', List.nil_append]

/-- the entries of the buckets whose folded key satisfies `p` are the entries whose folded key
    satisfies `p` (what Map.FindRegex computes bucket by bucket) -/
theorem CMap.bucketFilter_eq (m : CMap) (p : Bytes → Bool) (h : m.WF) :
    (m.buckets.filter fun b => p b.1).flatMap (·.2) = m.all.filter (fun e => p (lower e.key)) :=
  bucketFilter_aux p m.buckets h.folded

end Coraza.Engine
