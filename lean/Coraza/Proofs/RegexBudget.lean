import Coraza.Model.RegexBudget
namespace Coraza.Regex

theorem prefixMatchB_sound (cap : Nat) (r : Re) (prev : Option UInt8) (s : Bytes) (b : Bool)
    (h : prefixMatchB cap r prev s = some b) : prefixMatch r prev s = b := by
  induction s generalizing r prev with
  | nil => simpa [prefixMatchB, prefixMatch] using h
  | cons c cs ih =>
    simp only [prefixMatchB] at h
    simp only [prefixMatch]
    split at h
    · rename_i hn; simp at h; simp [hn, ← h]
    · rename_i hn
      split at h
      · simp at h
      · simp [hn, ih _ _ h]

/-- whenever the budgeted matcher answers, it answers what `search` answers -/
theorem searchFromB_sound (cap : Nat) (r : Re) (prev : Option UInt8) (s : Bytes) (b : Bool)
    (h : searchFromB cap r prev s = some b) : searchFrom r prev s = b := by
  induction s generalizing prev with
  | nil => simpa [searchFromB, searchFrom] using h
  | cons c cs ih =>
    simp only [searchFromB] at h
    simp only [searchFrom]
    split at h
    · simp at h
    · rename_i hp; simp at h; simp [prefixMatchB_sound _ _ _ _ _ hp, ← h]
    · rename_i hp; simp [prefixMatchB_sound _ _ _ _ _ hp, ih _ h]

theorem searchB_sound (cap : Nat) (r : Re) (s : Bytes) (b : Bool) (h : searchB cap r s = some b) : search r s = b :=
  searchFromB_sound cap r none s b h

end Coraza.Regex
