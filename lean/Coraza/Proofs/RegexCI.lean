/-
  The case-insensitive literal of the regex model (`(?i)`), for the exact-match fast path of @rx
  with `exactMatchCI` (rx.go:144): a byte matches a literal byte under (?i) iff both fold to the
  same ASCII letter.
-/
import Coraza.Proofs.Regex
namespace Coraza.Regex
open Coraza

theorem lowerNat (b : UInt8) : (asciiLower b).toNat = if 65 ≤ b.toNat ∧ b.toNat ≤ 90 then b.toNat + 32 else b.toNat := by
  have hb := b.toNat_lt
  unfold asciiLower
  simp only [UInt8.le_iff_toNat_le]
  split
  · rename_i h
    have h' : 65 ≤ b.toNat ∧ b.toNat ≤ 90 := by simpa using h
    simp only [h', and_self, if_true, UInt8.toNat_add]
    have : (32 : UInt8).toNat = 32 := rfl
    omega
  · rename_i h
    have h' : ¬ (65 ≤ b.toNat ∧ b.toNat ≤ 90) := by simpa using h
    simp [h']

theorem upperNat (b : UInt8) : (asciiUpper b).toNat = if 97 ≤ b.toNat ∧ b.toNat ≤ 122 then b.toNat - 32 else b.toNat := by
  have hb := b.toNat_lt
  unfold asciiUpper
  simp only [UInt8.le_iff_toNat_le]
  split
  · rename_i h
    have h' : 97 ≤ b.toNat ∧ b.toNat ≤ 122 := by simpa using h
    simp only [h', and_self, if_true]
    rw [UInt8.toNat_sub_of_le]
    · rfl
    · simp only [UInt8.le_iff_toNat_le]; have : (32 : UInt8).toNat = 32 := rfl; omega
  · rename_i h
    have h' : ¬ (97 ≤ b.toNat ∧ b.toNat ≤ 122) := by simpa using h
    simp [h']

theorem lower_eq_iff (c x : UInt8) :
    (asciiLower x = asciiLower c) ↔ (if isAlpha c then (x = asciiLower c ∨ x = asciiUpper c) else x = c) := by
  have hc := c.toNat_lt; have hx := x.toNat_lt
  have e1 : isAlpha c = true ↔ ((65 ≤ c.toNat ∧ c.toNat ≤ 90) ∨ (97 ≤ c.toNat ∧ c.toNat ≤ 122)) := by
    simp [isAlpha, UInt8.le_iff_toNat_le]
  simp only [← UInt8.toNat_inj, lowerNat, upperNat]
  by_cases hx1 : 65 ≤ x.toNat ∧ x.toNat ≤ 90 <;> by_cases hc1 : 65 ≤ c.toNat ∧ c.toNat ≤ 90 <;>
    by_cases hc2 : 97 ≤ c.toNat ∧ c.toNat ≤ 122 <;> by_cases h : isAlpha c = true <;>
    simp only [hx1, hc1, hc2, h, and_self, if_true, if_false, Bool.false_eq_true] <;>
    first
      | omega
      | (have := e1.mp (by assumption); omega)
      | (have := mt e1.mpr (by assumption); omega)



theorem clsHolds_pair (a b x : UInt8) : clsHolds false [(a, a), (b, b)] x = true ↔ x = a ∨ x = b := by
  have h1 := clsHolds_single a x
  have h2 := clsHolds_single b x
  simp only [clsHolds, inRanges, List.any_cons, List.any_nil, Bool.or_false, Bool.false_bne] at h1 h2 ⊢
  rw [Bool.or_eq_true, h1, h2]

/-- a single byte of a literal under `(?i)` matches exactly the bytes that fold to the same letter -/
theorem litRe_ci_iff (c : UInt8) (p n : Option UInt8) (m : Bytes) :
    Matches (litRe {i := true} c) p m n ↔ ∃ x, m = [x] ∧ asciiLower x = asciiLower c := by
  unfold litRe
  by_cases h : isAlpha c = true
  · simp only [h, Bool.and_self, if_true]
    rw [cls_iff]
    constructor
    · rintro ⟨x, hx, hc⟩
      exact ⟨x, hx, (lower_eq_iff c x).mpr (by simp only [h, if_true]; exact (clsHolds_pair _ _ _).mp hc)⟩
    · rintro ⟨x, hx, hc⟩
      have := (lower_eq_iff c x).mp hc
      simp only [h, if_true] at this
      exact ⟨x, hx, (clsHolds_pair _ _ _).mpr this⟩
  · simp only [h, Bool.and_false, Bool.false_eq_true, if_false]
    rw [cls_iff]
    constructor
    · rintro ⟨x, hx, hc⟩
      have : x = c := (clsHolds_single c x).mp hc
      exact ⟨x, hx, by rw [this]⟩
    · rintro ⟨x, hx, hc⟩
      have := (lower_eq_iff c x).mp hc
      simp only [h, Bool.false_eq_true, if_false] at this
      exact ⟨x, hx, (clsHolds_single c x).mpr this⟩

/-- a literal under `(?i)` followed by `tail` -/
def litThenCI (lit : Bytes) (tail : Re) : Re := lit.foldr (fun c r => Re.cat (litRe {i := true} c) r) tail

theorem litThenCI_iff (lit : Bytes) (tail : Re) (p n : Option UInt8) (m : Bytes) :
    Matches (litThenCI lit tail) p m n ↔
      ∃ m1 m2, m = m1 ++ m2 ∧ m1.map asciiLower = lit.map asciiLower ∧ Matches tail (lst p m1) m2 n := by
  induction lit generalizing p m with
  | nil =>
    simp only [litThenCI, List.foldr_nil, List.map_nil, List.map_eq_nil_iff]
    constructor
    · intro h; exact ⟨[], m, rfl, rfl, by simpa [lst] using h⟩
    · rintro ⟨m1, m2, h0, h1, h2⟩; subst h1; simpa [lst, h0] using h2
  | cons c l ih =>
    simp only [litThenCI, List.foldr_cons]
    rw [cat_iff]
    constructor
    · rintro ⟨ma, m', h0, h1, h2⟩
      obtain ⟨x, hx, hc⟩ := (litRe_ci_iff c _ _ _).mp h1
      subst hx
      obtain ⟨m1, m2, h3, h4, h5⟩ := (ih (lst p [x]) m').mp h2
      refine ⟨x :: m1, m2, by rw [h0, h3]; rfl, by simp [hc, h4], ?_⟩
      simpa [lst] using h5
    · rintro ⟨m1, m2, h0, h1, h2⟩
      cases m1 with
      | nil => simp at h1
      | cons x m1' =>
        simp only [List.map_cons, List.cons.injEq] at h1
        refine ⟨[x], m1' ++ m2, by rw [h0]; rfl, (litRe_ci_iff c _ _ _).mpr ⟨x, rfl, h1.1⟩, ?_⟩
        exact (ih (lst p [x]) (m1' ++ m2)).mpr ⟨m1', m2, rfl, h1.2, by simpa [lst] using h2⟩

/-- `(?m)^(?i:literal)$` -/
def exactReCI (lit : Bytes) : Re := .cat (.asrt .bol) (litThenCI lit (.cat (.asrt .eol) .eps))

theorem exactReCI_iff (lit : Bytes) (p n : Option UInt8) (m : Bytes) :
    Matches (exactReCI lit) p m n ↔
      m.map asciiLower = lit.map asciiLower ∧ Asrt.bol.holds p (hd m n) = true ∧ Asrt.eol.holds (lst p m) n = true := by
  unfold exactReCI
  rw [cat_iff]
  constructor
  · rintro ⟨m1, m2, h0, h1, h2⟩
    obtain ⟨hm1, hb⟩ := (asrt_iff _ _ _ _).mp h1
    subst hm1
    obtain ⟨ma, mb, h3, h3', h4⟩ := (litThenCI_iff lit _ _ _ _).mp h2
    obtain ⟨m4, m5, h5, h6, h7⟩ := (cat_iff _ _ _ _ _).mp h4
    obtain ⟨hm4, he⟩ := (asrt_iff _ _ _ _).mp h6
    have hm5 : m5 = [] := (eps_iff _ _ _).mp h7
    subst hm4; subst hm5
    simp only [List.append_nil] at h5
    subst h5
    simp only [List.append_nil, List.nil_append] at h3 h0
    subst h3; subst h0
    refine ⟨h3', ?_, ?_⟩
    · simpa [lst] using hb
    · simpa [lst, hd] using he
  · rintro ⟨h0, hb, he⟩
    refine ⟨[], m, rfl, Matches.asrt _ _ _ (by simpa using hb), ?_⟩
    apply (litThenCI_iff lit _ _ _ _).mpr
    refine ⟨m, [], by simp, h0, ?_⟩
    exact Matches.cat _ _ _ [] [] _ (Matches.asrt _ _ _ (by simpa [hd, lst] using he)) (Matches.eps _ _)


end Coraza.Regex
