/-
  Soundness of the @rx prefilter analysis with respect to the match relation of Spec/Rx.lean.
-/
import Coraza.Spec.Rx
import Coraza.Base.UInt8
namespace Coraza.Rx
open Coraza

/-! ## slices and encodings -/

theorem slice_length (s : Bytes) (i j : Nat) (h : j ≤ s.length) : (slice s i j).length = j - i := by
  unfold slice; simp; omega

theorem encodeRune_length (r : Nat) : (encodeRune r).length = runeLen r := by
  unfold encodeRune runeLen
  split
  · rfl
  · split
    · rfl
    · split <;> rfl

theorem runeLen_pos (r : Nat) : 1 ≤ runeLen r := by
  unfold runeLen; split <;> (try split) <;> (try split) <;> omega

/-! ## minimum length -/

theorem RuneM_len {f : Bool} {r : Nat} {s : Bytes} {i k : Nat} (h : RuneM f r s i k) :
    i + (if r == runeError then 1 else runeLen r) ≤ k ∧ k ≤ s.length := by
  obtain ⟨h1, h2, h3⟩ := h
  refine ⟨?_, h2⟩
  by_cases hr : r = runeError
  · simp [hr]; omega
  · have hb : (r == runeError) = false := by simpa using hr
    simp only [hb, Bool.false_eq_true, if_false]
    simp only [hr, if_false] at h3
    by_cases hf : f = true
    · simp only [hf, if_true] at h3
      obtain ⟨r', hfo, hs⟩ := h3
      have hl := slice_length s i k h2
      rw [hs, encodeRune_length] at hl
      have := hfo.2
      omega
    · simp only [hf, Bool.false_eq_true, if_false] at h3
      have hl := slice_length s i k h2
      rw [h3, encodeRune_length] at hl
      omega

theorem LitM_len {f : Bool} {rs : List Nat} {s : Bytes} {i j : Nat} (h : LitM f rs s i j) :
    i + litMinLen rs ≤ j ∧ j ≤ s.length := by
  induction h with
  | nil s i hi => exact ⟨by simp [litMinLen], hi⟩
  | cons r rs s i k j hr _ ih =>
    have := RuneM_len hr
    simp only [litMinLen]
    omega

theorem minLenMin_le (rs : List Re) (m : Nat) : minLenMin rs m ≤ m := by
  induction rs generalizing m with
  | nil => simp [minLenMin]
  | cons r rs ih =>
    simp only [minLenMin]
    split
    · exact Nat.le_trans (ih _) (by omega)
    · exact ih _

mutual
theorem M_len : ∀ {re : Re} {s : Bytes} {i j : Nat}, M re s i j → i + minLen re ≤ j ∧ j ≤ s.length
  | _, _, _, _, .lit f rs s i j h => by simpa [minLen] using LitM_len h
  | _, _, _, _, .cc f rg s i j h1 h2 => by simp [minLen]; omega
  | _, _, _, _, .anynl f s i j h1 h2 => by simp [minLen]; omega
  | _, _, _, _, .any f s i j h1 h2 => by simp [minLen]; omega
  | _, _, _, _, .empty f s i h => by simp [minLen]; omega
  | _, _, _, _, .bol f s i h => by simp [minLen]; omega
  | _, _, _, _, .eol f s i h => by simp [minLen]; omega
  | _, _, _, _, .wb f s i h => by simp [minLen]; omega
  | _, _, _, _, .nwb f s i h => by simp [minLen]; omega
  | _, _, _, _, .bot f s => by simp [minLen]
  | _, _, _, _, .eot f s => by simp [minLen]
  | _, _, _, _, .cap f r s i j h => by simpa [minLen] using M_len h
  | _, _, _, _, .star0 f r s i h => by simp [minLen]; omega
  | _, _, _, _, .starS f r s i k j h1 h2 => by
      have a := M_len h1
      have b := M_len h2
      simp only [minLen] at b ⊢
      omega
  | _, _, _, _, .plus f r s i k j h1 h2 => by
      have a := M_len h1
      have b := M_len h2
      simp only [minLen] at b ⊢
      omega
  | _, _, _, _, .quest0 f r s i h => by simp [minLen]; omega
  | _, _, _, _, .quest1 f r s i j h => by
      have a := M_len h
      simp only [minLen]; omega
  | _, _, _, _, .rep0 f mx r s i j h => by
      have a := M_len h
      simp only [minLen] at a ⊢
      simpa using a
  | _, _, _, _, .repS f mn mx r s i k j h1 h2 => by
      have a := M_len h1
      have b := M_len h2
      simp only [minLen] at b ⊢
      have hne : (mn + 1 == 0) = false := by simp
      simp only [hne, Bool.false_eq_true, if_false]
      rw [Nat.succ_mul]
      by_cases hz : mn = 0
      · subst hz; simp at b ⊢; omega
      · have : (mn == 0) = false := by simpa using hz
        simp only [this, Bool.false_eq_true, if_false] at b
        omega
  | _, _, _, _, .cat f rs s i j h => by simpa [minLen] using MCat_len h
  | _, _, _, _, .alt f rs s i j h => by
      have key := MAlt_len h
      cases rs with
      | nil => exact absurd h (by intro h'; cases h')
      | cons r rest =>
        have := key (minLen r) (by intro r' rest' e; cases e; exact Nat.le_refl _)
        simpa [minLen] using this
theorem MCat_len : ∀ {rs : List Re} {s : Bytes} {i j : Nat}, MCat rs s i j → i + minLenSum rs ≤ j ∧ j ≤ s.length
  | _, _, _, _, .nil s i h => by simp [minLenSum]; omega
  | _, _, _, _, .cons r rs s i k j h1 h2 => by
      have a := M_len h1
      have b := MCat_len h2
      simp only [minLenSum]; omega
/-- for an alternation whose running minimum `m` is at most the length of the first branch -/
theorem MAlt_len : ∀ {rs : List Re} {s : Bytes} {i j : Nat}, MAlt rs s i j →
    ∀ m, (∀ r rest, rs = r :: rest → m ≤ minLen r) → i + minLenMin rs.tail m ≤ j ∧ j ≤ s.length
  | _, _, _, _, .here r rs s i j h => by
      intro m hm
      have a := M_len h
      have := hm r rs rfl
      have := minLenMin_le rs m
      simp only [List.tail_cons]; omega
  | _, _, _, _, .there r rs s i j h => by
      intro m hm
      have key := MAlt_len h
      cases rs with
      | nil => exact absurd h (by intro h'; cases h')
      | cons r2 rest =>
        simp only [List.tail_cons, minLenMin]
        have := key (if minLen r2 < m then minLen r2 else m) (by
          intro r' rest' e
          simp only [List.cons.injEq] at e
          obtain ⟨e1, _⟩ := e
          subst e1
          split <;> omega)
        simpa using this
end

/-- C11_minLen_sound: whatever the pattern matches is at least `minLen` bytes long, so an input
    shorter than that cannot match -/
theorem minLen_sound (re : Re) (s : Bytes) (h : Found re s) : minLen re ≤ s.length := by
  obtain ⟨i, j, hm⟩ := h
  have := M_len hm
  omega

end Coraza.Rx

namespace Coraza.Rx
open Coraza

/-! ## slices -/

theorem slice_append (s : Bytes) (i k j : Nat) (h1 : i ≤ k) (h2 : k ≤ j) :
    slice s i j = slice s i k ++ slice s k j := by
  unfold slice
  have e1 : j - i = (k - i) + (j - k) := by omega
  have e2 : List.drop k s = List.drop (k - i) (List.drop i s) := by
    rw [List.drop_drop]; congr 1; omega
  rw [e1, e2, List.take_add]

theorem slice_self (s : Bytes) (i : Nat) : slice s i i = [] := by simp [slice]

theorem isAscii_slice (s : Bytes) (i j : Nat) (h : isAsciiBytes s = true) : isAsciiBytes (slice s i j) = true := by
  unfold isAsciiBytes slice at *
  rw [List.all_eq_true] at *
  intro x hx
  exact h x (List.mem_of_mem_drop (List.mem_of_mem_take hx))

/-! ## equalFold -/

theorem equalFold_append (a1 a2 b1 b2 : Bytes) (h : a1.length = b1.length) :
    equalFold (a1 ++ a2) (b1 ++ b2) = (equalFold a1 b1 && equalFold a2 b2) := by
  induction a1 generalizing b1 with
  | nil =>
    cases b1 with
    | nil => simp [equalFold]
    | cons _ _ => simp at h
  | cons x a1 ih =>
    cases b1 with
    | nil => simp at h
    | cons y b1 =>
      simp only [List.length_cons, Nat.add_right_cancel_iff] at h
      simp only [List.cons_append, equalFold, ih b1 h, Bool.and_assoc]

theorem equalFold_length {a b : Bytes} (h : equalFold a b = true) : a.length = b.length := by
  induction a generalizing b with
  | nil => cases b with
    | nil => rfl
    | cons _ _ => simp [equalFold] at h
  | cons x a ih => cases b with
    | nil => simp [equalFold] at h
    | cons y b =>
      simp only [equalFold, Bool.and_eq_true] at h
      simp [ih h.2]

/-! ## one rune of a literal -/

theorem toUInt8_toNat (n : Nat) (h : n < 256) : (n.toUInt8).toNat = n := by
  simp [Nat.toUInt8, Nat.mod_eq_of_lt h]

theorem contByte_not_ascii (x : Nat) : ¬ ((0x80 + x % 64).toUInt8 < 128) := by
  rw [UInt8.lt_iff_toNat_lt, toUInt8_toNat _ (by omega)]
  simp

/-- only ASCII runes have an all-ASCII encoding (every longer encoding ends in a continuation byte) -/
theorem encodeRune_ascii (r : Nat) (h : isAsciiBytes (encodeRune r) = true) : r < 128 := by
  unfold encodeRune isAsciiBytes at h
  by_cases h1 : r < 0x80
  · exact h1
  · exfalso
    simp only [h1, if_false] at h
    by_cases h2 : r < 0x800
    · simp only [h2, if_true, List.all_cons, Bool.and_eq_true, decide_eq_true_eq] at h
      exact contByte_not_ascii r h.2.1
    · simp only [h2, if_false] at h
      by_cases h3 : r < 0x10000
      · simp only [h3, if_true, List.all_cons, Bool.and_eq_true, decide_eq_true_eq] at h
        exact contByte_not_ascii r h.2.2.1
      · simp only [h3, if_false, List.all_cons, Bool.and_eq_true, decide_eq_true_eq] at h
        exact contByte_not_ascii r h.2.2.2.1

theorem encodeRune_of_ascii (r : Nat) (h : r < 128) : encodeRune r = [r.toUInt8] := by
  simp [encodeRune, h]

/-- ASCII lower-casing of a rune and of its byte agree -/
theorem lower_ascii (r : Nat) (h : r < 128) :
    (if 0x41 ≤ r && r ≤ 0x5a then r + 32 else r).toUInt8 = asciiLower r.toUInt8 := by
  revert r
  decide

theorem toLowerRune_ascii (r : Nat) (h : r < 128) :
    toLowerRune r = some (if 0x41 ≤ r && r ≤ 0x5a then r + 32 else r) := by
  simp [toLowerRune, h]

theorem toLower_lt (r : Nat) (h : r < 128) : (if 0x41 ≤ r && r ≤ 0x5a then r + 32 else r) < 128 := by
  split <;> simp_all <;> omega

end Coraza.Rx

namespace Coraza.Rx
open Coraza

/-- equality of an input slice with a needle: exact, or ASCII-case-insensitive (needle lower case) -/
def EqCI (ci : Bool) (a l : Bytes) : Prop := if ci then equalFold a l = true else a = l

theorem EqCI_append (ci : Bool) (a1 a2 l1 l2 : Bytes) (hl : a1.length = l1.length)
    (h1 : EqCI ci a1 l1) (h2 : EqCI ci a2 l2) : EqCI ci (a1 ++ a2) (l1 ++ l2) := by
  unfold EqCI at *
  cases ci with
  | false => simp at *; rw [h1, h2]
  | true => simp at *; rw [equalFold_append _ _ _ _ hl, h1, h2]; rfl

theorem EqCI_length {ci : Bool} {a l : Bytes} (h : EqCI ci a l) : a.length = l.length := by
  unfold EqCI at h
  cases ci with
  | false => simp at h; rw [h]
  | true => simp at h; exact equalFold_length h

/-- the rune the needle holds for rune r of the literal -/
def needleRune (ci : Bool) (r : Nat) : Option Nat := if ci then toLowerRune r else some r

theorem RuneM_exact {f ci : Bool} {r r2 : Nat} {s : Bytes} {i k : Nat}
    (h : RuneM f r s i k) (hr : r ≠ runeError) (hf : f = true → ci = true)
    (hasc : ci = true → isAsciiBytes s = true) (hn : needleRune ci r = some r2) :
    k = i + (encodeRune r2).length ∧ EqCI ci (slice s i k) (encodeRune r2) := by
  obtain ⟨h1, h2, h3⟩ := h
  simp only [hr, if_false] at h3
  have hlen := slice_length s i k h2
  cases hci : ci with
  | false =>
    have hff : f = false := by
      cases f with
      | false => rfl
      | true => have := hf rfl; rw [hci] at this; cases this
    simp only [hff, Bool.false_eq_true, if_false] at h3
    simp only [needleRune, hci, Bool.false_eq_true, if_false, Option.some.injEq] at hn
    subst hn
    refine ⟨?_, by simp [EqCI, h3]⟩
    rw [h3] at hlen; omega
  | true =>
    have hs := hasc hci
    have hsl := isAscii_slice s i k hs
    simp only [needleRune, hci, if_true] at hn
    cases hfv : f with
    | false =>
      simp only [hfv, Bool.false_eq_true, if_false] at h3
      rw [h3] at hsl hlen
      have hr128 := encodeRune_ascii r hsl
      rw [toLowerRune_ascii r hr128, Option.some.injEq] at hn
      subst hn
      have hlt := toLower_lt r hr128
      rw [encodeRune_of_ascii _ hlt, lower_ascii r hr128]
      rw [encodeRune_of_ascii r hr128] at hlen h3
      refine ⟨by simp at hlen ⊢; omega, ?_⟩
      simp [EqCI, h3, equalFold]
    | true =>
      simp only [hfv, if_true] at h3
      obtain ⟨r', hfo, hs'⟩ := h3
      rw [hs'] at hsl hlen
      have hr' := encodeRune_ascii r' hsl
      obtain ⟨hr128, hlow⟩ := hfo.1 hr'
      rw [toLowerRune_ascii r hr128, Option.some.injEq] at hn
      subst hn
      have hlt := toLower_lt r hr128
      rw [encodeRune_of_ascii _ hlt, lower_ascii r hr128]
      rw [encodeRune_of_ascii r' hr'] at hlen hs'
      refine ⟨by simp at hlen ⊢; omega, ?_⟩
      simp [EqCI, hs', equalFold, hlow]

theorem LitM_exact {f ci : Bool} {rs ls : List Nat} {s : Bytes} {i j : Nat}
    (h : LitM f rs s i j) (hr : ∀ r ∈ rs, r ≠ runeError) (hf : f = true → ci = true)
    (hasc : ci = true → isAsciiBytes s = true) (hn : rs.mapM (needleRune ci) = some ls) :
    j = i + (encodeRunes ls).length ∧ EqCI ci (slice s i j) (encodeRunes ls) := by
  induction h generalizing ls with
  | nil s i hi =>
    simp at hn; subst hn
    simp [encodeRunes, slice_self, EqCI]
    cases ci <;> simp [equalFold]
  | cons r rs s i k j hrm hl ih =>
    simp only [List.mapM_cons] at hn
    cases h1 : needleRune ci r with
    | none => simp [h1] at hn
    | some r2 =>
      cases h2 : rs.mapM (needleRune ci) with
      | none => simp [h1, h2] at hn
      | some ls2 =>
        simp [h1, h2] at hn
        subst hn
        have a := RuneM_exact hrm (hr r (by simp)) hf hasc h1
        have b := ih (fun x hx => hr x (by simp [hx])) hasc h2
        have hbnd := LitM_len hl
        have hbnd2 := RuneM_len hrm
        simp only [encodeRunes, List.flatMap_cons, List.length_append] at *
        refine ⟨by omega, ?_⟩
        rw [slice_append s i k j (by omega) (by omega)]
        exact EqCI_append ci _ _ _ _ (EqCI_length a.2) a.2 b.2

theorem mapM_some (rs : List Nat) : rs.mapM (some : Nat → Option Nat) = some rs := by
  induction rs with
  | nil => rfl
  | cons x xs ih => simp [List.mapM_cons, ih]

theorem litString_needle {rs : List Nat} {ci : Bool} {l : Bytes} (h : litString rs ci = .some l) :
    (∀ r ∈ rs, r ≠ runeError) ∧ ∃ ls, rs.mapM (needleRune ci) = some ls ∧ l = encodeRunes ls := by
  unfold litString at h
  by_cases he : rs.any (· == runeError) = true
  · simp [he] at h
  · simp only [he, Bool.false_eq_true, if_false] at h
    have hne : ∀ r ∈ rs, r ≠ runeError := by
      intro r hr e
      apply he
      rw [List.any_eq_true]
      exact ⟨r, hr, by simp [e]⟩
    refine ⟨hne, ?_⟩
    cases ci with
    | true =>
      simp only [if_true] at h
      cases hm : rs.mapM toLowerRune with
      | none => simp [hm] at h
      | some ls =>
        simp only [hm, R.some.injEq] at h
        refine ⟨ls, ?_, h.symm⟩
        have : needleRune true = toLowerRune := by funext r; simp [needleRune]
        rw [this]; exact hm
    | false =>
      simp only [Bool.false_eq_true, if_false, R.some.injEq] at h
      refine ⟨rs, ?_, h.symm⟩
      have : needleRune false = some := by funext r; simp [needleRune]
      rw [this]
      exact mapM_some rs

/-- a literal node matches exactly its needle (lower-cased and compared ASCII-case-insensitively
    under ci, for ASCII input) -/
theorem lit_exact {f ci : Bool} {rs : List Nat} {s l : Bytes} {i j : Nat}
    (h : M (.lit f rs) s i j) (hf : f = true → ci = true) (hasc : ci = true → isAsciiBytes s = true)
    (hl : litString rs ci = .some l) : j = i + l.length ∧ EqCI ci (slice s i j) l := by
  cases h with
  | lit _ _ _ _ _ hm =>
    obtain ⟨hne, ls, hmap, rfl⟩ := litString_needle hl
    exact LitM_exact hm hne hf hasc hmap

end Coraza.Rx

namespace Coraza.Rx
open Coraza

/-! ## required literals -/

/-- the needle occurs (exactly, or ASCII-case-insensitively) inside s[a, b) -/
def Occ (ci : Bool) (l s : Bytes) (a b : Nat) : Prop :=
  ∃ p, a ≤ p ∧ p + l.length ≤ b ∧ EqCI ci (slice s p (p + l.length)) l

/-- the needle occurs at the very start of s[a, b) -/
def StartsAt (ci : Bool) (l s : Bytes) (a b : Nat) : Prop :=
  a + l.length ≤ b ∧ EqCI ci (slice s a (a + l.length)) l

theorem Occ.mono {ci : Bool} {l s : Bytes} {a b a' b' : Nat} (h : Occ ci l s a b) (ha : a' ≤ a) (hb : b ≤ b') :
    Occ ci l s a' b' := by
  obtain ⟨p, h1, h2, h3⟩ := h
  exact ⟨p, by omega, by omega, h3⟩

theorem StartsAt.occ {ci : Bool} {l s : Bytes} {a b : Nat} (h : StartsAt ci l s a b) : Occ ci l s a b :=
  ⟨a, Nat.le_refl _, h.1, h.2⟩

theorem StartsAt.mono {ci : Bool} {l s : Bytes} {a b b' : Nat} (h : StartsAt ci l s a b) (hb : b ≤ b') :
    StartsAt ci l s a b' := ⟨by have := h.1; omega, h.2⟩

theorem EqCI_nil (ci : Bool) : EqCI ci [] [] := by cases ci <;> simp [EqCI, equalFold]

theorem Occ_nil (ci : Bool) (s : Bytes) (a b : Nat) (h : a ≤ b) : Occ ci [] s a b :=
  ⟨a, Nat.le_refl _, by simpa using h, by simp [slice_self, EqCI_nil]⟩

def Holds (ci : Bool) : Lits → Bytes → Nat → Nat → Prop
  | .all ls, s, a, b => ∀ l ∈ ls, Occ ci l s a b
  | .any ls, s, a, b => ∃ l ∈ ls, Occ ci l s a b
  | .combined al an, s, a, b => (∀ l ∈ al, Occ ci l s a b) ∧ (∃ l ∈ an, Occ ci l s a b)

def AccInv (ci : Bool) (acc : CatAcc) (s : Bytes) (a b : Nat) : Prop :=
  (∀ l ∈ acc.all, Occ ci l s a b) ∧ (∀ v, acc.bestAny = some v → ∃ l ∈ v, Occ ci l s a b)

theorem AccInv.mono {ci : Bool} {acc : CatAcc} {s : Bytes} {a b b' : Nat} (h : AccInv ci acc s a b) (hb : b ≤ b') :
    AccInv ci acc s a b' :=
  ⟨fun l hl => (h.1 l hl).mono (Nat.le_refl _) hb,
   fun v hv => let ⟨l, hl, ho⟩ := h.2 v hv; ⟨l, hl, ho.mono (Nat.le_refl _) hb⟩⟩

theorem longest_mem (v : List Bytes) (h : v ≠ []) : longest v ∈ v := by
  cases v with
  | nil => exact absurd rfl h
  | cons x xs =>
    simp only [longest]
    suffices ∀ (ys : List Bytes) (b : Bytes), b ∈ x :: xs → (∀ y ∈ ys, y ∈ x :: xs) →
        ys.foldl (fun best y => if y.length > best.length then y else best) b ∈ x :: xs from
      this xs x (by simp) (fun y hy => by simp [hy])
    intro ys
    induction ys with
    | nil => intro b hb _; simpa using hb
    | cons y ys ih =>
      intro b hb hys
      simp only [List.foldl_cons]
      apply ih
      · split
        · exact hys y (by simp)
        · exact hb
      · intro z hz; exact hys z (by simp [hz])

/-- the prefix literal followed by what the rest begins with occurs at the start -/
theorem glue {ci : Bool} {pfx suf s : Bytes} {i k j : Nat} (hk : k = i + pfx.length)
    (h1 : EqCI ci (slice s i k) pfx) (h2 : StartsAt ci suf s k j) : StartsAt ci (pfx ++ suf) s i j := by
  obtain ⟨h2a, h2b⟩ := h2
  refine ⟨by simp; omega, ?_⟩
  have : slice s i (i + (pfx ++ suf).length) = slice s i k ++ slice s k (k + suf.length) := by
    rw [slice_append s i k _ (by omega) (by simp; omega)]
    congr 2; simp; omega
  rw [this]
  exact EqCI_append ci _ _ _ _ (EqCI_length h1) h1 h2b

theorem rawLiteral_some {p : Re} {ci : Bool} {pfx : Bytes} (h : rawLiteral p ci = .some pfx) :
    ∃ f rs, p = .lit f rs ∧ litString rs ci = .some pfx := by
  cases p <;> simp [rawLiteral] at h
  rename_i f rs
  refine ⟨f, rs, rfl, ?_⟩
  cases hl : litString rs ci with
  | some s' =>
    simp only [hl] at h
    split at h
    · cases h
    · simp only [R.some.injEq] at h; rw [h]
  | nil => simp [hl] at h
  | unm => simp [hl] at h

theorem sufFirst_widen {ci : Bool} {a : Re} {s : Bytes} {i k j : Nat} {ls : List Bytes}
    (hrec : ∀ fs, rawSuffixes ci a = .some fs → ∃ l ∈ fs, StartsAt ci l s i k) (hkj : k ≤ j)
    (hsf : sufFirst (rawSuffixes ci a) = .some ls) : ∃ l ∈ ls, StartsAt ci l s i j := by
  unfold sufFirst at hsf
  cases hfs : rawSuffixes ci a with
  | unm => simp [hfs] at hsf
  | nil => simp [hfs] at hsf
  | some fs =>
    simp only [hfs] at hsf
    split at hsf
    · cases hsf
    · simp only [R.some.injEq] at hsf
      subst hsf
      obtain ⟨l0, hl0, hst0⟩ := hrec fs hfs
      exact ⟨l0, hl0, hst0.mono hkj⟩

theorem hasFold_lit (f : Bool) (rs : List Nat) : hasFold (.lit f rs) = f := by simp [hasFold]

mutual
theorem extract_sound : ∀ (re : Re) {ci : Bool} {s : Bytes} {i j : Nat} {lits : Lits},
    (hasFold re = true → ci = true) → (ci = true → isAsciiBytes s = true) → M re s i j →
    extract ci re = .some lits → Holds ci lits s i j
  | .lit f rs, ci, s, i, j, lits, hfc, hasc, hm, he => by
      simp only [extract] at he
      cases hl : litString rs ci with
      | some l =>
        simp only [hl] at he
        split at he
        · cases he
        · simp only [R.some.injEq] at he
          subst he
          have := lit_exact hm (by simpa [hasFold] using hfc) hasc hl
          intro x hx
          simp only [List.mem_singleton] at hx
          subst hx
          exact ⟨i, Nat.le_refl _, by omega, by rw [← this.1]; exact this.2⟩
      | nil => simp [hl] at he
      | unm => simp [hl] at he
  | .cap f r, ci, s, i, j, lits, hfc, hasc, hm, he => by
      simp only [extract] at he
      cases hm with
      | cap _ _ _ _ _ h => exact extract_sound r (fun h' => hfc (by simp [hasFold, h'])) hasc h he
  | .plus f r, ci, s, i, j, lits, hfc, hasc, hm, he => by
      simp only [extract] at he
      cases hm with
      | plus _ _ _ _ k _ h1 h2 =>
        have a := extract_sound r (fun h' => hfc (by simp [hasFold, h'])) hasc h1 he
        have hb := (M_len h2).1
        cases lits with
        | all ls => exact fun l hl => (a l hl).mono (Nat.le_refl _) (by omega)
        | any ls => obtain ⟨l, hl, ho⟩ := a; exact ⟨l, hl, ho.mono (Nat.le_refl _) (by omega)⟩
        | combined al an =>
          obtain ⟨a1, l, hl, ho⟩ := a
          exact ⟨fun l hl => (a1 l hl).mono (Nat.le_refl _) (by omega), l, hl, ho.mono (Nat.le_refl _) (by omega)⟩
  | .rep f mn mx r, ci, s, i, j, lits, hfc, hasc, hm, he => by
      simp only [extract] at he
      split at he
      · cases hm with
        | rep0 _ _ _ _ _ _ h => simp at *
        | repS _ mn' _ _ _ _ k _ h1 h2 =>
          have a := extract_sound r (fun h' => hfc (by simp [hasFold, h'])) hasc h1 he
          have hb := (M_len h2).1
          cases lits with
          | all ls => exact fun l hl => (a l hl).mono (Nat.le_refl _) (by omega)
          | any ls => obtain ⟨l, hl, ho⟩ := a; exact ⟨l, hl, ho.mono (Nat.le_refl _) (by omega)⟩
          | combined al an =>
            obtain ⟨a1, l, hl, ho⟩ := a
            exact ⟨fun l hl => (a1 l hl).mono (Nat.le_refl _) (by omega), l, hl, ho.mono (Nat.le_refl _) (by omega)⟩
      · cases he
  | .alt f rs, ci, s, i, j, lits, hfc, hasc, hm, he => by
      simp only [extract] at he
      cases hm with
      | alt _ _ _ _ _ h =>
        cases ha : extractAlt ci rs with
        | some ls =>
          simp only [ha] at he
          split at he
          · cases he
          · simp only [R.some.injEq] at he
            subst he
            exact extractAlt_sound rs (fun h' => hfc (by simp [hasFold, h'])) hasc h ha
        | nil => simp [ha] at he
        | unm => simp [ha] at he
  | .cat f rs, ci, s, i, j, lits, hfc, hasc, hm, he => by
      rw [extract_cat] at he
      cases hm with
      | cat _ _ _ _ _ h =>
        have hfl : hasFoldList rs = true → ci = true := fun h' => hfc (by simp [hasFold, h'])
        cases hc : extractCat ci rs {} with
        | unm => simp [hc, catFinish] at he
        | nil => simp [hc, catFinish] at he
        | some acc =>
          rw [hc] at he
          have hinv0 : AccInv ci ({} : CatAcc) s i i := ⟨by intro l hl; simp at hl, by intro v hv; simp at hv⟩
          have hinv := extractCat_sound rs hfl hasc h hc i (Nat.le_refl _) hinv0
          have hij := (MCat_len h).1
          have fallback : ∀ lits', fallbackAny acc = R.some lits' → Holds ci lits' s i j := by
            intro lits' hfb
            unfold fallbackAny at hfb
            cases hb : acc.bestAny with
            | none => simp [hb] at hfb
            | some b =>
              simp only [hb, R.some.injEq] at hfb
              subst hfb
              exact hinv.2 b hb
          unfold catFinish at he
          simp only at he
          by_cases hall : acc.all.isEmpty = true
          · simp only [hall, Bool.not_true, Bool.false_eq_true, if_false] at he
            generalize htr : trieFor ci rs = tr at he
            cases tr with
            | unm => simp at he
            | nil => exact fallback _ he
            | some t =>
              simp only [R.some.injEq] at he
              subst he
              match rs, h, htr, hfl with
              | [p, rest], h, htr, hfl =>
                simp only [trieFor] at htr
                unfold trieOf at htr
                cases hp : rawLiteral p ci with
                | unm => simp [hp] at htr
                | nil => simp [hp] at htr
                | some pfx =>
                  cases hr : rawSuffixes ci rest with
                  | unm => simp [hp, hr] at htr
                  | nil => simp [hp, hr] at htr
                  | some sufs =>
                    simp only [hp, hr] at htr
                    split at htr
                    · cases htr
                    · simp only [R.some.injEq] at htr
                      subst htr
                      cases h with
                      | cons _ _ _ _ k _ h1 h2 =>
                        cases h2 with
                        | cons _ _ _ _ k2 _ h3 h4 =>
                          cases h4 with
                          | nil _ _ hle =>
                            obtain ⟨f', rs', rfl, hls⟩ := rawLiteral_some hp
                            have e1 := lit_exact h1 (fun hf' => hfl (by simp [hasFoldList, hasFold, hf'])) hasc hls
                            obtain ⟨suf, hsuf, hst⟩ := rawSuffixes_sound rest
                              (fun h' => hfl (by simp [hasFoldList, h'])) hasc h3 hr
                            exact ⟨pfx ++ suf, List.mem_map.mpr ⟨suf, hsuf, rfl⟩, (glue e1.1 e1.2 hst).occ⟩
              | [], _, htr, _ => simp [trieFor] at htr
              | [_], _, htr, _ => simp [trieFor] at htr
              | _ :: _ :: _ :: _, _, htr, _ => simp [trieFor] at htr
          · simp only [hall, Bool.not_false, if_true] at he
            cases hb : acc.bestAny with
            | none =>
              simp only [hb, R.some.injEq] at he
              subst he
              exact hinv.1
            | some b =>
              simp only [hb] at he
              split at he
              · simp only [R.some.injEq] at he; subst he
                exact ⟨hinv.1, hinv.2 b hb⟩
              · simp only [R.some.injEq] at he; subst he
                exact hinv.1
  | .nomatch _, _, _, _, _, _, _, _, _, he => by simp [extract] at he
  | .empty _, _, _, _, _, _, _, _, _, he => by simp [extract] at he
  | .cc _ _, _, _, _, _, _, _, _, _, he => by simp [extract] at he
  | .anynl _, _, _, _, _, _, _, _, _, he => by simp [extract] at he
  | .any _, _, _, _, _, _, _, _, _, he => by simp [extract] at he
  | .bol _, _, _, _, _, _, _, _, _, he => by simp [extract] at he
  | .eol _, _, _, _, _, _, _, _, _, he => by simp [extract] at he
  | .bot _, _, _, _, _, _, _, _, _, he => by simp [extract] at he
  | .eot _, _, _, _, _, _, _, _, _, he => by simp [extract] at he
  | .wb _, _, _, _, _, _, _, _, _, he => by simp [extract] at he
  | .nwb _, _, _, _, _, _, _, _, _, he => by simp [extract] at he
  | .star _ _, _, _, _, _, _, _, _, _, he => by simp [extract] at he
  | .quest _ _, _, _, _, _, _, _, _, _, he => by simp [extract] at he
theorem extractCat_sound : ∀ (rs : List Re) {ci : Bool} {s : Bytes} {i j : Nat} {acc acc' : CatAcc},
    (hasFoldList rs = true → ci = true) → (ci = true → isAsciiBytes s = true) → MCat rs s i j →
    extractCat ci rs acc = .some acc' → ∀ i0, i0 ≤ i → AccInv ci acc s i0 i → AccInv ci acc' s i0 j
  | [], ci, s, i, j, acc, acc', _, _, hm, he => by
      intro i0 _ hinv
      cases hm with
      | nil _ _ _ => simp only [extractCat, R.some.injEq] at he; subst he; exact hinv
  | r :: rs, ci, s, i, j, acc, acc', hfc, hasc, hm, he => by
      intro i0 hi0 hinv
      cases hm with
      | cons _ _ _ _ k _ h1 h2 =>
        simp only [extractCat] at he
        have hik := (M_len h1).1
        have hr : hasFold r = true → ci = true := fun h' => hfc (by simp [hasFoldList, h'])
        have hrs : hasFoldList rs = true → ci = true := fun h' => hfc (by simp [hasFoldList, h'])
        cases hs : catStep acc (extract ci r) with
        | unm => simp [hs] at he
        | nil => simp [hs] at he
        | some acc1 =>
          simp only [hs] at he
          have hinv1 : AccInv ci acc1 s i0 k := by
            have hmono := hinv.mono (b' := k) (by omega)
            cases hx : extract ci r with
            | unm => simp [catStep, hx] at hs
            | nil => simp only [catStep, hx, R.some.injEq] at hs; subst hs; exact hmono
            | some l =>
              have hsound := extract_sound r hr hasc h1 hx
              cases l with
              | all v =>
                simp only [catStep, hx, R.some.injEq] at hs; subst hs
                refine ⟨?_, hmono.2⟩
                intro l hl
                rcases List.mem_append.mp hl with h' | h'
                · exact hmono.1 l h'
                · exact (hsound l h').mono hi0 (Nat.le_refl _)
              | any v =>
                simp only [catStep, hx, R.some.injEq] at hs
                obtain ⟨l, hl, ho⟩ := hsound
                have hnew : ∃ l ∈ v, Occ ci l s i0 k := ⟨l, hl, ho.mono hi0 (Nat.le_refl _)⟩
                cases hb : acc.bestAny with
                | none =>
                  simp only [hb] at hs; subst hs
                  exact ⟨hmono.1, by intro v' hv'; simp only [Option.some.injEq] at hv'; subst hv'; exact hnew⟩
                | some b =>
                  simp only [hb] at hs
                  split at hs
                  · subst hs
                    exact ⟨hmono.1, by intro v' hv'; simp only [Option.some.injEq] at hv'; subst hv'; exact hnew⟩
                  · subst hs; exact hmono
              | combined a y => simp only [catStep, hx, R.some.injEq] at hs; subst hs; exact hmono
          exact extractCat_sound rs hrs hasc h2 he i0 (by omega) hinv1
theorem extractAlt_sound : ∀ (rs : List Re) {ci : Bool} {s : Bytes} {i j : Nat} {ls : List Bytes},
    (hasFoldList rs = true → ci = true) → (ci = true → isAsciiBytes s = true) → MAlt rs s i j →
    extractAlt ci rs = .some ls → ∃ l ∈ ls, Occ ci l s i j
  | [], _, _, _, _, _, _, _, hm, _ => by cases hm
  | r :: rs, ci, s, i, j, ls, hfc, hasc, hm, he => by
      simp only [extractAlt] at he
      have hr : hasFold r = true → ci = true := fun h' => hfc (by simp [hasFoldList, h'])
      have hrs : hasFoldList rs = true → ci = true := fun h' => hfc (by simp [hasFoldList, h'])
      cases hx : extract ci r with
      | unm => simp [hx] at he
      | nil => simp [hx] at he
      | some l =>
        simp only [hx] at he
        cases hrest : extractAlt ci rs with
        | unm => simp [hrest] at he
        | nil => simp [hrest] at he
        | some rest =>
          simp only [hrest, R.some.injEq] at he
          subst he
          cases hm with
          | here _ _ _ _ _ h =>
            have hsound := extract_sound r hr hasc h hx
            have hij := (M_len h).1
            cases l with
            | all v =>
              by_cases hv : v = []
              · subst hv
                exact ⟨[], by simp [altRep, longest], Occ_nil ci s i j (by omega)⟩
              · exact ⟨longest v, by simp [altRep], hsound _ (longest_mem v hv)⟩
            | any v =>
              obtain ⟨l, hl, ho⟩ := hsound
              exact ⟨l, by simp [altRep, hl], ho⟩
            | combined a y =>
              obtain ⟨_, l, hl, ho⟩ := hsound
              exact ⟨l, by simp [altRep, hl], ho⟩
          | there _ _ _ _ _ h =>
            obtain ⟨l, hl, ho⟩ := extractAlt_sound rs hrs hasc h hrest
            exact ⟨l, by simp [hl], ho⟩
theorem rawSuffixes_sound : ∀ (re : Re) {ci : Bool} {s : Bytes} {i j : Nat} {ls : List Bytes},
    (hasFold re = true → ci = true) → (ci = true → isAsciiBytes s = true) → M re s i j →
    rawSuffixes ci re = .some ls → ∃ l ∈ ls, StartsAt ci l s i j
  | .lit f rs, ci, s, i, j, ls, hfc, hasc, hm, he => by
      simp only [rawSuffixes] at he
      cases hp : rawLiteral (.lit f rs) ci with
      | unm => simp [hp] at he
      | nil => simp [hp] at he
      | some l =>
        simp only [hp, R.some.injEq] at he
        subst he
        obtain ⟨f', rs', e, hls⟩ := rawLiteral_some hp
        cases e
        have := lit_exact hm (by simpa [hasFold] using hfc) hasc hls
        exact ⟨l, by simp, by omega, by rw [← this.1]; exact this.2⟩
  | .alt f rs, ci, s, i, j, ls, hfc, hasc, hm, he => by
      simp only [rawSuffixes] at he
      cases hm with
      | alt _ _ _ _ _ h => exact rawSuffixesAlt_sound rs (fun h' => hfc (by simp [hasFold, h'])) hasc h he
  | .cap f r, ci, s, i, j, ls, hfc, hasc, hm, he => by
      simp only [rawSuffixes] at he
      cases hm with
      | cap _ _ _ _ _ h => exact rawSuffixes_sound r (fun h' => hfc (by simp [hasFold, h'])) hasc h he
  | .cat f rs, ci, s, i, j, ls, hfc, hasc, hm, he => by
      rw [rawSuffixes_cat] at he
      cases hm with
      | cat _ _ _ _ _ h =>
        have hfl : hasFoldList rs = true → ci = true := fun h' => hfc (by simp [hasFold, h'])
        match rs, h, he, hfl with
        | [], _, he, _ => simp [sufCat] at he
        | [a], h, he, hfl =>
          cases h with
          | cons _ _ _ _ k _ h1 h2 =>
            exact sufFirst_widen (fun fs hfs => rawSuffixes_sound a (fun h' => hfl (by simp [hasFoldList, h'])) hasc h1 hfs)
              (MCat_len h2).1 (by simpa [sufCat] using he)
        | a :: b :: c :: tl, h, he, hfl =>
          cases h with
          | cons _ _ _ _ k _ h1 h2 =>
            exact sufFirst_widen (fun fs hfs => rawSuffixes_sound a (fun h' => hfl (by simp [hasFoldList, h'])) hasc h1 hfs)
              (by have := (MCat_len h2).1; omega) (by simpa [sufCat] using he)
        | [a, b], h, he, hfl =>
          simp only [sufCat] at he
          cases h with
          | cons _ _ _ _ k _ h1 h2 =>
            have hkj := (MCat_len h2).1
            have firstOnly : ∀ ls', sufFirst (rawSuffixes ci a) = R.some ls' → ∃ l ∈ ls', StartsAt ci l s i j :=
              fun ls' hsf => sufFirst_widen
                (fun fs hfs => rawSuffixes_sound a (fun h' => hfl (by simp [hasFoldList, h'])) hasc h1 hfs) (by omega) hsf
            unfold sufPair at he
            cases hsf : sufFirst (rawSuffixes ci a) with
            | unm => simp [hsf] at he
            | nil => simp [hsf] at he
            | some l =>
              simp only [hsf] at he
              by_cases hlit : isLit a = true
              · simp only [hlit, if_true] at he
                cases hsec : rawSuffixes ci b with
                | unm => simp [hsec] at he
                | nil =>
                  simp only [hsec, R.some.injEq] at he
                  subst he
                  exact firstOnly _ hsf
                | some rest =>
                  simp only [hsec] at he
                  split at he
                  · simp only [R.some.injEq] at he
                    subst he
                    exact firstOnly _ hsf
                  · simp only [R.some.injEq] at he
                    subst he
                    cases h2 with
                    | cons _ _ _ _ k2 _ h3 h4 =>
                      cases h4 with
                      | nil _ _ _ =>
                        -- a is a literal: l = [its needle], matched exactly on [i, k)
                        obtain ⟨suf, hsuf, hst⟩ := rawSuffixes_sound b
                          (fun h' => hfl (by simp [hasFoldList, h'])) hasc h3 hsec
                        cases a with
                        | lit f' rs' =>
                          unfold sufFirst at hsf
                          simp only [rawSuffixes] at hsf
                          cases hp : rawLiteral (.lit f' rs') ci with
                          | unm => simp [hp] at hsf
                          | nil => simp [hp] at hsf
                          | some pfx =>
                            simp only [hp] at hsf
                            simp at hsf
                            subst hsf
                            obtain ⟨f'', rs'', e, hls⟩ := rawLiteral_some hp
                            cases e
                            have e1 := lit_exact h1 (fun hf' => hfl (by simp [hasFoldList, hasFold, hf'])) hasc hls
                            exact ⟨pfx ++ suf, List.mem_map.mpr ⟨suf, hsuf, by simp⟩, glue e1.1 e1.2 hst⟩
                        | _ => simp [isLit] at hlit
              · simp only [hlit, Bool.false_eq_true, if_false, R.some.injEq] at he
                subst he
                exact firstOnly _ hsf
  | .nomatch _, _, _, _, _, _, _, _, _, he => by simp [rawSuffixes] at he
  | .empty _, _, _, _, _, _, _, _, _, he => by simp [rawSuffixes] at he
  | .cc _ _, _, _, _, _, _, _, _, _, he => by simp [rawSuffixes] at he
  | .anynl _, _, _, _, _, _, _, _, _, he => by simp [rawSuffixes] at he
  | .any _, _, _, _, _, _, _, _, _, he => by simp [rawSuffixes] at he
  | .bol _, _, _, _, _, _, _, _, _, he => by simp [rawSuffixes] at he
  | .eol _, _, _, _, _, _, _, _, _, he => by simp [rawSuffixes] at he
  | .bot _, _, _, _, _, _, _, _, _, he => by simp [rawSuffixes] at he
  | .eot _, _, _, _, _, _, _, _, _, he => by simp [rawSuffixes] at he
  | .wb _, _, _, _, _, _, _, _, _, he => by simp [rawSuffixes] at he
  | .nwb _, _, _, _, _, _, _, _, _, he => by simp [rawSuffixes] at he
  | .star _ _, _, _, _, _, _, _, _, _, he => by simp [rawSuffixes] at he
  | .plus _ _, _, _, _, _, _, _, _, _, he => by simp [rawSuffixes] at he
  | .quest _ _, _, _, _, _, _, _, _, _, he => by simp [rawSuffixes] at he
  | .rep _ _ _ _, _, _, _, _, _, _, _, _, he => by simp [rawSuffixes] at he
theorem rawSuffixesAlt_sound : ∀ (rs : List Re) {ci : Bool} {s : Bytes} {i j : Nat} {ls : List Bytes},
    (hasFoldList rs = true → ci = true) → (ci = true → isAsciiBytes s = true) → MAlt rs s i j →
    rawSuffixesAlt ci rs = .some ls → ∃ l ∈ ls, StartsAt ci l s i j
  | [], _, _, _, _, _, _, _, hm, _ => by cases hm
  | r :: rs, ci, s, i, j, ls, hfc, hasc, hm, he => by
      simp only [rawSuffixesAlt] at he
      have hr : hasFold r = true → ci = true := fun h' => hfc (by simp [hasFoldList, h'])
      have hrs : hasFoldList rs = true → ci = true := fun h' => hfc (by simp [hasFoldList, h'])
      cases hx : rawSuffixes ci r with
      | unm => simp [hx] at he
      | nil => simp [hx] at he
      | some l =>
        simp only [hx] at he
        split at he
        · cases he
        · cases hrest : rawSuffixesAlt ci rs with
          | unm => simp [hrest] at he
          | nil => simp [hrest] at he
          | some rest =>
            simp only [hrest, R.some.injEq] at he
            subst he
            cases hm with
            | here _ _ _ _ _ h =>
              obtain ⟨x, hx', hs⟩ := rawSuffixes_sound r hr hasc h hx
              exact ⟨x, by simp [hx'], hs⟩
            | there _ _ _ _ _ h =>
              obtain ⟨x, hx', hs⟩ := rawSuffixesAlt_sound rs hrs hasc h hrest
              exact ⟨x, by simp [hx'], hs⟩
end

end Coraza.Rx

namespace Coraza.Rx
open Coraza

/-! ## the Wu-Manber matcher finds every occurrence -/

theorem foldl_min_le_init (l : List Nat) (a : Nat) : l.foldl min a ≤ a := by
  induction l generalizing a with
  | nil => simp
  | cons x xs ih => simp only [List.foldl_cons]; exact Nat.le_trans (ih _) (Nat.min_le_left _ _)

theorem foldl_min_le_mem (l : List Nat) (a x : Nat) (h : x ∈ l) : l.foldl min a ≤ x := by
  induction l generalizing a with
  | nil => simp at h
  | cons y ys ih =>
    simp only [List.foldl_cons]
    rcases List.mem_cons.mp h with rfl | h'
    · exact Nat.le_trans (foldl_min_le_init _ _) (Nat.min_le_right _ _)
    · exact ih _ h'

theorem IM.shift_le_minLen (m : IM) (c : UInt8) : m.shift c ≤ m.minLen := by
  unfold IM.shift
  refine Nat.le_trans (foldl_min_le_init _ _) ?_
  split <;> omega

/-- a needle byte at position j < minLen that hits c bounds the shift of c -/
theorem IM.shift_le_pos (m : IM) (c : UInt8) (n : Bytes) (hn : n ∈ m.needles) (j : Nat) (hj : j < m.minLen)
    (x : UInt8) (hx : n[j]? = some x) (hh : m.hit x c = true) : m.shift c ≤ m.minLen - 1 - j := by
  unfold IM.shift
  have hmem : (m.minLen - 1 - j) % 256 ∈ m.cands c := by
    unfold IM.cands
    rw [List.mem_flatMap]
    refine ⟨n, hn, ?_⟩
    rw [List.mem_filterMap]
    exact ⟨j, List.mem_range.mpr hj, by simp [hx, hh]⟩
  exact Nat.le_trans (foldl_min_le_mem _ _ _ hmem) (Nat.mod_le _ _)

/-- the needle (already lower case when ci) sits at position p of s -/
def At (ci : Bool) (n s : Bytes) (p : Nat) : Prop := p + n.length ≤ s.length ∧ EqCI ci (slice s p (p + n.length)) n

theorem slice_getElem (s : Bytes) (p q j : Nat) (hq : q ≤ s.length) (hj : p + j < q) :
    (slice s p q)[j]? = s[p + j]? := by
  unfold slice
  rw [List.getElem?_take_of_lt (by omega), List.getElem?_drop]

theorem equalFold_get {a b : Bytes} (h : equalFold a b = true) (j : Nat) (x y : UInt8)
    (ha : a[j]? = some x) (hb : b[j]? = some y) : asciiLower x = y := by
  induction a generalizing b j with
  | nil => simp at ha
  | cons a0 as ih =>
    cases b with
    | nil => simp at hb
    | cons b0 bs =>
      simp only [equalFold, Bool.and_eq_true, beq_iff_eq] at h
      cases j with
      | zero => simp at ha hb; subst ha hb; exact h.1
      | succ j => simp at ha hb; exact ih h.2 j ha hb

/-- the input byte under needle position j hits that needle byte -/
theorem At_hit {m : IM} {n s : Bytes} {p j : Nat} (hat : At m.ci n s p) (hj : j < n.length)
    (hlow : m.ci = true → ∀ y ∈ n, asciiLower y = y) :
    ∃ x b, n[j]? = some x ∧ s[p + j]? = some b ∧ m.hit x b = true ∧ (if m.ci then asciiLower b else b) = x := by
  obtain ⟨h1, h2⟩ := hat
  have hx : n[j]? = some n[j] := List.getElem?_eq_getElem hj
  have hb : s[p + j]? = some (s[p + j]'(by omega)) := List.getElem?_eq_getElem (by omega)
  have hsl := slice_getElem s p (p + n.length) j h1 (by omega)
  refine ⟨n[j], s[p + j]'(by omega), hx, hb, ?_⟩
  unfold EqCI at h2
  cases hci : m.ci with
  | false =>
    simp only [hci, Bool.false_eq_true, if_false] at h2 ⊢
    have : (slice s p (p + n.length))[j]? = n[j]? := by rw [h2]
    rw [hsl, hx, hb] at this
    simp only [Option.some.injEq] at this
    simp [IM.hit, this]
  | true =>
    simp only [hci, if_true] at h2 ⊢
    have hl := equalFold_get h2 j (s[p + j]'(by omega)) n[j] (by rw [hsl, hb]) hx
    refine ⟨?_, hl⟩
    unfold IM.hit
    simp only [hci, Bool.true_and]
    -- b lower-cases to x: b = x, or b is the upper-case twin of the letter x
    generalize (s[p + j]'(by omega)) = b at hl
    generalize n[j] = x at hl
    subst hl
    revert b
    apply UInt8.forall_of_fin
    decide +kernel

theorem ite_true_or (c : Prop) [Decidable c] (x : Bool) (hx : x = true) : (if c then true else x) = true := by
  split
  · rfl
  · exact hx

theorem IM.scan_finds (m : IM) (s n : Bytes) (p : Nat) (hn : n ∈ m.needles) (hat : At m.ci n s p)
    (hml : 1 ≤ m.minLen) (hlen : m.minLen ≤ n.length) (hlow : m.ci = true → ∀ y ∈ n, asciiLower y = y) :
    ∀ (fuel i : Nat), i ≤ p + m.minLen - 1 → p + m.minLen - 1 - i < fuel → m.scan s fuel i = true := by
  intro fuel
  induction fuel with
  | zero => intro i _ h; omega
  | succ fuel ih =>
    intro i hi hf
    have hslen : p + n.length ≤ s.length := hat.1
    have hib : i < s.length := by omega
    have hb : s[i]? = some s[i] := List.getElem?_eq_getElem hib
    unfold IM.scan
    simp only [hb]
    by_cases hsh : m.shift s[i] = 0
    · -- candidate position
      simp only [hsh, bne_self_eq_false, Bool.false_eq_true, if_false]
      by_cases hend : i = p + m.minLen - 1
      · -- the window's right edge is on the needle's byte minLen-1: verification succeeds
        obtain ⟨x, b, hx, hbb, _, hlb⟩ := At_hit (j := m.minLen - 1) hat (by omega) hlow
        have hpi : p + (m.minLen - 1) = i := by omega
        rw [hpi, hb, Option.some.injEq] at hbb
        subst hbb
        have hbucket : n ∈ m.bucket (if m.ci = true then asciiLower s[i] else s[i]) := by
          unfold IM.bucket
          rw [List.mem_filter]
          exact ⟨hn, by simp [hx, hlb]⟩
        have hpos : i + 1 - m.minLen = p := by omega
        have hany : (m.bucket (if m.ci = true then asciiLower s[i] else s[i])).any (fun n' =>
            i + 1 - m.minLen + n'.length ≤ s.length &&
            (if m.ci = true then equalFold ((s.drop (i + 1 - m.minLen)).take n'.length) n'
             else (s.drop (i + 1 - m.minLen)).take n'.length == n')) = true := by
          rw [List.any_eq_true]
          refine ⟨n, hbucket, ?_⟩
          rw [hpos]
          have h2 := hat.2
          unfold EqCI slice at h2
          simp only [Nat.add_sub_cancel_left] at h2
          cases hci : m.ci with
          | false => simp [hci] at h2 ⊢; exact ⟨hslen, h2⟩
          | true => simp [hci] at h2 ⊢; exact ⟨hslen, h2⟩
        simp only [hany, if_true]
      · exact ite_true_or _ _ (ih (i + 1) (by omega) (by omega))
    · simp only [bne_iff_ne, ne_eq, hsh, not_false_eq_true, if_true]
      have hle : i + m.shift s[i] ≤ p + m.minLen - 1 := by
        -- the shift never jumps over the needle's end position
        by_cases hip : p ≤ i
        · have hj : i - p < n.length := by omega
          obtain ⟨x, b, hx, hbb, hhit, _⟩ := At_hit (j := i - p) hat hj hlow
          have hpi : p + (i - p) = i := by omega
          rw [hpi, hb, Option.some.injEq] at hbb
          subst hbb
          have := m.shift_le_pos s[i] n hn (i - p) (by omega) x hx hhit
          omega
        · have := m.shift_le_minLen s[i]
          omega
      have hpos : 0 < m.shift s[i] := Nat.pos_of_ne_zero hsh
      exact ih (i + m.shift s[i]) hle (by omega)

/-- C11_matcher_finds: if one of the needles occurs in the input (exactly, or up to ASCII case when
    ci), the shift-table matcher answers true — the skipping never jumps over an occurrence,
    whatever the needles, including the uint8 wrap-around of the table for needles longer than
    255 bytes -/
theorem matcher_finds (m : IM) (s n : Bytes) (p : Nat) (hn : n ∈ m.needles) (hat : At m.ci n s p)
    (hml : 1 ≤ m.minLen) (hlen : m.minLen ≤ n.length) (hlow : m.ci = true → ∀ y ∈ n, asciiLower y = y) :
    m.matches s = true := by
  unfold IM.matches
  have hslen : p + n.length ≤ s.length := hat.1
  have h0 : (m.minLen == 0) = false := by simp; omega
  have h1 : ¬ s.length < m.minLen := by omega
  simp only [h0, Bool.false_or, decide_eq_true_eq, h1, if_false]
  exact m.scan_finds s n p hn hat hml hlen hlow (s.length + 1) (m.minLen - 1) (by omega) (by omega)

end Coraza.Rx

namespace Coraza.Rx
open Coraza

/-! ## from occurrences to the matchers' verdicts -/

theorem slice_eq_decomp (s l : Bytes) (p : Nat) (hp : p + l.length ≤ s.length) (h : slice s p (p + l.length) = l) :
    s = s.take p ++ l ++ s.drop (p + l.length) := by
  unfold slice at h
  simp only [Nat.add_sub_cancel_left] at h
  conv => lhs; rw [← List.take_append_drop p s]
  rw [List.append_assoc]
  congr 1
  conv => lhs; rw [← List.take_append_drop l.length (s.drop p)]
  rw [h, List.drop_drop]

theorem containsB_iff (s n : Bytes) : containsB s n = true ↔ ∃ a b, s = a ++ n ++ b := by
  induction s with
  | nil =>
    simp only [containsB, List.isEmpty_iff]
    constructor
    · intro h; subst h; exact ⟨[], [], rfl⟩
    · rintro ⟨a, b, h⟩
      have := congrArg List.length h
      simp at this
      exact List.eq_nil_of_length_eq_zero (by omega)
  | cons c t ih =>
    simp only [containsB, Bool.or_eq_true]
    constructor
    · rintro (h | h)
      · obtain ⟨r, hr⟩ := List.isPrefixOf_iff_prefix.mp h
        exact ⟨[], r, by simpa using hr.symm⟩
      · obtain ⟨a, b, hab⟩ := ih.mp h
        exact ⟨c :: a, b, by simp [hab]⟩
    · rintro ⟨a, b, hab⟩
      cases a with
      | nil => left; exact List.isPrefixOf_iff_prefix.mpr ⟨b, by simpa using hab.symm⟩
      | cons x a' =>
        right
        simp only [List.cons_append, List.cons.injEq] at hab
        exact ih.mpr ⟨a', b, hab.2⟩


theorem Occ_containsB {l s : Bytes} {a b : Nat} (h : Occ false l s a b) (hb : b ≤ s.length) : containsB s l = true := by
  obtain ⟨p, _, h2, h3⟩ := h
  simp only [EqCI, Bool.false_eq_true, if_false] at h3
  exact (containsB_iff s l).mpr ⟨s.take p, s.drop (p + l.length), slice_eq_decomp s l p (by omega) h3⟩
/-- hasPrefixFold is "the needle sits at position 0" -/
theorem hasPrefixFold_of_at (s l : Bytes) (h1 : l.length ≤ s.length) (h2 : equalFold (slice s 0 l.length) l = true) :
    hasPrefixFold s l = true := by
  unfold hasPrefixFold
  simp only [slice, List.drop_zero, Nat.sub_zero] at h2
  simp [h1, h2]

theorem containsFoldOnly_of_at (s l : Bytes) (p : Nat) (h1 : p + l.length ≤ s.length)
    (h2 : equalFold (slice s p (p + l.length)) l = true) : containsFoldOnly s l = true := by
  induction s generalizing p with
  | nil =>
    have hl0 : l.length = 0 := by simp only [List.length_nil] at h1; omega
    have : l = [] := List.eq_nil_of_length_eq_zero hl0
    subst this; simp [containsFoldOnly]
  | cons c t ih =>
    simp only [containsFoldOnly, Bool.or_eq_true]
    cases p with
    | zero =>
      left
      exact hasPrefixFold_of_at (c :: t) l (by simpa using h1) (by simpa using h2)
    | succ p =>
      right
      apply ih p (by simp at h1; omega)
      have : slice (c :: t) (p + 1) (p + 1 + l.length) = slice t p (p + l.length) := by
        unfold slice; simp
      rw [this] at h2; exact h2

theorem Occ_containsFold {l s : Bytes} {a b : Nat} (h : Occ true l s a b) (hb : b ≤ s.length) : containsFold s l = true := by
  obtain ⟨p, _, h2, h3⟩ := h
  simp only [EqCI, if_true] at h3
  unfold containsFold
  split
  · rfl
  · split
    · omega
    · split
      · exact containsFoldOnly_of_at s l p (by omega) h3
      · rfl

/-! ## needles of the multi-needle matcher -/

theorem asciiLower_idem (b : UInt8) : asciiLower (asciiLower b) = asciiLower b := by
  revert b; apply UInt8.forall_of_fin; decide +kernel

theorem equalFold_lower {a l : Bytes} (h : equalFold a l = true) : equalFold a (l.map asciiLower) = true := by
  induction a generalizing l with
  | nil => cases l with
    | nil => rfl
    | cons _ _ => simp [equalFold] at h
  | cons x xs ih => cases l with
    | nil => simp [equalFold] at h
    | cons y ys =>
      simp only [equalFold, Bool.and_eq_true, beq_iff_eq] at h
      simp only [List.map_cons, equalFold, Bool.and_eq_true, beq_iff_eq]
      exact ⟨by rw [← h.1, asciiLower_idem], ih h.2⟩

theorem foldl_min_ge (l : List Nat) (a k : Nat) (ha : k ≤ a) (hl : ∀ x ∈ l, k ≤ x) : k ≤ l.foldl min a := by
  induction l generalizing a with
  | nil => simpa
  | cons x xs ih =>
    simp only [List.foldl_cons]
    apply ih
    · exact Nat.le_min.mpr ⟨ha, hl x (by simp)⟩
    · intro y hy; exact hl y (by simp [hy])

theorem newIM_minLen_le (v : List Bytes) (ci : Bool) (n : Bytes) (hn : n ∈ (newIM v ci).needles) :
    (newIM v ci).minLen ≤ n.length := by
  unfold newIM at *
  simp only at *
  exact foldl_min_le_mem _ _ _ (List.mem_map.mpr ⟨n, hn, rfl⟩)

theorem newIM_minLen_ge (v : List Bytes) (ci : Bool) (k : Nat) (hv : v ≠ []) (hk : ∀ n ∈ v, k ≤ n.length) :
    k ≤ (newIM v ci).minLen := by
  unfold newIM
  simp only
  have hk' : ∀ n ∈ (if ci = true then v.map (·.map asciiLower) else v), k ≤ n.length := by
    intro n hn
    split at hn
    · obtain ⟨n0, hn0, rfl⟩ := List.mem_map.mp hn
      simpa using hk n0 hn0
    · exact hk n hn
  apply foldl_min_ge
  · cases hns : (if ci = true then v.map (·.map asciiLower) else v) with
    | nil =>
      exfalso
      split at hns
      · simp at hns; exact hv hns
      · exact hv hns
    | cons x xs => simp only [List.headD_cons]; exact hk' x (by rw [hns]; simp)
  · intro x hx
    obtain ⟨n, hn, rfl⟩ := List.mem_map.mp hx
    exact hk' n hn

/-- an occurrence of one of the needles makes the multi-needle matcher answer true -/
theorem Occ_im {ci : Bool} {v : List Bytes} {l s : Bytes} {a b : Nat} (hl : l ∈ v) (h : Occ ci l s a b)
    (hb : b ≤ s.length) (hshort : ∀ n ∈ v, 2 ≤ n.length) : (newIM v ci).matches s = true := by
  obtain ⟨p, _, h2, h3⟩ := h
  have hv : v ≠ [] := by intro e; subst e; simp at hl
  have hml := newIM_minLen_ge v ci 2 hv hshort
  cases hci : ci with
  | false =>
    subst hci
    have hn : l ∈ (newIM v false).needles := by simp [newIM, hl]
    exact matcher_finds _ s l p hn ⟨by omega, by simpa [newIM] using h3⟩ (by omega)
      (newIM_minLen_le v false l hn) (by simp [newIM])
  | true =>
    subst hci
    have hn : l.map asciiLower ∈ (newIM v true).needles := by
      simp only [newIM, if_true]; exact List.mem_map.mpr ⟨l, hl, rfl⟩
    have hat : At (newIM v true).ci (l.map asciiLower) s p := by
      refine ⟨by simp; omega, ?_⟩
      simp only [newIM, EqCI, if_true, List.length_map] at h3 ⊢
      exact equalFold_lower h3
    exact matcher_finds _ s _ p hn hat (by omega) (newIM_minLen_le v true _ hn)
      (by intro _ y hy; obtain ⟨y0, _, rfl⟩ := List.mem_map.mp hy; exact asciiLower_idem y0)

end Coraza.Rx

namespace Coraza.Rx
open Coraza

/-! ## the multi-needle prefilter -/

def EndsAt (ci : Bool) (l s : Bytes) : Prop :=
  l.length ≤ s.length ∧ EqCI ci (slice s (s.length - l.length) s.length) l

theorem slice_to_end (s : Bytes) (k : Nat) : slice s k s.length = s.drop k := by
  unfold slice; rw [List.take_of_length_le]; simp

theorem multi_eval (ci : Bool) (pre suf : Bytes) (mid : List Bytes) (s : Bytes)
    (hpre : pre = [] ∨ StartsAt ci pre s 0 s.length) (hsuf : suf = [] ∨ EndsAt ci suf s)
    (hmid : ∀ l ∈ mid, ∃ a b, b ≤ s.length ∧ Occ ci l s a b) : (PF.multi ci pre suf mid).eval s = true := by
  unfold PF.eval
  cases ci with
  | true =>
    simp only [if_true, Bool.and_eq_true, Bool.or_eq_true, List.isEmpty_iff, List.all_eq_true]
    refine ⟨⟨?_, ?_⟩, ?_⟩
    · rcases hpre with h | h
      · exact Or.inl h
      · right
        have := h.2
        simp only [EqCI, if_true, Nat.zero_add] at this
        exact hasPrefixFold_of_at s pre (by have := h.1; omega) this
    · rcases hsuf with h | h
      · exact Or.inl h
      · right
        have := h.2
        simp only [EqCI, if_true, slice_to_end] at this
        simp [h.1, this]
    · intro l hl
      obtain ⟨a, b, hb, ho⟩ := hmid l hl
      exact Occ_containsFold ho hb
  | false =>
    simp only [Bool.false_eq_true, if_false, Bool.and_eq_true, Bool.or_eq_true, List.isEmpty_iff, List.all_eq_true]
    refine ⟨⟨?_, ?_⟩, ?_⟩
    · rcases hpre with h | h
      · exact Or.inl h
      · right
        have := h.2
        simp only [EqCI, Bool.false_eq_true, if_false, Nat.zero_add, slice, List.drop_zero, Nat.sub_zero] at this
        unfold hasPrefixB
        rw [List.isPrefixOf_iff_prefix]
        exact ⟨s.drop pre.length, by conv => rhs; rw [← List.take_append_drop pre.length s, this]⟩
    · rcases hsuf with h | h
      · exact Or.inl h
      · right
        have := h.2
        simp only [EqCI, Bool.false_eq_true, if_false, slice_to_end] at this
        simp [h.1, this]
    · intro l hl
      obtain ⟨a, b, hb, ho⟩ := hmid l hl
      exact Occ_containsB ho hb

theorem filterShort_sub (v : List Bytes) (n : Nat) : ∀ l ∈ filterShort v n, l ∈ v := by
  intro l hl; unfold filterShort at hl; exact (List.mem_filter.mp hl).1

theorem filterShort_head (v : List Bytes) (n : Nat) (h : n ≤ (v.headD []).length) (hv : v ≠ []) :
    (filterShort v n).headD [] = v.headD [] := by
  cases v with
  | nil => exact absurd rfl hv
  | cons x xs =>
    simp only [List.headD_cons] at h
    simp [filterShort, List.filter_cons, h]

theorem filterShort_last (v : List Bytes) (n : Nat) (h : n ≤ (v.getLastD []).length) (hv : v ≠ []) :
    (filterShort v n).getLastD [] = v.getLastD [] := by
  obtain ⟨ini, x, rfl⟩ : ∃ ini x, v = ini ++ [x] := ⟨v.dropLast, v.getLast hv, (List.dropLast_concat_getLast hv).symm⟩
  simp only [List.getLastD_eq_getLast?, List.getLast?_append, List.getLast?_singleton, Option.some_or,
    Option.getD_some] at h ⊢
  simp [filterShort, List.filter_append, h]

/-- buildMulti answers true whenever every needle occurs, the first one at position 0 if
    `usePrefix`, the last one at the end if `useSuffix` -/
theorem buildMulti_sound (needles : List Bytes) (ci usePrefix useSuffix : Bool) (s : Bytes) (pf : PF)
    (hb : buildMulti needles ci usePrefix useSuffix = some pf)
    (hocc : ∀ l ∈ needles, ∃ a b, b ≤ s.length ∧ Occ ci l s a b)
    (hp : usePrefix = true → StartsAt ci (needles.headD []) s 0 s.length)
    (hs : useSuffix = true → EndsAt ci (needles.getLastD []) s) : pf.eval s = true := by
  unfold buildMulti at hb
  by_cases hne : needles.isEmpty = true
  · simp [hne] at hb
  · simp only [hne, Bool.false_eq_true, if_false] at hb
    have hdrop : ∀ l ∈ needles.drop 1, l ∈ needles := fun l hl => List.mem_of_mem_drop hl
    have hdl : ∀ l ∈ needles.dropLast, l ∈ needles := fun l hl => List.dropLast_subset _ hl
    split at hb
    · rename_i hc
      simp only [Bool.and_eq_true] at hc
      simp only [Option.some.injEq] at hb; subst hb
      exact multi_eval ci _ _ _ s (Or.inr (hp hc.1.1)) (Or.inr (hs hc.1.2))
        (fun l hl => hocc l (hdrop l (List.dropLast_subset _ hl)))
    · split at hb
      · rename_i _ hc
        simp only [Bool.and_eq_true] at hc
        simp only [Option.some.injEq] at hb; subst hb
        exact multi_eval ci _ _ _ s (Or.inr (hp hc.1)) (Or.inl rfl) (by intro l hl; simp at hl)
      · split at hb
        · rename_i _ _ hc
          simp only [Option.some.injEq] at hb; subst hb
          exact multi_eval ci _ _ _ s (Or.inr (hp hc)) (Or.inl rfl) (fun l hl => hocc l (hdrop l hl))
        · split at hb
          · rename_i _ _ _ hc
            simp only [Option.some.injEq] at hb; subst hb
            exact multi_eval ci _ _ _ s (Or.inl rfl) (Or.inr (hs hc)) (fun l hl => hocc l (hdl l hl))
          · simp only [Option.some.injEq] at hb; subst hb
            exact multi_eval ci _ _ _ s (Or.inl rfl) (Or.inl rfl) hocc

end Coraza.Rx

namespace Coraza.Rx
open Coraza

/-! ## anchors -/

theorem catStep_all {acc acc1 : CatAcc} {l : R Lits} (h : catStep acc l = .some acc1) : ∃ x, acc1.all = acc.all ++ x := by
  unfold catStep at h
  cases l with
  | unm => simp at h
  | nil => simp only [R.some.injEq] at h; subst h; exact ⟨[], by simp⟩
  | some lits =>
    cases lits with
    | all v => simp only [R.some.injEq] at h; subst h; exact ⟨v, rfl⟩
    | any v =>
      simp only [R.some.injEq] at h
      subst h
      cases acc.bestAny with
      | none => exact ⟨[], by simp⟩
      | some b => simp only; split <;> exact ⟨[], by simp⟩
    | combined a y => simp only [R.some.injEq] at h; subst h; exact ⟨[], by simp⟩

theorem extractCat_all (ci : Bool) (rs : List Re) {acc acc' : CatAcc} (h : extractCat ci rs acc = .some acc') :
    ∃ x, acc'.all = acc.all ++ x := by
  induction rs generalizing acc with
  | nil => simp only [extractCat, R.some.injEq] at h; subst h; exact ⟨[], by simp⟩
  | cons r rs ih =>
    simp only [extractCat] at h
    cases hs : catStep acc (extract ci r) with
    | unm => simp [hs] at h
    | nil => simp [hs] at h
    | some acc1 =>
      simp only [hs] at h
      obtain ⟨x, hx⟩ := catStep_all hs
      obtain ⟨y, hy⟩ := ih h
      exact ⟨x ++ y, by rw [hy, hx, List.append_assoc]⟩

theorem extractCat_append (ci : Bool) (xs ys : List Re) (acc : CatAcc) :
    extractCat ci (xs ++ ys) acc =
      match extractCat ci xs acc with
      | .some a => extractCat ci ys a
      | .nil => .nil
      | .unm => .unm := by
  induction xs generalizing acc with
  | nil => simp [extractCat]
  | cons x xs ih =>
    simp only [List.cons_append, extractCat]
    cases catStep acc (extract ci x) with
    | unm => rfl
    | nil => rfl
    | some a => simp only; exact ih a

theorem MCat_append {xs ys : List Re} {s : Bytes} {i j : Nat} (h : MCat (xs ++ ys) s i j) :
    ∃ k, MCat xs s i k ∧ MCat ys s k j := by
  induction xs generalizing i with
  | nil => exact ⟨i, MCat.nil s i (by have := (MCat_len h).1; have := (MCat_len h).2; omega), h⟩
  | cons x xs ih =>
    cases h with
    | cons _ _ _ _ k _ h1 h2 =>
      obtain ⟨k', h3, h4⟩ := ih h2
      exact ⟨k', MCat.cons x xs s i k k' h1 h3, h4⟩

/-- the all-required part of a result -/
def allOf : R Lits → Option (List Bytes)
  | .some (.all v) => some v
  | .some (.combined v _) => some v
  | _ => none

theorem catFinish_all {acc : CatAcc} {trie : R (List Bytes)} {v : List Bytes}
    (h : allOf (catFinish (.some acc) trie) = some v) : v = acc.all := by
  unfold catFinish at h
  simp only at h
  by_cases hall : acc.all.isEmpty = true
  · simp only [hall, Bool.not_true, Bool.false_eq_true, if_false] at h
    cases trie with
    | unm => simp [allOf] at h
    | some t => simp [allOf] at h
    | nil =>
      simp only [fallbackAny] at h
      cases hb : acc.bestAny <;> simp [hb, allOf] at h
  · simp only [hall, Bool.not_false, if_true] at h
    cases hb : acc.bestAny with
    | none => simp [hb, allOf] at h; exact h.symm
    | some b =>
      simp only [hb] at h
      split at h <;> (simp [allOf] at h; exact h.symm)

theorem keeps_lit {ci : Bool} {r : Re} (h : keeps ci r = true) :
    ∃ f rs l, r = .lit f rs ∧ litString rs ci = .some l ∧ extract ci r = .some (.all [l]) := by
  unfold keeps at h
  simp only [Bool.and_eq_true] at h
  cases r <;> simp [isLit] at h
  rename_i f rs
  simp only [extract]
  cases hl : litString rs ci with
  | unm => simp [extract, hl] at h
  | nil => simp [extract, hl] at h
  | some l =>
    refine ⟨f, rs, l, rfl, hl, ?_⟩
    simp only [extract, hl] at h ⊢
    split
    · rename_i hs; simp [hs] at h
    · rfl

theorem M_bot {f : Bool} {s : Bytes} {i j : Nat} (h : M (.bot f) s i j) : i = 0 ∧ j = 0 := by
  cases h; exact ⟨rfl, rfl⟩

theorem M_eot {f : Bool} {s : Bytes} {i j : Nat} (h : M (.eot f) s i j) : i = s.length ∧ j = s.length := by
  cases h; exact ⟨rfl, rfl⟩

/-- with a kept literal right after \\A, the first required literal sits at position 0 -/
theorem prefix_anchor : ∀ (re : Re) {ci : Bool} {s : Bytes} {i j : Nat} {v : List Bytes},
    (hasFold re = true → ci = true) → (ci = true → isAsciiBytes s = true) → M re s i j →
    litAfterBegin ci re = true → allOf (extract ci re) = some v → StartsAt ci (v.headD []) s 0 j
  | .cap f r, ci, s, i, j, v, hfc, hasc, hm, hb, hex => by
      cases hm with
      | cap _ _ _ _ _ h =>
        exact prefix_anchor r (fun h' => hfc (by simp [hasFold, h'])) hasc h
          (by simpa [litAfterBegin, unwrapCap] using hb) (by simpa [extract] using hex)
  | .cat f rs, ci, s, i, j, v, hfc, hasc, hm, hb, hex => by
      have hfl : hasFoldList rs = true → ci = true := fun h' => hfc (by simp [hasFold, h'])
      simp only [litAfterBegin, unwrapCap] at hb
      match rs, hb, hm, hex, hfl with
      | .bot fb :: second :: rest, hb, hm, hex, hfl =>
        simp only at hb
        obtain ⟨f2, rs2, l, rfl, hls, hext⟩ := keeps_lit hb
        rw [extract_cat] at hex
        cases hc : extractCat ci (.bot fb :: .lit f2 rs2 :: rest) {} with
        | unm => simp [hc, catFinish, allOf] at hex
        | nil => simp [hc, catFinish, allOf] at hex
        | some acc =>
          rw [hc] at hex
          have hv := catFinish_all hex
          -- the accumulator after the first two children holds exactly [l]
          simp only [extractCat, extract, catStep, hext] at hc
          simp only [extract] at hext
          rw [hext] at hc
          simp only [catStep] at hc
          obtain ⟨x, hx⟩ := extractCat_all ci rest hc
          simp only [List.nil_append] at hx
          cases hm with
          | cat _ _ _ _ _ h =>
            cases h with
            | cons _ _ _ _ k0 _ h0 h1 =>
              cases h1 with
              | cons _ _ _ _ k1 _ h2 h3 =>
                obtain ⟨hi0, hk0⟩ := M_bot h0
                subst hk0
                have e := lit_exact h2 (fun hf' => hfl (by simp [hasFoldList, hasFold, hf'])) hasc hls
                have hk1j := (MCat_len h3).1
                rw [hv, hx]
                simp only [List.cons_append, List.headD_cons]
                refine ⟨by omega, ?_⟩
                have := e.2
                rw [e.1] at this
                exact this
      | [], hb, _, _, _ => simp at hb
      | [_], hb, _, _, _ => cases ‹Re› <;> simp at hb
      | .nomatch _ :: _ :: _, hb, _, _, _ => simp at hb
      | .empty _ :: _ :: _, hb, _, _, _ => simp at hb
      | .lit _ _ :: _ :: _, hb, _, _, _ => simp at hb
      | .cc _ _ :: _ :: _, hb, _, _, _ => simp at hb
      | .anynl _ :: _ :: _, hb, _, _, _ => simp at hb
      | .any _ :: _ :: _, hb, _, _, _ => simp at hb
      | .bol _ :: _ :: _, hb, _, _, _ => simp at hb
      | .eol _ :: _ :: _, hb, _, _, _ => simp at hb
      | .eot _ :: _ :: _, hb, _, _, _ => simp at hb
      | .wb _ :: _ :: _, hb, _, _, _ => simp at hb
      | .nwb _ :: _ :: _, hb, _, _, _ => simp at hb
      | .cap _ _ :: _ :: _, hb, _, _, _ => simp at hb
      | .star _ _ :: _ :: _, hb, _, _, _ => simp at hb
      | .plus _ _ :: _ :: _, hb, _, _, _ => simp at hb
      | .quest _ _ :: _ :: _, hb, _, _, _ => simp at hb
      | .rep _ _ _ _ :: _ :: _, hb, _, _, _ => simp at hb
      | .cat _ _ :: _ :: _, hb, _, _, _ => simp at hb
      | .alt _ _ :: _ :: _, hb, _, _, _ => simp at hb
  | .nomatch _, _, _, _, _, _, _, _, _, hb, _ => by simp [litAfterBegin, unwrapCap] at hb
  | .empty _, _, _, _, _, _, _, _, _, hb, _ => by simp [litAfterBegin, unwrapCap] at hb
  | .lit _ _, _, _, _, _, _, _, _, _, hb, _ => by simp [litAfterBegin, unwrapCap] at hb
  | .cc _ _, _, _, _, _, _, _, _, _, hb, _ => by simp [litAfterBegin, unwrapCap] at hb
  | .anynl _, _, _, _, _, _, _, _, _, hb, _ => by simp [litAfterBegin, unwrapCap] at hb
  | .any _, _, _, _, _, _, _, _, _, hb, _ => by simp [litAfterBegin, unwrapCap] at hb
  | .bol _, _, _, _, _, _, _, _, _, hb, _ => by simp [litAfterBegin, unwrapCap] at hb
  | .eol _, _, _, _, _, _, _, _, _, hb, _ => by simp [litAfterBegin, unwrapCap] at hb
  | .bot _, _, _, _, _, _, _, _, _, hb, _ => by simp [litAfterBegin, unwrapCap] at hb
  | .eot _, _, _, _, _, _, _, _, _, hb, _ => by simp [litAfterBegin, unwrapCap] at hb
  | .wb _, _, _, _, _, _, _, _, _, hb, _ => by simp [litAfterBegin, unwrapCap] at hb
  | .nwb _, _, _, _, _, _, _, _, _, hb, _ => by simp [litAfterBegin, unwrapCap] at hb
  | .star _ _, _, _, _, _, _, _, _, _, hb, _ => by simp [litAfterBegin, unwrapCap] at hb
  | .plus _ _, _, _, _, _, _, _, _, _, hb, _ => by simp [litAfterBegin, unwrapCap] at hb
  | .quest _ _, _, _, _, _, _, _, _, _, hb, _ => by simp [litAfterBegin, unwrapCap] at hb
  | .rep _ _ _ _, _, _, _, _, _, _, _, _, hb, _ => by simp [litAfterBegin, unwrapCap] at hb
  | .alt _ _, _, _, _, _, _, _, _, _, hb, _ => by simp [litAfterBegin, unwrapCap] at hb

end Coraza.Rx

namespace Coraza.Rx
open Coraza

theorem hasFoldList_append (xs ys : List Re) : hasFoldList (xs ++ ys) = (hasFoldList xs || hasFoldList ys) := by
  induction xs with
  | nil => simp [hasFoldList]
  | cons x xs ih => simp [hasFoldList, ih, Bool.or_assoc]

/-- with a kept literal right before \\z, the last required literal ends the input -/
theorem suffix_anchor : ∀ (re : Re) {ci : Bool} {s : Bytes} {i j : Nat} {v : List Bytes},
    (hasFold re = true → ci = true) → (ci = true → isAsciiBytes s = true) → M re s i j →
    litBeforeEnd ci re = true → allOf (extract ci re) = some v → EndsAt ci (v.getLastD []) s
  | .cap f r, ci, s, i, j, v, hfc, hasc, hm, hb, hex => by
      cases hm with
      | cap _ _ _ _ _ h =>
        exact suffix_anchor r (fun h' => hfc (by simp [hasFold, h'])) hasc h
          (by simpa [litBeforeEnd, unwrapCap] using hb) (by simpa [extract] using hex)
  | .cat f rs, ci, s, i, j, v, hfc, hasc, hm, hb, hex => by
      have hfl : hasFoldList rs = true → ci = true := fun h' => hfc (by simp [hasFold, h'])
      simp only [litBeforeEnd, unwrapCap] at hb
      cases hrev : rs.reverse with
      | nil => simp [hrev] at hb
      | cons e tl =>
        cases tl with
        | nil => rw [hrev] at hb; cases e <;> simp at hb
        | cons before pre' =>
          rw [hrev] at hb
          cases e with
          | eot fe =>
            simp only at hb
            obtain ⟨f2, rs2, l, rfl, hls, hext⟩ := keeps_lit hb
            have hrs : rs = pre'.reverse ++ [.lit f2 rs2, .eot fe] := by
              have := congrArg List.reverse hrev
              simp only [List.reverse_reverse, List.reverse_cons, List.append_assoc, List.singleton_append] at this
              exact this
            subst hrs
            rw [extract_cat] at hex
            cases hc : extractCat ci (pre'.reverse ++ [.lit f2 rs2, .eot fe]) {} with
            | unm => simp [hc, catFinish, allOf] at hex
            | nil => simp [hc, catFinish, allOf] at hex
            | some acc =>
              rw [hc] at hex
              have hv := catFinish_all hex
              rw [extractCat_append] at hc
              cases hpre : extractCat ci pre'.reverse {} with
              | unm => simp [hpre] at hc
              | nil => simp [hpre] at hc
              | some a0 =>
                simp only [hpre] at hc
                have hstep : extractCat ci [Re.lit f2 rs2, Re.eot fe] a0 = R.some { a0 with all := a0.all ++ [l] } := by
                  rw [extractCat, hext]
                  simp [catStep, extractCat, extract]
                rw [hstep] at hc
                simp only [R.some.injEq] at hc
                cases hm with
                | cat _ _ _ _ _ h =>
                  obtain ⟨k, _, h2⟩ := MCat_append h
                  cases h2 with
                  | cons _ _ _ _ k1 _ h3 h4 =>
                    cases h4 with
                    | cons _ _ _ _ k2 _ h5 h6 =>
                      obtain ⟨hk1, hk2⟩ := M_eot h5
                      have e := lit_exact h3 (fun hf' => hfl (by simp [hasFoldList_append, hasFoldList, hasFold, hf'])) hasc hls
                      rw [hv, ← hc]
                      simp only [List.getLastD_eq_getLast?, List.getLast?_append, List.getLast?_singleton,
                        Option.some_or, Option.getD_some]
                      refine ⟨by omega, ?_⟩
                      have hk : s.length - l.length = k := by omega
                      rw [hk, ← hk1]
                      exact e.2
          | _ => simp at hb
  | .nomatch _, _, _, _, _, _, _, _, _, hb, _ => by simp [litBeforeEnd, unwrapCap] at hb
  | .empty _, _, _, _, _, _, _, _, _, hb, _ => by simp [litBeforeEnd, unwrapCap] at hb
  | .lit _ _, _, _, _, _, _, _, _, _, hb, _ => by simp [litBeforeEnd, unwrapCap] at hb
  | .cc _ _, _, _, _, _, _, _, _, _, hb, _ => by simp [litBeforeEnd, unwrapCap] at hb
  | .anynl _, _, _, _, _, _, _, _, _, hb, _ => by simp [litBeforeEnd, unwrapCap] at hb
  | .any _, _, _, _, _, _, _, _, _, hb, _ => by simp [litBeforeEnd, unwrapCap] at hb
  | .bol _, _, _, _, _, _, _, _, _, hb, _ => by simp [litBeforeEnd, unwrapCap] at hb
  | .eol _, _, _, _, _, _, _, _, _, hb, _ => by simp [litBeforeEnd, unwrapCap] at hb
  | .bot _, _, _, _, _, _, _, _, _, hb, _ => by simp [litBeforeEnd, unwrapCap] at hb
  | .eot _, _, _, _, _, _, _, _, _, hb, _ => by simp [litBeforeEnd, unwrapCap] at hb
  | .wb _, _, _, _, _, _, _, _, _, hb, _ => by simp [litBeforeEnd, unwrapCap] at hb
  | .nwb _, _, _, _, _, _, _, _, _, hb, _ => by simp [litBeforeEnd, unwrapCap] at hb
  | .star _ _, _, _, _, _, _, _, _, _, hb, _ => by simp [litBeforeEnd, unwrapCap] at hb
  | .plus _ _, _, _, _, _, _, _, _, _, hb, _ => by simp [litBeforeEnd, unwrapCap] at hb
  | .quest _ _, _, _, _, _, _, _, _, _, hb, _ => by simp [litBeforeEnd, unwrapCap] at hb
  | .rep _ _ _ _, _, _, _, _, _, _, _, _, hb, _ => by simp [litBeforeEnd, unwrapCap] at hb
  | .alt _ _, _, _, _, _, _, _, _, _, hb, _ => by simp [litBeforeEnd, unwrapCap] at hb

end Coraza.Rx

namespace Coraza.Rx
open Coraza

/-! ## the prefilter as a whole -/

theorem extract_combined_short : ∀ (re : Re) {ci : Bool} {a y : List Bytes},
    extract ci re = .some (.combined a y) → anyTooShort y 2 = false
  | .cap f r, ci, a, y, h => by simp only [extract] at h; exact extract_combined_short r h
  | .plus f r, ci, a, y, h => by simp only [extract] at h; exact extract_combined_short r h
  | .rep f mn mx r, ci, a, y, h => by
      simp only [extract] at h
      split at h
      · exact extract_combined_short r h
      · cases h
  | .cat f rs, ci, a, y, h => by
      rw [extract_cat] at h
      unfold catFinish at h
      cases hc : extractCat ci rs {} with
      | unm => simp [hc] at h
      | nil => simp [hc] at h
      | some acc =>
        simp only [hc] at h
        split at h
        · cases hb : acc.bestAny with
          | none => simp [hb] at h
          | some b =>
            simp only [hb] at h
            split at h
            · rename_i hs
              simp only [R.some.injEq, Lits.combined.injEq] at h
              rw [← h.2]; simpa using hs
            · simp at h
        · cases htf : trieFor ci rs with
          | unm => simp [htf] at h
          | some t => simp [htf] at h
          | nil =>
            simp only [htf, fallbackAny] at h
            cases hb : acc.bestAny <;> simp [hb] at h
  | .lit f rs, ci, a, y, h => by
      simp only [extract] at h
      cases hl : litString rs ci with
      | unm => simp [hl] at h
      | nil => simp [hl] at h
      | some s' => simp only [hl] at h; split at h <;> simp at h
  | .alt f rs, ci, a, y, h => by
      simp only [extract] at h
      cases ha : extractAlt ci rs with
      | unm => simp [ha] at h
      | nil => simp [ha] at h
      | some ls => simp only [ha] at h; split at h <;> simp at h
  | .nomatch _, _, _, _, h => by simp [extract] at h
  | .empty _, _, _, _, h => by simp [extract] at h
  | .cc _ _, _, _, _, h => by simp [extract] at h
  | .anynl _, _, _, _, h => by simp [extract] at h
  | .any _, _, _, _, h => by simp [extract] at h
  | .bol _, _, _, _, h => by simp [extract] at h
  | .eol _, _, _, _, h => by simp [extract] at h
  | .bot _, _, _, _, h => by simp [extract] at h
  | .eot _, _, _, _, h => by simp [extract] at h
  | .wb _, _, _, _, h => by simp [extract] at h
  | .nwb _, _, _, _, h => by simp [extract] at h
  | .star _ _, _, _, _, h => by simp [extract] at h
  | .quest _ _, _, _, _, h => by simp [extract] at h

theorem anyTooShort_false {v : List Bytes} (h : anyTooShort v 2 = false) : ∀ n ∈ v, 2 ≤ n.length := by
  intro n hn
  unfold anyTooShort at h
  rw [List.any_eq_false] at h
  have := h n hn
  simpa using this

/-- the any-of part answers true when one of its needles occurs -/
theorem anyPart_sound {ci : Bool} {y : List Bytes} {s : Bytes} {a b : Nat} {pf : PF}
    (hb : buildAny y ci = some pf) (hshort : anyTooShort y 2 = false) (hbnd : b ≤ s.length)
    (hocc : ∃ l ∈ y, Occ ci l s a b) : pf.eval s = true := by
  obtain ⟨l, hl, ho⟩ := hocc
  unfold buildAny at hb
  split at hb
  · rename_i h1
    simp only [Option.some.injEq] at hb; subst hb
    have hy : y = [l] := by
      cases y with
      | nil => simp at hl
      | cons x xs =>
        simp at h1; subst h1
        simp at hl; subst hl; rfl
    subst hy
    simp only [PF.eval, List.headD_cons]
    cases ci with
    | true => simpa using Occ_containsFold ho hbnd
    | false => simpa using Occ_containsB ho hbnd
  · split at hb
    · simp only [Option.some.injEq] at hb; subst hb
      simp only [PF.eval]
      exact Occ_im hl ho hbnd (anyTooShort_false hshort)
    · cases hb

theorem allPart_sound {re : Re} {ci : Bool} {s : Bytes} {i j : Nat} {v : List Bytes} {pf : PF}
    (hfc : hasFold re = true → ci = true) (hasc : ci = true → isAsciiBytes s = true) (hm : M re s i j)
    (hall : allOf (extract ci re) = some v) (hocc : ∀ l ∈ v, Occ ci l s i j)
    (hb : allPF ci re v = some pf) : pf.eval s = true := by
  unfold allPF at hb
  split at hb
  · cases hb
  · rename_i hne
    have hj := (M_len hm).2
    have hvne : v ≠ [] := by
      intro e; subst e; simp [filterShort] at hne
    apply buildMulti_sound _ _ _ _ s pf hb
    · intro l hl
      exact ⟨i, j, hj, hocc l (filterShort_sub v 2 l hl)⟩
    · intro hp
      simp only [Bool.and_eq_true, decide_eq_true_eq] at hp
      rw [filterShort_head v 2 hp.2 hvne]
      exact (prefix_anchor re hfc hasc hm hp.1 hall).mono hj
    · intro hs
      simp only [Bool.and_eq_true, decide_eq_true_eq] at hs
      rw [filterShort_last v 2 hs.2 hvne]
      exact suffix_anchor re hfc hasc hm hs.1 hall

/-- the literal matcher answers true on every input the pattern matches (for ASCII input when the
    comparison is case-insensitive) -/
theorem innerPF_sound {re : Re} {ci : Bool} {s : Bytes} {i j : Nat} {lits : Lits} {pf : PF}
    (hfc : hasFold re = true → ci = true) (hasc : ci = true → isAsciiBytes s = true) (hm : M re s i j)
    (hx : extract ci re = .some lits) (hb : innerPF ci re lits = some pf) : pf.eval s = true := by
  have hsound := extract_sound re hfc hasc hm hx
  have hj := (M_len hm).2
  cases lits with
  | all v =>
    simp only [innerPF] at hb
    exact allPart_sound hfc hasc hm (by simp [hx, allOf]) hsound hb
  | any v =>
    simp only [innerPF] at hb
    split at hb
    · cases hb
    · rename_i hshort
      have hshort' : anyTooShort v 2 = false := by simpa using hshort
      split at hb
      · exact anyPart_sound hb hshort' hj hsound
      · split at hb
        · cases hb
        · exact anyPart_sound hb hshort' hj hsound
  | combined a y =>
    have hshort := extract_combined_short re hx
    obtain ⟨hsa, hsy⟩ := hsound
    have hall : ∀ o, allPF ci re a = some o → o.eval s = true :=
      fun o ho => allPart_sound hfc hasc hm (by simp [hx, allOf]) hsa ho
    simp only [innerPF] at hb
    split at hb
    · exact hall pf hb
    · cases hba : buildAny y ci with
      | none => simp only [hba] at hb; exact hall pf hb
      | some anyPF =>
        simp only [hba] at hb
        have hany := anyPart_sound hba hshort hj hsy
        cases hap : allPF ci re a with
        | none => simp only [hap, Option.some.injEq] at hb; subst hb; exact hany
        | some o =>
          simp only [hap, Option.some.injEq] at hb; subst hb
          simp [PF.eval, hall o hap, hany]

/-- C11_prefilter_sound: whenever the pattern matches somewhere in the input, the prefilter built
    for it answers "maybe" — it never rejects an input the regex matches -/
theorem prefilter_sound (re : Re) (p : Prefilter) (s : Bytes) (hp : prefilterOf re = .some p)
    (hfound : Found re s) : p.eval s = true := by
  obtain ⟨i, j, hm⟩ := hfound
  have hlen := M_len hm
  have hmin : minLen re ≤ s.length := by omega
  unfold prefilterOf at hp
  simp only at hp
  cases hx : extract (hasFold re) re with
  | unm => simp [hx] at hp
  | nil =>
    simp only [hx] at hp
    split at hp
    · simp only [R.some.injEq] at hp; subst hp
      simp [Prefilter.eval, PF.eval, hmin]
    · cases hp
  | some lits =>
    simp only [hx] at hp
    cases hin : innerPF (hasFold re) re lits with
    | none => simp [hin] at hp
    | some inner =>
      simp only [hin, R.some.injEq] at hp
      subst hp
      unfold Prefilter.eval
      simp only
      by_cases hasc' : isAsciiBytes s = true
      · have := innerPF_sound (ci := hasFold re) (fun h => h) (fun _ => hasc') hm hx hin
        simp [hasc', this, hmin]
      · cases hci : hasFold re with
        | true => simp [hasc']
        | false =>
          rw [hci] at hx hin
          have := innerPF_sound (ci := false) (by intro h; rw [hci] at h; exact h) (by intro h; cases h) hm hx hin
          simp [this, hmin]

end Coraza.Rx
