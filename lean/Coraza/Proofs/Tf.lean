/-
  Helper lemmas for the C14 theorems (transformations).
-/
import Coraza.Base.UInt8
import Coraza.Model.Transformations
namespace Coraza.Tf
open Coraza

/-! ### per-byte facts, checked over all 256 bytes by kernel evaluation -/

theorem hexpair (b : UInt8) :
    fromHexChar (c2x (b >>> 4)) = some (b >>> 4) ∧
    fromHexChar (c2x (b &&& 0x0f)) = some (b &&& 0x0f) ∧
    (b >>> 4) * 16 + (b &&& 0x0f) = b := by
  revert b; apply UInt8.forall_of_fin; decide +kernel

theorem pct_byte (b : UInt8) :
    validHex (c2x (b >>> 4)) = true ∧ validHex (c2x (b &&& 0x0f)) = true ∧
    x2c (c2x (b >>> 4)) (c2x (b &&& 0x0f)) = b := by
  revert b; apply UInt8.forall_of_fin; decide +kernel

theorem urlSafe_plain (b : UInt8) : urlSafe b = true → (b == 0x25) = false ∧ (b == 0x2b) = false ∧ (b == 0x20) = false := by
  revert b; apply UInt8.forall_of_fin; decide +kernel

/-! ### hex -/

theorem hexDecode_hexEncode_bytes (x : Bytes) : hexDecodeBytes (hexEncodeBytes x) = some x := by
  induction x with
  | nil => rfl
  | cons b tl ih =>
    obtain ⟨h1, h2, h3⟩ := hexpair b
    simp [hexEncodeBytes, hexDecodeBytes, h1, h2, h3, ih]

/-! ### url -/

theorem doURLDecode_cons_plain (b : UInt8) (tl : Bytes) (h1 : (b == 37) = false) :
    doURLDecode (b :: tl) = (if b == 0x2b then 0x20 else b) :: doURLDecode tl := by
  rw [doURLDecode.eq_def]; simp only [h1]
  split
  · contradiction
  · split <;> simp_all

theorem doURLDecode_pct (c1 c2 : UInt8) (tl : Bytes) (h1 : validHex c1 = true) (h2 : validHex c2 = true) :
    doURLDecode (0x25 :: c1 :: c2 :: tl) = x2c c1 c2 :: doURLDecode tl := by
  rw [doURLDecode]; simp [h1, h2]

theorem doURLDecode_urlEncodeBytes (x : Bytes) : doURLDecode (urlEncodeBytes x) = x := by
  induction x with
  | nil => rfl
  | cons b tl ih =>
    unfold urlEncodeBytes
    by_cases hsp : (b == 0x20) = true
    · simp only [hsp, if_true]
      have : b = 0x20 := by simpa using hsp
      subst this
      rw [doURLDecode_cons_plain _ _ (by decide)]; simp [ih]
    · have hsp' : (b == 0x20) = false := by simpa using hsp
      by_cases hs : urlSafe b = true
      · obtain ⟨h1, h2, _⟩ := urlSafe_plain b hs
        simp only [hsp', hs, Bool.false_eq_true, if_false, if_true]
        rw [doURLDecode_cons_plain _ _ h1]; simp [h2, ih]
      · obtain ⟨h1, h2, h3⟩ := pct_byte b
        have hs' : urlSafe b = false := by simpa using hs
        simp only [hsp', hs', Bool.false_eq_true, if_false]
        rw [doURLDecode_pct _ _ _ h1 h2, h3, ih]

theorem urlEncodeBytes_id_of_safe (x : Bytes)
    (h : x.any (fun cc => cc == 0x20 || !urlSafe cc) = false) : urlEncodeBytes x = x := by
  induction x with
  | nil => rfl
  | cons b tl ih =>
    simp only [List.any_cons, Bool.or_eq_false_iff] at h
    obtain ⟨⟨h1, h2⟩, h3⟩ := h
    have hs : urlSafe b = true := by simpa using h2
    simp [urlEncodeBytes, h1, hs, ih h3]

/-! ### filter / dropWhile length facts -/

theorem filter_eq_self_of_length {α} (p : α → Bool) (x : List α)
    (h : (x.filter p).length = x.length) : x.filter p = x :=
  List.filter_eq_self.mpr (List.length_filter_eq_length_iff.mp h)

theorem dropWhile_eq_self_of_length {α} (p : α → Bool) (x : List α)
    (h : (x.dropWhile p).length = x.length) : x.dropWhile p = x := by
  cases x with
  | nil => rfl
  | cons a tl =>
    by_cases hp : p a = true
    · have hle : (tl.dropWhile p).length ≤ tl.length := by
        have := List.dropWhile_sublist p (l := tl)
        exact this.length_le
      simp [hp] at h
      omega
    · simp [hp]

theorem dropWhile_length_le {α} (p : α → Bool) (x : List α) : (x.dropWhile p).length ≤ x.length :=
  (List.dropWhile_sublist p).length_le

theorem dropWhile_idem {α} (p : α → Bool) (x : List α) : (x.dropWhile p).dropWhile p = x.dropWhile p := by
  induction x with
  | nil => rfl
  | cons a tl ih =>
    by_cases hp : p a = true
    · simp [hp, ih]
    · simp [hp]

end Coraza.Tf
