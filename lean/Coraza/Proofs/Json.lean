/-
  Completeness of the JSON flattening (Model/Json.lean): within the recursion limit no error is
  raised and every scalar of the document is exposed under its path — for every document.
-/
import Coraza.Model.Json
namespace Coraza.Json
open Coraza Coraza.Engine

mutual
def height : J → Nat
  | .arr xs => heightL xs + 1
  | .obj kvs => heightM kvs + 1
  | _ => 0
def heightL : List J → Nat
  | [] => 0
  | x :: xs => max (height x) (heightL xs)
def heightM : List (Bytes × J) → Nat
  | [] => 0
  | (_, x) :: kvs => max (height x) (heightM kvs)
end

theorem scalar_height (t : J) (v : Bytes) (h : scalarText t = some v) : height t = 0 := by
  cases t <;> simp_all [scalarText, height]

mutual
/-- within the limit, readItems raises no "max recursion" error -/
theorem flatC_noerr : ∀ (t : J) (d : Nat) (key : Bytes), scalarText t = none → height t ≤ d → (flatC d t key).2 = false
  | .arr xs, 0, _, _, h => by simp [height] at h
  | .obj kvs, 0, _, _, h => by simp [height] at h
  | .arr xs, d + 1, key, _, h => by
    have := flatArr_noerr xs d key 0 (by simp [height] at h; omega)
    simp only [flatC]
    exact this
  | .obj kvs, d + 1, key, _, h => by
    have := flatObj_noerr kvs d key (by simp [height] at h; omega)
    simp only [flatC]
    exact this
  | .null, _, _, hs, _ => by simp [scalarText] at hs
  | .tru, _, _, hs, _ => by simp [scalarText] at hs
  | .fls, _, _, hs, _ => by simp [scalarText] at hs
  | .num _, _, _, hs, _ => by simp [scalarText] at hs
  | .str _, _, _, hs, _ => by simp [scalarText] at hs

theorem flatArr_noerr : ∀ (xs : List J) (d : Nat) (key : Bytes) (i : Nat), heightL xs ≤ d → (flatArr d xs key i).2.2.1 = false
  | [], _, _, _, _ => by simp [flatArr]
  | x :: xs, d, key, i, h => by
    have hx : height x ≤ d := by simp [heightL] at h; omega
    have hxs : heightL xs ≤ d := by simp [heightL] at h; omega
    have ih := flatArr_noerr xs d key (i + 1) hxs
    unfold flatArr
    cases hs : scalarText x with
    | some v => simp only; exact ih
    | none =>
      have hc := flatC_noerr x d (key ++ [dot] ++ natToBytes i) hs hx
      simp only [hc, Bool.false_eq_true, if_false]
      exact ih

theorem flatObj_noerr : ∀ (kvs : List (Bytes × J)) (d : Nat) (key : Bytes), heightM kvs ≤ d → (flatObj d kvs key).2 = false
  | [], _, _, _ => by simp [flatObj]
  | (name, x) :: kvs, d, key, h => by
    have hx : height x ≤ d := by simp [heightM] at h; omega
    have hxs : heightM kvs ≤ d := by simp [heightM] at h; omega
    have ih := flatObj_noerr kvs d key hxs
    unfold flatObj
    cases hs : scalarText x with
    | some v => simp only; exact ih
    | none =>
      have hc := flatC_noerr x d (key ++ [dot] ++ name) hs hx
      simp only [hc, Bool.false_eq_true, if_false]
      exact ih
end

/-- what one element contributes: a scalar its (name, text) pair, a container its own items -/
def itemsOf (d : Nat) (x : J) (k : Bytes) : List (Bytes × Bytes) :=
  match scalarText x with
  | some v => [(k, v)]
  | none => (flatC d x k).1

/-- every element of an array contributes all its items, under its index -/
theorem flatArr_mem (d : Nat) (key : Bytes) (xs : List J) (j i : Nat) (x : J)
    (hx : xs[i]? = some x) (hh : heightL xs ≤ d) :
    ∀ e ∈ itemsOf d x (key ++ [dot] ++ natToBytes (j + i)), e ∈ (flatArr d xs key j).1 := by
  induction xs generalizing j i with
  | nil => simp at hx
  | cons y ys ih =>
    have hy : height y ≤ d := by simp [heightL] at hh; omega
    have hys : heightL ys ≤ d := by simp [heightL] at hh; omega
    intro e he
    unfold flatArr
    cases i with
    | zero =>
      simp only [List.getElem?_cons_zero, Option.some.injEq] at hx
      subst hx
      simp only [Nat.add_zero] at he
      unfold itemsOf at he
      cases hs : scalarText y with
      | some v => simp only [hs] at he ⊢; simp_all
      | none =>
        simp only [hs] at he ⊢
        have hc := flatC_noerr y d (key ++ [dot] ++ natToBytes j) hs hy
        simp only [hc, Bool.false_eq_true, if_false]
        exact List.mem_append_left _ he
    | succ i' =>
      simp only [List.getElem?_cons_succ] at hx
      have := ih (j + 1) i' hx hys e (by simpa [Nat.add_assoc, Nat.add_comm 1 i'] using he)
      cases hs : scalarText y with
      | some v => simp only; exact List.mem_cons_of_mem _ this
      | none =>
        have hc := flatC_noerr y d (key ++ [dot] ++ natToBytes j) hs hy
        simp only [hc, Bool.false_eq_true, if_false]
        exact List.mem_append_right _ this

/-- every member of an object contributes all its items, under its name (duplicates included) -/
theorem flatObj_mem (d : Nat) (key : Bytes) (kvs : List (Bytes × J)) (name : Bytes) (x : J)
    (hx : (name, x) ∈ kvs) (hh : heightM kvs ≤ d) :
    ∀ e ∈ itemsOf d x (key ++ [dot] ++ name), e ∈ (flatObj d kvs key).1 := by
  induction kvs with
  | nil => simp at hx
  | cons kv rest ih =>
    obtain ⟨n0, y⟩ := kv
    have hy : height y ≤ d := by simp [heightM] at hh; omega
    have hys : heightM rest ≤ d := by simp [heightM] at hh; omega
    intro e he
    unfold flatObj
    rcases List.mem_cons.mp hx with heq | hin
    · simp only [Prod.mk.injEq] at heq
      obtain ⟨rfl, rfl⟩ := heq
      unfold itemsOf at he
      cases hs : scalarText x with
      | some v => simp only [hs] at he ⊢; simp_all
      | none =>
        simp only [hs] at he ⊢
        have hc := flatC_noerr x d (key ++ [dot] ++ name) hs hy
        simp only [hc, Bool.false_eq_true, if_false]
        exact List.mem_append_left _ he
    · have := ih hin hys e he
      cases hs : scalarText y with
      | some v => simp only; exact List.mem_cons_of_mem _ this
      | none =>
        have hc := flatC_noerr y d (key ++ [dot] ++ n0) hs hy
        simp only [hc, Bool.false_eq_true, if_false]
        exact List.mem_append_right _ this

/-- a step of a path into a document -/
inductive Seg | idx (i : Nat) | name (n : Bytes)

def segBytes : Seg → Bytes
  | .idx i => natToBytes i
  | .name n => n

/-- the flattened name of a path below `key`: key.seg1.seg2… -/
def pathKey (key : Bytes) : List Seg → Bytes
  | [] => key
  | s :: p => pathKey (key ++ [dot] ++ segBytes s) p

/-- `Leaf t p v`: following path p in document t leads to a scalar exposed as text v -/
inductive Leaf : J → List Seg → Bytes → Prop
  | here (x v) : scalarText x = some v → Leaf x [] v
  | arr (xs i x p v) : xs[i]? = some x → Leaf x p v → Leaf (.arr xs) (.idx i :: p) v
  | obj (kvs name x p v) : (name, x) ∈ kvs → Leaf x p v → Leaf (.obj kvs) (.name name :: p) v

theorem heightL_get (xs : List J) (i : Nat) (x : J) (h : xs[i]? = some x) : height x ≤ heightL xs := by
  induction xs generalizing i with
  | nil => simp at h
  | cons y ys ih =>
    cases i with
    | zero => simp at h; subst h; simp [heightL]; omega
    | succ i' => simp at h; have := ih i' h; simp [heightL]; omega

theorem heightM_mem (kvs : List (Bytes × J)) (n : Bytes) (x : J) (h : (n, x) ∈ kvs) : height x ≤ heightM kvs := by
  induction kvs with
  | nil => simp at h
  | cons kv rest ih =>
    obtain ⟨n0, y⟩ := kv
    rcases List.mem_cons.mp h with heq | hin
    · simp only [Prod.mk.injEq] at heq; obtain ⟨rfl, rfl⟩ := heq; simp [heightM]; omega
    · have := ih hin; simp [heightM]; omega

/-- items of a (sub)document under key k: the leaf's pair is among them -/
theorem leaf_items {t : J} {p : List Seg} {v : Bytes} (h : Leaf t p v) :
    ∀ (d : Nat) (k : Bytes), height t ≤ d → (pathKey k p, v) ∈ itemsOf d t k := by
  induction h with
  | here x v hs => intro d k _; simp [itemsOf, hs, pathKey]
  | arr xs i x p v hx _ ih =>
    intro d k hh
    have hd : 0 < d := by simp [height] at hh; omega
    obtain ⟨d', rfl⟩ : ∃ d', d = d' + 1 := ⟨d - 1, by omega⟩
    have hl : heightL xs ≤ d' := by simp [height] at hh; omega
    have hxh : height x ≤ d' := Nat.le_trans (heightL_get xs i x hx) hl
    have hin := flatArr_mem d' k xs 0 i x hx hl _ (by simpa [pathKey, segBytes] using ih d' (k ++ [dot] ++ natToBytes (0 + i)) hxh)
    simp only [itemsOf, scalarText, flatC, pathKey, segBytes]
    split
    · exact List.mem_append_left _ (by simpa using hin)
    · simpa using hin
  | obj kvs name x p v hx _ ih =>
    intro d k hh
    have hd : 0 < d := by simp [height] at hh; omega
    obtain ⟨d', rfl⟩ : ∃ d', d = d' + 1 := ⟨d - 1, by omega⟩
    have hl : heightM kvs ≤ d' := by simp [height] at hh; omega
    have hxh : height x ≤ d' := Nat.le_trans (heightM_mem kvs name x hx) hl
    have hin := flatObj_mem d' k kvs name x hx hl _ (by simpa [pathKey, segBytes] using ih d' (k ++ [dot] ++ name) hxh)
    simp only [itemsOf, scalarText, flatC, pathKey, segBytes]
    simpa using hin

end Coraza.Json
