/- Helper lemmas for C10 (body buffering). -/
import Coraza.Model.Body
namespace Coraza.Body
open Coraza

/-- representation invariant of BodyBuffer -/
structure BB.Inv (b : BB) : Prop where
  len : b.length = b.content.length
  le : b.length ≤ b.limit
  spilled : ∀ f, b.file = some f → b.mem = [] ∧ b.length > b.memLimit

theorem BB.write_ok (b : BB) (d : Bytes) (hi : b.Inv) (hle : b.length + d.length ≤ b.limit) :
    ∃ b', b.write d = some b' ∧ b'.content = b.content ++ d ∧ b'.length = b.length + d.length ∧
      b'.limit = b.limit ∧ b'.memLimit = b.memLimit ∧ b'.Inv := by
  unfold BB.write
  by_cases hd : d.isEmpty = true
  · have : d = [] := List.isEmpty_iff.mp hd
    subst this
    exact ⟨b, by simp, by simp, by simp, rfl, rfl, hi⟩
  · have hd' : d.isEmpty = false := by simpa using hd
    have hnl : ¬ (b.length + d.length > b.limit) := by omega
    simp only [hd', Bool.false_eq_true, if_false, hnl]
    by_cases ht : b.length + d.length > b.memLimit
    · simp only [ht, if_true]
      cases hf : b.file with
      | none =>
        refine ⟨_, rfl, ?_, rfl, rfl, rfl, ?_⟩
        · simp [BB.content, hf]
        · constructor
          · have := hi.len; simp [BB.content, hf] at this ⊢; omega
          · simpa using hle
          · intro f hf'; simp at hf'; exact ⟨rfl, by simpa using ht⟩
      | some f =>
        refine ⟨_, rfl, ?_, rfl, rfl, rfl, ?_⟩
        · simp [BB.content, hf]
        · constructor
          · have := hi.len; simp [BB.content, hf] at this ⊢; omega
          · simpa using hle
          · intro f' hf'
            have := hi.spilled f hf
            exact ⟨this.1, by simpa using ht⟩
    · simp only [ht, if_false]
      -- memory branch: no file can exist (else length > memLimit already)
      have hnf : b.file = none := by
        cases hf : b.file with
        | none => rfl
        | some f => have := (hi.spilled f hf).2; omega
      refine ⟨_, rfl, ?_, rfl, rfl, rfl, ?_⟩
      · simp [BB.content, hnf]
      · constructor
        · have := hi.len; simp [BB.content, hnf] at this ⊢; omega
        · simpa using hle
        · intro f hf'; simp [hnf] at hf'

theorem readLoop_eq (c : Bytes) (pos : Nat) (ps : List Nat) (hp : ∀ p ∈ ps, 0 < p) :
    readLoop c pos ps = (c.drop pos).take ps.sum := by
  induction ps generalizing pos with
  | nil => simp [readLoop]
  | cons p ps ih =>
    have hp0 : 0 < p := hp p (by simp)
    have ih' := fun pos => ih pos (fun q hq => hp q (by simp [hq]))
    simp only [readLoop, readAt, List.sum_cons]
    by_cases he : ((c.drop pos).take p).isEmpty = true
    · simp only [he, if_true]
      have h0 : (c.drop pos).take p = [] := List.isEmpty_iff.mp he
      have : c.drop pos = [] := by
        cases hcd : c.drop pos with
        | nil => rfl
        | cons x xs => rw [hcd] at h0; cases p with
          | zero => omega
          | succ n => simp at h0
      simp [this]
    · have he' : ((c.drop pos).take p).isEmpty = false := by simpa using he
      simp only [he', Bool.false_eq_true, if_false]
      rw [ih']
      have hl : ((c.drop pos).take p).length = min p (c.drop pos).length := by simp
      rw [List.take_add]
      congr 1
      rw [hl, List.drop_drop]
      by_cases hpl : p ≤ (c.drop pos).length
      · rw [Nat.min_eq_left hpl, Nat.add_comm]
      · have hlt : (c.drop pos).length < p := by omega
        rw [Nat.min_eq_right (by omega)]
        have hcl : (c.drop pos).length = c.length - pos := by simp
        have e1 : List.drop (pos + (c.drop pos).length) c = [] := by
          apply List.drop_eq_nil_of_le; omega
        have e2 : List.drop (pos + p) c = [] := by
          apply List.drop_eq_nil_of_le; omega
        rw [e1, e2]

end Coraza.Body
