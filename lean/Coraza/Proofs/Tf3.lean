/-
  Helper lemmas for the C14 theorems about Model/Transformations3.lean (base64) and the
  whitespace idempotence identities.
-/
import Coraza.Model.Transformations3
namespace Coraza.Tf
open Coraza

theorem shl6_or (a d : Nat) (h : d < 64) : (a <<< 6) ||| d = a * 64 + d := by
  rw [← Nat.shiftLeft_add_eq_or_of_lt (by simpa using h), Nat.shiftLeft_eq]

/-- every character of the standard alphabet is accepted by both decoders and maps back to its index -/
theorem b64Char_ok : ∀ i, i < 64 →
    (b64Char i != 0x0d && b64Char i != 0x0a && b64Char i != 0x3d && b64Char i != 0x20 && b64Char i ≤ 127
      && b64DecMap (b64Char i) != 127 && ((b64DecMap (b64Char i)) &&& 0x3f).toNat == i
      && !isLatin1Space (b64Char i) && b64Char i != 0x2e && b64Char i != 0x2d && b64Char i != 0x5f) = true := by
  decide

theorem ofNat_eq (k : Nat) (b : UInt8) (h : k % 256 = b.toNat) : UInt8.ofNat k = b := by
  apply UInt8.toNat_inj.mp
  simp [UInt8.toNat_ofNat', h]

/-- one alphabet character consumed by the decoding loop (strict and forgiving alike) -/
theorem b64Dec_step (ext : Bool) (i : Nat) (hi : i < 64) (tl : Bytes) (n x : Nat) :
    b64Dec ext (b64Char i :: tl) n x =
      (if n + 1 == 4 then
          UInt8.ofNat ((x * 64 + i) >>> 16) :: UInt8.ofNat ((x * 64 + i) >>> 8) :: UInt8.ofNat (x * 64 + i) :: b64Dec ext tl 0 0
        else b64Dec ext tl (n + 1) (x * 64 + i)) := by
  have h := b64Char_ok i hi
  simp only [Bool.and_eq_true, bne_iff_ne, ne_eq, beq_iff_eq, decide_eq_true_eq, Bool.not_eq_true'] at h
  obtain ⟨⟨⟨⟨⟨⟨⟨⟨⟨⟨h1, h2⟩, h3⟩, h4⟩, h5⟩, h6⟩, h7⟩, h8⟩, h9⟩, h10⟩, h11⟩ := h
  rw [b64Dec]
  simp [h1, h2, h3, h4, h5, h6, h7, h8, h9, h10, h11, shl6_or _ _ hi]

theorem b64Dec_encode (ext : Bool) (x : Bytes) : b64Dec ext (base64EncodeBytes x) 0 0 = x := by
  fun_induction base64EncodeBytes x with
  | case1 b0 b1 b2 tl n ih =>
    have h0 := b0.toNat_lt; have h1 := b1.toNat_lt; have h2 := b2.toNat_lt
    have hn : n = b0.toNat * 65536 + b1.toNat * 256 + b2.toNat := rfl
    rw [b64Dec_step _ _ (by omega), if_neg (by decide), b64Dec_step _ _ (by omega), if_neg (by decide),
        b64Dec_step _ _ (by omega), if_neg (by decide), b64Dec_step _ _ (by omega), if_pos (by decide), ih]
    simp only [Nat.shiftRight_eq_div_pow]
    congr 1
    · exact ofNat_eq _ _ (by omega)
    · congr 1
      · exact ofNat_eq _ _ (by omega)
      · congr 1
        exact ofNat_eq _ _ (by omega)
  | case2 b0 b1 n =>
    have h0 := b0.toNat_lt; have h1 := b1.toNat_lt
    have hn : n = b0.toNat * 65536 + b1.toNat * 256 := rfl
    rw [b64Dec_step _ _ (by omega), if_neg (by decide), b64Dec_step _ _ (by omega), if_neg (by decide),
        b64Dec_step _ _ (by omega), if_neg (by decide)]
    cases ext <;>
    · simp only [b64Dec, b64Tail, Nat.shiftRight_eq_div_pow, Nat.shiftLeft_eq]
      simp [isLatin1Space, isAsciiSpace]
      exact ⟨ofNat_eq _ _ (by omega), ofNat_eq _ _ (by omega)⟩
  | case3 b0 n =>
    have h0 := b0.toNat_lt
    have hn : n = b0.toNat * 65536 := rfl
    rw [b64Dec_step _ _ (by omega), if_neg (by decide), b64Dec_step _ _ (by omega), if_neg (by decide)]
    cases ext <;>
    · simp only [b64Dec, b64Tail, Nat.shiftRight_eq_div_pow, Nat.shiftLeft_eq]
      simp [isLatin1Space, isAsciiSpace]
      exact ofNat_eq _ _ (by omega)
  | case4 => simp [b64Dec, b64Tail]

/-- the two halves of the idempotence of compressWhitespace: the output has no whitespace run left -/
theorem compressWsAux_fix (x : Bytes) :
    (∀ b, (compressWsAux (compressWsAux x true).1 b).1 = (compressWsAux x true).1) ∧
    (compressWsAux (compressWsAux x false).1 false).1 = (compressWsAux x false).1 := by
  induction x with
  | nil => simp [compressWsAux]
  | cons c tl ih =>
    obtain ⟨ih1, ih2⟩ := ih
    by_cases hc : isAsciiSpace c = true
    · constructor
      · intro b
        have : (compressWsAux (c :: tl) true).1 = (compressWsAux tl true).1 := by simp [compressWsAux, hc]
        rw [this]; exact ih1 b
      · have : (compressWsAux (c :: tl) false).1 = 0x20 :: (compressWsAux tl true).1 := by simp [compressWsAux, hc]
        rw [this]
        have hs : isAsciiSpace 0x20 = true := by decide
        simp [compressWsAux, hs, ih1 true]
    · have hc' : isAsciiSpace c = false := by simpa using hc
      have e : ∀ s, (compressWsAux (c :: tl) s).1 = c :: (compressWsAux tl false).1 := by
        intro s; simp [compressWsAux, hc']
      constructor
      · intro b; rw [e true]; simp [compressWsAux, hc', ih2]
      · rw [e false]; simp [compressWsAux, hc', ih2]

theorem dropWhile_snoc_false {α} (p : α → Bool) (l : List α) (h : α) (hp : p h = false) :
    (l ++ [h]).dropWhile p = l.dropWhile p ++ [h] := by
  induction l with
  | nil => simp [List.dropWhile, hp]
  | cons a t ih =>
    by_cases ha : p a = true
    · simp [List.dropWhile, ha, ih]
    · simp [List.dropWhile, ha]

theorem trimRightBytes_cons (h : UInt8) (t : Bytes) (hp : isTrimSpace h = false) :
    trimRightBytes (h :: t) = h :: trimRightBytes t := by
  simp [trimRightBytes, dropWhile_snoc_false _ _ _ hp]

end Coraza.Tf
