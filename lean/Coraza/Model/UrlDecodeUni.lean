/-
  internal/transformations/url_decode_uni.go: urlDecodeUni / inplaceUniDecode.
  The best-fit table is not written here: it is regenerated from the Go source on every run
  (tools/gen_lean_tables.py → Coraza/Model/Generated/BestFit.lean).
-/
import Coraza.Model.Transformations
import Coraza.Model.Generated.BestFit
namespace Coraza.Tf
open Coraza

/-- url_decode_uni.go:29 hexNibble -/
def hexNib (b : UInt8) : Option Nat :=
  if 48 ≤ b && b ≤ 57 then some (b.toNat - 48)
  else if 97 ≤ b && b ≤ 102 then some (b.toNat - 87)
  else if 65 ≤ b && b ≤ 70 then some (b.toNat - 55)
  else Option.none

def bestFit (code : Nat) : Option UInt8 := (bestFitTable.find? (·.1 == code)).map (·.2)

/-- the byte a valid `%uXXXX` stands for (:108-125): best-fit table, else the low byte, with 0x20
    added for full-width ASCII (ff01-ff5e) -/
def uniByte (h2 h3 h4 h5 : Nat) : UInt8 :=
  match bestFit (h2 * 4096 + h3 * 256 + h4 * 16 + h5) with
  | some b => b
  | Option.none =>
    let low := h4 * 16 + h5
    UInt8.ofNat (if 0 < low && low < 0x5f && h2 == 15 && h3 == 15 then low + 0x20 else low)

/-- url_decode_uni.go:46 inplaceUniDecode, started at offset 0 (the prefix before the first '%'/'+'
    holds neither, so decoding from 0 copies it): output and "something was decoded".
    `fuel` bounds the number of loop iterations (one per consumed escape or byte). -/
def uniDecodeF : Nat → Bytes → Bytes × Bool
  | 0, _ => ([], false)
  | _, [] => ([], false)
  | f + 1, b :: tl =>
    if b == 0x2b then
      let (o, _) := uniDecodeF f tl
      (0x20 :: o, true)
    else if b != 0x25 then
      let (o, c) := uniDecodeF f tl
      (b :: o, c)
    else
      -- '%'
      match tl with
      | u :: rest =>
        if u == 0x75 || u == 0x55 then
          -- %u / %U : IIS encoding, needs four hex digits
          match rest with
          | a :: b2 :: c2 :: d :: rest4 =>
            match hexNib a, hexNib b2, hexNib c2, hexNib d with
            | some h2, some h3, some h4, some h5 =>
              let (o, _) := uniDecodeF f rest4
              (uniByte h2 h3 h4 h5 :: o, true)
            | _, _, _, _ =>
              -- invalid: "%u" copied, scanning goes on after it
              let (o, c) := uniDecodeF f rest
              (b :: u :: o, c)
          | _ =>
            -- truncated: "%u" copied, scanning goes on after it
            let (o, c) := uniDecodeF f rest
            (b :: u :: o, c)
        else
          match rest with
          | v :: rest2 =>
            match hexNib u, hexNib v with
            | some h1, some h2 =>
              let (o, _) := uniDecodeF f rest2
              (UInt8.ofNat (h1 * 16 + h2) :: o, true)
            | _, _ =>
              -- not an escape: the '%' is copied
              let (o, c) := uniDecodeF f tl
              (b :: o, c)
          | [] =>
            let (o, c) := uniDecodeF f tl
            (b :: o, c)
      | [] => ([b], false)

def uniDecode (x : Bytes) : Bytes × Bool := uniDecodeF (x.length + 1) x

/-- url_decode_uni.go:10 urlDecodeUni -/
def urlDecodeUni (x : Bytes) : Res :=
  if x.any (fun b => b == 0x25 || b == 0x2b) then
    let (o, c) := uniDecode x
    ⟨o, c, false⟩
  else ⟨x, false, false⟩

end Coraza.Tf
