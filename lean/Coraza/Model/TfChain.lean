/-
  rule.go:721 executeTransformationsMultimatch and rule.go:740 executeTransformations,
  generic in the transformation functions (so the theorems cover plugins too).
-/
import Coraza.Model.Transformations
namespace Coraza.Tf

abbrev T := Bytes → Res

/-- rule.go:740: on error the value is kept, otherwise replaced (flag ignored). -/
def execTfs : List T → Bytes → Bytes
  | [], v => v
  | t :: ts, v => let r := t v; execTfs ts (if r.err then v else r.out)

/-- rule.go:721: collects the original and every value whose step reported a change;
    note that `value` advances only when `changed` (second component = running value). -/
def execMultiAux : List T → Bytes → List Bytes
  | [], _ => []
  | t :: ts, v =>
    let r := t v
    if r.err then execMultiAux ts v
    else if r.changed then r.out :: execMultiAux ts r.out
    else execMultiAux ts v

def execMulti (ts : List T) (v : Bytes) : List Bytes := v :: execMultiAux ts v

/-- the change report of `t` is sound: "unchanged" only if output = input -/
def FlagSound (t : T) : Prop := ∀ x, (t x).err = false → (t x).changed = false → (t x).out = x

end Coraza.Tf
