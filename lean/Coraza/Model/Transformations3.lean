/-
  More executable models of internal/transformations/*.go (C14): escapeSeqDecode, cssDecode,
  removeComments, replaceComments, base64Encode (the standard encoding: the specification side of
  the round trip), base64Decode, base64DecodeExt.
-/
import Coraza.Model.Transformations2
namespace Coraza.Tf
open Coraza

/-! ## escapeSeqDecode (escape_seq_decode.go) -/

/-- the single-character escapes (:38-63) -/
def escSimple (e : UInt8) : Option UInt8 :=
  if e == 0x61 then some 7 else if e == 0x62 then some 8 else if e == 0x66 then some 12
  else if e == 0x6e then some 10 else if e == 0x72 then some 13 else if e == 0x74 then some 9
  else if e == 0x76 then some 11 else if e == 0x5c then some 0x5c else if e == 0x3f then some 0x3f
  else if e == 0x27 then some 0x27 else if e == 0x22 then some 0x22 else Option.none

/-- `strconv.ParseUint(digits, 8, 8)`: the value, or 255 when it does not fit a byte (:89) -/
def octByte (digits : Bytes) : UInt8 :=
  let v := digits.foldl (fun acc d => acc * 8 + (d.toNat - 48)) 0
  UInt8.ofNat (if v > 255 then 255 else v)

/-- what follows a backslash that is not a single-character escape: `\xHH`, up to three octal
    digits, else the byte itself (:74-101); the decoded byte and the rest -/
def escOther (e : UInt8) (rest : Bytes) : UInt8 × Bytes :=
  let hex : Option (UInt8 × Bytes) :=
    if e == 0x78 || e == 0x58 then
      match rest with
      | h1 :: h2 :: r2 => if validHex h1 && validHex h2 then some (x2c h1 h2, r2) else Option.none
      | _ => Option.none
    else Option.none
  match hex with
  | some r => r
  | Option.none =>
    if isODigit e then
      match rest with
      | d2 :: r2 =>
        if isODigit d2 then
          match r2 with
          | d3 :: r3 => if isODigit d3 then (octByte [e, d2, d3], r3) else (octByte [e, d2], r2)
          | [] => (octByte [e, d2], [])
        else (octByte [e], rest)
      | [] => (octByte [e], [])
    else (e, rest)

/-- doEscapeSeqDecode from offset 0: output and "an escape was decoded"; fuel = loop iterations -/
def escSeqF : Nat → Bytes → Bytes × Bool
  | 0, _ => ([], false)
  | _, [] => ([], false)
  | f + 1, b :: tl =>
    if b != 0x5c then
      let (o, c) := escSeqF f tl
      (b :: o, c)
    else
      match tl with
      | [] => ([b], false)
      | e :: rest =>
        match escSimple e with
        | some c => let (o, _) := escSeqF f rest; (c :: o, true)
        | Option.none =>
          let (v, r) := escOther e rest
          let (o, _) := escSeqF f r
          (v :: o, true)

def escapeSeqDecode (x : Bytes) : Res :=
  if x.contains 0x5c then
    let (o, c) := escSeqF (x.length + 1) x
    ⟨o, c, false⟩
  else ⟨x, false, false⟩

/-! ## cssDecode (css_decode.go) -/

/-- xsingle2c on a valid hexadecimal digit -/
def hexVal (c : UInt8) : Nat :=
  if c ≥ 0x41 then ((c &&& 0xdf) - 0x41).toNat + 10 else (c - 0x30).toNat

/-- `utf8.EncodeRune` (surrogates and values above U+10FFFF become U+FFFD) -/
def utf8Encode (c : Nat) : Bytes :=
  if c ≤ 0x7f then [UInt8.ofNat c]
  else if c ≤ 0x7ff then [UInt8.ofNat (0xc0 + c / 64), UInt8.ofNat (0x80 + c % 64)]
  else if (0xd800 ≤ c && c ≤ 0xdfff) || c > 0x10ffff then [0xef, 0xbf, 0xbd]
  else if c ≤ 0xffff then
    [UInt8.ofNat (0xe0 + c / 4096), UInt8.ofNat (0x80 + c / 64 % 64), UInt8.ofNat (0x80 + c % 64)]
  else
    [UInt8.ofNat (0xf0 + c / 262144), UInt8.ofNat (0x80 + c / 4096 % 64), UInt8.ofNat (0x80 + c / 64 % 64),
     UInt8.ofNat (0x80 + c % 64)]

def isCSpace (c : UInt8) : Bool := c == 0x20 || c == 0x0c || c == 0x0a || c == 0x09 || c == 0x0d || c == 0x0b

/-- the bytes a hexadecimal escape of value `code` stands for (:57-79) -/
def cssCode (code : Nat) : Bytes :=
  let code := if code == 0 then 0xfffd else code
  let code := if 0xff01 ≤ code && code ≤ 0xff5e then code - 0xfee0 else code
  utf8Encode code

/-- cssDecodeInplace from offset 0; fuel = loop iterations -/
def cssF : Nat → Bytes → Bytes
  | 0, _ => []
  | _, [] => []
  | f + 1, b :: tl =>
    if b != 0x5c then b :: cssF f tl
    else
      match tl with
      | [] => []                                     -- a trailing backslash is dropped
      | e :: rest =>
        let hexs := (tl.take 6).takeWhile validHex
        if hexs.length > 0 then
          let code := hexs.foldl (fun acc h => acc * 16 + hexVal h) 0
          let after := tl.drop hexs.length
          let after := match after with
            | s :: r => if isCSpace s then r else after
            | [] => []
          cssCode code ++ cssF f after
        else if e == 0x0a then cssF f rest
        else e :: cssF f rest

def cssDecode (x : Bytes) : Res :=
  if x.contains 0x5c then ⟨cssF (x.length + 1) x, true, false⟩ else ⟨x, false, false⟩

/-! ## removeComments (remove_comments.go), replaceComments (replace_comments.go) -/

/-- the loop of removeComments: `inc` = inside a comment. After a comment terminator the next
    byte is copied unexamined — the NUL pad when the terminator ends the input (:44-53). -/
def rmCommentsF : Nat → Bytes → Bool → Bytes × Bool
  | 0, _, _ => ([], false)
  | _, [], inc => if inc then ([0x20], true) else ([], false)
  | f + 1, b :: tl, false =>
    match b, tl with
    | 0x2f, 0x2a :: r => let (o, _) := rmCommentsF f r true; (o, true)                   -- /*
    | 0x3c, 0x21 :: 0x2d :: 0x2d :: r => let (o, _) := rmCommentsF f r true; (o, true)   -- <!--
    | 0x2d, 0x2d :: _ => ([], true)                                                      -- -- : the rest is dropped
    | 0x23, _ => ([], true)                                                              -- #
    | _, _ => let (o, c) := rmCommentsF f tl false; (b :: o, c)
  | f + 1, b :: tl, true =>
    match b, tl with
    | 0x2a, 0x2f :: r =>                                                                 -- */
      match r with
      | [] => ([0], true)
      | c :: r' => let (o, _) := rmCommentsF f r' false; (c :: o, true)
    | 0x2d, 0x2d :: 0x3e :: r =>                                                         -- -->
      match r with
      | [] => ([0], true)
      | c :: r' => let (o, _) := rmCommentsF f r' false; (c :: o, true)
    | _, _ => let (o, _) := rmCommentsF f tl true; (o, true)

def removeComments (x : Bytes) : Res :=
  let (o, c) := rmCommentsF (x.length + 1) x false
  ⟨o, c, false⟩

def rpCommentsF : Nat → Bytes → Bool → Bytes × Bool
  | 0, _, _ => ([], false)
  | _, [], inc => if inc then ([0x20], true) else ([], false)
  | f + 1, b :: tl, false =>
    match b, tl with
    | 0x2f, 0x2a :: r => let (o, _) := rpCommentsF f r true; (o, true)
    | _, _ => let (o, c) := rpCommentsF f tl false; (b :: o, c)
  | f + 1, b :: tl, true =>
    match b, tl with
    | 0x2a, 0x2f :: r => let (o, _) := rpCommentsF f r false; (0x20 :: o, true)
    | _, _ => let (o, _) := rpCommentsF f tl true; (o, true)

def replaceComments (x : Bytes) : Res :=
  let (o, c) := rpCommentsF (x.length + 1) x false
  ⟨o, c, false⟩

/-! ## base64 -/

/-- the standard alphabet (RFC 4648 §4) as arithmetic on the index -/
def b64Char (i : Nat) : UInt8 :=
  if i < 26 then UInt8.ofNat (65 + i) else if i < 52 then UInt8.ofNat (97 + (i - 26))
  else if i < 62 then UInt8.ofNat (48 + (i - 52)) else if i == 62 then 0x2b else 0x2f

/-- `base64.StdEncoding.EncodeToString` (standard definition, with padding) -/
def base64EncodeBytes : Bytes → Bytes
  | b0 :: b1 :: b2 :: tl =>
    let n := b0.toNat * 65536 + b1.toNat * 256 + b2.toNat
    b64Char (n / 262144) :: b64Char (n / 4096 % 64) :: b64Char (n / 64 % 64) :: b64Char (n % 64) :: base64EncodeBytes tl
  | [b0, b1] =>
    let n := b0.toNat * 65536 + b1.toNat * 256
    [b64Char (n / 262144), b64Char (n / 4096 % 64), b64Char (n / 64 % 64), 0x3d]
  | [b0] =>
    let n := b0.toNat * 65536
    [b64Char (n / 262144), b64Char (n / 4096 % 64), 0x3d, 0x3d]
  | [] => []

def base64Encode (x : Bytes) : Res := ⟨base64EncodeBytes x, true, false⟩

/-- base64DecMap (base64decode.go:11): 127 = not in the alphabet, 64 = '=' -/
def b64DecMap (c : UInt8) : UInt8 :=
  if 65 ≤ c && c ≤ 90 then c - 65 else if 97 ≤ c && c ≤ 122 then c - 71
  else if 48 ≤ c && c ≤ 57 then c + 4 else if c == 0x2b then 62 else if c == 0x2f then 63
  else if c == 0x3d then 64 else 127

/-- the bytes written for the 2 or 3 sextets left over at the end (:113-121) -/
def b64Tail (n x : Nat) : Bytes :=
  if n == 2 then [UInt8.ofNat ((x <<< 12) >>> 16)]
  else if n == 3 then [UInt8.ofNat ((x <<< 6) >>> 16), UInt8.ofNat ((x <<< 6) >>> 8)]
  else []

/-- `unicode.IsSpace(rune(c))` for a byte read as a Latin-1 code point -/
def isLatin1Space (c : UInt8) : Bool := isAsciiSpace c || c == 0x85 || c == 0xa0

/-- the loop of doBase64decode: `n` sextets pending in `x` -/
def b64Dec (ext : Bool) : Bytes → Nat → Nat → Bytes
  | [], n, x => b64Tail n x
  | c :: tl, n, x =>
    if ext && (isLatin1Space c || c == 0x2e) then b64Dec ext tl n x
    else if c == 0x0d || c == 0x0a then b64Dec ext tl n x
    else if c == 0x3d || c == 0x20 then b64Tail n x
    else
      let c := if ext then (if c == 0x2d then 0x2b else if c == 0x5f then 0x2f else c) else c
      let d := if c ≤ 127 then b64DecMap c else 127
      if d == 127 then (if ext then b64Dec ext tl n x else b64Tail n x)
      else
        let x := (x <<< 6) ||| (d &&& 0x3f).toNat
        if n + 1 == 4 then
          UInt8.ofNat (x >>> 16) :: UInt8.ofNat (x >>> 8) :: UInt8.ofNat x :: b64Dec ext tl 0 0
        else b64Dec ext tl (n + 1) x

def base64Decode (x : Bytes) : Res := ⟨b64Dec false x 0 0, true, false⟩
def base64DecodeExt (x : Bytes) : Res := ⟨b64Dec true x 0 0, true, false⟩

end Coraza.Tf
