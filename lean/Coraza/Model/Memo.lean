/-
  internal/memoize/sync.go (Do / Release) and the key function of its call sites
  (operators/pm.go, pm_from_dataset.go, pm_from_file.go, restpath.go, validate_nid.go,
  rx.go, validate_schema.go, corazawaf/rule.go, actions/ctl.go, seclang/directives.go).
  Sequential model: one operation at a time (the interleaving-level protocol is C06).
-/
import Coraza.Base.Bytes
namespace Coraza.Memo
open Coraza

/-- the kinds of cached artifact; each call site uses exactly one -/
inductive Kind | pm | pmds | pmf | re | rx | rxbin | schema
deriving Repr, DecidableEq

/-- the key prefix of a kind (without the ':') -/
def Kind.tag : Kind → Bytes
  | .pm => [0x70, 0x6d] | .pmds => [0x70, 0x6d, 0x64, 0x73] | .pmf => [0x70, 0x6d, 0x66]
  | .re => [0x72, 0x65] | .rx => [0x72, 0x78] | .rxbin => [0x72, 0x78, 0x62, 0x69, 0x6e]
  | .schema => [0x73, 0x63, 0x68, 0x65, 0x6d, 0x61]

/-- a call site instance: what is built is a function of (kind, input) only -/
structure Site where
  kind : Kind
  input : Bytes     -- pattern text / phrase-list digest / schema digest …
deriving Repr, DecidableEq

/-- the cache key: `<tag>:<input>` -/
def key (s : Site) : Bytes := s.kind.tag ++ [0x3a] ++ s.input

structure Entry (V : Type) where
  value : V
  owners : List Nat

/-- the cache as an association list -/
abbrev Cache (V : Type) := List (Bytes × Entry V)

def Cache.find {V} (c : Cache V) (k : Bytes) : Option (Entry V) := (List.find? (fun e => e.1 == k) c).map (·.2)

/-- memoize.Do for owner `o` at site `s` with builder `build` (errors: builder may fail = none) -/
def doOp {V} (build : Site → Option V) (c : Cache V) (o : Nat) (s : Site) : Cache V × Option V :=
  match c.find (key s) with
  | some e =>
    -- hit: the owner is added, the cached value returned (sync.go:43-49)
    (c.map (fun p => if p.1 == key s then (p.1, { p.2 with owners := o :: p.2.owners }) else p), some e.value)
  | none =>
    match build s with
    | some v => ((key s, ⟨v, [o]⟩) :: c, some v)
    | none => (c, none)

/-- memoize.Release: drop the owner everywhere; entries without owners are deleted -/
def release {V} (c : Cache V) (o : Nat) : Cache V :=
  (c.map (fun p => (p.1, { p.2 with owners := p.2.owners.filter (· != o) }))).filter (fun p => !p.2.owners.isEmpty)

end Coraza.Memo
