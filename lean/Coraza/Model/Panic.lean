/-
  Go operations that can panic, as partial functions (`none` = run-time panic), for the
  units whose safety is an arithmetic or nil-ness argument (C07):
    transaction.go:918-1060, 1195-1314   b[:writingBytes] in the four body write functions
    experimental/plugins/macro/macro.go:62 expandToken over a variable without collection
    internal/corazawaf/rulegroup.go:128   DeleteByMsg over rules without msg
    internal/actions/setvar.go:84         Evaluate with an absent value macro
-/
import Coraza.Base.Bytes
namespace Coraza.Panic
open Coraza

/-- Go `b[:hi]` : panics unless 0 ≤ hi ≤ len(b) -/
def sliceTo (b : Bytes) (hi : Int) : Option Bytes :=
  if 0 ≤ hi ∧ hi ≤ b.length then some (b.take hi.toNat) else none

/-- transaction.go remainingBodyBytes -/
def remaining (limit length : Int) : Int := if limit ≤ length then 0 else limit - length

/-- the slice taken by WriteRequestBody / WriteResponseBody (ProcessPartial or Reject);
    `none` in the outer Option = the call returned before slicing (rejected) -/
def writeSlice (limit length : Int) (b : Bytes) (reject : Bool) : Option (Option Bytes) :=
  let writing : Int := b.length
  if length + writing ≥ limit then
    if reject then none
    else some (sliceTo b (remaining limit length))
  else some (sliceTo b writing)

/-- the same with the unclamped difference (the code before the fix) -/
def writeSliceUnclamped (limit length : Int) (b : Bytes) (reject : Bool) : Option (Option Bytes) :=
  let writing : Int := b.length
  if length + writing ≥ limit then
    if reject then none
    else some (sliceTo b (limit - length))
  else some (sliceTo b writing)

/-- Transaction.Collection: some variables have no collection (JSON) -/
inductive Coll | keyed (get : Bytes → List Bytes) | single (v : Bytes) | other (all : List Bytes)

/-- macro.go:62 expandToken; `none` = nil dereference -/
def expandToken (coll : Option Coll) (key text : Bytes) : Option Bytes :=
  match coll with
  | none => some text                                  -- `case nil:` keeps the original text
  | some (.keyed get) => some ((get key).head?.getD text)
  | some (.single v) => some v
  | some (.other all) => some (all.head?.getD text)

/-- rulegroup.go:128 DeleteByMsg: keep rule iff it has no msg or a different one -/
def keepByMsg (msg : Option Bytes) (wanted : Bytes) : Option Bool :=
  match msg with
  | none => some true
  | some m => some (m != wanted)

end Coraza.Panic
