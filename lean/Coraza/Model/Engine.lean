/-
  Executable model of the rule engine (shared by C01 C02 C04 C08 C09 C12 C17):

    internal/corazawaf/rulegroup.go:155-280   RuleGroup.Eval            → evalPhase
    internal/corazawaf/rule.go:190-413        Rule.doEvaluate           → evalLink / evalRule
    internal/corazawaf/rule.go:713-752        executeOperator / executeTransformations(Multimatch)
    internal/corazawaf/transaction.go:528     matchVariable, 548 MatchRule, 626 GetField
    internal/corazawaf/transaction.go:328     Interrupt, 349 Allow, 886… Process* guards → apiStep
    internal/collections/map.go, named.go, concat.go, single.go
    internal/actions/{deny,drop,redirect,pass,block,allow,skip,skipafter,setvar,ctl}.go
    experimental/plugins/macro/macro.go        compile / Expand

  Go map iteration order is unspecified; the model iterates buckets in insertion order
  and every comparison with the implementation is order-insensitive where Go's order is.
  Operators and transformations are parameters (`Env`), instantiated by the driver with
  the C14/C15 models, so engine theorems hold for every operator/transformation.
-/
import Coraza.Base.Bytes
namespace Coraza.Engine
open Coraza

/-! ## collections -/

inductive Var
  | argsGet | argsPost | argsPath | args | argsNames | argsGetNames | argsPostNames
  | reqHeaders | reqHeadersNames | tx | matchedVar | matchedVarName | matchedVars | matchedVarsNames
  | argsCombinedSize
  | reqUriRaw | reqUri | reqFilename | reqBasename | queryString | reqMethod | reqLine | reqProtocol
  | reqCookies | reqCookiesNames | respHeaders | respHeadersNames
  | env
  | unknown
deriving Repr, DecidableEq

def Var.name : Var → Bytes
  | .argsGet => Bytes.ofString "ARGS_GET" | .argsPost => Bytes.ofString "ARGS_POST"
  | .argsPath => Bytes.ofString "ARGS_PATH" | .args => Bytes.ofString "ARGS"
  | .argsNames => Bytes.ofString "ARGS_NAMES" | .argsGetNames => Bytes.ofString "ARGS_GET_NAMES"
  | .argsPostNames => Bytes.ofString "ARGS_POST_NAMES" | .reqHeaders => Bytes.ofString "REQUEST_HEADERS"
  | .reqHeadersNames => Bytes.ofString "REQUEST_HEADERS_NAMES" | .tx => Bytes.ofString "TX"
  | .matchedVar => Bytes.ofString "MATCHED_VAR" | .matchedVarName => Bytes.ofString "MATCHED_VAR_NAME"
  | .matchedVars => Bytes.ofString "MATCHED_VARS" | .matchedVarsNames => Bytes.ofString "MATCHED_VARS_NAMES"
  | .argsCombinedSize => Bytes.ofString "ARGS_COMBINED_SIZE"
  | .reqUriRaw => Bytes.ofString "REQUEST_URI_RAW" | .reqUri => Bytes.ofString "REQUEST_URI"
  | .reqFilename => Bytes.ofString "REQUEST_FILENAME" | .reqBasename => Bytes.ofString "REQUEST_BASENAME"
  | .queryString => Bytes.ofString "QUERY_STRING" | .reqMethod => Bytes.ofString "REQUEST_METHOD"
  | .reqLine => Bytes.ofString "REQUEST_LINE" | .reqProtocol => Bytes.ofString "REQUEST_PROTOCOL"
  | .reqCookies => Bytes.ofString "REQUEST_COOKIES" | .reqCookiesNames => Bytes.ofString "REQUEST_COOKIES_NAMES"
  | .respHeaders => Bytes.ofString "RESPONSE_HEADERS" | .respHeadersNames => Bytes.ofString "RESPONSE_HEADERS_NAMES"
  | .env => Bytes.ofString "ENV"
  | .unknown => Bytes.ofString "UNKNOWN"

structure KV where
  key : Bytes      -- original-case key
  value : Bytes
deriving Repr, DecidableEq

/-- collections.Map with case-insensitive keys (the default build): folded key ↦ entries,
    buckets kept in insertion order -/
structure CMap where
  buckets : List (Bytes × List KV) := []
deriving Repr, DecidableEq

def lower (k : Bytes) : Bytes := k.map asciiLower

/-- decimal digits, most significant first (strconv.Itoa); fuel n+1 always suffices -/
def natDigitsAux : Nat → Nat → Bytes
  | 0, _ => []
  | f + 1, n => if n < 10 then [UInt8.ofNat (48 + n)] else natDigitsAux f (n / 10) ++ [UInt8.ofNat (48 + n % 10)]

def natToBytes (n : Nat) : Bytes := natDigitsAux (n + 1) n

def CMap.lookup (m : CMap) (fk : Bytes) : List KV :=
  match m.buckets.find? (·.1 == fk) with
  | some b => b.2
  | none => []

def updBucket (bs : List (Bytes × List KV)) (fk : Bytes) (f : List KV → List KV) : List (Bytes × List KV) :=
  if bs.any (·.1 == fk) then bs.map (fun b => if b.1 == fk then (b.1, f b.2) else b)
  else bs ++ [(fk, f [])]

/-- map.go:140 Add -/
def CMap.add (m : CMap) (k v : Bytes) : CMap := ⟨updBucket m.buckets (lower k) (· ++ [⟨k, v⟩])⟩
/-- map.go:148 Set (single value form used by setvar) -/
def CMap.set1 (m : CMap) (k v : Bytes) : CMap := ⟨updBucket m.buckets (lower k) (fun _ => [⟨k, v⟩])⟩
/-- map.go:182 Remove -/
def CMap.remove (m : CMap) (k : Bytes) : CMap := ⟨m.buckets.filter (·.1 != lower k)⟩
/-- map.go:41 Get -/
def CMap.get (m : CMap) (k : Bytes) : List Bytes := (m.lookup (lower k)).map (·.value)
def CMap.all (m : CMap) : List KV := m.buckets.flatMap (·.2)

/-- one selected datum handed to the operator -/
structure MD where
  var : Var
  key : Bytes
  value : Bytes
deriving Repr, DecidableEq

/-! ## rules -/

/-- an exception `!VAR:key` (rule.go ruleVariableException): the key text as written, and the
    expression as compiled when the key was written `/re/` -/
structure Exc where
  key : Bytes              -- "" = the whole variable (when `rx` is none)
  rx : Option Bytes := none
deriving Repr, DecidableEq

structure Target where
  var : Var
  key : Bytes          -- KeyStr as compiled: "" = whole collection; for a regex key the text with its slashes
  rx : Option Bytes    -- KeyRx: the expression as compiled (lower-cased unless ARGS family)
  count : Bool
  exc : List Exc       -- `!VAR:key` / `!VAR:/re/`
deriving Repr, DecidableEq

inductive MTok
  | text (t : Bytes)
  | var (v : Var) (key : Bytes) (orig : Bytes)   -- orig = the text between %{ and }
deriving Repr, DecidableEq

abbrev Macro := List MTok

inductive SetOp | remove | assign (v : Macro) deriving Repr, DecidableEq

inductive EngineMode | on | detectionOnly | off deriving Repr, DecidableEq
inductive AuditEngine | on | off | relevantOnly deriving Repr, DecidableEq
inductive Allow | unset | phase | request | all deriving Repr, DecidableEq

/-- non-disruptive actions with a run-time effect -/
inductive NAct
  | setvar (key : Macro) (op : SetOp)
  | setenv (key : Bytes) (value : Macro)  -- setenv.go:59: the transaction's ENV collection (the process environment is not read back)
  | ctlRuleEngine (m : EngineMode)
  | ctlRemoveById (id : Nat)
  | ctlRemoveByRange (lo hi : Nat)
  | ctlRemoveByTag (tag : Bytes)
  | ctlRemoveTargetById (lo hi : Nat) (v : Var) (e : Exc)
  | ctlRemoveByMsg (msg : Bytes)
  | ctlRemoveTargetByTag (tag : Bytes) (v : Var) (e : Exc)
  | ctlRemoveTargetByMsg (msg : Bytes) (v : Var) (e : Exc)
  | ctlAuditEngine (m : AuditEngine)
  | ctlAuditLogParts (modification : Bytes)
  | nop                                  -- log, msg, tag, capture, … : no state effect modelled
deriving Repr, DecidableEq

inductive Disr
  | none | pass | block | deny | drop | redirect (target : Bytes) | allow (a : Allow)
deriving Repr, DecidableEq

structure Operator where
  name : String
  arg : Macro
  neg : Bool
deriving Repr, DecidableEq

/-- one link of a chain (the starter is the first link) -/
structure Link where
  targets : List Target
  op : Option Operator      -- none = SecAction / SecMarker
  tfs : List String
  multiMatch : Bool
  nacts : List NAct
  lid : Nat := 0            -- an id: written on a chained link (0 = none): the id its run-time target exclusions are looked up under (rule.go:236)
deriving Repr, DecidableEq

structure Rule where
  id : Nat                  -- 0 for SecMarker
  phase : Nat               -- 0 = every phase (SecMarker)
  marker : Bytes            -- SecMark_ label ("" if none)
  links : List Link         -- non-empty; head is the starter
  disr : Disr
  status : Nat              -- `status:` action, 0 if absent
  skip : Nat                -- `skip:N`, 0 if absent
  skipAfter : Bytes         -- `skipAfter:M`, "" if absent
  severity : Option Nat
  tags : List Bytes
  log : Bool
  audit : Bool
  msg : Bytes := []         -- `msg:` text as written ("" = the rule has no msg)
deriving Repr, DecidableEq

/-- rule_parser.go mergeActions, the `status:` part: the non-disruptive actions of the phase's SecDefaultAction
    come first and the rule's own actions after them, so a rule uses the default's status unless it states one -/
def inheritStatus (dst : List (Nat × Nat)) (r : Rule) : Rule :=
  if r.status != 0 then r else
  match dst.find? (fun d => d.1 == r.phase) with
  | some d => { r with status := d.2 }
  | none => r

structure Intr where
  ruleId : Nat
  action : String
  status : Nat
  data : Bytes
deriving Repr, DecidableEq

structure Matched where
  id : Nat
  datas : List MD
deriving Repr, DecidableEq

/-! ## transaction state -/

/-- the single-valued variables ProcessURI sets (transaction.go:822) -/
structure ReqLine where
  uriRaw : Bytes := []
  uri : Bytes := []
  filename : Bytes := []
  basename : Bytes := []
  query : Bytes := []
  method : Bytes := []
  line : Bytes := []
  protocol : Bytes := []
deriving Repr, DecidableEq

structure Tx where
  rl : ReqLine := {}
  argsGet : CMap := {}
  argsPost : CMap := {}
  argsPath : CMap := {}
  reqHeaders : CMap := {}
  reqCookies : CMap := {}
  respHeaders : CMap := {}
  env : CMap := {}
  txc : CMap := {}
  matchedVar : Bytes := []
  matchedVarName : Bytes := []
  matchedVars : CMap := {}
  engine : EngineMode := .on
  skip : Nat := 0
  skipAfter : Bytes := []
  allow : Allow := .unset
  intr : Option Intr := none
  detIntr : Option Intr := none
  lastPhase : Nat := 0
  rmIds : List Nat := []
  rmRanges : List (Nat × Nat) := []
  rmTargets : List (Nat × Var × Exc) := []
  matched : List Matched := []
  highestSeverity : Nat := 255
  audit : Bool := false
  auditEngine : AuditEngine := .off
  auditParts : Bytes := []             -- tx.AuditLogParts
  respStatus : Bytes := []             -- RESPONSE_STATUS
  respCode : Bytes := []               -- the code the connector will pass to ProcessResponseHeaders
  evalLog : List (Nat × Nat) := []     -- (phase, rule id) of every rule evaluation (ghost, for C02/C08)
  errCb : List Nat := []               -- error-callback invocations (rule ids), C19
deriving Repr, DecidableEq

/-- waf.go:258-262 newTransaction: TX.0 … TX.10 start as "" (capture slots) -/
def freshTxc : CMap :=
  (List.range 11).foldl (fun m i => m.set1 (natToBytes i) []) {}

/-- operators and transformations are parameters of the engine -/
structure Env where
  op : String → Bytes → Bytes → Bool          -- name, expanded argument, value
  tf : String → Bytes → (Bytes × Bool × Bool) -- name, value ↦ (out, changed, err)
  rx : Bytes → Bytes → Bool := fun _ _ => false   -- regexp.MustCompile(expression).MatchString(key)

/-! ## macro expansion (macro.go:50 Expand / expandToken) -/

def keyedGet (tx : Tx) (v : Var) (key : Bytes) : Option Bytes :=
  let m : Option CMap := match v with
    | .tx => some tx.txc | .argsGet => some tx.argsGet | .argsPost => some tx.argsPost
    | .argsPath => some tx.argsPath | .reqHeaders => some tx.reqHeaders | .matchedVars => some tx.matchedVars
    | .reqCookies => some tx.reqCookies | .respHeaders => some tx.respHeaders | .env => some tx.env
    | _ => none
  match m with
  | some m => (m.get key).head?
  | none => none

/-- the value of a request-line variable (collections.Single) -/
def singleOf (tx : Tx) : Var → Option Bytes
  | .reqUriRaw => some tx.rl.uriRaw | .reqUri => some tx.rl.uri | .reqFilename => some tx.rl.filename
  | .reqBasename => some tx.rl.basename | .queryString => some tx.rl.query | .reqMethod => some tx.rl.method
  | .reqLine => some tx.rl.line | .reqProtocol => some tx.rl.protocol
  | _ => none

def expandTok (tx : Tx) : MTok → Bytes
  | .text t => t
  | .var v key orig =>
    match v with
    | .matchedVar => tx.matchedVar
    | .matchedVarName => tx.matchedVarName
    | .reqUriRaw | .reqUri | .reqFilename | .reqBasename | .queryString | .reqMethod | .reqLine | .reqProtocol =>
      (singleOf tx v).getD []
    | _ => match keyedGet tx v key with
      | some x => x
      | none => orig

def expand (tx : Tx) (m : Macro) : Bytes := m.flatMap (expandTok tx)

/-! ## GetField (transaction.go:626) -/

def mapOf (tx : Tx) : Var → CMap
  | .argsGet | .argsGetNames => tx.argsGet
  | .argsPost | .argsPostNames => tx.argsPost
  | .argsPath => tx.argsPath
  | .reqHeaders | .reqHeadersNames => tx.reqHeaders
  | .reqCookies | .reqCookiesNames => tx.reqCookies
  | .respHeaders | .respHeadersNames => tx.respHeaders
  | .env => tx.env
  | .tx => tx.txc
  | .matchedVars | .matchedVarsNames => tx.matchedVars
  | _ => {}

/-- Map.FindString / FindAll (values) -/
def findMap (m : CMap) (v : Var) (key : Bytes) : List MD :=
  let kvs := if key.isEmpty then m.all else m.lookup (lower key)
  kvs.map fun e => ⟨v, e.key, e.value⟩

/-- NamedCollectionNames.FindString / FindAll: value = key; the selector is folded like
    the bucket keys (named.go:146) -/
def findNames (m : CMap) (v : Var) (key : Bytes) : List MD :=
  let kvs := if key.isEmpty then m.all else m.lookup (lower key)
  kvs.map fun e => ⟨v, e.key, e.key⟩

/-- Map.FindRegex (map.go:62): the entries of every bucket whose *folded* key the expression
    matches -/
def findMapRx (m : CMap) (v : Var) (p : Bytes → Bool) : List MD :=
  ((m.buckets.filter fun b => p b.1).flatMap (·.2)).map fun e => ⟨v, e.key, e.value⟩

/-- NamedCollectionNames.FindRegex (named.go:103) -/
def findNamesRx (m : CMap) (v : Var) (p : Bytes → Bool) : List MD :=
  ((m.buckets.filter fun b => p b.1).flatMap (·.2)).map fun e => ⟨v, e.key, e.key⟩

/-- selection by a regex key (GetField `case rv.KeyRx != nil`); collections that are not keyed
    select nothing -/
def selectRx (tx : Tx) (v : Var) (p : Bytes → Bool) : List MD :=
  match v with
  | .args => (findMapRx tx.argsGet .args p) ++ (findMapRx tx.argsPost .args p) ++ (findMapRx tx.argsPath .args p)
  | .argsNames => (findNamesRx tx.argsGet .argsNames p) ++ (findNamesRx tx.argsPost .argsNames p) ++ (findNamesRx tx.argsPath .argsNames p)
  | .argsGetNames | .argsPostNames | .reqHeadersNames | .matchedVarsNames | .reqCookiesNames | .respHeadersNames =>
    findNamesRx (mapOf tx v) v p
  | .argsGet | .argsPost | .argsPath | .reqHeaders | .tx | .matchedVars | .reqCookies | .respHeaders | .env => findMapRx (mapOf tx v) v p
  | _ => []

/-- the selected entries of a target before exclusions -/
def select (tx : Tx) (v : Var) (key : Bytes) : List MD :=
  match v with
  | .args => (findMap tx.argsGet .args key) ++ (findMap tx.argsPost .args key) ++ (findMap tx.argsPath .args key)
  | .argsNames => (findNames tx.argsGet .argsNames key) ++ (findNames tx.argsPost .argsNames key) ++ (findNames tx.argsPath .argsNames key)
  | .argsGetNames | .argsPostNames | .reqHeadersNames | .matchedVarsNames | .reqCookiesNames | .respHeadersNames =>
    findNames (mapOf tx v) v key
  | .matchedVar => [⟨.matchedVar, [], tx.matchedVar⟩]          -- Single.FindAll
  | .matchedVarName => [⟨.matchedVarName, [], tx.matchedVarName⟩]
  | .argsCombinedSize =>
    -- sized.go:58 size(): Σ len(key)+len(value) over ARGS_GET and ARGS_POST, original-case keys
    let sz (m : CMap) : Nat := (m.all.map fun e => e.key.length + e.value.length).sum
    [⟨.argsCombinedSize, [], natToBytes (sz tx.argsGet + sz tx.argsPost)⟩]
  | .reqUriRaw | .reqUri | .reqFilename | .reqBasename | .queryString | .reqMethod | .reqLine | .reqProtocol =>
    [⟨v, [], (singleOf tx v).getD []⟩]                          -- Single.FindAll
  | .unknown => []
  | _ => findMap (mapOf tx v) v key

/-- rule.go:548 caseSensitiveVariable: selector keys of these are not lower-cased at compile time -/
def argsFamily : Var → Bool
  | .args | .argsNames | .argsGet | .argsPost | .argsGetNames | .argsPostNames => true
  | _ => false

/-- compile-time key normalisation (rule.go:562 newRuleVariableParams) -/
def compiledKey (v : Var) (key : Bytes) : Bytes := if argsFamily v then key else lower key

/-- transaction.go:655-665: an exception with an expression is decided by the expression alone
    (on the lower-cased key); otherwise by the key up to case, "" meaning the whole variable -/
def excMatches (env : Env) (ex : Exc) (md : MD) : Bool :=
  match ex.rx with
  | some p => env.rx p (lower md.key)
  | none => ex.key.isEmpty || lower ex.key == lower md.key

def excluded (env : Env) (excs : List Exc) (md : MD) : Bool := excs.any fun ex => excMatches env ex md


/-- `ecol`: the run-time target exclusions of this rule id, read once per link
    (rule.go:232 `ecol := tx.ruleRemoveTargetByID[rid]`, before the loop over targets) -/
def ecolOf (tx : Tx) (ruleId : Nat) : List (Var × Exc) :=
  (tx.rmTargets.filter fun r => r.1 == ruleId).map (·.2)

/-- GetField's switch: by expression, by key, or everything -/
def selected (env : Env) (tx : Tx) (t : Target) : List MD :=
  match t.rx with
  | some p => selectRx tx t.var (env.rx p)
  | none => select tx t.var (compiledKey t.var t.key)

def getField (env : Env) (tx : Tx) (ecol : List (Var × Exc)) (t : Target) : List MD :=
  let key := compiledKey t.var t.key
  -- rule.go:245: exclusions of ctl:ruleRemoveTargetById for this variable
  let dyn := (ecol.filter fun r => r.1 == t.var).map (·.2)
  let ms := (selected env tx t).filter (fun md => !excluded env (t.exc ++ dyn) md)
  if t.count then [⟨t.var, key, natToBytes ms.length⟩] else ms

/-- How the expression of a key written `/re/` is compiled.
    `code`: as AddVariable / AddVariableNegation / parseCtl do it — the text is lower-cased unless the
    variable is in the ARGS family (rule.go:595, :642; ctl.go:416).
    `spec`: what selection over a case-folded collection means — the expression as written, matched
    case-insensitively (string keys `VAR:Foo` are case-insensitive in this build too). The two differ
    for an ARGS-family expression with an upper-case letter (never matches a folded key) and for
    \D \S \W \B \xHH in the other collections (lower-casing the text changes them): finding F-C01-2. -/
inductive RxMode | code | spec deriving Repr, DecidableEq

def compiledRx (mode : RxMode) (v : Var) (key : Bytes) : Option Bytes :=
  (hasRegex key).map fun p =>
    match mode with
    | .code => if argsFamily v then p else lower p
    | .spec => [0x28, 0x3f, 0x69, 0x29] ++ p          -- "(?i)" ++ p

/-- rule.go:592 AddVariable -/
def mkTarget (mode : RxMode) (v : Var) (key : Bytes) (count : Bool) : Target := ⟨v, key, compiledRx mode v key, count, []⟩

/-- rule.go:639 AddVariableNegation's exception -/
def mkExc (mode : RxMode) (v : Var) (key : Bytes) : Exc := ⟨key, compiledRx mode v key⟩

/-- ctl.go:405 parseCtl: the exception a `ctl:ruleRemoveTargetBy…=…;VAR:key` records — a regex key
    leaves an empty KeyStr, a plain key is lower-cased -/
def mkCtlExc (mode : RxMode) (v : Var) (key : Bytes) : Exc :=
  match compiledRx mode v key with
  | some p => ⟨[], some p⟩
  | none => ⟨lower key, none⟩

/-- rule.go:629 AddVariableNegation: `!VAR:key` is added to *every* target of that
    variable already present in the rule (not only the one it is written after) -/
def addNegation (ts : List Target) (v : Var) (e : Exc) : List Target :=
  ts.map fun t => if t.var == v then { t with exc := t.exc ++ [e] } else t

/-- target list as written: inclusive targets and negations in textual order -/
inductive TItem | incl (t : Target) | neg (v : Var) (e : Exc)

def compileStep (ts : List Target) : TItem → List Target
  | .incl t => ts ++ [t]
  | .neg v e => addNegation ts v e

def compileTargets (items : List TItem) : List Target := items.foldl compileStep []

/-! ## transformations and operator (rule.go:713-752) -/

def execTfs (env : Env) : List String → Bytes → Bytes
  | [], v => v
  | t :: ts, v => let (o, _, e) := env.tf t v; execTfs env ts (if e then v else o)

def execMultiAux (env : Env) : List String → Bytes → List Bytes
  | [], _ => []
  | t :: ts, v =>
    let (o, c, e) := env.tf t v
    if e then execMultiAux env ts v
    else if c then o :: execMultiAux env ts o
    else execMultiAux env ts v

def candidates (env : Env) (l : Link) (v : Bytes) : List Bytes :=
  if l.multiMatch then v :: execMultiAux env l.tfs v else [execTfs env l.tfs v]

def execOp (env : Env) (tx : Tx) (o : Operator) (v : Bytes) : Bool :=
  let r := env.op o.name (expand tx o.arg) v
  if o.neg then !r else r

/-! ## per-match bookkeeping and non-disruptive actions -/

/-- transaction.go:528 matchVariable -/
def matchVariable (tx : Tx) (md : MD) : Tx :=
  let name := if md.key.isEmpty then md.var.name else md.var.name ++ [0x3a] ++ md.key
  { tx with matchedVars := tx.matchedVars.add name md.value, matchedVar := md.value, matchedVarName := name }

/-- Go strconv.Atoi with error: none on syntax error and outside the int64 range -2^63 … 2^63-1 -/
def atoiOpt (s : Bytes) : Option Int :=
  match s with
  | [] => none
  | c :: rest =>
    let ds := if c == 0x2d || c == 0x2b then rest else s
    if ds.isEmpty || !ds.all (fun b => 48 ≤ b && b ≤ 57) then none
    else
      let n : Int := ds.foldl (fun acc d => acc * 10 + ((d.toNat - 48 : Nat) : Int)) 0
      if c == 0x2d then (if n > 9223372036854775808 then none else some (-n))
      else if n > 9223372036854775807 then none
      else some n

/-- int64 arithmetic wraps around (Go's `int` on the 64-bit platforms coraza runs on) -/
def wrap64 (i : Int) : Int := (i + 9223372036854775808) % 18446744073709551616 - 9223372036854775808

def intToBytes (i : Int) : Bytes := if i < 0 then 0x2d :: natToBytes i.natAbs else natToBytes i.toNat

def hasPrefixB (p s : Bytes) : Bool := p.isPrefixOf s

/-- setvar.go:93 evaluateTxCollection (collection TX) -/
def setvarEval (tx : Tx) (key : Bytes) (op : SetOp) : Tx :=
  let key := lower key
  match op with
  | .remove => { tx with txc := tx.txc.remove key }
  | .assign vm =>
    let value := expand tx vm
    let cur := (tx.txc.get key).head?.getD []
    match value with
    | [] => { tx with txc := tx.txc.set1 key [] }
    | c :: rest =>
      if c == 0x2b || c == 0x2d then
        -- arithmetic
        let valE : Option Int := if rest.isEmpty then some 0 else atoiOpt rest
        match valE with
        | none =>
          if hasPrefixB (Bytes.ofString "tx.") rest then tx      -- logged, nothing stored
          else { tx with txc := tx.txc.set1 key value }
        | some val =>
          let curE : Option Int := if cur.isEmpty then some 0 else atoiOpt cur
          match curE with
          | none => tx                                            -- "Invalid value", nothing stored
          | some cv =>
            let r := wrap64 (if c == 0x2b then cv + val else cv - val)
            { tx with txc := tx.txc.set1 key (intToBytes r) }
      else { tx with txc := tx.txc.set1 key value }

/-! ### audit log parts (types/waf.go:179 ParseAuditLogParts, 203 ApplyAuditLogParts) -/

/-- the modifiable parts in canonical order: BCDEFGHIJK -/
def orderedParts : Bytes := [0x42, 0x43, 0x44, 0x45, 0x46, 0x47, 0x48, 0x49, 0x4a, 0x4b]

def parseParts (opts : Bytes) : Option Bytes :=
  match opts with
  | [] => none
  | a :: rest =>
    if a != 0x41 then none
    else match rest.reverse with
      | [] => none                     -- "A" alone does not end with Z
      | z :: midRev =>
        if z != 0x5a then none
        else if midRev.all (orderedParts.contains ·) then some opts else none

def applyParts (base modification : Bytes) : Option Bytes :=
  match modification with
  | [] => none
  | c :: ps =>
    if c != 0x2b && c != 0x2d then parseParts modification
    else if !ps.all (orderedParts.contains ·) then none     -- includes the explicit A/Z refusal
    else
      let keep (p : UInt8) : Bool := if c == 0x2b then base.contains p || ps.contains p else base.contains p && !ps.contains p
      some ((if base.contains 0x41 then [0x41] else []) ++ orderedParts.filter keep ++ (if base.contains 0x5a then [0x5a] else []))

def runNAct (rules : List Rule) (tx : Tx) : NAct → Tx
  | .setvar k op => setvarEval tx (expand tx k) op
  | .setenv k v => { tx with env := tx.env.set1 k (expand tx v) }
  | .ctlRuleEngine m => { tx with engine := m }
  | .ctlRemoveById id => { tx with rmIds := tx.rmIds ++ [id] }
  | .ctlRemoveByRange lo hi => { tx with rmRanges := tx.rmRanges ++ [(lo, hi)] }
  | .ctlRemoveByTag tag =>
    { tx with rmIds := tx.rmIds ++ (rules.filter (fun r => r.tags.contains tag)).map (·.id) }
  | .ctlRemoveTargetById lo hi v e =>
    { tx with rmTargets := tx.rmTargets ++ ((rules.filter (fun r => lo ≤ r.id && r.id ≤ hi)).map fun r => (r.id, v, e)) }
  | .ctlRemoveByMsg msg =>
    -- ctl.go:296: rules that have a msg equal to the argument
    { tx with rmIds := tx.rmIds ++ (rules.filter (fun r => !r.msg.isEmpty && r.msg == msg)).map (·.id) }
  | .ctlRemoveTargetByTag tag v e =>
    { tx with rmTargets := tx.rmTargets ++ ((rules.filter (fun r => r.tags.contains tag)).map fun r => (r.id, v, e)) }
  | .ctlRemoveTargetByMsg msg v e =>
    { tx with rmTargets := tx.rmTargets ++ ((rules.filter (fun r => !r.msg.isEmpty && r.msg == msg)).map fun r => (r.id, v, e)) }
  | .ctlAuditEngine m => { tx with auditEngine := m }
  | .ctlAuditLogParts md =>
    match applyParts tx.auditParts md with
    | some p => { tx with auditParts := p }
    | none => tx
  | .nop => tx

def runNActs (rules : List Rule) (tx : Tx) (as : List NAct) : Tx := as.foldl (runNAct rules) tx

/-! ## one link (rule.go:190-351) -/

/-- evaluate the candidates of one selected value in order -/
def evalCands (env : Env) (rules : List Rule) (l : Link) (o : Operator) (md : MD) :
    List Bytes → Tx → Tx × List MD
  | [], tx => (tx, [])
  | c :: cs, tx =>
    if execOp env tx o c then
      let m : MD := ⟨md.var, md.key, c⟩
      let tx := runNActs rules (matchVariable tx m) l.nacts
      let (tx, ms) := evalCands env rules l o md cs tx
      (tx, m :: ms)
    else evalCands env rules l o md cs tx

def evalValues (env : Env) (rules : List Rule) (l : Link) (o : Operator) :
    List MD → Tx → Tx × List MD
  | [], tx => (tx, [])
  | md :: mds, tx =>
    let (tx, m1) := evalCands env rules l o md (candidates env l md.value) tx
    let (tx, m2) := evalValues env rules l o mds tx
    (tx, m1 ++ m2)

def evalTargets (env : Env) (rules : List Rule) (ecol : List (Var × Exc)) (l : Link) (o : Operator) :
    List Target → Tx → Tx × List MD
  | [], tx => (tx, [])
  | t :: ts, tx =>
    let (tx, m1) := evalValues env rules l o (getField env tx ecol t) tx
    let (tx, m2) := evalTargets env rules ecol l o ts tx
    (tx, m1 ++ m2)

def evalLink (env : Env) (rules : List Rule) (ruleId : Nat) (l : Link) (tx : Tx) : Tx × List MD :=
  match l.op with
  | none =>
    -- SecAction / SecMarker: forced match with an empty datum
    let m : MD := ⟨.unknown, [], []⟩
    (runNActs rules (matchVariable tx m) l.nacts, [m])
  | some o => evalTargets env rules (ecolOf tx (if l.lid != 0 then l.lid else ruleId)) l o l.targets tx

/-- the chain walk: every link must produce at least one match, in order -/
def evalLinks (env : Env) (rules : List Rule) (ruleId : Nat) : List Link → Tx → Tx × Option (List MD)
  | [], tx => (tx, some [])
  | l :: ls, tx =>
    let (tx, ms) := evalLink env rules ruleId l tx
    if ms.isEmpty then (tx, none)
    else
      match evalLinks env rules ruleId ls tx with
      | (tx, none) => (tx, none)
      | (tx, some rest) => (tx, some (ms ++ rest))

/-! ## disruptive / flow actions and MatchRule -/

/-- transaction.go:328 Interrupt -/
def interrupt (tx : Tx) (i : Intr) : Tx :=
  match tx.engine with
  | .on => { tx with intr := some i }
  | .detectionOnly => if tx.detIntr.isNone then { tx with detIntr := some i } else tx
  | .off => tx

def runDisr (r : Rule) (tx : Tx) : Tx :=
  match r.disr with
  | .deny => interrupt tx ⟨r.id, "deny", if r.status == 0 then 403 else r.status, []⟩
  | .drop => interrupt tx ⟨r.id, "drop", r.status, []⟩
  | .redirect t =>
    let st := if r.status == 301 || r.status == 302 || r.status == 303 || r.status == 307 then r.status else 302
    interrupt tx ⟨r.id, "redirect", st, t⟩
  | .allow a => if tx.engine == .on then { tx with allow := a } else tx
  | _ => tx

def matchRule (r : Rule) (ms : List MD) (tx : Tx) : Tx :=
  let hs := match r.severity with
    | some s => if s < tx.highestSeverity then s else tx.highestSeverity
    | none => tx.highestSeverity
  { tx with audit := tx.audit || r.audit, highestSeverity := hs,
            matched := tx.matched ++ [⟨r.id, ms⟩],
            errCb := if r.log then tx.errCb ++ [r.id] else tx.errCb }

/-- rule.go:171 Evaluate for a parent rule -/
def evalRule (env : Env) (rules : List Rule) (r : Rule) (tx : Tx) : Tx :=
  match evalLinks env rules r.id r.links tx with
  | (tx, none) => tx
  | (tx, some ms) =>
    -- flow and disruptive actions in configuration order (rule.go:385); flow first or later does
    -- not matter for the modelled ones (disjoint state)
    let tx := if r.skip > 0 then { tx with skip := r.skip } else tx
    let tx := if !r.skipAfter.isEmpty then { tx with skipAfter := r.skipAfter } else tx
    let tx := runDisr r tx
    if r.id != 0 then matchRule r ms tx else tx

/-! ## one phase (rulegroup.go:155) -/

def removed (tx : Tx) (id : Nat) : Bool :=
  tx.rmIds.contains id || tx.rmRanges.any (fun rg => rg.1 ≤ id && id ≤ rg.2)

/-- one evaluated rule: MATCHED_VARS reset (rulegroup.go:259), evaluation logged (ghost), Evaluate -/
def evalOne (env : Env) (all : List Rule) (phase : Nat) (r : Rule) (tx : Tx) : Tx :=
  evalRule env all r { tx with matchedVars := {}, evalLog := tx.evalLog ++ [(phase, r.id)] }

/-- the rules loop; `all` is the complete rule list (for ctl…ByTag lookups) -/
def rulesLoop (env : Env) (all : List Rule) (phase : Nat) : List Rule → Tx → Tx
  | [], tx => tx
  | r :: rs, tx =>
    if tx.intr.isSome && phase != 5 then tx
    else if r.phase != 0 && r.phase != phase then rulesLoop env all phase rs tx
    else if removed tx r.id then rulesLoop env all phase rs tx
    else if !tx.skipAfter.isEmpty then
      if r.marker == tx.skipAfter then rulesLoop env all phase rs { tx with skipAfter := [] }
      else rulesLoop env all phase rs tx
    else if tx.skip > 0 then rulesLoop env all phase rs { tx with skip := tx.skip - 1 }
    else
      match tx.allow with
      | .phase => tx
      | .all => if phase == 5 then rulesLoop env all phase rs (evalOne env all phase r tx) else tx
      | .request =>
        if phase == 1 then tx
        else if phase == 2 then { tx with allow := .unset }
        else rulesLoop env all phase rs (evalOne env all phase r tx)
      | .unset => rulesLoop env all phase rs (evalOne env all phase r tx)

def evalPhase (env : Env) (rules : List Rule) (phase : Nat) (tx : Tx) : Tx :=
  let tx := rulesLoop env rules phase rules { tx with lastPhase := phase }
  { tx with allow := if tx.allow == .phase then .unset else tx.allow, skip := 0, skipAfter := [] }

/-! ## API calls (transaction.go Process*) -/

inductive Call | reqHeaders | reqBody | respHeaders | respBody | logging
deriving Repr, DecidableEq

/-- returns the new state and the interruption the call returns -/
def apiStep (env : Env) (rules : List Rule) (tx : Tx) : Call → Tx × Option Intr
  | .reqHeaders =>
    if tx.engine == .off then (tx, none)
    else if tx.lastPhase ≥ 1 then (tx, tx.intr)
    else if tx.intr.isSome then (tx, tx.intr)
    else let tx := evalPhase env rules 1 tx; (tx, tx.intr)
  | .reqBody =>
    if tx.engine == .off then (tx, none)
    else if tx.intr.isSome then (tx, tx.intr)
    else if tx.lastPhase != 1 then (tx, none)
    else let tx := evalPhase env rules 2 tx; (tx, tx.intr)
  | .respHeaders =>
    if tx.engine == .off then (tx, none)
    else if tx.lastPhase ≥ 3 then (tx, tx.intr)
    else if tx.intr.isSome then (tx, tx.intr)
    else let tx := evalPhase env rules 3 { tx with respStatus := tx.respCode }; (tx, tx.intr)
  | .respBody =>
    if tx.engine == .off then (tx, none)
    else if tx.intr.isSome then (tx, tx.intr)
    else if tx.lastPhase != 3 then (tx, none)
    else let tx := evalPhase env rules 4 tx; (tx, tx.intr)
  | .logging =>
    if tx.engine == .off then (tx, none)
    else (evalPhase env rules 5 tx, none)

/-- transaction.go:1399-1425: does ProcessLogging hand a record to the audit writer?
    `matchStatus` is the relevant-status pattern applied to a status text (none = no pattern). -/
def auditDecision (tx : Tx) (matchStatus : Option (Bytes → Bool)) : Bool :=
  match tx.auditEngine with
  | .off => false
  | .on => true
  | .relevantOnly =>
    let status := match tx.intr with
      | some i => natToBytes i.status
      | none => match tx.detIntr with
        | some i => natToBytes i.status
        | none => tx.respStatus
    if tx.audit then
      match matchStatus with
      | some m => m status
      | none => true
    else
      match matchStatus with
      | some m => m status
      | none => false

def runCalls (env : Env) (rules : List Rule) : Tx → List Call → Tx × List (Option Intr)
  | tx, [] => (tx, [])
  | tx, c :: cs =>
    let (tx, o) := apiStep env rules tx c
    let (tx, os) := runCalls env rules tx cs
    (tx, o :: os)

end Coraza.Engine

namespace Coraza.Engine

/-- transaction.go:1578-1633: with part K one message (carrying the rule id) per match datum of
    every fired audit-enabled rule, in firing order; without K but with H one id-less message
    (id 0 in the JSON) per such rule; otherwise none -/
def auditMessageIds (rules : List Rule) (tx : Tx) : List Nat :=
  let hasK := tx.auditParts.contains 0x4b
  let hasH := tx.auditParts.contains 0x48
  tx.matched.flatMap fun m =>
    match rules.find? (fun r => r.id == m.id) with
    | some r =>
      if !r.audit then []
      else if hasK then List.replicate m.datas.length m.id
      else if hasH then [0]
      else []
    | none => []

/-- the serial writer: every record is appended whole, followed by a newline, under one lock -/
def writeRecords (rs : List Bytes) : Bytes := rs.flatMap (· ++ [0x0a])

/-- splitting the file back into lines -/
def splitLines : Bytes → List Bytes
  | [] => []
  | b :: tl =>
    if b == 0x0a then [] :: splitLines tl
    else match splitLines tl with
      | [] => [[b]]          -- unterminated last line
      | l :: ls => (b :: l) :: ls

end Coraza.Engine

/-! ## configuration-time exclusions and updates (internal/seclang/directives.go)

    SecRuleRemoveById :418 / ByTag :365 (rulegroup.go:104-150 DeleteBy*),
    SecRuleUpdateTargetById :1117 / ByTag :1339 (ParseVariables on the stored rule),
    SecRuleUpdateActionById :1214 (ClearDisruptiveActions + applyParsedActions).
    A configuration is a list of items evaluated in order: a directive acts on the rules
    defined before it. `none` = NewWAF fails. -/
namespace Coraza.Engine

/-- one element of an id list: `10` or `10-20` -/
inductive IdSel | one (id : Nat) | range (lo hi : Nat)
deriving Repr, DecidableEq

inductive LogAct | log | nolog | auditlog | noauditlog
deriving Repr, DecidableEq

/-- the modelled part of an action list given to SecRuleUpdateActionById -/
structure ActUpd where
  disr : Option Disr := none        -- the (last) disruptive action of the list
  status : Option Nat := none
  sev : Option Nat := none
  tags : List Bytes := []
  nacts : List NAct := []
  logs : List LogAct := []
  skip : Option Nat := none
  skipAfter : Option Bytes := none
deriving Repr, DecidableEq

inductive Dir
  | removeById (sels : List IdSel)
  | removeByTag (tag : Bytes)
  | removeByMsg (msg : Bytes)
  | updateTargetById (sels : List IdSel) (items : List TItem)
  | updateTargetByTag (tag : Bytes) (items : List TItem)
  | updateActionById (sels : List IdSel) (u : ActUpd)

inductive Item | rule (r : Rule) | dir (d : Dir)

/-- rulegroup.go:104 DeleteByID: the first rule with that id -/
def deleteFirst (id : Nat) : List Rule → List Rule
  | [] => []
  | r :: rs => if r.id == id then rs else r :: deleteFirst id rs

/-- one element of `SecRuleRemoveById`'s list; an inverted range is a configuration error -/
def removeSel (rs : List Rule) : IdSel → Option (List Rule)
  | .one id => some (deleteFirst id rs)
  | .range lo hi => if lo > hi then none else some (rs.filter fun r => !(lo ≤ r.id && r.id ≤ hi))

def removeSels : List Rule → List IdSel → Option (List Rule)
  | rs, [] => some rs
  | rs, s :: ss => match removeSel rs s with
    | some rs' => removeSels rs' ss
    | none => none

/-- ParseVariables on a stored rule: the written targets are appended to the starter's list -/
def addTargets (items : List TItem) (r : Rule) : Rule :=
  match r.links with
  | [] => r
  | l :: ls => { r with links := { l with targets := items.foldl compileStep l.targets } :: ls }

def applyLog (la : LogAct) (p : Bool × Bool) : Bool × Bool :=
  match la with
  | .log => (true, true)
  | .nolog => (false, false)
  | .auditlog => (p.1, true)
  | .noauditlog => (p.1, false)

/-- applyParsedActions on a stored rule (after ClearDisruptiveActions when the list has a
    disruptive action): metadata overwrite, repeatable actions are appended -/
def applyActUpd (u : ActUpd) (r : Rule) : Rule :=
  let la := u.logs.foldl (fun p a => applyLog a p) (r.log, r.audit)
  let links := match r.links with
    | [] => []
    | l :: ls => { l with nacts := l.nacts ++ u.nacts } :: ls
  { r with disr := u.disr.getD r.disr, status := u.status.getD r.status,
           severity := match u.sev with | some s => some s | none => r.severity,
           tags := r.tags ++ u.tags, links := links, log := la.1, audit := la.2,
           skip := u.skip.getD r.skip, skipAfter := u.skipAfter.getD r.skipAfter }

/-- update the first rule with that id (FindByID) -/
def updFirst (f : Rule → Rule) (id : Nat) : List Rule → List Rule
  | [] => []
  | r :: rs => if r.id == id then f r :: rs else r :: updFirst f id rs

structure UpdAcc where
  rules : List Rule
  updated : Nat := 0
  notFound : Bool := false

/-- one element of the id list of SecRuleUpdateTargetById / SecRuleUpdateActionById: a listed id
    without a rule is skipped and remembered; an inverted range is an error -/
def updSel (f : Rule → Rule) (acc : UpdAcc) : IdSel → Option UpdAcc
  | .one id =>
    if acc.rules.any (·.id == id) then some { acc with rules := updFirst f id acc.rules, updated := acc.updated + 1 }
    else some { acc with notFound := true }
  | .range lo hi =>
    if lo == hi then
      (if acc.rules.any (·.id == lo) then some { acc with rules := updFirst f lo acc.rules, updated := acc.updated + 1 }
       else some { acc with notFound := true })
    else if lo > hi then none
    else some { acc with rules := acc.rules.map (fun r => if lo ≤ r.id && r.id ≤ hi then f r else r),
                         updated := acc.updated + (acc.rules.filter fun r => lo ≤ r.id && r.id ≤ hi).length }

def updSels (f : Rule → Rule) : UpdAcc → List IdSel → Option UpdAcc
  | acc, [] => some acc
  | acc, s :: ss => match updSel f acc s with
    | some acc' => updSels f acc' ss
    | none => none

/-- the whole id list: "rule not found" only when nothing was updated -/
def updateByIds (f : Rule → Rule) (rs : List Rule) (sels : List IdSel) : Option (List Rule) :=
  match updSels f ⟨rs, 0, false⟩ sels with
  | none => none
  | some acc => if acc.updated == 0 && acc.notFound then none else some acc.rules

def applyDir (rs : List Rule) : Dir → Option (List Rule)
  | .removeById sels => removeSels rs sels
  | .removeByTag tag => some (rs.filter fun r => !r.tags.contains tag)
  | .removeByMsg msg => some (rs.filter fun r => !(!r.msg.isEmpty && r.msg == msg))   -- rulegroup.go:125 DeleteByMsg
  | .updateTargetById sels items => updateByIds (addTargets items) rs sels
  | .updateTargetByTag tag items => some (rs.map fun r => if r.tags.contains tag then addTargets items r else r)
  | .updateActionById sels u => updateByIds (applyActUpd u) rs sels

def buildStep (acc : Option (List Rule)) (it : Item) : Option (List Rule) :=
  match acc with
  | none => none
  | some rs => match it with
    | .rule r => some (rs ++ [r])
    | .dir d => applyDir rs d

/-- the rule list NewWAF ends up with -/
def buildRules (items : List Item) : Option (List Rule) := items.foldl buildStep (some [])

end Coraza.Engine
