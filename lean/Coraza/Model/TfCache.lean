/-
  rule.go:423 transformArg with the per-phase transformation cache
  (rulegroup.go:288 transformationKey / transformationValue).

  The key is modelled as an opaque base (key-string address, position, variable) plus the
  transformation-prefix id. Nothing is assumed about the base: two different values may
  well share it (all values of one argument name do; every single-valued variable uses the
  empty key). What makes the cache transparent is the `orig` check on lookup.
-/
import Coraza.Model.Engine
namespace Coraza.Engine
open Coraza

structure CKey where
  base : Nat          -- (argKey pointer, argIndex, argVariable), opaque
  tid : Nat           -- transformationsID of the prefix
deriving Repr, DecidableEq

structure CVal where
  orig : Bytes        -- the untransformed value the entry was computed from
  arg : Bytes         -- the transformed value
deriving Repr, DecidableEq

abbrev Cache := List (CKey × CVal)   -- Go map as an association list, newest first

def Cache.get (c : Cache) (k : CKey) : Option CVal := (c.find? (fun e => e.1 == k)).map (·.2)

/-- rule.go:438-456: search from the longest prefix backwards for a hit whose `orig`
    equals the value; `k` = number of prefixes still to consider; result = (transformations
    already applied, their result) -/
def findHit (cache : Cache) (base : Nat) (pids : List Nat) (value : Bytes) : Nat → Option (Nat × Bytes)
  | 0 => none
  | k + 1 =>
    match pids[k]? with
    | none => findHit cache base pids value k
    | some tid =>
      match cache.get ⟨base, tid⟩ with
      | some cv => if cv.orig == value then some (k + 1, cv.arg) else findHit cache base pids value k
      | none => findHit cache base pids value k

/-- rule.go:460-476: run the remaining transformations, caching every intermediate step -/
def computeRest (env : Env) (base : Nat) (orig : Bytes) : List (String × Nat) → Bytes → Cache → Bytes × Cache
  | [], v, c => (v, c)
  | (t, tid) :: rest, v, c =>
    let (o, _, e) := env.tf t v
    let v' := if e then v else o
    computeRest env base orig rest v' ((⟨base, tid⟩, ⟨orig, v'⟩) :: c)

/-- rule.go:423 transformArg (the TX bypass and the empty list are the same: no cache) -/
def transformArg (env : Env) (tfs : List String) (pids : List Nat) (isTX : Bool) (base : Nat) (value : Bytes)
    (cache : Cache) : Bytes × Cache :=
  if tfs.isEmpty then (value, cache)
  else if isTX then (execTfs env tfs value, cache)
  else
    match findHit cache base pids value pids.length with
    | some (k, v) =>
      if k == pids.length then (v, cache)
      else computeRest env base value ((tfs.zip pids).drop k) v cache
    | none => computeRest env base value (tfs.zip pids) value cache

end Coraza.Engine
