/-
  Concurrency models for C06.

  1. `Sys`: G transactions over one shared, read-only WAF. A step of transaction t reads the
     shared state and its own local state and writes only its own local state — that frame
     condition is what the Go code must satisfy (checked on the code by the race detector and by
     comparing every concurrent outcome with the sequential one).
  2. `Memo`: the process-wide pattern cache of internal/memoize/sync.go at the granularity of its
     atomic operations (sync.Map Load/Store/Delete, the per-entry mutex sections of addOwner and
     Release, singleflight = at most one builder per key), with arbitrary interleavings.
-/
import Coraza.Base.Bytes
namespace Coraza.Conc

/-! ## 1. transactions over a shared WAF -/

/-- one step: shared state → own local state → own local state -/
abbrev Step (S L : Type) := S → L → L

/-- run a schedule (a list of thread ids): the scheduled thread executes its next step, if it
    has one left. `progs t` is thread t's program, `pcs t` how many steps it has executed. -/
def runSched {S L : Type} (shared : S) (progs : Nat → List (Step S L)) :
    List Nat → (Nat → L) × (Nat → Nat) → (Nat → L) × (Nat → Nat)
  | [], st => st
  | t :: sched, (locals, pcs) =>
    match (progs t)[pcs t]? with
    | some step =>
      runSched shared progs sched
        (fun u => if u = t then step shared (locals t) else locals u, fun u => if u = t then pcs t + 1 else pcs u)
    | none => runSched shared progs sched (locals, pcs)

/-- a thread alone: its first n steps, in order -/
def runAlone {S L : Type} (shared : S) (prog : List (Step S L)) (n : Nat) (l : L) : L :=
  (prog.take n).foldl (fun l step => step shared l) l

/-! ## 2. the memoize protocol under interleaving -/

abbrev Key := Nat
abbrev EntryId := Nat

structure Entry (V : Type) where
  key : Key
  value : V
  owners : List Nat
  deleted : Bool

/-- the per-entry critical section of Release(o): drop the owner; without owners the entry is marked deleted -/
def releaseEntry {V : Type} (en : Entry V) (o : Nat) : Entry V :=
  let owners := en.owners.filter (· != o)
  { en with owners := owners, deleted := en.deleted || owners.isEmpty }

inductive PC (V : Type)
  | idle
  | loaded (k : Key) (e : Option EntryId)        -- after cache.Load, before addOwner
  | inFlight (k : Key)                           -- inside singleflight for k, before the re-check Load
  | reloaded (k : Key) (e : Option EntryId)      -- inside singleflight, after the re-check Load
  | done (k : Key) (v : V)                       -- Do returned v

structure MState (V : Type) where
  cache : Key → Option EntryId
  entries : List (Entry V)                       -- entry id = index; entries are never reused
  pcs : Nat → PC V

/-- atomic transitions of the protocol; `f` is the builder (a function of the key) -/
inductive MStep {V : Type} (f : Key → V) : MState V → MState V → Prop
  | load (s : MState V) (t : Nat) (k : Key) (h : s.pcs t = .idle) :
      MStep f s { s with pcs := fun u => if u = t then .loaded k (s.cache k) else s.pcs u }
  | addOwnerHit (s : MState V) (t : Nat) (k : Key) (e : EntryId) (en : Entry V)
      (h : s.pcs t = .loaded k (some e)) (he : s.entries[e]? = some en) (hd : en.deleted = false) :
      MStep f s { s with entries := s.entries.set e { en with owners := t :: en.owners },
                         pcs := fun u => if u = t then .done k en.value else s.pcs u }
  | addOwnerMiss (s : MState V) (t : Nat) (k : Key) (eo : Option EntryId)
      (h : s.pcs t = .loaded k eo)
      (hm : eo = none ∨ ∃ e en, eo = some e ∧ s.entries[e]? = some en ∧ en.deleted = true)
      (hsf : ∀ u k', (s.pcs u = .inFlight k' ∨ ∃ e, s.pcs u = .reloaded k' e) → k' ≠ k) :   -- singleflight
      MStep f s { s with pcs := fun u => if u = t then .inFlight k else s.pcs u }
  | reload (s : MState V) (t : Nat) (k : Key) (h : s.pcs t = .inFlight k) :
      MStep f s { s with pcs := fun u => if u = t then .reloaded k (s.cache k) else s.pcs u }
  | recheckHit (s : MState V) (t : Nat) (k : Key) (e : EntryId) (en : Entry V)
      (h : s.pcs t = .reloaded k (some e)) (he : s.entries[e]? = some en) (hd : en.deleted = false) :
      MStep f s { s with entries := s.entries.set e { en with owners := t :: en.owners },
                         pcs := fun u => if u = t then .done k en.value else s.pcs u }
  | build (s : MState V) (t : Nat) (k : Key) (eo : Option EntryId)
      (h : s.pcs t = .reloaded k eo)
      (hm : eo = none ∨ ∃ e en, eo = some e ∧ s.entries[e]? = some en ∧ en.deleted = true) :
      MStep f s { cache := fun k' => if k' = k then some s.entries.length else s.cache k',
                  entries := s.entries ++ [⟨k, f k, [t], false⟩],
                  pcs := fun u => if u = t then .done k (f k) else s.pcs u }
  | release (s : MState V) (o : Nat) (k : Key) (e : EntryId) (en : Entry V)
      (hc : s.cache k = some e) (he : s.entries[e]? = some en) :
      -- the per-entry critical section of Release(o): drop the owner; if none is left, mark and unmap
      MStep f s { s with entries := s.entries.set e (releaseEntry en o),
                         cache := fun k' => if k' = k ∧ (releaseEntry en o).owners.isEmpty then none else s.cache k' }
  | finish (s : MState V) (t : Nat) (k : Key) (v : V) (h : s.pcs t = .done k v) :
      MStep f s { s with pcs := fun u => if u = t then .idle else s.pcs u }

inductive MReach {V : Type} (f : Key → V) : MState V → Prop
  | init : MReach f ⟨fun _ => none, [], fun _ => .idle⟩
  | step (s s' : MState V) : MReach f s → MStep f s s' → MReach f s'

end Coraza.Conc
